import GB.C15.ProofsPoll
import GB.C15.ProofsWake
import GB.C15.ProofsExtra
import GB.C15.ProofsOnce
import GB.C15.Agg
import GB.C15.ProofsTimed
import GB.C15.ProofsFair
import GB.C15.ProofsFairEx
import GB.Generated.Facts
/-
  C15 — description updates are delivered exactly when the target's contract changes.
  Property theorems only; helper lemmas live in ProofsHash / ProofsPoll / ProofsWake.

  Standing hypotheses (listed as assumptions in props/C15.json):
  * `sha` (SHA-256) is injective on the pre-images that occur — collision freedom;
  * observations are well formed (`ObsWF`): service names pairwise distinct (guaranteed by
    `listServiceNames`), file names pairwise distinct and equal to the name inside the
    descriptor bytes (`fileDescriptors`, `retrieveDependencies`; property C05), lengths < 2^64.
  Nothing is assumed about the concatenation any more: the length-prefixed pre-image of the
  fixed code is proved injective (`C15_encoding_injective`); the old one is refuted
  (`C15_prefix_concat_collision`).
-/
open GB GB.C15

/-! ## regenerated facts: the statement skeletons the models follow -/

/-- `Resolver.watch`: hook, resolve + callbacks, hook, select{timer | resolveNow → hook, re-arm | done → close, return}. -/
theorem C15_facts_watch :
    GB.Generated.resolverWatchSkeleton =
      ["for", "hook:resolver.beforeResolve", "assign:resolve", "if:UpdateDesc|ReportError", "hook:resolver.beforeSelect",
       "select", "case:afterInterval", "case:resolveNow", "hook:resolver.woken", "call:newResolveNow",
       "case:done", "close:done", "return"] := by
  decide

/-- `newResolveNow`: the channel is replaced BEFORE the once-func is published (two steps `mkChan`, `storePtr`). -/
theorem C15_facts_rearm :
    GB.Generated.resolverRearmSkeleton = ["assign:resolveNow=make", "assign:f=OnceFunc(close:resolveNow)", "store:notifyResolveNow"] := by
  decide

/-- `resolveWithMethod`: hashes computed after the dependency retrieval, compared before the parse, saved only after it; both hash functions
    sort their input and write every item length-prefixed; `ResolveNow` = load + call, `Close` = send on `done`. -/
theorem C15_facts_bookkeeping :
    GB.Generated.resolverHashOrder = ["retrieve-deps", "hash:proto", "hash:services", "compare:return-nil", "parse", "save:lastProtoHash", "save:lastServicesHash"] ∧
    GB.Generated.resolverHashWrites = [("hashNamedProtoBundles", "sort,writeLenPrefixed"), ("hashServiceNames", "sort,writeLenPrefixed"), ("writeLenPrefixed", "PutUint64(len),Write,Write")] ∧
    GB.Generated.resolverResolveNowClose = ["ResolveNow:load:notifyResolveNow,call", "Close:send:done"] ∧
    GB.Generated.resolverFallback = ["range:methodPriority", "if:Unimplemented:continue", "elseif:nil:swap(0,i)", "return"] := by
  decide

/-! ## (a) fingerprints -/

/-- The pre-image the fixed code hashes determines the list of items: no two different lists of
    byte strings share it (each item is written behind its 8-byte length). -/
theorem C15_encoding_injective (l₁ l₂ : List Bytes) (h₁ : ∀ b ∈ l₁, Short b) (h₂ : ∀ b ∈ l₂, Short b)
    (h : encodeList l₁ = encodeList l₂) : l₁ = l₂ :=
  encodeList_injective l₁ l₂ h₁ h₂ h

/-- Negative witness for the pre-fix hash input (plain concatenation): the service sets {a.b, c}
    and {a.bc} differ, yet their sorted concatenations are the same byte string; likewise two
    bundle sets that split the same bytes at another point. -/
theorem C15_prefix_concat_collision :
    svcPreOld [[97, 46, 98], [99]] = svcPreOld [[97, 46, 98, 99]] ∧
    sameSet [[97, 46, 98], [99]] [[97, 46, 98, 99]] = false ∧
    svcPre [[97, 46, 98], [99]] ≠ svcPre [[97, 46, 98, 99]] ∧
    protoPreOld [⟨[97], [1, 2]⟩, ⟨[98], [3]⟩] = protoPreOld [⟨[97], [1]⟩, ⟨[98], [2, 3]⟩] ∧
    protoPre [⟨[97], [1, 2]⟩, ⟨[98], [3]⟩] ≠ protoPre [⟨[97], [1]⟩, ⟨[98], [2, 3]⟩] := by
  decide

/-- Fingerprints compare contracts as SETS: for well-formed observations the two hashes are both
    equal iff the service-name sets and the file-descriptor sets are equal (order, i.e. the
    server's listing order and the retrieval order, is irrelevant). -/
theorem C15_fingerprint_compares_sets {H : Type} (sha : Bytes → H) (hinj : Function.Injective sha)
    (nameOf : Bytes → Bytes) (o l : Obs) (ho : ObsWF nameOf o) (hl : ObsWF nameOf l) :
    (sha (protoPre o.files) = sha (protoPre l.files) ∧ sha (svcPre o.names) = sha (svcPre l.names)) ↔
      sameContract o l = true := by
  rw [← pre_eq_iff_sameContract nameOf o l ho hl]
  exact ⟨fun ⟨a, b⟩ => ⟨hinj a, hinj b⟩, fun ⟨a, b⟩ => ⟨congrArg sha a, congrArg sha b⟩⟩

/-- `listServiceNames` hands on pairwise distinct names (so `ObsWF.namesNodup` is met by the code). -/
theorem C15_filter_nodup (ignore listed : List Bytes) : (filterNames ignore listed).Nodup := by
  have aux : ∀ (l seen : List Bytes), (filterNamesAux ignore l seen).Nodup ∧
      ∀ x ∈ filterNamesAux ignore l seen, x ∉ seen := by
    intro l
    induction l with
    | nil => intro seen; simp [filterNamesAux]
    | cons s rest ih =>
      intro seen
      simp only [filterNamesAux]
      split
      · exact ih seen
      · rename_i hs
        have hs' : s ∉ seen := by simpa using hs
        split
        · refine ⟨(ih (s :: seen)).1, fun x hx => ?_⟩
          have := (ih (s :: seen)).2 x hx
          exact fun h => this (List.mem_cons_of_mem _ h)
        · refine ⟨List.nodup_cons.mpr ⟨fun h => (ih (s :: seen)).2 s h List.mem_cons_self, (ih (s :: seen)).1⟩, ?_⟩
          intro x hx
          rcases List.mem_cons.mp hx with rfl | hx
          · exact hs'
          · have := (ih (s :: seen)).2 x hx
            exact fun h => this (List.mem_cons_of_mem _ h)
  exact (aux listed []).1

/-! ## (a) histories of polls -/

/-- **Updates exactly on change.** Over every history of target behaviours `envs` (per poll and per
    reflection version: Unimplemented / failure at any step / complete fetch, parsable or not),
    the callback sequence of the resolver's bookkeeping equals that of the specification whose only
    state is the last DELIVERED contract and which compares contracts as sets; and the hash fields
    always hold the fingerprint of that last delivered contract. -/
theorem C15_updates {H D : Type} [DecidableEq H] (sha : Bytes → H) (hinj : Function.Injective sha)
    (nameOf : Bytes → Bytes) (envs : List (Version → Attempt D))
    (hwf : ∀ env ∈ envs, ∀ v o p, env v = .fetched o p → ObsWF nameOf o) :
    runPolls sha (RState.init H) envs = specRun none (outcomesOf sha (RState.init H) envs) ∧
    Tracks sha (finalState sha (RState.init H) envs) (lastDelivered none (outcomesOf sha (RState.init H) envs)) :=
  runPolls_spec sha hinj nameOf envs (RState.init H) none hwf ⟨rfl, rfl⟩ (fun _ h => by cases h)

/-- What the specification delivers, poll by poll: an update iff the poll fetched a parsable
    contract that differs from the last delivered one (so the first successful poll always
    delivers); nothing iff it fetched the last delivered contract again; otherwise exactly one
    error report — and only an update changes the delivered state. -/
theorem C15_update_iff {D : Type} (last : Option Obs) (oc : Outcome D) :
    (∀ d, (specPoll last oc).2 = [.update d] ↔ ∃ o, oc = .fetched o (some d) ∧ sameAsLast last o = false) ∧
    ((specPoll last oc).2 = [] ↔ ∃ o p, oc = .fetched o p ∧ sameAsLast last o = true) ∧
    ((∃ c, (specPoll last oc).2 = [.reportError c]) ↔
      (∃ c, oc = .failed c) ∨ ∃ o, oc = .fetched o none ∧ sameAsLast last o = false) ∧
    ((specPoll last oc).1 ≠ last → ∃ d, (specPoll last oc).2 = [.update d]) ∧
    (last = none → ∀ o d, oc = .fetched o (some d) → (specPoll last oc) = (some o, [.update d])) := by
  cases oc with
  | failed c => simp [specPoll]
  | fetched o p =>
    cases hs : sameAsLast last o <;> cases p <;> simp [specPoll, hs]
    · intro d
      constructor
      · intro e; exact ⟨o, ⟨rfl, e⟩, hs⟩
      · rintro ⟨o', ⟨rfl, e⟩, _⟩; exact e
    · intro h; subst h; simp [sameAsLast] at hs

/-- **A failed poll only reports an error and leaves the delivered state alone; the next poll
    recovers**: it is judged against the contract delivered BEFORE the failure (an update iff the
    contract differs from that one) — also when the failure was an unparsable contract. -/
theorem C15_failure_then_recovery {H D : Type} [DecidableEq H] (sha : Bytes → H) (st : RState H)
    (env : Version → Attempt D) (hfail : ∀ v, (∃ c, env v = .fail c) ∨ env v = .unimplemented)
    (last : Option Obs) (c : ErrClass) (o : Obs) (rest : List (Outcome D)) :
    (∃ e, (pollStep sha st env).2.1 = [.reportError e]) ∧
    (pollStep sha st env).1.lastProtoHash = st.lastProtoHash ∧
    (pollStep sha st env).1.lastServicesHash = st.lastServicesHash ∧
    specRun last (.failed c :: rest) = [.reportError c] :: specRun last rest ∧
    (sameAsLast last o = false → specRun last (.fetched o (none : Option D) :: rest) = [.reportError .other] :: specRun last rest) := by
  have loop : ∀ (l : List Version) (i : Nat) (tried : List Version),
      (∃ e, callbacksOf (resolveLoop sha env st l i tried).2.1 = [.reportError e]) ∧
      (resolveLoop sha env st l i tried).1.lastProtoHash = st.lastProtoHash ∧
      (resolveLoop sha env st l i tried).1.lastServicesHash = st.lastServicesHash := by
    intro l
    induction l with
    | nil => intro i tried; simp [resolveLoop, callbacksOf]
    | cons m rest ih =>
      intro i tried
      rcases hfail m with ⟨e, he⟩ | he
      · simp [resolveLoop, he, resolveWithMethod, callbacksOf]
      · simp only [resolveLoop, he, resolveWithMethod]; exact ih _ _
  refine ⟨(loop _ _ _).1, (loop _ _ _).2.1, (loop _ _ _).2.2, by simp [specRun, specPoll], ?_⟩
  intro h
  simp [specRun, specPoll, h]

/-! ## (a) the empty contract (corollaries of `C15_updates`) -/

/-- **The first successful poll of an EMPTY target delivers** (an empty description): "first
    success always delivers" has no exception for a target that serves nothing (yet). -/
theorem C15_first_poll_of_empty_target_updates {H D : Type} [DecidableEq H] (sha : Bytes → H)
    (hinj : Function.Injective sha) (nameOf : Bytes → Bytes) (env : Version → Attempt D) (d : D)
    (hwf : ∀ v o p, env v = .fetched o p → ObsWF nameOf o)
    (hoc : outcomeOf env [.v1, .v1alpha] = .fetched emptyObs (some d)) :
    runPolls sha (RState.init H) [env] = [[.update d]] := by
  have h := (C15_updates sha hinj nameOf [env] (fun e he => by
    have : e = env := by simpa using he
    subst this; exact hwf)).1
  rw [h]
  simp only [outcomesOf, RState.init, specRun]
  rw [hoc]
  simp [specPoll, sameAsLast]

/-- **A change TO the empty contract is a change**: whenever the last delivered contract is not
    empty (some service or some file) and a poll fetches the empty contract, the update is
    delivered; a second empty poll is then silent. `Tracks` is what `C15_updates` proves of every
    reachable bookkeeping state. -/
theorem C15_update_to_empty_is_a_change {H D : Type} [DecidableEq H] (sha : Bytes → H)
    (hinj : Function.Injective sha) (nameOf : Bytes → Bytes) (st : RState H) (l : Obs)
    (ht : Tracks sha st (some l)) (hl : ObsWF nameOf l) (hne : l.names ≠ [] ∨ l.files ≠ [])
    (env : Version → Attempt D) (d : D) (hwf : ∀ v o p, env v = .fetched o p → ObsWF nameOf o)
    (hoc : outcomeOf env st.methodPriority = .fetched emptyObs (some d)) :
    (pollStep sha st env).2.1 = [.update d] ∧ Tracks sha (pollStep sha st env).1 (some emptyObs) ∧
    (specPoll (D := D) (some emptyObs) (.fetched emptyObs (some d))).2 = [] := by
  have h := resolveLoop_spec sha hinj nameOf env hwf st (some l) ht
    (fun l' e => by cases e; exact hl) st.methodPriority 0 []
  rw [hoc] at h
  have hs : sameAsLast (some l) emptyObs = false := by simpa [sameAsLast] using empty_differs l hne
  have hp : specPoll (D := D) (some l) (.fetched emptyObs (some d)) = (some emptyObs, [.update d]) := by
    simp [specPoll, hs]
  rw [hp] at h
  refine ⟨h.1, h.2.1, ?_⟩
  have : sameAsLast (some emptyObs) emptyObs = true := by decide
  simp [specPoll, this]

/-- Negative witness for the short-circuit variant (seeded C15-m8: empty name list ⇒ `nil, nil`
    before any fingerprint work): the first poll of an empty target delivers nothing, and after
    `{a, b}` was delivered the change to the empty contract is swallowed — the specification and the
    model of the real code deliver both. -/
theorem C15_empty_short_circuit_fails :
    callbacksOf (resolveWithMethodShortCircuit (fun b => b) (RState.init Bytes) (.fetched emptyObs (some 1))).2
        = ([] : List (Callback Nat)) ∧
    (specPoll none (.fetched emptyObs (some 1))).2 = [Callback.update 1] ∧
    callbacksOf (resolveWithMethod (fun b => b) (RState.init Bytes) (.fetched emptyObs (some 1))).2
        = [Callback.update 1] ∧
    (let stA := (resolveWithMethod (fun b => b) (RState.init Bytes) (.fetched exO1 (some 1))).1
     callbacksOf (resolveWithMethodShortCircuit (fun b => b) stA (.fetched emptyObs (some 2))).2 = ([] : List (Callback Nat)) ∧
     callbacksOf (resolveWithMethod (fun b => b) stA (.fetched emptyObs (some 2))).2 = [Callback.update 2]) ∧
    (specPoll (some exO1) (.fetched emptyObs (some 2))).2 = [Callback.update 2] := by
  decide

/-! ## (a) version fallback -/

/-- **Unimplemented never hides a working version**: if version `w` answers (anything but
    Unimplemented) and every other version answers Unimplemented, the poll's outcome is `w`'s
    answer whatever the current priority order is. -/
theorem C15_fallback {D : Type} (env : Version → Attempt D) (w : Version) (oc : Outcome D)
    (hw : outcomeOfAttempt (env w) = some oc) (hother : ∀ v, v ≠ w → env v = .unimplemented)
    (prio : List Version) (hmem : w ∈ prio) : outcomeOf env prio = oc :=
  outcomeOf_fallback env w oc hw hother prio hmem

/-- **The priority is remembered**: the method list stays a permutation of the two versions; after
    a successful poll (update or unchanged) the version that answered is first, and the next poll
    opens its first stream with it. -/
theorem C15_priority_remembered {H D : Type} [DecidableEq H] (sha : Bytes → H) (st : RState H)
    (env env' : Version → Attempt D) :
    (pollStep sha st env).1.methodPriority.Perm st.methodPriority ∧
    (((pollStep sha st env).2.1 = [] ∨ ∃ d, (pollStep sha st env).2.1 = [.update d]) →
      (pollStep sha st env).1.methodPriority.head? = (pollStep sha st env).2.2.getLast? ∧
      (st.methodPriority ≠ [] →
        (pollStep sha (pollStep sha st env).1 env').2.2.head? = (pollStep sha st env).2.2.getLast?)) := by
  obtain ⟨h1, h2, _⟩ := resolveLoop_prio sha env st st.methodPriority 0 [] (by simp)
  refine ⟨h1, fun hs => ?_⟩
  have hsucc : (resolveLoop sha env st st.methodPriority 0 []).2.1.isSuccess = true := by
    simp only [pollStep, resolve] at hs
    cases hr : (resolveLoop sha env st st.methodPriority 0 []).2.1 <;>
      simp [hr, callbacksOf, MethodResult.isSuccess] at hs ⊢
  have hh := h2 hsucc
  refine ⟨hh, fun hne => ?_⟩
  obtain ⟨_, _, k, hk, h3⟩ := resolveLoop_prio sha env' (pollStep sha st env).1
    (pollStep sha st env).1.methodPriority 0 [] (by simp)
  have hne' : (pollStep sha st env).1.methodPriority ≠ [] := by
    intro h0
    have := h1.length_eq
    simp only [pollStep, resolve] at h0
    rw [h0] at this
    exact hne (List.length_eq_zero_iff.mp this.symm)
  have hk1 := hk hne'
  simp only [pollStep, resolve] at h3 hh ⊢
  rw [h3, ← hh]
  cases hp : (resolveLoop sha env st st.methodPriority 0 []).1.methodPriority with
  | nil => simp [pollStep, resolve, hp] at hne'
  | cons a t =>
    cases k with
    | zero => omega
    | succ k => simp

theorem C15_priority_perm {H D : Type} [DecidableEq H] (sha : Bytes → H) (envs : List (Version → Attempt D)) :
    (finalState sha (RState.init H) envs).methodPriority.Perm [.v1, .v1alpha] := by
  have : ∀ (envs : List (Version → Attempt D)) (st : RState H), st.methodPriority.Perm [.v1, .v1alpha] →
      (finalState sha st envs).methodPriority.Perm [.v1, .v1alpha] := by
    intro envs
    induction envs with
    | nil => intro st h; exact h
    | cons env rest ih =>
      intro st h
      exact ih _ ((C15_priority_remembered sha st env env).1.trans h)
  exact this envs _ (List.Perm.refl _)

/-! ## (b) wake-up protocol -/

/-- **No lost wake-up.** In every reachable state of the poller / callers / closer system, for
    every COMPLETED `ResolveNow` call: a poll has started after the call loaded the pointer, or a
    poll start is on its way (`Coming`: the poller is past its wake-up, or it will find its armed
    channel closed), or `Close` has been called. This covers calls that land during a poll, at the
    select, and between wake-up and re-arm (where the call hits the spent once-func). -/
theorem C15_no_lost_wakeup (manual : Bool) (s : W) (h : GB.LTS.Reachable step (W.init manual) s)
    (i : Nat) (hf : (s.callers i).pc = .finished) :
    (s.callers i).served = true ∨ Coming s ∨ s.closer ≠ .idle :=
  inv_no_lost s (inv_reachable manual s h) i hf

/-- **The once-func closes the armed channel.** Its closure reads the field `r.resolveNow` when it
    runs; in every reachable state a caller that won the once of generation `g` finds `g` still in
    that field (the poller cannot re-arm before this very close), so the close wakes the poller and
    the field read is ordered before the poller's write. -/
theorem C15_winner_closes_armed_channel (manual : Bool) (s : W) (h : GB.LTS.Reachable step (W.init manual) s)
    (i : Nat) (hw : (s.callers i).pc = .won) :
    (s.callers i).gen = s.cur ∧ s.ppc ≠ .woken ∧ s.ppc ≠ .madeChan :=
  inv_winner_current s (inv2_reachable manual s h).1 (inv2_reachable manual s h).2 i hw

/-- **A coming poll does come**: while one is coming and `Close` has not been called, some step of
    the poller (or of the caller that owes the channel close) is enabled and strictly decreases
    the distance `rank` to the poll start; no other step (any caller, any label except calling
    `Close`) increases the distance or makes the poll not coming. (Safety + rank = liveness under
    weak fairness of the poller and of a caller inside `ResolveNow`.) -/
theorem C15_wake_progress (manual : Bool) (s : W) (h : GB.LTS.Reachable step (W.init manual) s)
    (hc : Coming s) (hidle : s.closer = .idle) :
    (∃ l s', step s l = some s' ∧ isProtocol l = true ∧ (rank s' < rank s ∨ l = .pollStart)) ∧
    (∀ l s', step s l = some s' → l ≠ .closeCall →
      l = .pollStart ∨ (Coming s' ∧ rank s' ≤ rank s ∧ s'.closer = .idle)) :=
  ⟨coming_progress s hc, fun l s' hs hl => coming_stable s s' l (inv_reachable manual s h) hc hidle hs hl⟩

/-- **Close returned ⇒ the poller is past its loop**: it has received from `done` and can only
    `close(done); return`; no watcher callback ever happens after `Close` returned. -/
theorem C15_close (manual : Bool) (s : W) (h : GB.LTS.Reachable step (W.init manual) s) :
    s.cbAfterClose = false ∧
    (s.closer = .returned → (s.ppc = .gotDone ∨ s.ppc = .exited) ∧
      ∀ l s', step s l = some s' → l = .closeDone ∨ ∃ i, l = .load i ∨ l = .fire i ∨ l = .closeCh i) := by
  have hi := inv_reachable manual s h
  exact ⟨hi.f, fun hr => ⟨hi.e2 (Or.inr hr), fun l s' hs => after_close_only_exit s s' l hi hr hs⟩⟩

/-- Trace form: in no execution does a poll start or end (hence no callback) after `Close` returned. -/
theorem C15_close_trace (manual : Bool) (ls₁ ls₂ : List Lbl) (s : W)
    (h : GB.LTS.run step (W.init manual) (ls₁ ++ [.closeRet] ++ ls₂) = some s) :
    .pollStart ∉ ls₂ ∧ ∀ cb, .pollEnd cb ∉ ls₂ := by
  have split : ∀ (a b : List Lbl) (s0 s2 : W), GB.LTS.run step s0 (a ++ b) = some s2 →
      ∃ s1, GB.LTS.run step s0 a = some s1 ∧ GB.LTS.run step s1 b = some s2 := by
    intro a
    induction a with
    | nil => intro b s0 s2 h; exact ⟨s0, rfl, h⟩
    | cons x xs ih =>
      intro b s0 s2 h
      simp only [List.cons_append, GB.LTS.run] at h ⊢
      cases hx : step s0 x with
      | none => simp [hx] at h
      | some s' => rw [hx] at h; simp only at h ⊢; exact ih b s' s2 h
  obtain ⟨s1, hr1, hr2⟩ := split _ _ _ _ h
  obtain ⟨s0, hr0, hrc⟩ := split _ _ _ _ hr1
  have hreach1 : GB.LTS.Reachable step (W.init manual) s1 :=
    GB.LTS.run_reachable step _ _ _ GB.LTS.Reachable.init hr1
  have hret : s1.closer = .returned := by
    simp only [GB.LTS.run] at hrc
    cases hst : step s0 .closeRet with
    | none => simp [hst] at hrc
    | some t =>
      rw [hst] at hrc
      simp at hrc
      subst hrc
      simp only [step] at hst
      split at hst <;> simp at hst
      subst hst; rfl
  have tail : ∀ (ls : List Lbl) (a b : W), Inv a → a.closer = .returned → GB.LTS.run step a ls = some b →
      .pollStart ∉ ls ∧ ∀ cb, .pollEnd cb ∉ ls := by
    intro ls
    induction ls with
    | nil => intro a b _ _ _; simp
    | cons l rest ih =>
      intro a b hi hr hrun
      simp only [GB.LTS.run] at hrun
      cases hl : step a l with
      | none => simp [hl] at hrun
      | some a' =>
        rw [hl] at hrun
        have hstep := after_close_only_exit a a' l hi hr hl
        have hi' := inv_step a a' l hi hl
        have hr' : a'.closer = .returned := by
          rcases hstep with rfl | ⟨i, rfl | rfl | rfl⟩
          · simp only [step] at hl; split at hl <;> simp at hl; subst hl; exact hr
          · simp only [step] at hl; split at hl <;> simp at hl; subst hl; exact hr
          · simp only [step] at hl
            split at hl <;> try simp at hl
            split at hl <;> simp at hl <;> subst hl <;> exact hr
          · simp only [step] at hl; split at hl <;> simp at hl; subst hl; exact hr
        have := ih a' b hi' hr' hrun
        refine ⟨?_, fun cb => ?_⟩
        · intro hm
          rcases List.mem_cons.mp hm with e | e
          · rcases hstep with h | ⟨i, h | h | h⟩ <;> rw [← e] at h <;> cases h
          · exact this.1 e
        · intro hm
          rcases List.mem_cons.mp hm with e | e
          · rcases hstep with h | ⟨i, h | h | h⟩ <;> rw [← e] at h <;> cases h
          · exact this.2 cb e
  exact tail ls₂ s1 s (inv_reachable manual s1 hreach1) hret hr2

/-- **Liveness with an explicit bound** (weak fairness made finite). From every reachable state in
    which a `ResolveNow` call has completed but is not yet served and `Close` has not been called:
    along EVERY execution from there — callers, further `ResolveNow` calls and the scheduler may
    interleave arbitrarily, only `Close` must not be called — as soon as 8 non-environment steps
    (`isProtocol`: the poller's own steps and the channel close owed by a caller that won the once)
    have been taken, one of them was a poll start, and from then on the call is served. The
    second part says such executions can always be continued by a non-environment step (no
    deadlock), so in an infinite run in which every continuously enabled non-environment step is
    eventually taken the 8 steps do happen: a completed `ResolveNow` is followed by a poll start. -/
theorem C15_resolve_now_served_within (manual : Bool) (s : W) (h : GB.LTS.Reachable step (W.init manual) s)
    (i : Nat) (hf : (s.callers i).pc = .finished) (hns : (s.callers i).served = false) (hidle : s.closer = .idle)
    (ls : List Lbl) (s' : W) (hrun : GB.LTS.run step s ls = some s') (hnc : .closeCall ∉ ls) :
    (8 ≤ (ls.filter isProtocol).length → .pollStart ∈ ls) ∧
    (.pollStart ∈ ls → (s'.callers i).served = true) ∧
    (.pollStart ∉ ls → ∃ l t, isProtocol l = true ∧ step s' l = some t) := by
  obtain ⟨hi, h2⟩ := inv2_reachable manual s h
  have hc : Coming s := by
    rcases inv_no_lost s hi i hf with h | h | h
    · simp [hns] at h
    · exact h
    · exact absurd hidle h
  refine ⟨fun hk => ?_, fun hp => ?_, fun hnp => ?_⟩
  · exact coming_served_within ls s s' hi h2 hc hidle hrun hnc (Nat.le_trans (rank2_le s) hk)
  · exact (served_after_pollStart ls s s' i hrun (by simp [hf]) (Or.inr hp)).2
  · -- the poll is still coming at s', so a protocol step is enabled there
    have stay : ∀ (ls : List Lbl) (a b : W), Inv a → Inv2 a → Coming a → a.closer = .idle →
        GB.LTS.run step a ls = some b → .closeCall ∉ ls → .pollStart ∉ ls → Coming b := by
      intro ls
      induction ls with
      | nil => intro a b _ _ hc _ hr _ _; simp [GB.LTS.run] at hr; exact hr ▸ hc
      | cons l rest ih =>
        intro a b hia h2a hca hida hr hncl hnps
        simp only [GB.LTS.run] at hr
        cases hst : step a l with
        | none => simp [hst] at hr
        | some a1 =>
          rw [hst] at hr
          have hl : l ≠ .closeCall := fun e => hncl (e ▸ List.mem_cons_self)
          have hp : l ≠ .pollStart := fun e => hnps (e ▸ List.mem_cons_self)
          obtain ⟨hc1, hid1, _, _⟩ := coming_step2 a a1 l hia h2a hca hida hst hl hp
          exact ih a1 b (inv_step a a1 l hia hst) (inv2_step a a1 l hia h2a hst) hc1 hid1 hr
            (fun h => hncl (List.mem_cons_of_mem _ h)) (fun h => hnps (List.mem_cons_of_mem _ h))
    have hcb := stay ls s s' hi h2 hc hidle hrun hnc hnp
    obtain ⟨l, t, hst, hpr, _⟩ := coming_progress s' hcb
    exact ⟨l, t, hpr, hst⟩

/-- **A second `Close` panics.** Once the poller has served one `Close` call (that call is about to
    return or has returned), the send `r.done <- struct{}{}` of any further `Close` call is never
    received; it panics (send on closed channel) as soon as the poller has executed
    `close(r.done)`, which is the only step left to the poller — a sender already blocked at that
    moment panics too. -/
theorem C15_close_idempotence_panics (manual : Bool) (s : W) (h : GB.LTS.Reachable step (W.init manual) s)
    (hserved : s.closer = .sent ∨ s.closer = .returned) :
    sendOnDone s ≠ .delivered ∧ (s.ppc = .exited → sendOnDone s = .panics) ∧
    (s.ppc = .gotDone → ∃ s', step s .closeDone = some s' ∧ sendOnDone s' = .panics) ∧
    (∀ l s', step s l = some s' → (s'.closer = .sent ∨ s'.closer = .returned) ∧ sendOnDone s' ≠ .delivered) := by
  have hi := inv_reachable manual s h
  obtain ⟨h1, h2, h3⟩ := sendOnDone_after_served s hi hserved
  refine ⟨h1, h2, h3, fun l s' hs => ?_⟩
  have hi' := inv_step s s' l hi hs
  have hcl : s'.closer = .sent ∨ s'.closer = .returned := by
    have hp := hi.e2 hserved
    cases l <;> simp only [step] at hs
    all_goals (try (split at hs <;> try simp at hs))
    case fire j => split at hs <;> simp at hs <;> subst hs <;> exact hserved
    all_goals (first | (subst hs; first | exact hserved | (right; rfl) ) | (rcases hserved with e | e <;> simp_all))
  exact ⟨hcl, (sendOnDone_after_served s' hi' hcl).1⟩

/-! ## options and the aggregate watcher -/

/-- **Options clamping** (`ResolverOpts.withDefaults` + `NewResolverBuilder`), for all inputs:
    PollInterval 0 ⇒ 5 min, otherwise at least 1 s; ReqTimeout 0 ⇒ 10 s, otherwise at least 1 ms;
    RecursionLimit 0 ⇒ 100, negative ⇒ 0, positive kept; `"grpc."` appended after the caller's
    prefixes; flags untouched; values already in range are kept as they are. -/
theorem C15_opts_defaults (o : Opts) :
    (builderOpts o).pollInterval = (if o.pollInterval = 0 then 300000000000 else max o.pollInterval 1000000000) ∧
    (builderOpts o).reqTimeout = (if o.reqTimeout = 0 then 10000000000 else max o.reqTimeout 1000000) ∧
    (builderOpts o).recursionLimit = (if o.recursionLimit = 0 then 100 else max o.recursionLimit 0) ∧
    1000000000 ≤ (builderOpts o).pollInterval ∧ 1000000 ≤ (builderOpts o).reqTimeout ∧ 0 ≤ (builderOpts o).recursionLimit ∧
    (builderOpts o).ignorePrefixes = o.ignorePrefixes ++ [grpcPrefix] ∧
    (builderOpts o).pollManually = o.pollManually ∧ (builderOpts o).onlyServices = o.onlyServices ∧
    (1000000000 ≤ o.pollInterval → 1000000 ≤ o.reqTimeout → 0 < o.recursionLimit → withDefaults o = o) := by
  simp only [builderOpts, withDefaults, second, millisecond]
  refine ⟨?_, ?_, ?_, ?_, ?_, ?_, trivial, trivial, trivial, ?_⟩
  · simp only [Int.max_def]; repeat' split
    all_goals omega
  · simp only [Int.max_def]; repeat' split
    all_goals omega
  · simp only [Int.max_def]; repeat' split
    all_goals omega
  · repeat' split
    all_goals omega
  · repeat' split
    all_goals omega
  · repeat' split
    all_goals omega
  · intro h1 h2 h3
    have e1 : ¬ o.pollInterval = 0 := by omega
    have e2 : ¬ o.pollInterval < 1000000000 := by omega
    have e3 : ¬ o.reqTimeout = 0 := by omega
    have e4 : ¬ o.reqTimeout < 1000000 := by omega
    have e5 : ¬ o.recursionLimit = 0 := by omega
    have e6 : ¬ o.recursionLimit < 0 := by omega
    simp [e1, e2, e3, e4, e5, e6]

/-- `withDefaults` is NOT idempotent on RecursionLimit (−1 ↦ 0 ↦ 100): the documented minimum 0 is only
    reachable because the builder applies it exactly once. -/
example : (withDefaults ⟨0, 0, -1, [], false, false⟩).recursionLimit = 0 ∧
    (withDefaults (withDefaults ⟨0, 0, -1, [], false, false⟩)).recursionLimit = 100 := by decide

/-- **The routers see exactly the resolver's callbacks.** `aggregateWatcher` turns every call into
    the same call on each of its `n` watchers, in order; hence each watcher (the pattern router's,
    the service router's) observes precisely the resolver-level callback sequence — which for every
    history is the specification's (`C15_updates`). -/
theorem C15_aggregate_fanout {H D : Type} [DecidableEq H] (sha : Bytes → H) (hinj : Function.Injective sha)
    (nameOf : Bytes → Bytes) (envs : List (Version → Attempt D))
    (hwf : ∀ env ∈ envs, ∀ v o p, env v = .fetched o p → ObsWF nameOf o) (n i : Nat) (hi : i < n) :
    (∀ {α : Type} (evs : List α), observedBy i (aggregateLog n evs) = evs) ∧
    (∀ {α : Type} (e : α), aggregateLog n [e] = (List.range n).map (fun j => (j, e))) ∧
    observedBy i (aggregateLog n (runPolls sha (RState.init H) envs).flatten) =
      (specRun none (outcomesOf sha (RState.init H) envs)).flatten := by
  refine ⟨fun evs => observedBy_aggregateLog n i hi evs, fun e => by simp [aggregateLog, fanout], ?_⟩
  rw [observedBy_aggregateLog n i hi, (C15_updates sha hinj nameOf envs hwf).1]


/-! ## non-vacuity -/

/-- A `ResolveNow` that lands between wake-up and re-arm fires the spent once-func (no channel is
    closed for it) — and is still covered: the poller is on its way to the next poll. -/
example :
    (GB.LTS.run step (W.init true)
      [.pollStart, .pollEnd true, .load 0, .fire 0, .closeCh 0, .wake, .load 1, .fire 1]).map
      (fun s => (s.ppc, (s.callers 1).pc, (s.callers 1).served, s.closed, s.cur)) =
    some (.woken, .finished, false, [0], 0) := by decide

/-- A `ResolveNow` during a poll: the poller finds the channel closed at its select and polls again. -/
example :
    (GB.LTS.run step (W.init true)
      [.pollStart, .load 0, .fire 0, .closeCh 0, .pollEnd false, .wake, .mkChan, .storePtr, .pollStart]).map
      (fun s => (s.ppc, (s.callers 0).served, s.polls, s.cur, s.ptr)) =
    some (.resolving, true, 2, 1, 1) := by decide

/-- Close racing a poll: it returns only after the poller took `done`; the run ends `exited`. -/
example :
    (GB.LTS.run step (W.init true)
      [.pollStart, .closeCall, .pollEnd true, .takeDone, .closeRet, .closeDone]).map
      (fun s => (s.ppc, s.closer, s.cbAfterClose)) = some (.exited, .returned, false) := by decide

/-- The hypotheses of `C15_updates` are satisfiable and the history is non-trivial: first success
    delivers, the same set in another order is silent, a failure reports, a change delivers. -/
example :
    runPolls (fun b => b) (RState.init Bytes) exHistory =
      [[.update 1], [], [.reportError .unavailable], [], [.reportError .other], [.update 2], [.update 1]] ∧
    (finalState (fun b => b) (RState.init Bytes) exHistory).methodPriority = [.v1alpha, .v1] := by
  decide

/-! ## round 5 — (3) `sync.Once` as an LTS, used as a lemma -/

/-- **sync.Once, any number of callers** (statement-level LTS of `Once.Do`/`doSlow`: fast-path load,
    mutex, second check, `f()`, deferred `done.Store(1)`, deferred `Unlock`). In every reachable state:
    `f` has been entered at most once and returned at most as often as entered; at most one caller is
    inside the mutex; EVERY caller that has returned finds `f` executed exactly once AND completed
    (nobody returns before the winner finished `f`); and while a caller is inside `Do` some step is
    enabled (no deadlock). -/
theorem C15_once_exactly_one (s : Once.S) (h : GB.LTS.Reachable Once.step Once.S.init s) :
    s.execs ≤ 1 ∧ s.completed ≤ s.execs ∧
    (∀ i j, Once.crit (s.pc i) = true → Once.crit (s.pc j) = true → i = j) ∧
    (∀ i, s.pc i = .returned → s.done = true ∧ s.execs = 1 ∧ s.completed = 1) ∧
    (∀ i, s.pc i ≠ .idle → s.pc i ≠ .returned → ∃ l s', Once.step s l = some s') := by
  have hi := Once.inv_reachable s h
  have hcount : s.execs ≤ 1 ∧ s.completed ≤ s.execs := by
    cases hd : s.done with
    | true => have := hi.hd hd; omega
    | false =>
      by_cases hex : ∀ i, s.pc i ≠ .running ∧ s.pc i ≠ .storing
      · have := hi.hn hd hex; omega
      · have : ∃ i, s.pc i = .running ∨ s.pc i = .storing := by
          apply Classical.byContradiction
          intro hne
          apply hex
          intro i
          constructor <;> intro hp <;> exact hne ⟨i, by simp [hp]⟩
        obtain ⟨i, hr | hr⟩ := this
        · have := hi.hrun i hr; omega
        · have := hi.hst i hr; omega
  refine ⟨hcount.1, hcount.2, ?_, ?_, ?_⟩
  · intro i j hci hcj
    have h1 := hi.hc i hci
    have h2 := hi.hc j hcj
    rw [h1] at h2
    exact (Option.some.inj h2)
  · intro i hr
    have hd := hi.hr i hr
    exact ⟨hd, hi.hd hd⟩
  · intro i h1 h2
    exact Once.progress s hi i h1 h2

/-- **The abstraction the wake-up LTS makes of `sync.OnceFunc` is a refinement, not an assumption.**
    Each step of the real Once is invisible or is exactly one step of the per-generation fragment
    `fire` (test-and-set; a LOSER's `fire` only once the channel close has completed) / `closeCh`
    (`f` returned) — a forward simulation from the initial states on. -/
theorem C15_once_abstraction :
    Once.R Once.S.init { pc := fun _ => .loaded, fired := false, closed := false } ∧
    ∀ (s s' : Once.S) (a : Once.A) (l : Once.L), GB.LTS.Reachable Once.step Once.S.init s → Once.R s a →
      Once.step s l = some s' → Once.R s' a ∨ ∃ l' a', Once.astep a l' = some a' ∧ Once.R s' a' :=
  ⟨Once.R_init, fun s s' a l h hr hs => Once.refines s s' a l (Once.inv_reachable s h) hr hs⟩

/-- **`ResolveNow` returns after the signal is written.** `stepO` is the wake-up LTS with the guard
    proved above (a caller that lost the once waits for the winner's `close(ch)`). Its reachable states
    are reachable states of `step` (so `C15_no_lost_wakeup`, `C15_close`, … apply verbatim), the
    poller's and the winner's steps are the same (so do the progress theorems), and additionally every
    call that has returned has its generation's channel CLOSED — hence the poller, which cannot re-arm
    before that close, is woken by it or was already past it. -/
theorem C15_resolve_now_returns_after_signal (manual : Bool) (s : W)
    (h : GB.LTS.Reachable stepO (W.init manual) s) :
    GB.LTS.Reachable step (W.init manual) s ∧
    (∀ l, isProtocol l = true → stepO s l = step s l) ∧
    (∀ i, (s.callers i).pc = .finished → (s.callers i).gen ∈ s.closed ∧
      ((s.callers i).served = true ∨ Coming s ∨ s.closer ≠ .idle)) := by
  have hr := reachableO_reachable manual s h
  refine ⟨hr, fun l hl => stepO_protocol s l hl, fun i hf => ⟨retClosed_reachable manual s h i hf, ?_⟩⟩
  exact C15_no_lost_wakeup manual s hr i hf

/-- The sharper guard matters: in `step` a loser can return while the channel is still open; `stepO` refuses that step. -/
example :
    ((GB.LTS.run step (W.init true) [.load 0, .load 1, .fire 0, .fire 1]).map
      (fun s => ((s.callers 1).pc, s.closed))) = some (.finished, []) ∧
    (GB.LTS.run stepO (W.init true) [.load 0, .load 1, .fire 0, .fire 1]).isNone = true ∧
    ((GB.LTS.run stepO (W.init true) [.load 0, .load 1, .fire 0, .closeCh 0, .fire 1]).map
      (fun s => ((s.callers 1).pc, s.closed))) = some (.finished, [0]) := by decide

/-! ## round 5 — (1) `aggregateWatcher` over its members, all interleavings with `Close` -/

/-- **Fan-out, every interleaving.** `Agg.step` lets the poller's calls on the aggregate (member by
    member) interleave arbitrarily with the aggregate's `Close()` (member by member, on the goroutine of
    `ReflectionRouter.Remove`). In every reachable state, for every member `j`: what it has applied is a
    prefix of the calls it was offered — in the resolver's order, none twice, none invented — and an
    OPEN member has applied all of them (exactly once per change); the offered sequences are prefixes of
    the one call sequence of the resolver, so any two members agree up to a suffix; with no `Close`
    called and no call in progress all members hold exactly the calls made; and `Close` never meets a
    member that is already closed (the members' "called multiple times" panic is unreachable). -/
theorem C15_aggregate_members_all_interleavings {α : Type} (n : Nat) (s : Agg.G α)
    (h : GB.LTS.Reachable Agg.step (Agg.G.init n) s) :
    s.n = n ∧
    (∀ j, j < n → s.applied j <+: Agg.offered s j ∧ (s.closed j = false → s.applied j = Agg.offered s j)) ∧
    (∀ j, j < n → Agg.offered s j <+: s.past ++ s.cur.toList) ∧
    (s.cpos = none → s.cur = none → ∀ j, j < n → s.applied j = s.past) ∧
    (∀ i j, i < n → j < n → s.applied i <+: s.applied j ∨ s.applied j <+: s.applied i) ∧
    (∀ k, s.cpos = some k → k < n → s.closed k = false) := by
  have hn := Agg.n_reachable n s h
  have hi := Agg.inv_reachable n s h
  have hoff : ∀ j, Agg.offered s j <+: s.past ++ s.cur.toList := by
    intro j
    unfold Agg.offered
    cases hc : s.cur with
    | none => simp
    | some e => simp only [Option.toList]; split <;> simp
  refine ⟨hn, fun j hj => hi.a j (hn ▸ hj), fun j _ => hoff j, ?_, ?_, ?_⟩
  · intro hc hcur j hj
    have hop : s.closed j = false := by
      cases hcl : s.closed j with
      | false => rfl
      | true => obtain ⟨k, hk, _⟩ := hi.c2 j hcl; simp [hc] at hk
    have := (hi.a j (hn ▸ hj)).2 hop
    simpa [Agg.offered, hcur] using this
  · intro i j hi' hj
    exact List.prefix_or_prefix_of_prefix ((hi.a i (hn ▸ hi')).1.trans (hoff i)) ((hi.a j (hn ▸ hj)).1.trans (hoff j))
  · intro k hk _
    cases hcl : s.closed k with
    | false => rfl
    | true =>
      obtain ⟨k', hk', hlt⟩ := hi.c2 k hcl
      rw [hk] at hk'
      simp at hk'
      omega

/-- **Nothing after the aggregate's `Close` returned.** Once `Close()` has gone through all members
    (`cpos = some n`) every member is closed, and along EVERY further execution — the resolver keeps
    polling until `resolver.Close()`, which `Remove` calls only afterwards — no member applies anything. -/
theorem C15_aggregate_nothing_after_close {α : Type} (n : Nat) (s : Agg.G α)
    (h : GB.LTS.Reachable Agg.step (Agg.G.init n) s) (hc : s.cpos = some n) :
    (∀ j, j < n → s.closed j = true) ∧
    ∀ (ls : List (Agg.L α)) (s' : Agg.G α), GB.LTS.run Agg.step s ls = some s' →
      ∀ j, j < n → s'.applied j = s.applied j := by
  have hn := Agg.n_reachable n s h
  have hi := Agg.inv_reachable n s h
  refine ⟨fun j hj => (hi.c1 n hc).2 j hj, ?_⟩
  have tail : ∀ (ls : List (Agg.L α)) (a b : Agg.G α), Agg.Inv a → a.n = n → a.cpos = some n →
      GB.LTS.run Agg.step a ls = some b → ∀ j, j < n → b.applied j = a.applied j := by
    intro ls
    induction ls with
    | nil => intro a b _ _ _ hr j _; simp [GB.LTS.run] at hr; rw [hr]
    | cons l rest ih =>
      intro a b hia hna hca hr j hj
      simp only [GB.LTS.run] at hr
      cases hst : Agg.step a l with
      | none => simp [hst] at hr
      | some a1 =>
        rw [hst] at hr
        have hfr := Agg.closed_frozen a a1 l hia (hna ▸ hca) hst
        have hn1 : a1.n = n := (Agg.n_const a a1 l hst).trans hna
        have := ih a1 b (Agg.inv_step a a1 l hia hst) hn1 (hn1 ▸ hfr.1) hr j hj
        rw [this, hfr.2 j (hna ▸ hj)]
  exact fun ls s' hr => tail ls s s' hi hn hc hr

/-- **What a panicking (or blocking) member does to the others — the code as it is.** Nothing recovers a
    panic of `w.UpdateDesc`: the range loop is abandoned and the poller goroutine is gone. In such a
    state a call `e` is in progress at some member `pos < n`; the open members before `pos` have applied
    `e`, the open members from `pos` on have NOT (the delivery is not atomic across members), and the
    only steps left in the system are those of `Close` — no later change reaches anybody. (A member
    that blocks is the same picture without `dead`: `deliver` is simply never taken.) -/
theorem C15_aggregate_member_panic_splits {α : Type} (n : Nat) (s : Agg.G α)
    (h : GB.LTS.Reachable Agg.step (Agg.G.init n) s) (hd : s.dead = true) :
    ∃ e, s.cur = some e ∧ s.pos < n ∧
      (∀ j, j < n → s.closed j = false → s.applied j = if j < s.pos then s.past ++ [e] else s.past) ∧
      (∀ l s', Agg.step s l = some s' → l = .closeCall ∨ l = .closeMember) := by
  have hn := Agg.n_reachable n s h
  have hi := Agg.inv_reachable n s h
  obtain ⟨hsome, hpos⟩ := Agg.dead_reachable n s h hd
  obtain ⟨e, he⟩ := Option.isSome_iff_exists.mp hsome
  refine ⟨e, he, hn ▸ hpos, fun j hj hop => ?_, fun l s' hs => ?_⟩
  · have := (hi.a j (hn ▸ hj)).2 hop
    simpa [Agg.offered, he] using this
  · cases l <;> simp only [Agg.step] at hs
    case closeCall => exact Or.inl rfl
    case closeMember => exact Or.inr rfl
    all_goals (repeat' split at hs)
    all_goals simp_all

/-- Non-vacuity: (i) two members, one change, no Close: both have it; (ii) `Close` between the two
    deliveries of a change: member 0 applied it, member 1 was closed first — the lists differ by a
    suffix, and a change after `Close` returned reaches nobody; (iii) member 1 panics: 0 has the change, 1 not. -/
example :
    ((GB.LTS.run Agg.step (Agg.G.init (α := Nat) 2) [.begin 7, .deliver, .deliver, .finish]).map
      (fun s => (s.applied 0, s.applied 1, s.past))) = some ([7], [7], [7]) ∧
    ((GB.LTS.run Agg.step (Agg.G.init (α := Nat) 2)
        [.begin 7, .deliver, .closeCall, .closeMember, .closeMember, .deliver, .finish, .begin 8, .deliver, .deliver, .finish]).map
      (fun s => (s.applied 0, s.applied 1, s.past, s.cpos))) = some ([7], [], [7, 8], some 2) ∧
    ((GB.LTS.run Agg.step (Agg.G.init (α := Nat) 2) [.begin 7, .deliver, .deliverPanic]).map
      (fun s => (s.applied 0, s.applied 1, s.dead, s.pos))) = some ([7], [], true, 1) := by decide

/-- Regenerated wiring facts: each of the aggregate's three methods is one `range a.watchers` loop making the same
    call on every member (`Agg.step`: `deliver` / `closeMember` walk the members in order); `Add` builds the aggregate
    over exactly [pattern watcher, service watcher] and hands IT to `resolverBuilder.Build`; `Remove` closes the
    watchers BEFORE the resolver (so calls on a closed aggregate do occur: `C15_aggregate_nothing_after_close`). -/
theorem C15_facts_aggregate :
    GB.Generated.aggregateWiring =
      ["UpdateDesc:range-watchers:hook:aggregate.update.member,w.UpdateDesc", "ReportError:range-watchers:w.ReportError", "Close:range-watchers:w.Close",
       "Add:members:patternWatcher,serviceWatcher", "Add:Build(name,watcher)",
       "Remove:watcher.Close,resolver.Close,poolController.Close"] := by
  decide

/-! ## round 5 — (2) the timer-driven loop, (4) fairness as a predicate on runs and eventual delivery -/

/-- `afterInterval`: nil channel when polling manually (the `timer` step needs `manual = false`), otherwise a FRESH
    `time.After(PollInterval)` evaluated when the select is entered (`tstep`: `pollEnd` sets `deadline := now + interval`). -/
theorem C15_facts_after_interval :
    GB.Generated.resolverAfterInterval = ["if:PollManually:return-nil", "return:time.After(PollInterval)"] := by
  decide

/-- **The timed loop is the wake-up protocol plus a clock**: every reachable state of `tstep` (clock ticks, contract
    changes, failing and successful polls, timer, `ResolveNow` callers, `Close`, in ANY interleaving) projects to a
    reachable state of `step`. Hence: no callback after `Close` returned; once `Close` has returned no poll starts or
    ends whatever the clock says (a `Close` during a slow poll or during the sleep is final); and no `ResolveNow`
    is lost (`C15_no_lost_wakeup`) — timer ticks and manual polls do not disturb each other. -/
theorem C15_timer_loop_safety (manual : Bool) (iv c : Nat) (t : T)
    (h : GB.LTS.Reachable tstep (T.init manual iv c) t) :
    GB.LTS.Reachable step (W.init manual) t.w ∧ t.w.cbAfterClose = false ∧
    (t.w.closer = .returned → (t.w.ppc = .gotDone ∨ t.w.ppc = .exited) ∧
      ∀ a t', tstep t a = some t' → a ≠ .l .pollStart ∧ a ≠ .pollFail ∧ a ≠ .l .timer ∧ ∀ cb, a ≠ .l (.pollEnd cb)) ∧
    (∀ i, (t.w.callers i).pc = .finished → (t.w.callers i).served = true ∨ Coming t.w ∨ t.w.closer ≠ .idle) := by
  have hr := treach_proj manual iv c t h
  have hi := inv_reachable manual t.w hr
  refine ⟨hr, hi.f, fun hret => ⟨hi.e2 (Or.inr hret), fun a t' hs => ?_⟩, fun i hf => C15_no_lost_wakeup manual t.w hr i hf⟩
  have key : ∀ l, erase a = some l → l = .closeDone ∨ ∃ i, l = .load i ∨ l = .fire i ∨ l = .closeCh i := by
    intro l he
    rcases tstep_proj t t' a hs with ⟨he', _⟩ | ⟨l', he', hw⟩
    · rw [he] at he'; cases he'
    · rw [he] at he'; cases he'
      exact after_close_only_exit t.w t'.w l hi hret hw
  refine ⟨fun e => ?_, fun e => ?_, fun e => ?_, fun cb e => ?_⟩ <;> subst e
  · rcases key _ rfl with h | ⟨i, h | h | h⟩ <;> cases h
  · rcases key _ rfl with h | ⟨i, h | h | h⟩ <;> cases h
  · rcases key _ rfl with h | ⟨i, h | h | h⟩ <;> cases h
  · rcases key _ rfl with h | ⟨i, h | h | h⟩ <;> cases h

/-- **The interval lies BETWEEN polls; polls never overlap.** Whenever the select's timer case is taken, the poller
    is in the select (the previous poll, however slow, has ended), interval polling is on, and at least
    `PollInterval` has passed since that poll ENDED. -/
theorem C15_timer_spacing (manual : Bool) (iv c : Nat) (t t' : T)
    (h : GB.LTS.Reachable tstep (T.init manual iv c) t) (hs : tstep t (.l .timer) = some t') :
    t.w.ppc = .atSelect ∧ t.w.manual = false ∧ t.lastEnd + iv ≤ t.now ∧ t'.w.ppc = .top := by
  obtain ⟨⟨hd, _⟩, hiv⟩ := clock_reachable manual iv c t h
  simp only [tstep] at hs
  split at hs
  · rename_i hle
    simp only [Option.map_eq_some_iff] at hs
    obtain ⟨w', hw, rfl⟩ := hs
    simp only [step] at hw; split at hw <;> simp at hw
    rename_i hp
    subst hw
    exact ⟨hp.1, hp.2, by rw [← hiv]; omega, rfl⟩
  · simp at hs

/-- **`Close` during the sleep does not wait for the interval**: with the poller asleep in its select and a `Close`
    call pending, the rendezvous on `done` is enabled at once, whatever the clock and the deadline are; after it
    neither the timer nor a poll start is possible. (`Close` during a poll: `takeDone` needs `atSelect`, so it is
    served right after that poll — `C15_timer_loop_safety` covers what follows.) -/
theorem C15_close_during_sleep (t : T) (hp : t.w.ppc = .atSelect) (hc : t.w.closer = .sending) :
    ∃ t', tstep t (.l .takeDone) = some t' ∧ t'.w.ppc = .gotDone ∧ t'.w.closer = .sent ∧
      tstep t' (.l .timer) = none ∧ tstep t' (.l .pollStart) = none := by
  refine ⟨{ t with w := { t.w with ppc := .gotDone, closer := .sent } }, by simp [tstep, step, hp, hc], rfl, rfl, ?_, ?_⟩
  · simp only [tstep]; split <;> simp [step]
  · simp [tstep, step]

/-- **Liveness from an explicit fairness predicate (timer-driven loop).** On every infinite run of the timed system
    from the initial state with interval polling on, in which `Close` is never called, the poller goroutine is
    treated weakly fairly (`FairPoller`: again and again it takes a step or is not runnable) and time diverges
    (`TimeDiverges`), polls start again and again — whatever the `ResolveNow` callers, contract changes and failing
    polls in between. -/
theorem C15_polls_forever_on_fair_runs (iv c0 : Nat) (st : Nat → T) (lb : Nat → TL) (hrun : IsRun st lb)
    (h0 : st 0 = T.init false iv c0) (hfair : FairPoller st lb) (htime : TimeDiverges lb) (hnc : NoClose lb) :
    ∀ k, ∃ i, k ≤ i ∧ lb i = .l .pollStart := by
  have hj0 : J (st 0) := by rw [h0]; exact ⟨inv_init false, rfl, rfl⟩
  intro k
  exact eventually_pollStart st lb hrun hfair htime hnc _ k (J_run st lb hrun hnc hj0 k) (Nat.le_refl _)

/-- **Every change that persists is eventually delivered, on every fair run.** Same runs as above. If from some
    point `k0` on the target presents the contract `c` (no further change) and polls do not fail, then from some
    point on the contract last handed to the watcher is `c` — forever. (The delivery rule of `tstep` is the
    specification's: a successful poll delivers what it fetched iff it differs from the last delivered contract —
    `C15_updates` proves the bookkeeping implements exactly that; `C15_aggregate_members_all_interleavings` carries
    it to both routers.) -/
theorem C15_persistent_change_eventually_delivered (iv c0 : Nat) (st : Nat → T) (lb : Nat → TL) (hrun : IsRun st lb)
    (h0 : st 0 = T.init false iv c0) (hfair : FairPoller st lb) (htime : TimeDiverges lb) (hnc : NoClose lb)
    (k0 c : Nat) (htar : ∀ j, k0 ≤ j → (st j).target = c) (hnf : ∀ j, k0 ≤ j → lb j ≠ .pollFail) :
    ∃ k1, k0 ≤ k1 ∧ ∀ j, k1 ≤ j → (st j).delivered = some c := by
  obtain ⟨i1, hi1, hps⟩ := C15_polls_forever_on_fair_runs iv c0 st lb hrun h0 hfair htime hnc k0
  have hrun1 := hrun i1
  rw [hps] at hrun1
  have hf1 : Fetching c (st (i1 + 1)) := by
    have := pollStart_fetches _ _ hrun1
    rwa [htar i1 hi1] at this
  -- the poll ends
  have hsettle : ∃ k1, k0 ≤ k1 ∧ Settled c (st k1) := by
    obtain ⟨k2, hk2, hf⟩ := hfair (i1 + 1)
    obtain ⟨m, rfl⟩ := Nat.le.dest hk2
    rcases walk_fetching c st lb hrun k0 hnf m (i1 + 1) (by omega) hf1 with ⟨i, hi, hs⟩ | hfm
    · exact ⟨i + 1, by omega, hs⟩
    · rcases hf with hpol | hne
      · rcases fetching_step c _ _ _ (hrun (i1 + 1 + m)) hfm (hnf _ (by omega)) with ⟨hnp, _⟩ | ⟨_, hs⟩
        · rw [hpol] at hnp; cases hnp
        · exact ⟨i1 + 1 + m + 1, by omega, hs⟩
      · exact absurd (fetching_enabled c _ hfm) hne
  obtain ⟨k1, hk1, hs⟩ := hsettle
  refine ⟨k1, hk1, fun j hj => ?_⟩
  obtain ⟨m, rfl⟩ := Nat.le.dest hj
  exact (settled_forever c st lb hrun k0 htar hnf m k1 hk1 hs).1

/-- Non-vacuity of the timed model: interval 2; the first poll delivers contract 5, the timer is refused before the
    deadline and taken at it, an unchanged contract is polled silently, a change to 9 is delivered by the next timer
    poll; a `pollEnd` whose callback flag contradicts the delivery rule is refused. -/
example :
    ((GB.LTS.run tstep (T.init false 2 5) [.l .pollStart, .tick, .l (.pollEnd true), .tick, .l .timer]).isNone = true) ∧
    ((GB.LTS.run tstep (T.init false 2 5)
        [.l .pollStart, .tick, .l (.pollEnd true), .tick, .tick, .l .timer, .l .pollStart, .l (.pollEnd false),
         .change 9, .tick, .tick, .l .timer, .l .pollStart, .l (.pollEnd true)]).map
      (fun t => (t.delivered, t.now, t.deadline, t.w.polls))) = some (some 9, 5, 7, 3) ∧
    ((GB.LTS.run tstep (T.init false 2 5) [.l .pollStart, .l (.pollEnd false)]).isNone = true) := by decide

/-- **`ResolveNow` liveness from an explicit fairness predicate** (also with `PollManually`). On every infinite run of
    the wake-up protocol from the initial state in which `Close` is never called and the non-environment steps are
    treated weakly fairly (`FairProtocol`: again and again a step of the poller / the channel close owed by a
    once-winner is taken, or none is enabled): whenever a `ResolveNow` call has completed and is not yet served, a
    poll starts later on, and from then on the call is served. (`C15_resolve_now_served_within` is the finite core:
    8 such steps suffice and one is always enabled — fairness supplies them.) -/
theorem C15_resolve_now_eventually_served (manual : Bool) (st : Nat → W) (lb : Nat → Lbl) (hrun : IsRunW st lb)
    (h0 : st 0 = W.init manual) (hfair : FairProtocol st lb) (hnc : NoCloseW lb)
    (k i : Nat) (hf : ((st k).callers i).pc = .finished) (hns : ((st k).callers i).served = false) :
    ∃ j, k ≤ j ∧ lb j = .pollStart ∧ ∀ j', j < j' → ((st j').callers i).served = true := by
  have hreach : ∀ n, GB.LTS.Reachable step (W.init manual) (st n) := by
    intro n
    have := run_seg st lb hrun n 0
    rw [h0] at this
    have h := GB.LTS.run_reachable step (W.init manual) (W.init manual) _ GB.LTS.Reachable.init this
    simpa using h
  -- Close is never called: the closer stays idle
  have hidle : ∀ n, (st n).closer = .idle := by
    intro n
    induction n with
    | zero => rw [h0]; rfl
    | succ n ih => exact step_closer_idle _ _ _ (hrun n) ih (hnc n)
  have core := fun m => C15_resolve_now_served_within manual (st k) (hreach k) i hf hns (hidle k)
    (seg lb k m) (st (k + m)) (run_seg st lb hrun m k) (seg_noclose lb hnc m k)
  -- fairness supplies as many non-environment steps as wanted, unless a poll start comes first
  have count : ∀ n, ∃ m, Lbl.pollStart ∈ seg lb k m ∨ n ≤ ((seg lb k m).filter isProtocol).length := by
    intro n
    induction n with
    | zero => exact ⟨0, Or.inr (Nat.zero_le _)⟩
    | succ n ih =>
      obtain ⟨m, hm⟩ := ih
      rcases hm with hm | hm
      · exact ⟨m, Or.inl hm⟩
      · obtain ⟨k', hk', hfk⟩ := hfair (k + m)
        obtain ⟨d, rfl⟩ := Nat.le.dest hk'
        by_cases hps : Lbl.pollStart ∈ seg lb k (m + d)
        · exact ⟨m + d, Or.inl hps⟩
        · obtain ⟨l, t, hpl, hst⟩ := (core (m + d)).2.2 hps
          have hen : ProtocolEnabled (st (k + m + d)) := by
            rw [Nat.add_assoc]; exact ⟨l, t, hpl, hst⟩
          have hprot : isProtocol (lb (k + m + d)) = true := by
            rcases hfk with h | h
            · exact h
            · exact absurd hen h
          refine ⟨m + d + 1, Or.inr ?_⟩
          rw [seg_append lb (m + d) 1 k, seg_append lb m d k]
          simp only [seg, List.filter_append, List.length_append, List.filter_cons, List.filter_nil]
          rw [← Nat.add_assoc] 
          simp only [hprot, if_true, List.length_cons, List.length_nil]
          omega
  obtain ⟨m, hm⟩ := count 8
  have hin : Lbl.pollStart ∈ seg lb k m := by
    rcases hm with h | h
    · exact h
    · exact (core m).1 h
  obtain ⟨j, hj1, hj2, hj3⟩ := mem_seg lb _ m k hin
  refine ⟨j, hj1, hj3, fun j' hj' => ?_⟩
  obtain ⟨m', rfl⟩ := Nat.le.dest (show k ≤ j' by omega)
  have hmem : Lbl.pollStart ∈ seg lb k m' := hj3 ▸ seg_mem lb m' k j hj1 (by omega)
  exact (core m').2.1 hmem

/-- **The fairness hypotheses are satisfiable** — there is an infinite run of the timed system from the initial state
    (interval polling on) that is fair to the poller, on which time diverges, `Close` is never called, the target keeps
    presenting one contract and no poll fails; so `C15_polls_forever_on_fair_runs` and
    `C15_persistent_change_eventually_delivered` are not vacuous, and on this run the contract is delivered for good. -/
theorem C15_fair_run_exists :
    ∃ (st : Nat → T) (lb : Nat → TL), IsRun st lb ∧ st 0 = T.init false 0 5 ∧ FairPoller st lb ∧ TimeDiverges lb ∧ NoClose lb ∧
      (∀ j, (st j).target = 5) ∧ (∀ j, lb j ≠ .pollFail) ∧
      ∃ k1, ∀ j, k1 ≤ j → (st j).delivered = some 5 := by
  refine ⟨exSt, exLb, ex_isRun, rfl, ex_fair, ex_time, fun k => (ex_labels k).1, ex_target, fun k => (ex_labels k).2, ?_⟩
  obtain ⟨k1, _, h⟩ := C15_persistent_change_eventually_delivered 0 5 exSt exLb ex_isRun rfl ex_fair ex_time
    (fun k => (ex_labels k).1) 0 5 (fun j _ => ex_target j) (fun j _ => (ex_labels j).2)
  exact ⟨k1, h⟩

/-! ## the fingerprint is committed only together with a delivery (seeded C15-m11) -/

/-- **The bookkeeping is committed on the success return path only.** For every poll (any state, any behaviour of the
    target on either protocol version): if the hash fields after the poll differ from those before it, the poll's
    callback is `UpdateDesc` of the description it parsed; equivalently, a poll that reports an error — or stays silent —
    leaves `lastProtoHash` and `lastServicesHash` exactly as they were, so the next successful poll is still judged against
    the contract delivered last (`C15_failure_then_recovery`, `C15_updates`). -/
theorem C15_fingerprint_committed_only_with_delivery {H D : Type} [DecidableEq H] (sha : Bytes → H) (st : RState H)
    (env : Version → Attempt D) :
    (((pollStep sha st env).1.lastProtoHash ≠ st.lastProtoHash ∨ (pollStep sha st env).1.lastServicesHash ≠ st.lastServicesHash) →
      ∃ d, (pollStep sha st env).2.1 = [.update d]) ∧
    ((∀ d, (pollStep sha st env).2.1 ≠ [.update d]) →
      (pollStep sha st env).1.lastProtoHash = st.lastProtoHash ∧ (pollStep sha st env).1.lastServicesHash = st.lastServicesHash) := by
  have key := resolveLoop_commit sha env st st.methodPriority 0 []
  have hcb : ∀ d, (resolveLoop sha env st st.methodPriority 0 []).2.1 = .desc d → (pollStep sha st env).2.1 = [.update d] := by
    intro d hd
    simp [pollStep, resolve, hd, callbacksOf]
  have hst : (pollStep sha st env).1 = (resolveLoop sha env st st.methodPriority 0 []).1 := by simp [pollStep, resolve]
  rw [hst]
  refine ⟨fun hne => ?_, fun hno => ?_⟩
  · rcases key with ⟨d, hd⟩ | ⟨h1, h2⟩
    · exact ⟨d, hcb d hd⟩
    · rcases hne with h | h
      · exact absurd h1 h
      · exact absurd h2 h
  · rcases key with ⟨d, hd⟩ | h
    · exact absurd (hcb d hd) (hno d)
    · exact h

/-- The code has the shape the model follows: UNNAMED results (a deferred function cannot change what `return` returns),
    the only defer is the plain `client.close()` call, and from the first hash assignment to the end of the body there is
    nothing but the two assignments, a log line and `return parsed.desc, nil`. -/
theorem C15_facts_commit_shape :
    GB.Generated.resolverCommitShape =
      ["results:unnamed", "defer:client.close()", "save:lastProtoHash", "save:lastServicesHash", "log", "return:parsed.desc,nil"] := by
  decide

/-- **Committing before the stream is finished loses the update for good** (kernel-checked witness against the seeded
    variant): a fully answered first poll whose stream ends uncleanly reports an error but has stored the hashes; the
    following clean poll of the same contract is silent — the watcher never gets it. The model of the real code delivers
    at once, and so does the specification (the poll succeeded). -/
theorem C15_commit_before_finish_fails :
    (let p1 := resolveWithMethodFinishAfterCommit (fun b => b) (RState.init Bytes) (.fetched exO1 (some 1)) false
     callbacksOf p1.2 = [Callback.reportError .other] ∧ p1.1.lastProtoHash ≠ none ∧
     callbacksOf (resolveWithMethod (fun b => b) p1.1 (.fetched exO1 (some 1))).2 = ([] : List (Callback Nat))) ∧
    callbacksOf (resolveWithMethod (fun b => b) (RState.init Bytes) (.fetched exO1 (some 1))).2 = [Callback.update 1] ∧
    (specPoll none (.fetched exO1 (some 1))).2 = [Callback.update 1] := by
  decide
