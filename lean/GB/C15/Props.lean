import GB.C15.Spec
/- C15 — property theorems (being filled in). -/
open GB GB.C15

/-- Negative witness for the pre-fix hash input: the service sets {a.b, c} and {a.bc} differ but
    the concatenation of their sorted names is the same byte string. -/
theorem C15_prefix_concat_collision :
    svcPreOld [[97, 46, 98], [99]] = svcPreOld [[97, 46, 98, 99]] ∧
    sameSet [[97, 46, 98], [99]] [[97, 46, 98, 99]] = false := by
  decide
