import GB.Base.Proto
namespace GB.C15
open GB GB.Proto

/-- stub: replaced when the C15 slice is built -/
def handle : Handler := fun _ _ => "BAD c15 unimplemented"

end GB.C15
