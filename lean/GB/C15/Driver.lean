import GB.Base.Proto
import GB.C15.Spec
import GB.C15.Agg
import GB.C15.Once
/-
  C15 driver: judges one case line of the `c15` area.

  hist …  => <event log of the real Resolver>
      The log is replayed through the model: the wake-up LTS (`step`) must accept every observed
      event with the scripted harness actions interleaved (trace validation), the poll bookkeeping
      model (`pollStep`) must predict the streams opened and the callbacks of every poll, and the
      specification (`specPoll`, contracts compared as sets) must be met.
  hsvc / hfile … => eq|ne   hash equality of the real hash functions vs the model's pre-images.
-/
namespace GB.C15
open GB GB.Proto

/-! ### parsing -/

def unhexPlain (s : String) : Option Bytes := hexDecodeChars s.toList

def parseHexList (s : String) : Option (List Bytes) :=
  if s = "" ∨ s = "-" then some [] else (s.splitOn ",").mapM unhexPlain

def parseFile (s : String) : Option File :=
  match s.splitOn ":" with
  | [n, b] => match unhexPlain n, unhexPlain b with
    | some n, some b => some { name := n, proto := b }
    | _, _ => none
  | _ => none

def parseFileList (s : String) : Option (List File) :=
  if s = "" ∨ s = "-" then some [] else (s.splitOn ",").mapM parseFile

structure CEntry where
  valid : Bool
  sig : String
  c : ServerContract

def parseContract (s : String) : Option CEntry :=
  match s.splitOn "/" with
  | [v, sig, svcs, files] =>
    match parseHexList svcs, parseFileList files with
    | some l, some fs => some { valid := v == "1", sig := sig, c := { listed := l, files := fs } }
    | _, _ => none
  | _ => none

structure AttTok where
  mode : Char
  cid : Nat

def parseAtt (s : String) : Option AttTok :=
  match s.toList with
  | m :: rest =>
    let digits := rest.takeWhile Char.isDigit
    if digits.isEmpty then none else
    match (String.ofList digits).toNat? with
    | some n => some { mode := m, cid := n }
    | none => none
  | [] => none

structure Plan where
  a0 : AttTok
  a1 : AttTok
  n : List Nat
  closeAt : Char
  /-- points at which a ResolveNow is started and held after its pointer load -/
  holdAt : List Char := []
  /-- points at which all held calls are released -/
  relAt : List Char := []

def parseSplits (s : String) : Option (List Char × List Char) :=
  (s.splitOn ",").foldlM (fun (acc : List Char × List Char) t =>
    match t.toList with
    | ['h', p] => some (acc.1 ++ [p], acc.2)
    | ['r', p] => some (acc.1, acc.2 ++ [p])
    | _ => none) ([], [])

def parsePlan4 (x y ns cl : String) : Option Plan :=
  match parseAtt x, parseAtt y, (ns.splitOn ".").mapM String.toNat?, cl.toList with
  | some a, some b, some n, [c] => if n.length = 5 then some { a0 := a, a1 := b, n := n, closeAt := c } else none
  | _, _, _, _ => none

def parsePlan (s : String) : Option Plan :=
  match s.splitOn "/" with
  | [x, y, ns, cl] => parsePlan4 x y ns cl
  | [x, y, ns, cl, sp] =>
    match parsePlan4 x y ns cl, parseSplits sp with
    | some p, some (h, r) => some { p with holdAt := h, relAt := r }
    | _, _ => none
  | _ => none

/-! ### model side of one poll -/

def toAttempt (os : Bool) (tab : List CEntry) (a : AttTok) : Option (Attempt String) :=
  match a.mode with
  | 'S' => match tab[a.cid]? with
    | some e => some (.fetched (observe os e.c) (if e.valid then some e.sig else none))
    | none => none
  | 'U' => some .unimplemented
  | 'A' => some (.fail .unavailable)
  | 'I' => some (.fail .internal)
  | 'T' => some (.fail .timeout)
  | 'E' => some (.fail .eof)
  | 'O' => some (.fail .other)
  | 'G' => some (.fail .other)
  | _ => none

def clsTok : ErrClass → String
  | .unimplemented => "U" | .unavailable => "A" | .internal => "I" | .timeout => "T" | .eof => "E" | .other => "O"

def cbTok : Callback String → String
  | .update d => "u" ++ d
  | .reportError c => "e" ++ clsTok c

def verTok : Version → String
  | .v1 => "a0" | .v1alpha => "a1"

def isUpdateTok (t : String) : Bool := t.startsWith "u"

/-! ### replay -/

inductive Phase where
  | idle | polling | atSelect | closedDone
deriving DecidableEq

structure V where
  w : W
  r : RState Bytes
  rNext : RState Bytes
  specLast : Option Obs
  specNext : Option Obs
  expAtt : List String
  expCb : List String
  specCb : List String
  phase : Phase
  nPolls : Nat
  obsAtt : List String
  obsCb : List String
  sawK : Bool
  /-- caller ids of ResolveNow calls held between pointer load and once-call -/
  held : List Nat
  tags : List String
  /-- first model/implementation disagreement on a poll's streams or callbacks that does not
      violate the specification; the replay goes on (a later poll may violate it) -/
  pendingDiff : Option String

def V.init (manual : Bool := true) : V :=
  { w := W.init manual, r := RState.init Bytes, rNext := RState.init Bytes, specLast := none, specNext := none,
    expAtt := [], expCb := [], specCb := [], phase := .idle, nPolls := 0, obsAtt := [], obsCb := [],
    sawK := false, held := [], tags := [], pendingDiff := none }

def defaultPlan (plans : List Plan) : Plan :=
  match plans.getLast? with
  | some p => { a0 := { mode := 'S', cid := p.a0.cid }, a1 := { mode := 'S', cid := p.a0.cid }, n := [0, 0, 0, 0, 0], closeAt := '-' }
  | none => { a0 := { mode := 'S', cid := 0 }, a1 := { mode := 'S', cid := 0 }, n := [0, 0, 0, 0, 0], closeAt := '-' }

def planAt (plans : List Plan) (i : Nat) : Plan :=
  match plans[i]? with
  | some p => p
  | none => defaultPlan plans

def cnt (p : Plan) (i : Nat) : Nat := match p.n[i]? with | some k => k | none => 0

def iter {α : Type} (f : α → Option α) : Nat → α → Option α
  | 0, a => some a
  | k + 1, a => match f a with
    | some a' => iter f k a'
    | none => none

/-- the rest of a held call: once test-and-set, channel close if it won -/
def finishCall (w : W) (i : Nat) : Option W :=
  match step w (.fire i) with
  | none => none
  | some w1 => match step w1 (.closeCh i) with
    | some w2 => some w2
    | none => some w1

def finishAll : W → List Nat → Option W
  | w, [] => some w
  | w, i :: rest => match finishCall w i with
    | some w' => finishAll w' rest
    | none => none

/-- the harness' `doActions(point)`: held calls are started (pointer load only), n whole ResolveNow
    calls are made, held calls are released, then possibly the Close call -/
def acts (wh : W × List Nat) (p : Plan) (point : Nat) : Option (W × List Nat) :=
  let (w, held) := wh
  if w.closer = .returned then some (w, held) else
  let pc := Char.ofNat ('A'.toNat + point)
  match p.n[point]? with
  | none => none
  | some k =>
    let nh := (p.holdAt.filter (· == pc)).length
    match iter (fun (x : W × List Nat) => (step x.1 (.load x.1.loads)).map (fun w' => (w', x.2 ++ [x.1.loads]))) nh (w, held) with
    | none => none
    | some (w1, held1) =>
      match iter resolveNowAtomic k w1 with
      | none => none
      | some w2 =>
        match (if p.relAt.contains pc then (finishAll w2 held1).map (fun w' => (w', ([] : List Nat))) else some (w2, held1)) with
        | none => none
        | some (w3, held3) =>
          if p.closeAt = pc ∧ w3.closer = .idle then (step w3 .closeCall).map (fun w' => (w', held3)) else some (w3, held3)

def tag (v : V) (t : String) : V := if v.tags.contains t then v else { v with tags := v.tags ++ [t] }

/-- result of one token: continue, or stop with a verdict -/
abbrev R := Except String V

def diff (why : String) : R := .error s!"DIFF model={why}"
def viol (why : String) : R := .error s!"VIOL {why}"

def join (l : List String) : String := if l.isEmpty then "-" else ",".intercalate l

def onToken (os : Bool) (tab : List CEntry) (plans : List Plan) (v : V) (t : String) : R :=
  let plan := planAt plans (v.nPolls - 1)
  if t = "t" then
    -- the poller left its select through the timer case
    if v.phase ≠ .atSelect then diff "timer-unexpected" else
    match step v.w .timer with
    | none => diff s!"poll-by-timer-although-PollManually poll={v.nPolls - 1}"
    | some w' => .ok (tag { v with w := w', phase := .idle } "b=timerPoll")
  else if t = "R" then
    if v.phase ≠ .idle then diff "poll-start-unexpected" else
    -- re-arm after a wake-up (two poller steps), if any
    let w0 := if v.w.ppc = .woken then (step v.w .mkChan).bind (fun w => step w .storePtr) else some v.w
    let plan := planAt plans v.nPolls
    match w0 with
    | none => diff "rearm"
    | some w0 =>
      match (acts (w0, v.held) plan 0).bind (fun wh => (step wh.1 .pollStart).map (fun w => (w, wh.2))) |>.bind (fun wh => acts wh plan 1) with
      | none => diff "poll-start-not-enabled"
      | some (w1, held1) =>
        match toAttempt os tab plan.a0, toAttempt os tab plan.a1 with
        | some e0, some e1 =>
          let env : Version → Attempt String := fun m => match m with | .v1 => e0 | .v1alpha => e1
          let (r', cbs, tried) := pollStep (fun b => b) v.r env
          let isG := plan.a0.mode = 'G' ∨ plan.a1.mode = 'G'
          let expAtt := if isG then tried.map (fun _ => "g") else tried.map verTok
          let (sl, scbs) := specPoll v.specLast (outcomeOf env v.r.methodPriority)
          let v := { v with w := w1, held := held1, rNext := r', specNext := sl, expAtt := expAtt, expCb := cbs.map cbTok,
                            specCb := scbs.map cbTok, phase := .polling, nPolls := v.nPolls + 1, obsAtt := [], obsCb := [] }
          let v := if tried.length > 1 then tag v "b=fallback" else v
          let v := if cnt plan 1 > 0 then tag v "b=resolveNowDuringPoll" else v
          let v := if cnt plan 0 > 0 then tag v "b=resolveNowBeforePoll" else v
          .ok v
        | _, _ => .error "BAD attempt"
  else if t = "g" ∨ t = "a0" ∨ t = "a1" then
    if v.phase = .polling then .ok { v with obsAtt := v.obsAtt ++ [t] } else diff "stream-outside-poll"
  else if t.startsWith "u" ∨ t.startsWith "e" then
    if v.phase = .polling then .ok { v with obsCb := v.obsCb ++ [t] }
    else if v.w.closer = .returned then viol "callback-after-Close-returned"
    else diff "callback-outside-poll"
  else if t = "S" then
    if v.phase ≠ .polling then diff "select-unexpected" else
    -- the specification first
    let specUpd := v.specCb.filter isUpdateTok
    let obsUpd := v.obsCb.filter isUpdateTok
    if specUpd ≠ obsUpd then
      (if obsUpd.isEmpty then viol s!"update-missing poll={v.nPolls - 1} expected={join specUpd} got={join v.obsCb}"
       else if specUpd.isEmpty then viol s!"update-without-change poll={v.nPolls - 1} got={join v.obsCb} expected={join v.specCb}"
       else viol s!"wrong-update poll={v.nPolls - 1} expected={join specUpd} got={join obsUpd}")
    else if v.obsCb.length > 1 then viol s!"several-callbacks poll={v.nPolls - 1} got={join v.obsCb}"
    else if v.specCb ≠ v.expCb then .error s!"BAD spec-and-model-disagree spec={join v.specCb} model={join v.expCb}"
    else
      let v := if (v.obsCb ≠ v.expCb ∨ v.obsAtt ≠ v.expAtt) ∧ v.pendingDiff.isNone then
          { v with pendingDiff := some s!"DIFF model=poll={v.nPolls - 1}:streams={join v.expAtt}:callbacks={join v.expCb}:got-streams={join v.obsAtt}:got-callbacks={join v.obsCb}" }
        else v
      match (step v.w (.pollEnd (!v.obsCb.isEmpty))).bind (fun w => acts (w, v.held) plan 2) with
      | none => diff "poll-end-not-enabled"
      | some (w', held') =>
        let v := { v with w := w', held := held', r := v.rNext, specLast := v.specNext, phase := .atSelect, sawK := false }
        let v := if !obsUpd.isEmpty then tag v "b=update" else if v.obsCb.isEmpty then tag v "b=unchanged" else tag v "b=error"
        let v := if cnt plan 2 > 0 then tag v "b=resolveNowBeforeSelect" else v
        .ok v
  else if t = "K" then
    if v.phase ≠ .atSelect ∨ v.sawK then diff "parked-unexpected" else
    if v.w.cur ∈ v.w.closed then viol s!"lost-wake-up poll={v.nPolls - 1} poller-parked-although-ResolveNow-completed-on-the-armed-generation"
    else match acts (v.w, v.held) plan 3 with
      | none => diff "actions-D"
      | some (w', held') =>
        let v := { v with w := w', held := held', sawK := true }
        let v := if plan.relAt.contains 'D' ∨ plan.holdAt.contains 'D' then tag v "b=splitResolveNow" else v
        .ok (if cnt plan 3 > 0 then tag v "b=resolveNowWhileParked" else v)
  else if t = "Z" then
    if v.phase ≠ .atSelect ∨ !v.sawK then diff "final-close-unexpected" else
    if v.w.cur ∈ v.w.closed then viol s!"lost-wake-up poll={v.nPolls - 1} poller-still-parked-after-a-ResolveNow-completed-on-the-armed-generation"
    else match step v.w .closeCall with
    | none => diff "final-close-twice"
    | some w' => .ok { v with w := w' }
  else if t = "!nowake" then
    if v.w.cur ∈ v.w.closed then viol s!"lost-wake-up poll={v.nPolls - 1} ResolveNow-while-parked-did-not-wake-the-poller"
    else diff "harness-nowake"
  else if t = "W" then
    if v.phase ≠ .atSelect then diff "wake-unexpected" else
    match step v.w .wake with
    | none => diff s!"wake-up-without-ResolveNow poll={v.nPolls - 1}"
    | some w1 =>
      let v := if v.w.closer = .sending then tag v "b=wakeWinsOverClose" else v
      match acts (w1, v.held) plan 4 with
      | none => diff "actions-E"
      | some (w', held') =>
        let v := { v with w := w', held := held', phase := .idle }
        .ok (if cnt plan 4 > 0 then tag v "b=resolveNowInRearmWindow" else v)
  else if t = "c" then
    match step v.w .takeDone with
    | none => diff s!"Close-returned-while-poller-not-at-select-or-not-called"
    | some w1 =>
      match step w1 .closeRet with
      | none => diff "close-ret"
      | some w2 =>
        let v := if v.w.cur ∈ v.w.closed then tag v "b=closeWinsOverWake" else v
        let v := if !v.sawK then tag v "b=closePendingAtSelect" else v
        .ok { v with w := w2, phase := .closedDone }
  else if t = "X" then
    match step v.w .closeDone with
    | none => diff "exit-unexpected"
    | some w' => .ok { v with w := w' }
  else if t = "L" then diff "poller-goroutine-alive-after-Close-returned"
  else if t.startsWith "!" then
    -- a harness bound was hit: the line was ended and reports what WAS observed
    let specUpd := v.specCb.filter isUpdateTok
    if v.phase = .polling ∧ !specUpd.isEmpty ∧ (v.obsCb.filter isUpdateTok).isEmpty ∧ !(t.startsWith "!stuck-in") then
      viol s!"update-missing poll={v.nPolls - 1} expected={join specUpd} got=nothing-within-the-bound({t})"
    else if v.w.cur ∈ v.w.closed ∧ v.phase = .atSelect ∧ v.w.closer = .idle ∧ (t = "!stuck" ∨ t = "!nowake" ∨ t = "!watchdog") then
      viol s!"lost-wake-up poll={v.nPolls - 1} no-poll-within-the-bound({t})"
    else diff s!"harness{t}"
  else .error s!"BAD token {t}"

def replay (os : Bool) (tab : List CEntry) (plans : List Plan) : V → List String → R
  | v, [] => .ok v
  | v, t :: ts => match onToken os tab plans v t with
    | .ok v' => replay os tab plans v' ts
    | .error e => .error e

/-- the poll-level disagreement recorded before a later (LTS-level) DIFF stopped the replay, if any -/
def firstPollDiff (os manual : Bool) (tab : List CEntry) (plans : List Plan) (out : List String) : Option String :=
  let rec go (v : V) : List String → Option String
    | [] => v.pendingDiff
    | t :: ts => match onToken os tab plans v t with
      | .ok v' => go v' ts
      | .error _ => v.pendingDiff
  go (V.init manual) out

/-- independent of the replay: no callback token after `c` -/
def callbackAfterClose : List String → Bool
  | [] => false
  | t :: ts => if t = "c" then ts.any (fun x => x.startsWith "u" ∨ x.startsWith "e") else callbackAfterClose ts

def handleHist (inp out : List String) : String :=
  match inp with
  | _ :: osT :: rtT :: ctab :: planToks =>
    if !ctab.startsWith "C=" then "BAD contracts" else
    match ((ctab.drop 2).toString.splitOn ";").mapM parseContract, planToks.mapM parsePlan with
    | some tab, some plans =>
      if plans.isEmpty then "BAD no plans" else
      if out.any (fun t => t.startsWith "BAD" ∨ t.startsWith "PANIC") then s!"DIFF model=no-panic got={" ".intercalate out}" else
      let os := osT == "os1"
      let manual := (rtT.splitOn ",pi").length < 2
      let res := replay os tab plans (V.init manual) out
      if callbackAfterClose out then "VIOL callback-after-Close-returned" else
      match res with
      | .error e => if e.startsWith "VIOL" then e else (match firstPollDiff os manual tab plans out with | some d => d | none => e)
      | .ok v =>
        if let some d := v.pendingDiff then d
        else if v.w.ppc ≠ .exited then "DIFF model=log-incomplete"
        else
          let nt := if v.nPolls ≥ 2 then " nt" else ""
          s!"OK{nt} b=polls{min v.nPolls 9}" ++ String.join (v.tags.map (fun t => " " ++ t))
    | _, _ => "BAD parse"
  | _ => "BAD hist line"

/-! ### hash equality -/

def nodupB {α : Type} [BEq α] : List α → Bool
  | [] => true
  | x :: xs => !xs.contains x && nodupB xs

def verdictEq (out : String) (modelEq : Bool) (specEq : Option Bool) (br : String) : String :=
  let m := if modelEq then "eq" else "ne"
  match specEq with
  | some s =>
    let sp := if s then "eq" else "ne"
    if out ≠ sp then
      (if out = "eq" then s!"VIOL hash-collision different-contracts-same-fingerprint model={m}"
       else s!"VIOL hash-differs-for-equal-contracts model={m}")
    else if out ≠ m then s!"DIFF model={m}"
    else s!"OK nt b={br}-{m}"
  | none => if out ≠ m then s!"DIFF model={m}" else s!"OK b={br}-{m}-modelonly"

/-- name is a function of the bytes across both lists (as it is for real descriptors) -/
def nameFunctional (fs : List File) : Bool :=
  fs.all (fun f => fs.all (fun g => f.proto != g.proto || f.name == g.name))

/-! ### options, aggregate watcher, second Close, independence of resolvers -/

def showBool (b : Bool) : String := if b then "1" else "0"

def showHexList (l : List Bytes) : String :=
  if l.isEmpty then "-" else ",".intercalate (l.map (fun b => ((toHex b).drop 1).toString))

def showOpts (o : Opts) : List String :=
  [toString o.pollInterval, toString o.reqTimeout, toString o.recursionLimit, showHexList o.ignorePrefixes,
   showBool o.pollManually, showBool o.onlyServices]

def handleOpts (inp out : List String) : String :=
  match inp with
  | [pi, rt, rl, pf, pm, os] =>
    match pi.toInt?, rt.toInt?, rl.toInt?, parseHexList pf with
    | some pi, some rt, some rl, some pf =>
      let o : Opts := { pollInterval := pi, reqTimeout := rt, recursionLimit := rl, ignorePrefixes := pf,
                        pollManually := pm == "1", onlyServices := os == "1" }
      let m := showOpts (builderOpts o)
      if out ≠ m then s!"DIFF model={" ".intercalate m}"
      else
        let clamped := (withDefaults o) != o
        s!"OK{if clamped then " nt" else ""} b=opts-{if clamped then "defaulted" else "kept"}"
    | _, _, _, _ => "BAD opts"
  | _ => "BAD opts line"

def showCall (p : Nat × String) : String := toString p.1 ++ p.2

def handleAgg (n : String) (evs : String) (out : String) : String :=
  match n.toNat? with
  | none => "BAD agg"
  | some n =>
    let evs := if evs = "-" then [] else evs.splitOn ","
    let m := (aggregateLog n evs).map showCall
    let o := if out = "-" then [] else out.splitOn ","
    -- specification: every watcher observes exactly the calls made on the aggregate
    let perWatcher (i : Nat) : List String :=
      o.filterMap (fun c => if c.startsWith (toString i) ∧ n ≤ 10 then some ((c.drop 1).toString) else none)
    if n ≤ 10 ∧ (List.range n).any (fun i => perWatcher i ≠ evs) then
      s!"VIOL aggregate-watcher-call-not-delivered-to-every-watcher model={",".intercalate m}"
    else if o ≠ m then s!"DIFF model={",".intercalate m}"
    else s!"OK{if n ≥ 2 ∧ evs.length ≥ 2 then " nt" else ""} b=agg{min n 3}"

/-- the state after one poll and a completed `Close()`: what a further `Close()` does there -/
def secondCloseModel : String :=
  match GB.LTS.run step (W.init true) [.pollStart, .pollEnd true, .closeCall, .takeDone, .closeRet, .closeDone] with
  | some s => (match sendOnDone s with | .panics => "panic" | .delivered => "returned" | .blocked => "blocked")
  | none => "stuck"

/-! ### rr: the real ReflectionRouter — trace validation against the aggregate-watcher LTS (`Agg.step`, n = 2) -/

structure RV where
  g : Agg.G Nat
  /-- version the resolver delivered last (its hash fields) -/
  last : Option Nat
  polls : Nat
  inPoll : Bool
  owes : Option Nat
  removed : Bool
  skipped : Bool
  updates : Nat

def memberName (j : Nat) : String := if j = 0 then "pattern" else "service"

def rrBegin (v : RV) (e : Nat) : Except String RV :=
  if v.g.cur.isNone then
    match Agg.step v.g (.begin e) with
    | some g => .ok { v with g := g }
    | none => .error "DIFF model=aggregate-call-not-enabled"
  else .ok v

/-- members before `upto` that the log shows nothing for: only a CLOSED member may stay silent -/
def rrSkipTo (atPollEnd : Bool) : Nat → RV → Nat → Except String RV
  | 0, v, _ => .ok v
  | fuel + 1, v, upto =>
    if v.g.pos < upto then
      if v.g.closed v.g.pos then
        match Agg.step v.g .deliver with
        | some g => rrSkipTo atPollEnd fuel { v with g := g, skipped := true } upto
        | none => .error "DIFF model=deliver-not-enabled"
      else if atPollEnd then
        .error s!"VIOL update-missing member={memberName v.g.pos} open-watcher-did-not-get-the-update-of-poll={v.polls - 1}"
      else
        -- a later member applies the call while an earlier open one has not yet: another ORDER than the model's
        -- (the property does not fix the order; whether the earlier member is served at all is judged at the poll end)
        .error s!"DIFF model=fan-out-order member={memberName v.g.pos}-before-{memberName upto} poll={v.polls - 1}"
    else .ok v

def rrApply (v : RV) (j : Nat) : Except String RV :=
  if v.removed then .error s!"VIOL update-applied-after-Remove-returned member={memberName j}" else
  if !v.inPoll then .error "DIFF model=update-outside-poll" else
  match v.owes with
  | none => .error s!"VIOL update-without-change poll={v.polls - 1} member={memberName j}"
  | some e =>
    match rrBegin v e with
    | .error x => .error x
    | .ok v =>
      match rrSkipTo false 3 v j with
      | .error x => .error x
      | .ok v =>
        if v.g.pos ≠ j then .error s!"VIOL update-delivered-twice-or-out-of-order member={memberName j} poll={v.polls - 1}"
        else if v.g.closed j then .error s!"VIOL update-applied-after-watcher-Close member={memberName j}"
        else match Agg.step v.g .deliver with
          | some g => .ok { v with g := g }
          | none => .error "DIFF model=deliver-not-enabled"

def rrCloseMember (v : RV) (j : Nat) : Except String RV :=
  if v.g.cpos ≠ some j then .error s!"DIFF model=watcher-Close-order member={memberName j}"
  else match Agg.step v.g .closeMember with
    | some g => .ok { v with g := g }
    | none => .error "DIFF model=closeMember-not-enabled"

def rrExpected (g : Agg.G Nat) (j : Nat) : Nat :=
  if g.closed j then 0 else match (g.applied j).getLast? with | some m => m | none => 0

def rrToken (versions : List Nat) (v : RV) (t : String) : Except String RV :=
  if t = "b" then
    if v.removed then .error "VIOL poll-after-Remove-returned"
    else if v.inPoll then .error "DIFF model=poll-start-inside-poll"
    else
      let ver := match versions[min v.polls (versions.length - 1)]? with | some m => m | none => 0
      .ok { v with inPoll := true, polls := v.polls + 1, owes := if v.last = some ver then none else some ver }
  else if t = "pu" then rrApply v 0
  else if t = "su" then rrApply v 1
  else if t = "s" then
    if !v.inPoll then .error "DIFF model=poll-end-outside-poll" else
    match v.owes with
    | none => .ok { v with inPoll := false }
    | some e =>
      match rrBegin v e with
      | .error x => .error x
      | .ok v =>
        match rrSkipTo true 3 v 2 with
        | .error x => .error x
        | .ok v =>
          match Agg.step v.g .finish with
          | some g => .ok { v with g := g, last := some e, inPoll := false, owes := none, updates := v.updates + 1 }
          | none => .error "DIFF model=finish-not-enabled"
  else if t = "rc" then
    match Agg.step v.g .closeCall with
    | some g => .ok { v with g := g }
    | none => .error "DIFF model=Remove-called-twice"
  else if t = "pc" then rrCloseMember v 0
  else if t = "sc" then rrCloseMember v 1
  else if t = "rr" then
    if v.g.cpos ≠ some 2 then .error "VIOL Remove-returned-before-both-watchers-were-closed"
    else if v.inPoll then .error "VIOL Remove-returned-while-a-poll-is-in-progress"
    else .ok { v with removed := true }
  else if t.startsWith "q" then
    match ((t.drop 1).toString.splitOn ".").map String.toNat? with
    | [some p, some s] =>
      if v.inPoll then .error "DIFF model=probe-inside-poll"
      else if p ≠ rrExpected v.g 0 then
        .error s!"VIOL router-state member=pattern routes={p} expected={rrExpected v.g 0} (the last update the watcher applied, none once closed)"
      else if s ≠ rrExpected v.g 1 then
        .error s!"VIOL router-state member=service routes={s} expected={rrExpected v.g 1} (the last update the watcher applied, none once closed)"
      else .ok v
    | _ => .error "BAD probe"
  else if t.startsWith "!" then
    if v.inPoll ∧ v.owes.isSome ∧ v.g.cur.isNone ∧ v.g.cpos.isNone then
      .error s!"VIOL update-missing poll={v.polls - 1} nothing-applied-within-the-bound({t})"
    else .error s!"DIFF model=harness{t}"
  else .error s!"BAD token {t}"

def rrReplay (versions : List Nat) : RV → List String → Except String RV
  | v, [] => .ok v
  | v, t :: ts => match rrToken versions v t with
    | .ok v' => rrReplay versions v' ts
    | .error e => .error e

def handleRR (mode vs closeAt : String) (out : List String) : String :=
  match (vs.splitOn ",").mapM String.toNat? with
  | none => "BAD rr versions"
  | some versions =>
    if out.any (fun t => t.startsWith "BAD" ∨ t.startsWith "PANIC") then s!"DIFF model=no-panic got={" ".intercalate out}" else
    let v0 : RV := { g := Agg.G.init 2, last := none, polls := 0, inPoll := false, owes := none, removed := false,
                     skipped := false, updates := 0 }
    match rrReplay versions v0 out with
    | .error e => e
    | .ok v =>
      if !v.removed then "DIFF model=log-incomplete"
      else
        let nt := if v.updates ≥ 2 ∨ v.skipped then " nt" else ""
        s!"OK{nt} b=rr-{mode}{closeAt}" ++ (if v.skipped then " b=rr-updateOnClosedWatcher" else "") ++
          (if v.g.past.length > (v.g.applied 1).length ∧ (v.g.applied 0).length > (v.g.applied 1).length then " b=rr-membersDiffer" else "")

/-! ### once: the real `sync.OnceFunc` against runs of the Once LTS -/

/-- schedule A: the callers run one after the other; schedule B: everybody passes the fast-path load first,
    then they go through the mutex one by one. -/
def onceSchedule (n : Nat) (allEnterFirst : Bool) : List Once.L :=
  let slow (i : Nat) : List Once.L := [.lock i, .check i, .fret i, .store i, .unlock i]
  if allEnterFirst then
    (List.range n).map (fun i => Once.L.enter i) ++ (List.range n).flatMap (fun i => match i with
      | 0 => slow 0
      | i => [.lock i, .check i, .unlock i])
  else
    (List.range n).flatMap (fun i => match i with
      | 0 => Once.L.enter 0 :: slow 0
      | i => [.enter i])

def onceModel (n : Nat) : Option String :=
  match GB.LTS.run Once.step Once.S.init (onceSchedule n false), GB.LTS.run Once.step Once.S.init (onceSchedule n true) with
  | some a, some b =>
    let early (s : Once.S) : Nat := ((List.range n).filter (fun i => s.pc i == .returned && s.completed == 0)).length
    if a.execs = b.execs ∧ early a = early b then some s!"execs={a.execs} early={early a}" else none
  | _, _ => none

def handleOnce (n : String) (out : List String) : String :=
  match n.toNat? with
  | none => "BAD once"
  | some n =>
    match onceModel n with
    | none => "BAD once-model-schedules-disagree"
    | some m =>
      if " ".intercalate out = m then s!"OK{if n ≥ 2 then " nt" else ""} b=once{min n 3}"
      else s!"DIFF model={m}"

def handle : Handler
  | "rr" :: [mode, vs, closeAt], out => handleRR mode vs closeAt out
  | ["once", n], out => handleOnce n out
  | "opts" :: rest, out => handleOpts rest out
  | ["agg", n, evs], [out] => handleAgg n evs out
  | ["close2", "seq"], out =>
    let m := ["first=returned", "second=" ++ secondCloseModel]
    if out = m then "OK nt b=close2-seq" else s!"DIFF model={" ".intercalate m}"
  | ["close2", "conc"], [out] =>
    -- one of the two sends is received (that call returns), the other meets the state after it
    let m := ",".intercalate (if secondCloseModel < "returned" then [secondCloseModel, "returned"] else ["returned", secondCloseModel])
    if out = m then "OK nt b=close2-conc" else s!"DIFF model={m}"
  | ["indep"], out =>
    -- each Build starts from `RState.init`: A learns [v1alpha, v1], B still opens v1 first
    let envA : Version → Attempt String := fun v => match v with
      | .v1 => .unimplemented | .v1alpha => .fetched ⟨[], []⟩ (some "")
    let envB : Version → Attempt String := fun _ => .fetched ⟨[], []⟩ (some "")
    let (_, cbA, triedA) := pollStep (fun b => b) (RState.init Bytes) envA
    let (_, cbB, triedB) := pollStep (fun b => b) (RState.init Bytes) envB
    let cb (l : List (Callback String)) : String := String.join (l.map (fun c => match c with | .update _ => "u" | .reportError _ => "e"))
    -- X and Y: two more v1alpha-only targets of one builder with overlapping polls; each has its own state
    let a := s!"{cb cbA}:{",".intercalate (triedA.map verTok)}"
    let m := [s!"A:{a}", s!"B:{cb cbB}:{",".intercalate ((triedB.take 1).map verTok)}", s!"X:{a}", s!"Y:{a}"]
    if out = m then "OK nt b=indep"
    else if out.any (fun f => (f.splitOn ":")[1]? = some "e") then
      s!"VIOL update-missing Unimplemented-on-one-version-hid-the-working-version(all-methods-failed) model={" ".intercalate m}"
    else if out.any (fun f => (f.splitOn ":")[1]? = some "-") then
      s!"VIOL update-missing first-successful-poll-delivered-nothing-within-the-bound model={" ".intercalate m}"
    else s!"DIFF model={" ".intercalate m}"
  | "hist" :: rest, out => handleHist ("hist" :: rest) out
  | ["hsvc", a, b], [out] =>
    match parseHexList a, parseHexList b with
    | some a, some b =>
      let spec := if nodupB a && nodupB b then some (sameSet a b) else none
      verdictEq out (svcPre a == svcPre b) spec "hsvc"
    | _, _ => "BAD hex"
  | ["hfile", a, b], [out] =>
    match parseFileList a, parseFileList b with
    | some a, some b =>
      let ok := nodupB (a.map (·.name)) && nodupB (b.map (·.name)) && nameFunctional (a ++ b)
      let spec := if ok then some (sameSet a b) else none
      verdictEq out (protoPre a == protoPre b) spec "hfile"
    | _, _ => "BAD hex"
  | _, out =>
    -- a panic of the code under test on a line of any op is a disagreement with the model, not a malformed line
    if out.any (fun t => t.startsWith "PANIC") then s!"DIFF model=no-panic got={" ".intercalate out}" else "BAD c15 line"

end GB.C15
