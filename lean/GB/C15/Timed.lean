import GB.C15.Model
/-
  C15 — the timer-driven loop and eventual delivery.

  `T` wraps the wake-up LTS `W` with
    * a clock: `tick` advances `now`; `pollEnd` (= entering the select, where `r.afterInterval()` is
      evaluated: a FRESH `time.After(PollInterval)` per select) sets `deadline := now + interval`; the
      select's timer case is enabled only once `deadline ≤ now`. A slow poll just lets `now` advance
      while `ppc = resolving`: no timer exists then, so polls never overlap and the interval counts
      from the END of a poll. `Close` during the sleep: `takeDone` does not look at the clock.
    * the delivery abstraction of the bookkeeping (`specPoll`: the only state is the last delivered
      contract): `target` is the contract the target presents now (environment: `change c`), a poll
      samples it at `pollStart`, a successful `pollEnd cb` delivers it iff it differs from `delivered`
      (and `cb` must say so), `pollFail` is a poll ending in `ReportError` (delivered state kept).
  Every `T`-run projects to a `W`-run (`tstep_proj`), so all safety theorems about `step` carry over.

  Fairness is a predicate on infinite runs (`FairPoller`, `TimeDiverges`); `eventually_pollStart` and
  `eventually_delivered` are proved from it.
-/
namespace GB.C15
open GB

structure T where
  w : W
  now : Nat
  /-- when the `time.After` channel of the current select fires -/
  deadline : Nat
  /-- `opts.PollInterval` in clock units -/
  interval : Nat
  /-- ghost: when the last poll ended -/
  lastEnd : Nat
  /-- the contract the target presents now -/
  target : Nat
  /-- what the poll in progress fetched -/
  sampled : Nat
  /-- the contract last handed to the watcher -/
  delivered : Option Nat

def T.init (manual : Bool) (interval target : Nat) : T :=
  { w := W.init manual, now := 0, deadline := interval, interval := interval, lastEnd := 0, target := target,
    sampled := 0, delivered := none }

inductive TL where
  | tick
  | change (c : Nat)
  /-- a poll ends with `ReportError` -/
  | pollFail
  | l (l : Lbl)
deriving DecidableEq

def tstep (t : T) : TL → Option T
  | .tick => some { t with now := t.now + 1 }
  | .change c => some { t with target := c }
  | .pollFail =>
    (step t.w (.pollEnd true)).map fun w' => { t with w := w', deadline := t.now + t.interval, lastEnd := t.now }
  | .l .pollStart => (step t.w .pollStart).map fun w' => { t with w := w', sampled := t.target }
  | .l (.pollEnd cb) =>
    if cb = decide (t.delivered ≠ some t.sampled) then
      (step t.w (.pollEnd cb)).map fun w' =>
        { t with w := w', deadline := t.now + t.interval, lastEnd := t.now, delivered := some t.sampled }
    else none
  | .l .timer => if t.deadline ≤ t.now then (step t.w .timer).map fun w' => { t with w := w' } else none
  | .l .wake => (step t.w .wake).map fun w' => { t with w := w' }
  | .l .takeDone => (step t.w .takeDone).map fun w' => { t with w := w' }
  | .l .mkChan => (step t.w .mkChan).map fun w' => { t with w := w' }
  | .l .storePtr => (step t.w .storePtr).map fun w' => { t with w := w' }
  | .l .closeDone => (step t.w .closeDone).map fun w' => { t with w := w' }
  | .l (.load i) => (step t.w (.load i)).map fun w' => { t with w := w' }
  | .l (.fire i) => (step t.w (.fire i)).map fun w' => { t with w := w' }
  | .l (.closeCh i) => (step t.w (.closeCh i)).map fun w' => { t with w := w' }
  | .l .closeCall => (step t.w .closeCall).map fun w' => { t with w := w' }
  | .l .closeRet => (step t.w .closeRet).map fun w' => { t with w := w' }

/-- the `W` label a `T` label stands for -/
def erase : TL → Option Lbl
  | .tick => none
  | .change _ => none
  | .pollFail => some (.pollEnd true)
  | .l x => some x

/-- the poller goroutine's own statements -/
def isPoller : Lbl → Bool
  | .pollStart | .pollEnd _ | .timer | .wake | .takeDone | .mkChan | .storePtr | .closeDone => true
  | _ => false

def isPollerT : TL → Bool
  | .pollFail => true
  | .l x => isPoller x
  | _ => false

/-! ### infinite runs and fairness -/

def IsRun (st : Nat → T) (lb : Nat → TL) : Prop := ∀ k, tstep (st k) (lb k) = some (st (k + 1))

/-- some statement of the poller goroutine can execute -/
def PollerEnabled (t : T) : Prop := ∃ a t', isPollerT a = true ∧ tstep t a = some t'

/-- Weak fairness of the poller goroutine (the Go scheduler eventually runs a runnable goroutine):
    again and again the poller takes a step or is not runnable. -/
def FairPoller (st : Nat → T) (lb : Nat → TL) : Prop :=
  ∀ k, ∃ k', k ≤ k' ∧ (isPollerT (lb k') = true ∨ ¬ PollerEnabled (st k'))

/-- Time passes: the clock ticks again and again. -/
def TimeDiverges (lb : Nat → TL) : Prop := ∀ k, ∃ k', k ≤ k' ∧ lb k' = .tick

/-- `Close()` is never called. -/
def NoClose (lb : Nat → TL) : Prop := ∀ k, lb k ≠ .l .closeCall

/-- distance to the next poll start in poller steps and clock ticks -/
def mu (t : T) : Nat :=
  match t.w.ppc with
  | .top => 1
  | .madeChan => 2
  | .woken => 3
  | .atSelect => 4 + (t.deadline - t.now)
  | .resolving => 5 + t.interval
  | .gotDone => 0
  | .exited => 0

end GB.C15
