import GB.C15.ProofsWake
/-
  C15 — infinite runs of the wake-up LTS and weak fairness as an explicit predicate (used by
  `C15_resolve_now_eventually_served` in Props.lean).
-/
namespace GB.C15
open GB

def IsRunW (st : Nat → W) (lb : Nat → Lbl) : Prop := ∀ k, step (st k) (lb k) = some (st (k + 1))

/-- some non-environment step (the poller's own statements, the channel close owed by a once-winner) can execute -/
def ProtocolEnabled (s : W) : Prop := ∃ l s', isProtocol l = true ∧ step s l = some s'

/-- Weak fairness towards the non-environment steps: again and again one of them is taken, or none is enabled. -/
def FairProtocol (st : Nat → W) (lb : Nat → Lbl) : Prop :=
  ∀ k, ∃ k', k ≤ k' ∧ (isProtocol (lb k') = true ∨ ¬ ProtocolEnabled (st k'))

def NoCloseW (lb : Nat → Lbl) : Prop := ∀ k, lb k ≠ .closeCall

/-- the labels `lb k, …, lb (k+m-1)` -/
def seg (lb : Nat → Lbl) : Nat → Nat → List Lbl
  | _, 0 => []
  | k, m + 1 => lb k :: seg lb (k + 1) m

theorem run_seg (st : Nat → W) (lb : Nat → Lbl) (hrun : IsRunW st lb) :
    ∀ (m k : Nat), GB.LTS.run step (st k) (seg lb k m) = some (st (k + m))
  | 0, _ => rfl
  | m + 1, k => by
    simp only [seg, GB.LTS.run, hrun k]
    rw [run_seg st lb hrun m (k + 1)]
    have : k + 1 + m = k + (m + 1) := by omega
    rw [this]

theorem seg_append (lb : Nat → Lbl) : ∀ (m d k : Nat), seg lb k (m + d) = seg lb k m ++ seg lb (k + m) d
  | 0, d, k => by simp [seg]
  | m + 1, d, k => by
    have h1 : m + 1 + d = (m + d) + 1 := by omega
    rw [h1]
    simp only [seg, List.cons_append]
    rw [seg_append lb m d (k + 1)]
    have h2 : k + 1 + m = k + (m + 1) := by omega
    rw [h2]

theorem mem_seg (lb : Nat → Lbl) (l : Lbl) : ∀ (m k : Nat), l ∈ seg lb k m → ∃ i, k ≤ i ∧ i < k + m ∧ lb i = l
  | 0, _, h => by simp [seg] at h
  | m + 1, k, h => by
    simp only [seg, List.mem_cons] at h
    rcases h with h | h
    · exact ⟨k, Nat.le_refl _, by omega, h.symm⟩
    · obtain ⟨i, h1, h2, h3⟩ := mem_seg lb l m (k + 1) h
      exact ⟨i, by omega, by omega, h3⟩

theorem seg_mem (lb : Nat → Lbl) : ∀ (m k i : Nat), k ≤ i → i < k + m → lb i ∈ seg lb k m
  | 0, _, _, h1, h2 => by omega
  | m + 1, k, i, h1, h2 => by
    simp only [seg, List.mem_cons]
    by_cases e : i = k
    · left; rw [e]
    · right; exact seg_mem lb m (k + 1) i (by omega) (by omega)

theorem seg_noclose (lb : Nat → Lbl) (hnc : NoCloseW lb) (m k : Nat) : Lbl.closeCall ∉ seg lb k m := by
  intro h
  obtain ⟨i, _, _, hi⟩ := mem_seg lb _ m k h
  exact hnc i hi

end GB.C15
