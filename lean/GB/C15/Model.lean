import GB.Base.Bytes
import GB.Base.LTS
/-
  C15 — executable model of the reflection resolver's change detection and wake-up protocol
  (reflection/resolver.go, reflection/util.go). Core-only Lean.

  Part (a)  sequential poll bookkeeping: `resolve` / `resolveWithMethod` with `lastProtoHash`,
            `lastServicesHash`, `methodPriority`; hash pre-images as byte strings
            (`hashServiceNames`, `hashNamedProtoBundles`), SHA-256 as a parameter `sha`.
  Part (b)  wake-up protocol LTS: poller goroutine (`watch`, `newResolveNow`), any number of
            `ResolveNow` callers, one `Close` caller; channel generations as ghost ids.
-/
namespace GB.C15
open GB

/-! ## (a.1) Go string order, `slices.Sort` / `slices.SortFunc` -/

/-- Go `string` comparison (`<=`), bytewise lexicographic. -/
def bytesLe : Bytes → Bytes → Bool
  | [], _ => true
  | _ :: _, [] => false
  | a :: as, b :: bs => if a < b then true else if b < a then false else bytesLe as bs

def insertBy {α : Type} (le : α → α → Bool) (x : α) : List α → List α
  | [] => [x]
  | y :: ys => if le x y then x :: y :: ys else y :: insertBy le x ys

/-- Sorting (insertion sort: structural, so the kernel can evaluate witnesses). The Go sorts are
    unstable; the model is used on lists whose keys are pairwise distinct (service names are
    de-duplicated by `listServiceNames`, file names by `fileDescriptors`/`retrieveDependencies`),
    where every sorting algorithm yields the same list (`sortBy_unique`). -/
def sortBy {α : Type} (le : α → α → Bool) : List α → List α
  | [] => []
  | x :: xs => insertBy le x (sortBy le xs)

/-! ## (a.2) hash pre-images -/

/-- `binary.BigEndian.PutUint64` of a length. -/
def be64 (n : Nat) : Bytes :=
  [UInt8.ofNat (n / 72057594037927936 % 256), UInt8.ofNat (n / 281474976710656 % 256),
   UInt8.ofNat (n / 1099511627776 % 256), UInt8.ofNat (n / 4294967296 % 256),
   UInt8.ofNat (n / 16777216 % 256), UInt8.ofNat (n / 65536 % 256),
   UInt8.ofNat (n / 256 % 256), UInt8.ofNat (n % 256)]

/-- `writeLenPrefixed`: 8-byte big-endian length, then the bytes. -/
def lenPrefixed (b : Bytes) : Bytes := be64 b.length ++ b

/-- What the (fixed) code feeds to SHA-256 for a sorted list of byte strings. -/
def encodeList (l : List Bytes) : Bytes := l.flatMap lenPrefixed

/-- What the code fed to SHA-256 before the fix: the plain concatenation. -/
def encodeConcat (l : List Bytes) : Bytes := l.flatten

/-- One file descriptor as collected by `Resolver.fileDescriptors` (`namedProtoBundle`). -/
structure File where
  name : Bytes
  proto : Bytes
deriving DecidableEq, Repr

def fileLe (a b : File) : Bool := bytesLe a.name b.name

/-- What one complete fetch observed: de-duplicated, filtered service names (server order) and
    the collected file descriptors (retrieval order). -/
structure Obs where
  names : List Bytes
  files : List File
deriving DecidableEq, Repr

/-- pre-image of `hashServiceNames(names)` -/
def svcPre (names : List Bytes) : Bytes := encodeList (sortBy bytesLe names)
/-- pre-image of `hashNamedProtoBundles(bundles)` -/
def protoPre (files : List File) : Bytes := encodeList ((sortBy fileLe files).map (·.proto))

/-- pre-fix pre-images (plain concatenation), kept for the negative witness -/
def svcPreOld (names : List Bytes) : Bytes := encodeConcat (sortBy bytesLe names)
def protoPreOld (files : List File) : Bytes := encodeConcat ((sortBy fileLe files).map (·.proto))

/-! ## (a.3) `Resolver.listServiceNames` filtering -/

def isPrefixOf : Bytes → Bytes → Bool
  | [], _ => true
  | _ :: _, [] => false
  | a :: as, b :: bs => a == b && isPrefixOf as bs

/-- "grpc." — appended to `IgnorePrefixes` by `NewResolverBuilder`. -/
def grpcPrefix : Bytes := [103, 114, 112, 99, 46]

/-- Loop of `listServiceNames` (validity of names is assumed): a name already in `processed`
    is skipped; otherwise it is recorded and kept unless an ignore prefix matches. -/
def filterNamesAux (ignore : List Bytes) : List Bytes → List Bytes → List Bytes
  | [], _ => []
  | s :: rest, processed =>
    if processed.contains s then filterNamesAux ignore rest processed
    else if ignore.any (fun p => isPrefixOf p s) then filterNamesAux ignore rest (s :: processed)
    else s :: filterNamesAux ignore rest (s :: processed)

def filterNames (ignore : List Bytes) (listed : List Bytes) : List Bytes :=
  filterNamesAux ignore listed []

/-- The target's contract at one moment: the raw `ListServices` answer and the file descriptors
    reachable from the listed services. -/
structure ServerContract where
  listed : List Bytes
  files : List File
deriving Repr

/-- What a complete fetch observes of a contract (`OnlyServices` ⇒ no files are requested). -/
def observe (onlyServices : Bool) (c : ServerContract) : Obs :=
  { names := filterNames [grpcPrefix] c.listed, files := if onlyServices then [] else c.files }

/-! ## (a.4) poll bookkeeping -/

/-- Reflection protocol versions in the order of `reflectionMethods`. -/
inductive Version where
  | v1 | v1alpha
deriving DecidableEq, Repr

/-- Canonical classes of the errors handed to `ReportError`. -/
inductive ErrClass where
  | unimplemented | unavailable | internal | timeout | eof | other
deriving DecidableEq, Repr

/-- What the target does to one `resolveWithMethod` attempt, up to the hash comparison.
    `D` is the parsed description; `parsed = none` ⇔ `parseFileDescriptors` fails. -/
inductive Attempt (D : Type) where
  /-- some step fails with `status.Code(err) == Unimplemented` -/
  | unimplemented
  /-- some step fails otherwise (no connection, stream error, timeout, missing dependency, …) -/
  | fail (c : ErrClass)
  /-- every request is answered -/
  | fetched (o : Obs) (parsed : Option D)

/-- `(*bridgedesc.Target, error)` of `resolveWithMethod` / `resolve`. -/
inductive MethodResult (D : Type) where
  | unimplemented
  | err (c : ErrClass)
  /-- `nil, nil`: same hashes as the previous delivered ones -/
  | unchanged
  | desc (d : D)

/-- The poller-owned fields of `Resolver`. `none` is Go's initial `""` (never a SHA-256 hex). -/
structure RState (H : Type) where
  lastProtoHash : Option H
  lastServicesHash : Option H
  methodPriority : List Version
deriving Repr

def RState.init (H : Type) : RState H :=
  { lastProtoHash := none, lastServicesHash := none, methodPriority := [.v1, .v1alpha] }

variable {H D : Type} [DecidableEq H]

/-- `resolveWithMethod`, from the hash computation on. -/
def resolveWithMethod (sha : Bytes → H) (st : RState H) : Attempt D → RState H × MethodResult D
  | .unimplemented => (st, .unimplemented)
  | .fail c => (st, .err c)
  | .fetched o parsed =>
    let newProtoHash := sha (protoPre o.files)
    let newServicesHash := sha (svcPre o.names)
    if st.lastProtoHash = some newProtoHash ∧ st.lastServicesHash = some newServicesHash then
      (st, .unchanged)
    else match parsed with
      | none => (st, .err .other)
      | some d =>
        -- "Save the hash only at the end, when we can be sure that the new set is fully valid."
        ({ st with lastProtoHash := some newProtoHash, lastServicesHash := some newServicesHash }, .desc d)

/-- `p[0], p[i] = p[i], p[0]` (both indices are in range at the only call site). -/
def swap0 (p : List Version) (i : Nat) : List Version :=
  match p[0]?, p[i]? with
  | some a, some b => (p.set 0 b).set i a
  | _, _ => p

/-- The `for i, method := range r.methodPriority` loop of `resolve`; `tried` collects the
    methods on which a stream was attempted, in order. -/
def resolveLoop (sha : Bytes → H) (env : Version → Attempt D) (st : RState H) :
    List Version → Nat → List Version → RState H × MethodResult D × List Version
  | [], _, tried => (st, .err .unimplemented, tried)   -- "all reflection methods failed"
  | m :: rest, i, tried =>
    match resolveWithMethod sha st (env m) with
    | (_, .unimplemented) => resolveLoop sha env st rest (i + 1) (tried ++ [m])
    | (st', .err c) => (st', .err c, tried ++ [m])
    | (st', .unchanged) =>
      ({ st' with methodPriority := swap0 st'.methodPriority i }, .unchanged, tried ++ [m])
    | (st', .desc d) =>
      ({ st' with methodPriority := swap0 st'.methodPriority i }, .desc d, tried ++ [m])

def resolve (sha : Bytes → H) (env : Version → Attempt D) (st : RState H) :
    RState H × MethodResult D × List Version :=
  resolveLoop sha env st st.methodPriority 0 []

/-- Watcher callbacks. -/
inductive Callback (D : Type) where
  | update (d : D)
  | reportError (c : ErrClass)
deriving DecidableEq, Repr

/-- The callback part of one iteration of `watch`. -/
def callbacksOf : MethodResult D → List (Callback D)
  | .desc d => [.update d]
  | .unchanged => []
  | .err c => [.reportError c]
  | .unimplemented => [.reportError .unimplemented]   -- not produced by `resolve`

/-- One poll: new state, callbacks, methods tried. -/
def pollStep (sha : Bytes → H) (st : RState H) (env : Version → Attempt D) :
    RState H × List (Callback D) × List Version :=
  let (st', r, tried) := resolve sha env st
  (st', callbacksOf r, tried)

/-- A history of polls. -/
def runPolls (sha : Bytes → H) (st : RState H) : List (Version → Attempt D) → List (List (Callback D))
  | [] => []
  | env :: rest => let (st', cbs, _) := pollStep sha st env; cbs :: runPolls sha st' rest

def finalState (sha : Bytes → H) (st : RState H) : List (Version → Attempt D) → RState H
  | [] => st
  | env :: rest => finalState sha (pollStep sha st env).1 rest

/-! ## (b) wake-up protocol LTS -/

/-- Program counter of the poller goroutine (`watch`). -/
inductive PPc where
  /-- top of the loop (hook `resolver.beforeResolve`) -/
  | top
  /-- inside `resolve()` and the callback -/
  | resolving
  /-- at the `select` (hook `resolver.beforeSelect` just before it) -/
  | atSelect
  /-- `<-r.resolveNow` returned (hook `resolver.woken`) -/
  | woken
  /-- `r.resolveNow = make(chan)` done, `notifyResolveNow.Store` not yet -/
  | madeChan
  /-- `<-r.done` returned, `close(r.done)` not yet -/
  | gotDone
  | exited
deriving DecidableEq, Repr

/-- Program counter of one `ResolveNow` call. -/
inductive CPc where
  | start
  /-- `notifyResolveNow.Load()` done: holds the once-func of generation `gen` -/
  | loaded
  /-- won the `sync.Once` of its generation, `close(ch)` not yet -/
  | won
  /-- returned -/
  | finished
deriving DecidableEq, Repr

structure Caller where
  pc : CPc
  gen : Nat
  /-- ghost: a poll has started after this call's pointer load -/
  served : Bool
deriving DecidableEq, Repr

/-- Program counter of the `Close` caller. -/
inductive ClPc where
  | idle
  /-- blocked in `r.done <- struct{}{}` -/
  | sending
  /-- the poller received; `Close` may return -/
  | sent
  | returned
deriving DecidableEq, Repr

structure W where
  ppc : PPc
  /-- generation of the channel in `r.resolveNow` (poller-owned field) -/
  cur : Nat
  /-- generation whose once-func is stored in `r.notifyResolveNow` -/
  ptr : Nat
  /-- generations whose `sync.Once` has been won -/
  fired : List Nat
  /-- generations whose channel is closed -/
  closed : List Nat
  /-- every natural number names a potential `ResolveNow` call (any number of callers);
      calls that have not begun are at `start` -/
  callers : Nat → Caller
  closer : ClPc
  /-- `PollManually`: the timer case of the select is a nil channel -/
  manual : Bool
  /-- ghost: number of polls started -/
  polls : Nat
  /-- ghost: number of `ResolveNow` calls begun (the driver uses it as the next fresh caller id) -/
  loads : Nat
  /-- ghost: a watcher callback happened after `Close` returned -/
  cbAfterClose : Bool

def Caller.fresh : Caller := { pc := .start, gen := 0, served := false }

/-- State after `Build` returned: generation 0 armed, poller at the top of its loop. -/
def W.init (manual : Bool) : W :=
  { ppc := .top, cur := 0, ptr := 0, fired := [], closed := [], callers := fun _ => Caller.fresh, closer := .idle,
    manual := manual, polls := 0, loads := 0, cbAfterClose := false }

inductive Lbl where
  /-- poller: enter `resolve()` -/
  | pollStart
  /-- poller: `resolve()` returned and the callback (if `cb`) was made; now at the select -/
  | pollEnd (cb : Bool)
  /-- poller: select takes the timer case -/
  | timer
  /-- poller: select takes `<-r.resolveNow` -/
  | wake
  /-- poller: select takes `<-r.done` (rendezvous with the `Close` caller) -/
  | takeDone
  /-- poller: `r.resolveNow = make(chan struct{})` -/
  | mkChan
  /-- poller: `r.notifyResolveNow.Store(&f)` -/
  | storePtr
  /-- poller: `close(r.done); return` -/
  | closeDone
  /-- caller `i` begins: `r.notifyResolveNow.Load()` -/
  | load (i : Nat)
  /-- caller `i`: the `sync.Once` test-and-set of its generation -/
  | fire (i : Nat)
  /-- caller `i` (winner): `close(r.resolveNow)` of its generation -/
  | closeCh (i : Nat)
  /-- `Close()` is called -/
  | closeCall
  /-- `Close()` returns -/
  | closeRet
deriving DecidableEq, Repr

def setCaller (f : Nat → Caller) (i : Nat) (c : Caller) : Nat → Caller := fun j => if j = i then c else f j

/-- ghost update at a poll start: every call that has loaded its pointer is now served -/
def serveAll (f : Nat → Caller) : Nat → Caller :=
  fun j => if (f j).pc = .start then f j else { f j with served := true }

def step (s : W) : Lbl → Option W
  | .pollStart =>
    if s.ppc = .top then some { s with ppc := .resolving, polls := s.polls + 1, callers := serveAll s.callers } else none
  | .pollEnd cb =>
    if s.ppc = .resolving then
      some { s with ppc := .atSelect, cbAfterClose := s.cbAfterClose || (cb && s.closer == .returned) }
    else none
  | .timer =>
    if s.ppc = .atSelect ∧ s.manual = false then some { s with ppc := .top } else none
  | .wake =>
    if s.ppc = .atSelect ∧ s.cur ∈ s.closed then some { s with ppc := .woken } else none
  | .takeDone =>
    if s.ppc = .atSelect ∧ s.closer = .sending then some { s with ppc := .gotDone, closer := .sent } else none
  | .mkChan =>
    if s.ppc = .woken then some { s with ppc := .madeChan, cur := s.cur + 1 } else none
  | .storePtr =>
    if s.ppc = .madeChan then some { s with ppc := .top, ptr := s.cur } else none
  | .closeDone =>
    if s.ppc = .gotDone then some { s with ppc := .exited } else none
  | .load i =>
    if (s.callers i).pc = .start then
      some { s with callers := setCaller s.callers i { pc := .loaded, gen := s.ptr, served := false },
                    loads := s.loads + 1 }
    else none
  | .fire i =>
    if (s.callers i).pc = .loaded then
      (if (s.callers i).gen ∈ s.fired then
         some { s with callers := setCaller s.callers i { s.callers i with pc := .finished } }
       else some { s with fired := (s.callers i).gen :: s.fired,
                          callers := setCaller s.callers i { s.callers i with pc := .won } })
    else none
  | .closeCh i =>
    if (s.callers i).pc = .won then
      some { s with closed := (s.callers i).gen :: s.closed,
                    callers := setCaller s.callers i { s.callers i with pc := .finished } }
    else none
  | .closeCall =>
    if s.closer = .idle then some { s with closer := .sending } else none
  | .closeRet =>
    if s.closer = .sent then some { s with closer := .returned } else none

/-- One whole `ResolveNow()` call executed without interleaving (as the harness performs it):
    load ; fire ; (closeCh if it won the once). -/
def resolveNowAtomic (s : W) : Option W :=
  let i := s.loads
  match step s (.load i) with
  | none => none
  | some s2 => match step s2 (.fire i) with
    | none => none
    | some s3 => match step s3 (.closeCh i) with
      | some s4 => some s4
      | none => some s3

/-! ## (c) options: `ResolverOpts.withDefaults` and `NewResolverBuilder` -/

/-- The value fields of `ResolverOpts` (`time.Duration` in nanoseconds; `Logger` is not modelled). -/
structure Opts where
  pollInterval : Int
  reqTimeout : Int
  recursionLimit : Int
  ignorePrefixes : List Bytes
  pollManually : Bool
  onlyServices : Bool
deriving DecidableEq, Repr

def second : Int := 1000000000
def millisecond : Int := 1000000

/-- `ResolverOpts.withDefaults`, branch by branch. -/
def withDefaults (o : Opts) : Opts :=
  { o with
    pollInterval := if o.pollInterval = 0 then 5 * 60 * second
                    else if o.pollInterval < second then second else o.pollInterval
    reqTimeout := if o.reqTimeout = 0 then 10 * second
                  else if o.reqTimeout < millisecond then millisecond else o.reqTimeout
    recursionLimit := if o.recursionLimit = 0 then 100
                      else if o.recursionLimit < 0 then 0 else o.recursionLimit }

/-- `NewResolverBuilder`: defaults, then `"grpc."` appended to the ignore prefixes. `Build` copies
    these options into every resolver and gives each resolver its OWN `methodPriority`
    (`slices.Clone(reflectionMethods)`, i.e. `RState.init`). -/
def builderOpts (o : Opts) : Opts :=
  let d := withDefaults o
  { d with ignorePrefixes := d.ignorePrefixes ++ [grpcPrefix] }

/-! ## (d) `aggregateWatcher` (reflection.go): fan-out to every watcher, in order -/

/-- One call on the aggregate (`UpdateDesc`, `ReportError` or `Close`, whatever `α` encodes) becomes
    the same call on watcher 0, 1, …, n-1 in this order. -/
def fanout {α : Type} (n : Nat) (e : α) : List (Nat × α) := (List.range n).map (fun i => (i, e))

/-- The totally ordered log of calls received by the `n` watchers for a sequence of calls on the aggregate. -/
def aggregateLog {α : Type} (n : Nat) (evs : List α) : List (Nat × α) := evs.flatMap (fanout n)

/-- What watcher `i` sees of such a log. -/
def observedBy {α : Type} (i : Nat) (log : List (Nat × α)) : List α :=
  log.filterMap (fun p => if p.1 = i then some p.2 else none)

/-! ## (e) a further `Close()` call: `r.done <- struct{}{}` on the done channel -/

inductive SendOutcome where
  /-- a receiver is ready (the poller's select): the send may be taken -/
  | delivered
  /-- channel open, nobody receives: the sender blocks (and panics when the channel gets closed) -/
  | blocked
  /-- `close(r.done)` has been executed: send on closed channel -/
  | panics
deriving DecidableEq, Repr

/-- Go semantics of the send executed by a `Close()` call OTHER than the one the poller served,
    attempted in state `s`: the poller receives from `done` only in its select and closes the
    channel right before it returns. -/
def sendOnDone (s : W) : SendOutcome :=
  if s.ppc = .exited then .panics
  else if s.ppc = .atSelect then .delivered
  else .blocked

end GB.C15
