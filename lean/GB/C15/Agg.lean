import GB.Base.LTS
/-
  C15 — `aggregateWatcher` (reflection.go) over its member watchers, as an LTS.  Core-only Lean.

      func (a *aggregateWatcher) UpdateDesc(t) { for _, w := range a.watchers { w.UpdateDesc(t) } }   (same: ReportError)
      func (a *aggregateWatcher) Close()       { for _, w := range a.watchers { w.Close() } }

  The aggregate has no state and no lock of its own. Its members in production are the
  PatternRouterWatcher and the ServiceRouterWatcher, whose `UpdateDesc` and `Close` each run under the
  member's mutex: `UpdateDesc` = { lock; if closed return; apply; unlock }, `Close` = { lock; CAS closed
  (panic if it was set); remove routes; unlock } — so one member operation is one atomic step here.
  Two goroutines act: the resolver's poller (calls on the aggregate, one at a time) and the caller of
  `ReflectionRouter.Remove`, which calls `watcher.Close()` BEFORE `resolver.Close()` — the poller may
  therefore still make calls while and after the aggregate is closed.
  What the code does when a member's call panics: nothing recovers, the range loop is abandoned (later
  members never get the call) and the poller goroutine dies (`dead`); a member that blocks simply
  leaves `deliver` untaken — later members wait, and so does every later change.
-/
namespace GB.C15.Agg

structure G (α : Type) where
  /-- number of members (2 in `ReflectionRouter.Add`) -/
  n : Nat
  /-- member `j`'s closed flag -/
  closed : Nat → Bool
  /-- what member `j` has applied (calls that passed its closed check), oldest first -/
  applied : Nat → List α
  /-- calls on the aggregate that have returned -/
  past : List α
  /-- the call on the aggregate in progress -/
  cur : Option α
  /-- next member the call in progress goes to -/
  pos : Nat
  /-- the `Close()` of the aggregate: not called / next member to close (`= n`: returned) -/
  cpos : Option Nat
  /-- the poller goroutine panicked inside a member -/
  dead : Bool

def G.init {α : Type} (n : Nat) : G α :=
  { n := n, closed := fun _ => false, applied := fun _ => [], past := [], cur := none, pos := n, cpos := none, dead := false }

inductive L (α : Type) where
  /-- the poller calls `UpdateDesc(e)` / `ReportError(e)` on the aggregate -/
  | begin (e : α)
  /-- the loop body for member `pos` ran to completion -/
  | deliver
  /-- the loop body for member `pos` panicked (only an open member gets far enough to) -/
  | deliverPanic
  /-- the loop is over, the call returns -/
  | finish
  /-- `Close()` is called on the aggregate -/
  | closeCall
  /-- its loop body for member `cpos` -/
  | closeMember

def setAt {β : Type} (f : Nat → β) (i : Nat) (b : β) : Nat → β := fun j => if j = i then b else f j

def step {α : Type} (s : G α) : L α → Option (G α)
  | .begin e =>
    if s.cur = none ∧ s.dead = false then some { s with cur := some e, pos := 0 } else none
  | .deliver =>
    match s.cur with
    | some e =>
      if s.pos < s.n ∧ s.dead = false then
        some { s with pos := s.pos + 1,
                      applied := if s.closed s.pos then s.applied else setAt s.applied s.pos (s.applied s.pos ++ [e]) }
      else none
    | none => none
  | .deliverPanic =>
    if s.cur.isSome ∧ s.pos < s.n ∧ s.dead = false ∧ s.closed s.pos = false then some { s with dead := true } else none
  | .finish =>
    match s.cur with
    | some e => if s.pos = s.n ∧ s.dead = false then some { s with past := s.past ++ [e], cur := none } else none
    | none => none
  | .closeCall =>
    if s.cpos = none then some { s with cpos := some 0 } else none
  | .closeMember =>
    match s.cpos with
    | some k =>
      -- a member whose flag is already set panics ("Close() called multiple times"): no step
      if k < s.n ∧ s.closed k = false then some { s with closed := setAt s.closed k true, cpos := some (k + 1) } else none
    | none => none

/-- The calls member `j` has been offered so far. -/
def offered {α : Type} (s : G α) (j : Nat) : List α :=
  match s.cur with
  | some e => if j < s.pos then s.past ++ [e] else s.past
  | none => s.past

structure Inv {α : Type} (s : G α) : Prop where
  p : s.pos ≤ s.n
  a : ∀ j, j < s.n → s.applied j <+: offered s j ∧ (s.closed j = false → s.applied j = offered s j)
  c1 : ∀ k, s.cpos = some k → k ≤ s.n ∧ ∀ j, j < k → s.closed j = true
  c2 : ∀ j, s.closed j = true → ∃ k, s.cpos = some k ∧ j < k

theorem inv_init {α : Type} (n : Nat) : Inv (G.init (α := α) n) := by
  constructor <;> simp [G.init, offered]

theorem inv_step {α : Type} (s s' : G α) (l : L α) (h : Inv s) (hs : step s l = some s') : Inv s' := by
  obtain ⟨p, a, c1, c2⟩ := h
  cases l with
  | «begin» e =>
    simp only [step] at hs
    split at hs <;> simp at hs
    rename_i hc
    subst hs
    refine ⟨by simp, fun j hj => ?_, c1, c2⟩
    have := a j hj
    simp only [offered, hc.1] at this
    simpa [offered] using this
  | deliver =>
    simp only [step] at hs
    split at hs
    · rename_i e hcur
      split at hs <;> simp at hs
      rename_i hg
      subst hs
      refine ⟨by simp; omega, fun j hj => ?_, c1, c2⟩
      have hj : j < s.n := hj
      have haj := a j hj
      simp only [offered, hcur] at haj ⊢
      by_cases e1 : j = s.pos
      · rw [e1] at haj ⊢
        simp only [Nat.lt_irrefl, if_false, Nat.lt_succ_self, if_true] at haj ⊢
        cases hcl : s.closed s.pos with
        | true =>
          simp only [if_true]
          exact ⟨haj.1.trans (List.prefix_append _ _), by simp⟩
        | false =>
          have := haj.2 hcl
          simp [setAt, this]
      · have hlt : (j < s.pos + 1) = (j < s.pos) := by
          apply propext; constructor <;> intro h <;> omega
        simp only [hlt]
        cases hcl : s.closed s.pos <;> simp [setAt, e1] <;> exact haj
    · simp at hs
  | deliverPanic =>
    simp only [step] at hs
    split at hs <;> simp at hs
    subst hs
    exact ⟨p, a, c1, c2⟩
  | finish =>
    simp only [step] at hs
    split at hs
    · rename_i e hcur
      split at hs <;> simp at hs
      rename_i hg
      subst hs
      refine ⟨p, fun j hj => ?_, c1, c2⟩
      have hj : j < s.n := hj
      have haj := a j hj
      simp only [offered, hcur] at haj
      have hjp : j < s.pos := by omega
      simpa [offered, hjp] using haj
    · simp at hs
  | closeCall =>
    simp only [step] at hs
    split at hs <;> simp at hs
    rename_i hc
    subst hs
    refine ⟨p, a, ?_, ?_⟩
    · intro k hk; simp at hk; subst hk; simp
    · intro j hj
      obtain ⟨k, hk, _⟩ := c2 j hj
      simp [hc] at hk
  | closeMember =>
    simp only [step] at hs
    split at hs
    · rename_i k hk
      split at hs <;> simp at hs
      rename_i hg
      subst hs
      have hck := c1 k hk
      refine ⟨p, fun j hj => ?_, ?_, ?_⟩
      · have hj : j < s.n := hj
        have haj := a j hj
        refine ⟨by simpa [offered] using haj.1, fun hcl => ?_⟩
        by_cases e1 : j = k
        · simp [setAt, e1] at hcl
        · simp [setAt, e1] at hcl
          simpa [offered] using haj.2 hcl
      · intro k' hk'
        simp at hk'
        subst hk'
        refine ⟨by show k + 1 ≤ s.n; omega, fun j hj => ?_⟩
        by_cases e1 : j = k
        · simp [setAt, e1]
        · simp [setAt, e1]; exact hck.2 j (by omega)
      · intro j hj
        by_cases e1 : j = k
        · exact ⟨k + 1, rfl, by omega⟩
        · simp [setAt, e1] at hj
          obtain ⟨k', hk', hlt⟩ := c2 j hj
          rw [hk] at hk'
          simp at hk'
          exact ⟨k + 1, rfl, by omega⟩
    · simp at hs

theorem inv_reachable {α : Type} (n : Nat) (s : G α) (h : GB.LTS.Reachable step (G.init n) s) : Inv s :=
  GB.LTS.invariant step (G.init n) Inv (inv_init n) (fun s l s' hi hs => inv_step s s' l hi hs) s h

theorem n_const {α : Type} (s s' : G α) (l : L α) (hs : step s l = some s') : s'.n = s.n := by
  cases l <;> simp only [step] at hs
  all_goals (repeat' split at hs)
  all_goals (first | (simp at hs; done) | (simp at hs; subst hs; rfl))

/-- once every member is closed nothing is applied any more, and it stays that way -/
theorem closed_frozen {α : Type} (s s' : G α) (l : L α) (hi : Inv s) (hc : s.cpos = some s.n)
    (hs : step s l = some s') : s'.cpos = some s'.n ∧ ∀ j, j < s.n → s'.applied j = s.applied j := by
  have hall := (hi.c1 _ hc).2
  cases l with
  | «begin» e => simp only [step] at hs; split at hs <;> simp at hs; subst hs; exact ⟨hc, fun _ _ => rfl⟩
  | deliver =>
    simp only [step] at hs
    split at hs
    · split at hs <;> simp at hs
      rename_i hg
      subst hs
      refine ⟨hc, fun j _ => ?_⟩
      simp [hall s.pos hg.1]
    · simp at hs
  | deliverPanic => simp only [step] at hs; split at hs <;> simp at hs; subst hs; exact ⟨hc, fun _ _ => rfl⟩
  | finish =>
    simp only [step] at hs
    split at hs
    · split at hs <;> simp at hs; subst hs; exact ⟨hc, fun _ _ => rfl⟩
    · simp at hs
  | closeCall => simp only [step] at hs; split at hs <;> simp at hs; rename_i h; simp [hc] at h
  | closeMember =>
    simp only [step] at hs
    rw [hc] at hs
    simp at hs

/-- a dead poller died inside a call, at a member -/
def DeadInv {α : Type} (s : G α) : Prop := s.dead = true → s.cur.isSome = true ∧ s.pos < s.n

theorem dead_step {α : Type} (s s' : G α) (l : L α) (h : DeadInv s) (hs : step s l = some s') : DeadInv s' := by
  unfold DeadInv at h ⊢
  cases l with
  | «begin» e => simp only [step] at hs; split at hs <;> simp at hs; rename_i hg; subst hs; simp [hg.2]
  | deliver =>
    simp only [step] at hs
    split at hs
    · split at hs <;> simp at hs; rename_i hg; subst hs; simp [hg.2]
    · simp at hs
  | deliverPanic =>
    simp only [step] at hs; split at hs <;> simp at hs; rename_i hg; subst hs
    intro _; exact ⟨hg.1, hg.2.1⟩
  | finish =>
    simp only [step] at hs
    split at hs
    · split at hs <;> simp at hs; rename_i hg; subst hs; simp [hg.2]
    · simp at hs
  | closeCall => simp only [step] at hs; split at hs <;> simp at hs; subst hs; exact h
  | closeMember =>
    simp only [step] at hs
    split at hs
    · split at hs <;> simp at hs; subst hs; exact h
    · simp at hs

theorem dead_reachable {α : Type} (n : Nat) (s : G α) (h : GB.LTS.Reachable step (G.init n) s) : DeadInv s :=
  GB.LTS.invariant step (G.init n) DeadInv (by simp [DeadInv, G.init]) (fun s l s' hi hs => dead_step s s' l hi hs) s h

theorem n_reachable {α : Type} (n : Nat) (s : G α) (h : GB.LTS.Reachable step (G.init n) s) : s.n = n :=
  GB.LTS.invariant step (G.init n) (fun s => s.n = n) rfl (fun s l s' hi hs => (n_const s s' l hs).trans hi) s h

end GB.C15.Agg
