import GB.C15.ProofsHash
/-
  C15 — the poll bookkeeping refines the specification (ghost state: last delivered contract).
-/
namespace GB.C15
open GB

set_option linter.unusedSimpArgs false
set_option linter.unusedVariables false
set_option linter.unusedSectionVars false

variable {H D : Type} [DecidableEq H]

/-- well-formed observation (what `listServiceNames` / `fileDescriptors` guarantee) -/
structure ObsWF (nameOf : Bytes → Bytes) (o : Obs) : Prop where
  namesNodup : o.names.Nodup
  namesShort : ∀ n ∈ o.names, Short n
  files : FilesWF nameOf o.files

theorem nodup_of_map {α β : Type} (f : α → β) : ∀ (l : List α), (l.map f).Nodup → l.Nodup
  | [], _ => List.nodup_nil
  | x :: xs, h => by
    simp only [List.map_cons, List.nodup_cons, List.mem_map, not_exists, not_and] at h
    refine List.nodup_cons.mpr ⟨fun hx => h.1 x hx rfl, nodup_of_map f xs h.2⟩

theorem files_nodup {nameOf : Bytes → Bytes} {fs : List File} (h : FilesWF nameOf fs) : fs.Nodup :=
  nodup_of_map _ _ h.nodup

/-- Equal pre-images ⇔ equal contracts (as sets). -/
theorem pre_eq_iff_sameContract (nameOf : Bytes → Bytes) (o l : Obs) (ho : ObsWF nameOf o) (hl : ObsWF nameOf l) :
    (protoPre o.files = protoPre l.files ∧ svcPre o.names = svcPre l.names) ↔ sameContract o l = true := by
  unfold sameContract
  rw [Bool.and_eq_true, sameSet_iff_perm _ _ ho.namesNodup hl.namesNodup,
    sameSet_iff_perm _ _ (files_nodup ho.files) (files_nodup hl.files),
    protoPre_eq_iff nameOf _ _ ho.files hl.files, svcPre_eq_iff _ _ ho.namesShort hl.namesShort]
  exact And.comm

/-- The hash fields hold the fingerprint of the last delivered contract. -/
def Tracks (sha : Bytes → H) (st : RState H) (last : Option Obs) : Prop :=
  match last with
  | none => st.lastProtoHash = none ∧ st.lastServicesHash = none
  | some l => st.lastProtoHash = some (sha (protoPre l.files)) ∧ st.lastServicesHash = some (sha (svcPre l.names))

theorem unchanged_iff (sha : Bytes → H) (hinj : Function.Injective sha) (nameOf : Bytes → Bytes)
    (st : RState H) (last : Option Obs) (ht : Tracks sha st last) (hl : ∀ l, last = some l → ObsWF nameOf l)
    (o : Obs) (ho : ObsWF nameOf o) :
    (st.lastProtoHash = some (sha (protoPre o.files)) ∧ st.lastServicesHash = some (sha (svcPre o.names))) ↔
      sameAsLast last o = true := by
  cases last with
  | none => simp [Tracks] at ht; simp [ht.1, sameAsLast]
  | some l =>
    simp only [Tracks] at ht
    simp only [sameAsLast]
    rw [ht.1, ht.2, ← pre_eq_iff_sameContract nameOf o l ho (hl l rfl)]
    constructor
    · rintro ⟨h1, h2⟩
      exact ⟨(hinj (Option.some.inj h1)).symm, (hinj (Option.some.inj h2)).symm⟩
    · rintro ⟨h1, h2⟩
      rw [h1, h2]; exact ⟨rfl, rfl⟩

/-- attempt → outcome, for a non-Unimplemented attempt -/
def outcomeOfAttempt : Attempt D → Option (Outcome D)
  | .unimplemented => none
  | .fail c => some (.failed c)
  | .fetched o p => some (.fetched o p)

theorem resolveWithMethod_spec (sha : Bytes → H) (hinj : Function.Injective sha) (nameOf : Bytes → Bytes)
    (st : RState H) (last : Option Obs) (ht : Tracks sha st last) (hl : ∀ l, last = some l → ObsWF nameOf l)
    (a : Attempt D) (oc : Outcome D) (ha : outcomeOfAttempt a = some oc)
    (hwf : ∀ o p, a = .fetched o p → ObsWF nameOf o) :
    callbacksOf (resolveWithMethod sha st a).2 = (specPoll last oc).2 ∧
    Tracks sha (resolveWithMethod sha st a).1 (specPoll last oc).1 ∧
    (∀ l, (specPoll last oc).1 = some l → ObsWF nameOf l) ∧
    (resolveWithMethod sha st a).1.methodPriority = st.methodPriority ∧
    (resolveWithMethod sha st a).2 ≠ .unimplemented := by
  cases a with
  | unimplemented => simp [outcomeOfAttempt] at ha
  | fail c =>
    simp [outcomeOfAttempt] at ha; subst ha
    simp [resolveWithMethod, specPoll, callbacksOf, ht]; exact hl
  | fetched o p =>
    simp [outcomeOfAttempt] at ha; subst ha
    have ho := hwf o p rfl
    have hiff := unchanged_iff sha hinj nameOf st last ht hl o ho
    simp only [resolveWithMethod, specPoll]
    by_cases hu : (st.lastProtoHash = some (sha (protoPre o.files)) ∧ st.lastServicesHash = some (sha (svcPre o.names)))
    · have hs := hiff.mp hu
      rw [if_pos hu, if_pos hs]
      simp [callbacksOf, ht]; exact hl
    · have hs : ¬ (sameAsLast last o = true) := fun h => hu (hiff.mpr h)
      rw [if_neg hu, if_neg hs]
      cases p with
      | none => simp [callbacksOf, ht]; exact hl
      | some d =>
        simp [callbacksOf, Tracks]
        exact ho

theorem resolveLoop_spec (sha : Bytes → H) (hinj : Function.Injective sha) (nameOf : Bytes → Bytes)
    (env : Version → Attempt D) (hwf : ∀ v o p, env v = .fetched o p → ObsWF nameOf o)
    (st : RState H) (last : Option Obs) (ht : Tracks sha st last) (hl : ∀ l, last = some l → ObsWF nameOf l) :
    ∀ (l : List Version) (i : Nat) (tried : List Version),
      callbacksOf (resolveLoop sha env st l i tried).2.1 = (specPoll last (outcomeOf env l)).2 ∧
      Tracks sha (resolveLoop sha env st l i tried).1 (specPoll last (outcomeOf env l)).1 ∧
      (∀ l', (specPoll last (outcomeOf env l)).1 = some l' → ObsWF nameOf l')
  | [], i, tried => by
    simp [resolveLoop, outcomeOf, specPoll, callbacksOf, ht]; exact hl
  | m :: rest, i, tried => by
    cases ha : env m with
    | unimplemented =>
      have ih := resolveLoop_spec sha hinj nameOf env hwf st last ht hl rest (i + 1) (tried ++ [m])
      simp only [resolveLoop, ha, resolveWithMethod, outcomeOf]
      exact ih
    | fail c =>
      simp [resolveLoop, ha, resolveWithMethod, outcomeOf, specPoll, callbacksOf, ht]; exact hl
    | fetched o p =>
      have hs := resolveWithMethod_spec sha hinj nameOf st last ht hl (env m) (.fetched o p)
        (by simp [ha, outcomeOfAttempt]) (fun o' p' h => hwf m o' p' h)
      rw [ha] at hs
      simp only [resolveLoop, ha, outcomeOf]
      cases hr : resolveWithMethod sha st (Attempt.fetched o p) with
      | mk st' r =>
        rw [hr] at hs
        cases r with
        | unimplemented => exact absurd rfl hs.2.2.2.2
        | err c => exact ⟨hs.1, hs.2.1, hs.2.2.1⟩
        | unchanged =>
          refine ⟨hs.1, ?_, hs.2.2.1⟩
          have := hs.2.1
          revert this
          cases (specPoll last (Outcome.fetched o p)).1 <;> simp [Tracks]
        | desc d =>
          refine ⟨hs.1, ?_, hs.2.2.1⟩
          have := hs.2.1
          revert this
          cases (specPoll last (Outcome.fetched o p)).1 <;> simp [Tracks]

/-- The outcome sequence of a history under the resolver's remembered version priority. -/
def outcomesOf (sha : Bytes → H) (st : RState H) : List (Version → Attempt D) → List (Outcome D)
  | [] => []
  | env :: rest => outcomeOf env st.methodPriority :: outcomesOf sha (pollStep sha st env).1 rest

theorem runPolls_spec (sha : Bytes → H) (hinj : Function.Injective sha) (nameOf : Bytes → Bytes) :
    ∀ (envs : List (Version → Attempt D)) (st : RState H) (last : Option Obs),
      (∀ env ∈ envs, ∀ v o p, env v = .fetched o p → ObsWF nameOf o) →
      Tracks sha st last → (∀ l, last = some l → ObsWF nameOf l) →
      runPolls sha st envs = specRun last (outcomesOf sha st envs) ∧
      Tracks sha (finalState sha st envs) (lastDelivered last (outcomesOf sha st envs))
  | [], st, last, _, ht, _ => by simp [runPolls, specRun, outcomesOf, finalState, lastDelivered, ht]
  | env :: rest, st, last, hwf, ht, hl => by
    have h := resolveLoop_spec sha hinj nameOf env (hwf env List.mem_cons_self) st last ht hl st.methodPriority 0 []
    have ih := runPolls_spec sha hinj nameOf rest (pollStep sha st env).1
      (specPoll last (outcomeOf env st.methodPriority)).1
      (fun e he => hwf e (List.mem_cons_of_mem _ he)) h.2.1 h.2.2
    simp only [runPolls, specRun, outcomesOf, finalState, lastDelivered]
    refine ⟨?_, ih.2⟩
    have hcb : (pollStep sha st env).2.1 = (specPoll last (outcomeOf env st.methodPriority)).2 := h.1
    rw [← ih.1, ← hcb]


/-! ### version fallback and remembered priority -/

theorem outcomeOf_fallback (env : Version → Attempt D) (w : Version) (oc : Outcome D)
    (hoc : outcomeOfAttempt (env w) = some oc) (hother : ∀ v, v ≠ w → env v = .unimplemented) :
    ∀ (prio : List Version), w ∈ prio → outcomeOf env prio = oc
  | [], h => by simp at h
  | m :: rest, h => by
    by_cases hm : m = w
    · subst hm
      cases ha : env m <;> simp [ha, outcomeOfAttempt] at hoc <;> simp [outcomeOf, ha, hoc]
    · have : w ∈ rest := by
        rcases List.mem_cons.mp h with h | h
        · exact absurd h.symm hm
        · exact h
      simp [outcomeOf, hother m hm, outcomeOf_fallback env w oc hoc hother rest this]

theorem perm_set_swap {α : Type} (a b : α) : ∀ (t : List α) (j : Nat), t[j]? = some b → (b :: t.set j a).Perm (a :: t)
  | [], j, h => by simp at h
  | x :: t, 0, h => by
    simp at h; subst h; simp
    exact List.Perm.swap _ _ _
  | x :: t, j + 1, h => by
    simp at h
    have ih := perm_set_swap a b t j h
    simp only [List.set_cons_succ]
    exact (List.Perm.swap x b _).trans ((ih.cons x).trans (List.Perm.swap a x t))

theorem swap0_perm (p : List Version) (i : Nat) : (swap0 p i).Perm p := by
  unfold swap0
  cases p with
  | nil => simp
  | cons a t =>
    cases hi : (a :: t)[i]? with
    | none => simp
    | some b =>
      simp only [List.getElem?_cons_zero, List.set_cons_zero]
      cases i with
      | zero => simp at hi; subst hi; simp
      | succ j =>
        simp at hi
        simp only [List.set_cons_succ]
        exact perm_set_swap a b t j hi

theorem swap0_head (p : List Version) (i : Nat) (m : Version) (h : p[i]? = some m) : (swap0 p i).head? = some m := by
  unfold swap0
  cases p with
  | nil => simp at h
  | cons a t =>
    simp only [List.getElem?_cons_zero, h, List.set_cons_zero]
    cases i with
    | zero => simp at h; subst h; simp
    | succ j => simp

theorem resolveWithMethod_prio (sha : Bytes → H) (st : RState H) (a : Attempt D) :
    (resolveWithMethod sha st a).1.methodPriority = st.methodPriority := by
  cases a with
  | unimplemented => rfl
  | fail c => rfl
  | fetched o p =>
    simp only [resolveWithMethod]
    split
    · rfl
    · cases p <;> rfl

def MethodResult.isSuccess : MethodResult D → Bool
  | .unchanged => true
  | .desc _ => true
  | _ => false

theorem resolveLoop_prio (sha : Bytes → H) (env : Version → Attempt D) (st : RState H) :
    ∀ (l : List Version) (i : Nat) (tried : List Version), st.methodPriority.drop i = l →
      (resolveLoop sha env st l i tried).1.methodPriority.Perm st.methodPriority ∧
      ((resolveLoop sha env st l i tried).2.1.isSuccess = true →
        (resolveLoop sha env st l i tried).1.methodPriority.head? = (resolveLoop sha env st l i tried).2.2.getLast?) ∧
      (∃ k, (l ≠ [] → 1 ≤ k) ∧ (resolveLoop sha env st l i tried).2.2 = tried ++ l.take k)
  | [], i, tried, _ => by
    simp [resolveLoop, MethodResult.isSuccess]
  | m :: rest, i, tried, hd => by
    have hm : st.methodPriority[i]? = some m := by
      have := congrArg List.head? hd
      simpa [List.head?_drop] using this
    have hrest : st.methodPriority.drop (i + 1) = rest := by
      have := congrArg List.tail hd
      simpa [List.tail_drop] using this
    have hp := resolveWithMethod_prio sha st (env m)
    simp only [resolveLoop]
    cases hr : resolveWithMethod sha st (env m) with
    | mk st' r =>
      rw [hr] at hp
      simp only at hp
      cases r with
      | unimplemented =>
        obtain ⟨h1, h2, k, _, h3⟩ := resolveLoop_prio sha env st rest (i + 1) (tried ++ [m]) hrest
        refine ⟨h1, h2, k + 1, by simp, ?_⟩
        simp [h3]
      | err c =>
        refine ⟨by simp [hp], by simp [MethodResult.isSuccess], 1, by simp, by simp⟩
      | unchanged =>
        refine ⟨by simpa [hp] using swap0_perm _ i, ?_, 1, by simp, by simp⟩
        intro _
        simp [hp, swap0_head _ i m hm]
      | desc d =>
        refine ⟨by simpa [hp] using swap0_perm _ i, ?_, 1, by simp, by simp⟩
        intro _
        simp [hp, swap0_head _ i m hm]


/-! ### the empty contract -/

/-- a target that serves nothing (no service left after filtering, hence no files) -/
def emptyObs : Obs := { names := [], files := [] }

theorem emptyObs_wf (nameOf : Bytes → Bytes) : ObsWF nameOf emptyObs := by
  refine ⟨?_, ?_, ⟨?_, ?_, ?_⟩⟩ <;> simp [emptyObs]

theorem empty_differs (l : Obs) (h : l.names ≠ [] ∨ l.files ≠ []) : sameContract emptyObs l = false := by
  unfold sameContract sameSet subsetB emptyObs
  rcases h with h | h
  · cases hn : l.names with
    | nil => exact absurd hn h
    | cons a t => simp
  · cases hf : l.files with
    | nil => exact absurd hf h
    | cons a t => simp

/-- Model of the seeded variant C15-m8: an empty list of names makes `resolveWithMethod` return
    `nil, nil` (the value that means "unchanged") before any fingerprint is computed, compared or saved. -/
def resolveWithMethodShortCircuit (sha : Bytes → H) (st : RState H) : Attempt D → RState H × MethodResult D
  | .fetched o p => if o.names.isEmpty then (st, .unchanged) else resolveWithMethod sha st (.fetched o p)
  | a => resolveWithMethod sha st a

/-- Model of the seeded variant C15-m11: `resolveWithMethod` has NAMED results and a deferred function that, after the
    body has returned (and has already stored both hashes on the success path), finishes the stream and replaces a
    successful result by `(nil, closeErr)` when the stream did not end cleanly (`finishOk = false`). -/
def resolveWithMethodFinishAfterCommit (sha : Bytes → H) (st : RState H) (a : Attempt D) (finishOk : Bool) :
    RState H × MethodResult D :=
  match resolveWithMethod sha st a with
  | (st', .desc d) => if finishOk then (st', .desc d) else (st', .err .other)
  | (st', .unchanged) => if finishOk then (st', .unchanged) else (st', .err .other)
  | r => r

/-- the fingerprint moves only together with a delivered description -/
theorem resolveLoop_commit (sha : Bytes → H) (env : Version → Attempt D) (st : RState H) :
    ∀ (l : List Version) (i : Nat) (tried : List Version),
      (∃ d, (resolveLoop sha env st l i tried).2.1 = .desc d) ∨
      ((resolveLoop sha env st l i tried).1.lastProtoHash = st.lastProtoHash ∧
       (resolveLoop sha env st l i tried).1.lastServicesHash = st.lastServicesHash) := by
  intro l
  induction l with
  | nil => intro i tried; right; simp [resolveLoop]
  | cons m rest ih =>
    intro i tried
    cases he : env m with
    | unimplemented => simp only [resolveLoop, he, resolveWithMethod]; exact ih _ _
    | fail c => right; simp [resolveLoop, he, resolveWithMethod]
    | fetched o parsed =>
      by_cases hc : st.lastProtoHash = some (sha (protoPre o.files)) ∧ st.lastServicesHash = some (sha (svcPre o.names))
      · right; simp [resolveLoop, he, resolveWithMethod, hc]
      · cases parsed with
        | none => right; simp [resolveLoop, he, resolveWithMethod, hc]
        | some d => left; exact ⟨d, by simp [resolveLoop, he, resolveWithMethod, hc]⟩

/-! ### a concrete history (used by the non-vacuity example in Props) -/
def exO1 : Obs := { names := [[97], [98]], files := [⟨[102], [1]⟩] }
def exO1' : Obs := { names := [[98], [97]], files := [⟨[102], [1]⟩] }
def exO2 : Obs := { names := [[97]], files := [⟨[102], [1]⟩] }
def exBoth (a : Attempt Nat) : Version → Attempt Nat := fun _ => a
def exAlphaOnly : Version → Attempt Nat := fun v => match v with | .v1 => .unimplemented | .v1alpha => .fetched exO1 (some 1)
def exHistory : List (Version → Attempt Nat) :=
  [exBoth (.fetched exO1 (some 1)), exBoth (.fetched exO1' (some 1)), exBoth (.fail .unavailable),
   exBoth (.fetched exO1 (some 1)), exBoth (.fetched exO2 none), exBoth (.fetched exO2 (some 2)), exAlphaOnly]

end GB.C15
