import GB.C15.Once
import GB.C15.ProofsWake
/-
  C15 — the `sync.Once` abstraction of the wake-up LTS as a theorem.

  (1) `Once.refines`: every step of the statement-level Once LTS (mutex + done flag, Once.lean) is a
      stutter or ONE step of the three-state abstraction the wake-up LTS uses per channel generation
      (`fire` = the once test-and-set, `closeCh` = f returned), where a loser's `fire` is enabled only
      once the winner's f has COMPLETED.
  (2) `stepO`: the wake-up LTS with exactly that sharper guard. `stepO ⊆ step`, so every safety theorem
      about `step` holds for `stepO`; the poller's and the winner's steps are identical, so the progress
      theorems hold as well; and `stepO` has the extra invariant "a finished ResolveNow call's
      generation is CLOSED" (the call returns after the signal is written, never before).
-/
namespace GB.C15
open GB

namespace Once

/-- What the wake-up LTS keeps of one generation's once: has it been won, has f (the channel
    close) completed, and where each caller is. -/
structure A where
  pc : Nat → CPc
  fired : Bool
  closed : Bool

inductive AL where
  | fire (i : Nat) | closeCh (i : Nat)

def setC (f : Nat → CPc) (i : Nat) (p : CPc) : Nat → CPc := fun j => if j = i then p else f j

/-- `fire` / `closeCh` of Model.lean for a single generation, with the sharper loser guard. -/
def astep (a : A) : AL → Option A
  | .fire i =>
    if a.pc i = .loaded then
      (if a.fired then (if a.closed then some { a with pc := setC a.pc i .finished } else none)
       else some { a with pc := setC a.pc i .won, fired := true })
    else none
  | .closeCh i =>
    if a.pc i = .won then some { a with pc := setC a.pc i .finished, closed := true } else none

def absPc : Pc → CPc
  | .idle | .wantLock | .locked => .loaded
  | .running => .won
  | .storing | .unlocking | .returned => .finished

/-- abstraction relation -/
structure R (s : S) (a : A) : Prop where
  pc : ∀ i, a.pc i = absPc (s.pc i)
  fired : a.fired = decide (1 ≤ s.execs)
  closed : a.closed = decide (1 ≤ s.completed)

theorem R_init : R S.init { pc := fun _ => .loaded, fired := false, closed := false } := by
  constructor <;> simp [S.init, absPc]

/-- **Forward simulation**: a step of the real Once is invisible or is one abstract step. -/
theorem refines (s s' : S) (a : A) (l : L) (hi : Inv s) (hr : R s a) (hs : step s l = some s') :
    R s' a ∨ ∃ l' a', astep a l' = some a' ∧ R s' a' := by
  obtain ⟨hc, hh, hret, hu, hd, hn, hrun, hst⟩ := hi
  obtain ⟨rp, rf, rc⟩ := hr
  cases l with
  | enter i =>
    simp only [step] at hs
    split at hs <;> simp at hs
    rename_i hpc
    cases hdone : s.done with
    | false =>
      left
      subst hs
      constructor
      · intro j; by_cases e : j = i <;> simp_all [setPc, absPc]
      · simpa using rf
      · simpa using rc
    | true =>
      right
      have ⟨he, hcm⟩ := hd hdone
      have hai : a.pc i = .loaded := by rw [rp i, hpc]; rfl
      refine ⟨.fire i, { a with pc := setC a.pc i .finished }, ?_, ?_⟩
      · simp [astep, hai, rf, rc, he, hcm]
      · subst hs
        constructor
        · intro j; by_cases e : j = i <;> simp_all [setPc, setC, absPc]
        · simpa using rf
        · simpa using rc
  | lock i =>
    simp only [step] at hs
    split at hs <;> simp at hs
    rename_i hpc
    left
    subst hs
    constructor
    · intro j; by_cases e : j = i <;> simp_all [setPc, absPc]
    · simpa using rf
    · simpa using rc
  | check i =>
    simp only [step] at hs
    split at hs <;> try simp at hs
    rename_i hpc
    have hai : a.pc i = .loaded := by rw [rp i, hpc]; rfl
    split at hs <;> simp at hs <;> subst hs
    · rename_i hdone
      right
      have ⟨he, hcm⟩ := hd hdone
      refine ⟨.fire i, { a with pc := setC a.pc i .finished }, ?_, ?_⟩
      · simp [astep, hai, rf, rc, he, hcm]
      · constructor
        · intro j; by_cases e : j = i <;> simp_all [setPc, setC, absPc]
        · simpa using rf
        · simpa using rc
    · rename_i hdone
      right
      have hdf : s.done = false := by simpa using hdone
      have hnone : ∀ j, s.pc j ≠ .running ∧ s.pc j ≠ .storing := by
        intro j
        have hci := hc i (by simp [hpc, crit])
        constructor
        · intro hj; have := hc j (by simp [hj, crit]); grind
        · intro hj; have := hc j (by simp [hj, crit]); grind
      have ⟨he, hcm⟩ := hn hdf hnone
      refine ⟨.fire i, { a with pc := setC a.pc i .won, fired := true }, ?_, ?_⟩
      · simp [astep, hai, rf, he]
      · constructor
        · intro j; by_cases e : j = i <;> simp_all [setPc, setC, absPc]
        · simp
        · simpa using rc
  | fret i =>
    simp only [step] at hs
    split at hs <;> simp at hs
    rename_i hpc
    right
    have hai : a.pc i = .won := by rw [rp i, hpc]; rfl
    refine ⟨.closeCh i, { a with pc := setC a.pc i .finished, closed := true }, ?_, ?_⟩
    · simp [astep, hai]
    · subst hs
      constructor
      · intro j; by_cases e : j = i <;> simp_all [setPc, setC, absPc]
      · simpa using rf
      · simp
  | store i =>
    simp only [step] at hs
    split at hs <;> simp at hs
    rename_i hpc
    left
    subst hs
    constructor
    · intro j; by_cases e : j = i <;> simp_all [setPc, absPc]
    · simpa using rf
    · simpa using rc
  | unlock i =>
    simp only [step] at hs
    split at hs <;> simp at hs
    rename_i hpc
    left
    subst hs
    constructor
    · intro j; by_cases e : j = i <;> simp_all [setPc, absPc]
    · simpa using rf
    · simpa using rc

end Once

/-! ### the wake-up LTS with the proved guard -/

/-- `step`, except that a caller that LOST the once of its generation returns only after the
    winner's `close(ch)` (`Once.refines`: the abstract loser step needs `closed`). -/
def stepO (s : W) (l : Lbl) : Option W :=
  match l with
  | .fire i =>
    if (s.callers i).pc = .loaded ∧ (s.callers i).gen ∈ s.fired ∧ (s.callers i).gen ∉ s.closed then none
    else step s l
  | _ => step s l

theorem stepO_sub (s s' : W) (l : Lbl) (h : stepO s l = some s') : step s l = some s' := by
  cases l <;> simp only [stepO] at h <;> try exact h
  split at h
  · simp at h
  · exact h

theorem stepO_protocol (s : W) (l : Lbl) (h : isProtocol l = true) : stepO s l = step s l := by
  cases l <;> simp [isProtocol] at h <;> rfl

theorem reachableO_reachable (m : Bool) (s : W) (h : GB.LTS.Reachable stepO (W.init m) s) :
    GB.LTS.Reachable step (W.init m) s := by
  induction h with
  | init => exact .init
  | step _ hs ih => exact .step ih (stepO_sub _ _ _ hs)

theorem runO_run : ∀ (ls : List Lbl) (s s' : W), GB.LTS.run stepO s ls = some s' → GB.LTS.run step s ls = some s'
  | [], _, _, h => h
  | l :: rest, s, s', h => by
    simp only [GB.LTS.run] at h ⊢
    cases hst : stepO s l with
    | none => simp [hst] at h
    | some s1 =>
      rw [hst] at h
      rw [stepO_sub s s1 l hst]
      exact runO_run rest s1 s' h

/-- the extra invariant of `stepO`: a call that has returned has its generation's channel closed -/
def RetClosed (s : W) : Prop := ∀ i, (s.callers i).pc = .finished → (s.callers i).gen ∈ s.closed

theorem retClosed_init (m : Bool) : RetClosed (W.init m) := by
  intro i h; simp [W.init, Caller.fresh] at h

theorem retClosed_step (s s' : W) (l : Lbl) (h : RetClosed s) (hs : stepO s l = some s') : RetClosed s' := by
  have hst := stepO_sub s s' l hs
  unfold RetClosed at h ⊢
  cases l with
  | fire i =>
    simp only [stepO] at hs
    split at hs
    · simp at hs
    · rename_i hg
      simp only [step] at hs
      split at hs <;> try simp at hs
      rename_i hl
      split at hs <;> simp at hs <;> subst hs
      · rename_i hf
        intro j hj
        by_cases e : j = i
        · subst e
          simp [setCaller] at hj ⊢
          grind
        · simp [setCaller, e] at hj ⊢; exact h j hj
      · intro j hj
        by_cases e : j = i
        · subst e; simp [setCaller] at hj
        · simp [setCaller, e] at hj ⊢; exact h j hj
  | closeCh i =>
    simp only [step] at hst
    split at hst <;> simp at hst
    subst hst
    intro j hj
    by_cases e : j = i
    · subst e; simp [setCaller]
    · simp [setCaller, e] at hj ⊢; exact Or.inr (h j hj)
  | load i =>
    simp only [step] at hst
    split at hst <;> simp at hst
    subst hst
    intro j hj
    by_cases e : j = i
    · subst e; simp [setCaller] at hj
    · simp [setCaller, e] at hj ⊢; exact h j hj
  | pollStart =>
    simp only [step] at hst
    split at hst <;> simp at hst
    subst hst
    intro j hj
    have := h j
    simp only [serveAll] at hj ⊢
    split at hj <;> split <;> simp_all
  | pollEnd cb => simp only [step] at hst; split at hst <;> simp at hst; subst hst; exact h
  | timer => simp only [step] at hst; split at hst <;> simp at hst; subst hst; exact h
  | wake => simp only [step] at hst; split at hst <;> simp at hst; subst hst; exact h
  | takeDone => simp only [step] at hst; split at hst <;> simp at hst; subst hst; exact h
  | mkChan => simp only [step] at hst; split at hst <;> simp at hst; subst hst; exact h
  | storePtr => simp only [step] at hst; split at hst <;> simp at hst; subst hst; exact h
  | closeDone => simp only [step] at hst; split at hst <;> simp at hst; subst hst; exact h
  | closeCall => simp only [step] at hst; split at hst <;> simp at hst; subst hst; exact h
  | closeRet => simp only [step] at hst; split at hst <;> simp at hst; subst hst; exact h

theorem retClosed_reachable (m : Bool) (s : W) (h : GB.LTS.Reachable stepO (W.init m) s) : RetClosed s :=
  GB.LTS.invariant stepO (W.init m) RetClosed (retClosed_init m)
    (fun s l s' hi hs => retClosed_step s s' l hi hs) s h

end GB.C15
