import GB.C03.ProofsCompile
/-
  C03 helper lemmas: index resolution. The INTEGER program `encode` emits (opcode/operand pairs, constant pool
  with de-duplicated first-occurrence indices, fields), read back by the model of `NewPattern` (`npLoop`: pool
  bounds, variable indices, tailLen, pushM-twice) and interpreted by the model of `MatchAndEscape` (`runOps`:
  pool lookups by index, `captured` array by variable index), is the symbolic program of ProofsCompile.lean.
-/
namespace GB.C03
set_option linter.unusedSimpArgs false
set_option linter.unusedVariables false

/-- shape of what the parser produces: literals, field paths non-empty; a field path is not the `eof` token -/
def SOp.ShapeOk : SOp → Prop
  | .lit s => s ≠ []
  | .capture x => x ≠ [] ∧ x ≠ eof
  | _ => True

/-- the typed ops `NewPattern` builds, given the final pool and the index of the next variable -/
def typed (poolF : List Bytes) : List SOp → Nat → List Op
  | [], _ => []
  | .push :: r, k => ⟨opPush, 0⟩ :: typed poolF r k
  | .pushM :: r, k => ⟨opPushM, 0⟩ :: typed poolF r k
  | .lit s :: r, k => ⟨opLitPush, poolF.idxOf (litText s)⟩ :: typed poolF r k
  | .concat n :: r, k => ⟨opConcatN, n⟩ :: typed poolF r k
  | .capture _ :: r, k => ⟨opCapture, k⟩ :: typed poolF r (k + 1)

/-- the accumulator updates of the `NewPattern` loop, on the symbolic program -/
def npSym : List SOp → NPState → Option NPState
  | [], s => some s
  | .push :: r, s =>
    npSym r { s with tailLen := if s.pushMSeen then s.tailLen + 1 else s.tailLen, stack := s.stack + 1 }.bump
  | .pushM :: r, s =>
    if s.pushMSeen then none else npSym r { s with pushMSeen := true, stack := s.stack + 1 }.bump
  | .lit _ :: r, s =>
    npSym r { s with tailLen := if s.pushMSeen then s.tailLen + 1 else s.tailLen, stack := s.stack + 1 }.bump
  | .concat n :: r, s =>
    if n = 0 then none else if s.stack < n then none
    else npSym r { s with stack := s.stack - n + 1 }.bump
  | .capture x :: r, s =>
    if s.stack < 1 then none
    else npSym r { s with vars := s.vars ++ [x], stack := s.stack - 1 }.bump

theorem encode_prefix (ops : List RawOp) : ∀ pool, pool <+: (encode ops pool).2.1 := by
  induction ops with
  | nil => intro pool; simp [encode]
  | cons op rest ih =>
    intro pool
    by_cases h : op.str = []
    · simp only [encode, h, ↓reduceIte]; exact ih pool
    · simp only [encode, h, ↓reduceIte]
      by_cases hm : (if op.str = eof then [] else op.str) ∈ pool
      · simp only [hm, ↓reduceIte]; exact ih pool
      · simp only [hm, ↓reduceIte]; exact (List.prefix_append _ _).trans (ih _)

theorem idxOf_of_prefix {p q : List Bytes} {t : Bytes} (ht : t ∈ p) (hpq : p <+: q) : q.idxOf t = p.idxOf t := by
  obtain ⟨z, rfl⟩ := hpq
  rw [List.idxOf_append]; simp [ht]

theorem getElem?_idxOf_of_mem {q : List Bytes} {t : Bytes} (ht : t ∈ q) : q[q.idxOf t]? = some t := by
  have h := List.idxOf_lt_length_of_mem ht
  rw [List.getElem?_eq_getElem h, List.getElem_idxOf h]

/-- the pool entry (and operand) `encode` produces for a non-empty string operand -/
theorem encode_str (code : Nat) (s : Bytes) (hs : s ≠ []) (rest : List RawOp) (pool : List Bytes) :
    encode (⟨code, s, 0⟩ :: rest) pool =
      let pool' := if litText s ∈ pool then pool else pool ++ [litText s]
      let r := encode rest pool'
      (code :: pool'.idxOf (litText s) :: r.1, r.2.1, if code = opCapture then litText s :: r.2.2 else r.2.2) := by
  simp only [encode, hs, litText, ↓reduceIte]
  rfl

theorem encode_nostr (code n : Nat) (rest : List RawOp) (pool : List Bytes) :
    encode (⟨code, [], n⟩ :: rest) pool =
      let r := encode rest pool
      (code :: n :: r.1, r.2.1, if code = opCapture then [] :: r.2.2 else r.2.2) := by
  simp [encode]

theorem litText_mem_pool' (t : Bytes) (pool : List Bytes) :
    t ∈ (if t ∈ pool then pool else pool ++ [t]) := by
  split
  · assumption
  · simp

/-- `NewPattern`'s loop over the integers `encode` produced = the symbolic loop, with the typed ops resolved
    against the final pool -/
theorem npLoop_encode (sops : List SOp) (hshape : ∀ o ∈ sops, o.ShapeOk) :
    ∀ (pool0 : List Bytes) (s0 : NPState) (poolF : List Bytes),
      (encode (sops.map SOp.raw) pool0).2.1 <+: poolF →
      npLoop poolF (encode (sops.map SOp.raw) pool0).1 s0 =
        (npSym sops s0).map fun sF => (typed poolF sops s0.vars.length, sF) := by
  induction sops with
  | nil => intro pool0 s0 poolF _; simp [encode, npLoop, npSym, typed]
  | cons o r ih =>
    intro pool0 s0 poolF hpre
    have hr : ∀ o ∈ r, o.ShapeOk := fun o ho => hshape o (List.mem_cons_of_mem _ ho)
    cases o with
    | push =>
      simp only [List.map_cons, SOp.raw, encode_nostr] at hpre ⊢
      simp only [npLoop, opNop, opPush, opPushM, opLitPush, opConcatN, opCapture, npSym, typed]
      simp only [show ¬ (1 : Nat) = 0 by decide, ↓reduceIte]
      rw [ih hr pool0 _ poolF hpre]
      cases npSym r _ <;> simp [NPState.bump]
    | pushM =>
      simp only [List.map_cons, SOp.raw, encode_nostr] at hpre ⊢
      simp only [npLoop, opNop, opPush, opPushM, opLitPush, opConcatN, opCapture, npSym, typed]
      simp only [show ¬ (3 : Nat) = 0 by decide, show ¬ (3 : Nat) = 1 by decide, ↓reduceIte]
      by_cases hseen : s0.pushMSeen = true
      · simp [hseen]
      · simp only [hseen, Bool.false_eq_true, ↓reduceIte]
        rw [ih hr pool0 _ poolF hpre]
        cases npSym r _ <;> simp [NPState.bump]
    | lit s =>
      have hs : s ≠ [] := hshape (.lit s) (by simp)
      simp only [List.map_cons, SOp.raw, encode_str _ _ hs] at hpre ⊢
      have hmem := litText_mem_pool' (litText s) pool0
      have hpre' := List.IsPrefix.trans (encode_prefix (r.map SOp.raw) _) hpre
      have hidx := idxOf_of_prefix hmem hpre'
      have hmemF : litText s ∈ poolF := hpre'.subset hmem
      have hlt : ¬ poolF.length ≤ poolF.idxOf (litText s) := by
        have := List.idxOf_lt_length_of_mem hmemF; omega
      simp only [npLoop, opNop, opPush, opPushM, opLitPush, opConcatN, opCapture, npSym, typed]
      simp only [show ¬ (2 : Nat) = 0 by decide, show ¬ (2 : Nat) = 1 by decide, show ¬ (2 : Nat) = 3 by decide, ↓reduceIte]
      rw [← hidx]
      simp only [hlt, ↓reduceIte]
      rw [ih hr _ _ poolF hpre]
      cases npSym r _ <;> simp [NPState.bump]
    | concat n =>
      simp only [List.map_cons, SOp.raw, encode_nostr] at hpre ⊢
      simp only [npLoop, opNop, opPush, opPushM, opLitPush, opConcatN, opCapture, npSym, typed]
      simp only [show ¬ (4 : Nat) = 0 by decide, show ¬ (4 : Nat) = 1 by decide, show ¬ (4 : Nat) = 3 by decide,
        show ¬ (4 : Nat) = 2 by decide, ↓reduceIte]
      by_cases hn : n = 0
      · simp [hn]
      · simp only [hn, ↓reduceIte]
        by_cases hst : s0.stack < n
        · simp [hst]
        · simp only [hst, ↓reduceIte]
          rw [ih hr pool0 _ poolF hpre]
          cases npSym r _ <;> simp [NPState.bump]
    | capture x =>
      have hx := hshape (.capture x) (by simp)
      have hxt : litText x = x := by simp [litText, hx.2]
      simp only [List.map_cons, SOp.raw, encode_str _ _ hx.1] at hpre ⊢
      have hmem := litText_mem_pool' (litText x) pool0
      have hpre' := List.IsPrefix.trans (encode_prefix (r.map SOp.raw) _) hpre
      have hidx := idxOf_of_prefix hmem hpre'
      have hmemF : litText x ∈ poolF := hpre'.subset hmem
      have hget := getElem?_idxOf_of_mem hmemF
      simp only [npLoop, opNop, opPush, opPushM, opLitPush, opConcatN, opCapture, npSym, typed]
      simp only [show ¬ (5 : Nat) = 0 by decide, show ¬ (5 : Nat) = 1 by decide, show ¬ (5 : Nat) = 3 by decide,
        show ¬ (5 : Nat) = 2 by decide, show ¬ (5 : Nat) = 4 by decide, ↓reduceIte]
      rw [← hidx]
      simp only [hget]
      by_cases hst : s0.stack < 1
      · simp [hst]
      · simp only [hst, ↓reduceIte]
        rw [ih hr _ _ poolF hpre, hxt]
        cases npSym r _ <;> simp [NPState.bump]

/-! ### the interpreter with indices = the interpreter with strings -/

def capNames : List SOp → List Bytes
  | [] => []
  | .capture x :: r => x :: capNames r
  | _ :: r => capNames r

theorem set_fill (a : List Bytes) (n : Nat) (top : Bytes) (h : a.length < n) :
    (a ++ List.replicate (n - a.length) []).set a.length top =
      (a ++ [top]) ++ List.replicate (n - (a.length + 1)) [] := by
  induction a generalizing n with
  | nil =>
    cases n with
    | zero => simp at h
    | succ m => simp [List.replicate_succ]
  | cons x xs ih =>
    cases n with
    | zero => simp at h
    | succ m =>
      have := ih m (by simpa using h)
      simp only [List.length_cons, List.cons_append, List.set_cons_succ, Nat.add_sub_add_right] at this ⊢
      rw [this]

/-- `runOps` over the typed ops (pool lookups by index, `captured` array by variable index) is `runSym` -/
theorem runOps_typed (poolF : List Bytes) (tl n : Nat) (sops : List SOp)
    (hlits : ∀ s, SOp.lit s ∈ sops → litText s ∈ poolF) :
    ∀ (caps : Captures) (rest stack : List Bytes), caps.length + (capNames sops).length ≤ n →
      runOps poolF tl (typed poolF sops caps.length) rest stack
          (caps.map (·.2) ++ List.replicate (n - caps.length) []) =
        (runSym tl sops rest stack caps).bind fun out =>
          .ok (out.map (·.2) ++ List.replicate (n - out.length) []) := by
  induction sops with
  | nil =>
    intro caps rest stack _
    simp only [typed, runOps, runSym]
    split <;> simp
  | cons o r ih =>
    intro caps rest stack hn
    have hl : ∀ s, SOp.lit s ∈ r → litText s ∈ poolF := fun s hs => hlits s (List.mem_cons_of_mem _ hs)
    cases o with
    | push =>
      simp only [typed, runOps, runSym, opNop, opPush, opPushM, opLitPush, opConcatN, opCapture, capNames] at hn ⊢
      simp only [show ¬ (1 : Nat) = 0 by decide, show ¬ (1 : Nat) = 2 by decide, ↓reduceIte, true_or]
      cases rest with
      | nil => simp
      | cons c rest' =>
        simp only
        cases unescape false c with
        | none => simp
        | some c' => exact ih hl caps rest' _ hn
    | pushM =>
      simp only [typed, runOps, runSym, opNop, opPush, opPushM, opLitPush, opConcatN, opCapture, capNames] at hn ⊢
      simp only [show ¬ (3 : Nat) = 0 by decide, show ¬ (3 : Nat) = 1 by decide, show ¬ (3 : Nat) = 2 by decide,
        ↓reduceIte, or_self]
      split
      · simp
      · cases unescape true (joinSlash (List.take (rest.length - tl) rest)) with
        | none => simp
        | some c => exact ih hl caps _ _ hn
    | lit s =>
      have hget := getElem?_idxOf_of_mem (hlits s (by simp))
      simp only [typed, runOps, runSym, opNop, opPush, opPushM, opLitPush, opConcatN, opCapture, capNames] at hn ⊢
      simp only [show ¬ (2 : Nat) = 0 by decide, show ¬ (2 : Nat) = 1 by decide, ↓reduceIte, or_true]
      cases rest with
      | nil => simp
      | cons c rest' =>
        simp only [hget]
        by_cases hc : c = litText s
        · simp only [hc, ne_eq, not_true_eq_false, ↓reduceIte]
          exact ih hl caps rest' _ hn
        · simp [hc]
    | concat m =>
      simp only [typed, runOps, runSym, opNop, opPush, opPushM, opLitPush, opConcatN, opCapture, capNames] at hn ⊢
      simp only [show ¬ (4 : Nat) = 0 by decide, show ¬ (4 : Nat) = 1 by decide, show ¬ (4 : Nat) = 2 by decide,
        show ¬ (4 : Nat) = 3 by decide, ↓reduceIte, or_self]
      split
      · simp
      · exact ih hl caps rest _ hn
    | capture x =>
      simp only [typed, runOps, runSym, opNop, opPush, opPushM, opLitPush, opConcatN, opCapture, capNames,
        List.length_cons] at hn ⊢
      simp only [show ¬ (5 : Nat) = 0 by decide, show ¬ (5 : Nat) = 1 by decide, show ¬ (5 : Nat) = 2 by decide,
        show ¬ (5 : Nat) = 3 by decide, show ¬ (5 : Nat) = 4 by decide, ↓reduceIte, or_self]
      cases stack.getLast? with
      | none => simp
      | some top =>
        simp only
        have hlen : (List.map (fun x => x.2) caps ++ List.replicate (n - caps.length) ([] : Bytes)).length = n := by
          simp only [List.length_append, List.length_map, List.length_replicate]; omega
        have hk : ¬ n ≤ caps.length := by omega
        simp only [hlen, hk, ↓reduceIte]
        have hset := set_fill (caps.map (·.2)) n top (by simp only [List.length_map]; omega)
        simp only [List.length_map] at hset
        rw [hset]
        have := ih hl (caps ++ [(x, top)]) rest stack.dropLast (by simp only [List.length_append, List.length_cons, List.length_nil]; omega)
        simp only [List.length_append, List.length_cons, List.length_nil, List.map_append, List.map_cons,
          List.map_nil, Nat.zero_add] at this
        exact this

theorem runSym_names (tl : Nat) (sops : List SOp) : ∀ (rest stack : List Bytes) (caps out : Captures),
    runSym tl sops rest stack caps = .ok out → out.map (·.1) = caps.map (·.1) ++ capNames sops := by
  induction sops with
  | nil =>
    intro rest stack caps out h
    simp only [runSym] at h
    split at h
    · cases h; simp [capNames]
    · cases h
  | cons o r ih =>
    intro rest stack caps out h
    cases o with
    | push =>
      simp only [runSym] at h
      cases rest with
      | nil => cases h
      | cons c rest' =>
        simp only at h
        cases hu : unescape false c with
        | none => rw [hu] at h; cases h
        | some c' => rw [hu] at h; exact ih _ _ _ _ h
    | pushM =>
      simp only [runSym] at h
      split at h
      · cases h
      · cases hu : unescape true (joinSlash (List.take (rest.length - tl) rest)) with
        | none => rw [hu] at h; cases h
        | some c => rw [hu] at h; exact ih _ _ _ _ h
    | lit s =>
      simp only [runSym] at h
      cases rest with
      | nil => cases h
      | cons c rest' =>
        simp only at h
        split at h
        · cases h
        · exact ih _ _ _ _ h
    | concat m =>
      simp only [runSym] at h
      split at h
      · cases h
      · exact ih _ _ _ _ h
    | capture x =>
      simp only [runSym] at h
      cases hg : stack.getLast? with
      | none => rw [hg] at h; cases h
      | some top =>
        rw [hg] at h
        have := ih _ _ _ _ h
        simp only [List.map_append, List.map_cons, List.map_nil, List.append_assoc, List.cons_append,
          List.nil_append] at this
        simpa [capNames] using this

theorem lit_mem_encode (sops : List SOp) (hshape : ∀ o ∈ sops, o.ShapeOk) :
    ∀ (pool0 : List Bytes) (s : Bytes), SOp.lit s ∈ sops → litText s ∈ (encode (sops.map SOp.raw) pool0).2.1 := by
  induction sops with
  | nil => intro _ _ h; cases h
  | cons o r ih =>
    intro pool0 s hs
    have hr : ∀ o ∈ r, o.ShapeOk := fun o ho => hshape o (List.mem_cons_of_mem _ ho)
    cases o with
    | push =>
      simp only [List.map_cons, SOp.raw, encode_nostr]
      rcases List.mem_cons.1 hs with e | e
      · cases e
      · exact ih hr _ _ e
    | pushM =>
      simp only [List.map_cons, SOp.raw, encode_nostr]
      rcases List.mem_cons.1 hs with e | e
      · cases e
      · exact ih hr _ _ e
    | concat m =>
      simp only [List.map_cons, SOp.raw, encode_nostr]
      rcases List.mem_cons.1 hs with e | e
      · cases e
      · exact ih hr _ _ e
    | capture x =>
      have hx := hshape (.capture x) (by simp)
      simp only [List.map_cons, SOp.raw, encode_str _ _ hx.1]
      rcases List.mem_cons.1 hs with e | e
      · cases e
      · exact ih hr _ _ e
    | lit s' =>
      have hs' : s' ≠ [] := hshape (.lit s') (by simp)
      simp only [List.map_cons, SOp.raw, encode_str _ _ hs']
      rcases List.mem_cons.1 hs with e | e
      · cases e
        exact (encode_prefix _ _).subset (litText_mem_pool' _ _)
      · exact ih hr _ _ e

/-! ### `NewPattern` on a compiled template: succeeds iff at most one `**`; `tailLen`, `vars` -/

def seenN (s : NPState) : Nat := if s.pushMSeen then 1 else 0

theorem tailLenOfAtoms_noDeep {as : List VSeg} (h : as.countP VSeg.isDeep = 0) : tailLenOfAtoms as = 0 := by
  induction as with
  | nil => rfl
  | cons a as ih =>
    rw [List.countP_cons] at h
    cases a with
    | deep => simp [VSeg.isDeep] at h
    | lit l => simp only [tailLenOfAtoms]; exact ih (by simp only [VSeg.isDeep] at h; simpa using h)
    | star => simp only [tailLenOfAtoms]; exact ih (by simp only [VSeg.isDeep] at h; simpa using h)

theorem tailLenOfAtoms_append (as bs : List VSeg) :
    tailLenOfAtoms (as ++ bs) =
      if as.countP VSeg.isDeep = 0 then tailLenOfAtoms bs else tailLenOfAtoms as + bs.length := by
  induction as with
  | nil => simp
  | cons a as ih =>
    cases a with
    | deep => simp [tailLenOfAtoms, VSeg.isDeep, List.countP_cons]
    | lit l => simp only [List.cons_append, tailLenOfAtoms, List.countP_cons, VSeg.isDeep]; simpa using ih
    | star => simp only [List.cons_append, tailLenOfAtoms, List.countP_cons, VSeg.isDeep]; simpa using ih

/-- the pushes of a block of atoms in the `NewPattern` loop -/
theorem npSym_atoms (as : List VSeg) (more : List SOp) : ∀ s : NPState,
    (seenN s + as.countP VSeg.isDeep ≤ 1 →
      ∃ s', npSym (as.map VSeg.sym ++ more) s = npSym more s' ∧ s'.stack = s.stack + as.length ∧
        seenN s' = seenN s + as.countP VSeg.isDeep ∧
        s'.tailLen = s.tailLen + (if s.pushMSeen then as.length else tailLenOfAtoms as) ∧ s'.vars = s.vars) ∧
    (1 < seenN s + as.countP VSeg.isDeep → npSym (as.map VSeg.sym ++ more) s = none) := by
  induction as with
  | nil =>
    intro s
    refine ⟨fun _ => ⟨s, rfl, by simp, by simp, ?_, rfl⟩, fun h => ?_⟩
    · by_cases hs : s.pushMSeen = true <;> simp [hs, tailLenOfAtoms]
    · simp only [List.countP_nil, Nat.add_zero, seenN] at h; split at h <;> omega
  | cons a as ih =>
    intro s
    cases a with
    | deep =>
      simp only [List.map_cons, VSeg.sym, List.cons_append, npSym, List.countP_cons, VSeg.isDeep, ↓reduceIte]
      by_cases hs : s.pushMSeen = true
      · simp only [hs, ↓reduceIte, seenN]
        exact ⟨fun h => by omega, fun _ => trivial⟩
      · simp only [hs, Bool.false_eq_true, ↓reduceIte]
        have hs0 : seenN s = 0 := by simp [seenN, hs]
        obtain ⟨ihok, ihfail⟩ := ih ({ s with pushMSeen := true, stack := s.stack + 1 }.bump)
        have h1 : seenN ({ s with pushMSeen := true, stack := s.stack + 1 }.bump) = 1 := by simp [seenN, NPState.bump]
        constructor
        · intro h
          obtain ⟨s', e, hst, hseen, htl, hv⟩ := ihok (by omega)
          refine ⟨s', e, ?_, ?_, ?_, ?_⟩
          · simp only [NPState.bump] at hst; simp only [List.length_cons]; omega
          · omega
          · simp only [NPState.bump, ↓reduceIte] at htl; simp only [tailLenOfAtoms]; exact htl
          · simpa [NPState.bump] using hv
        · intro h
          exact ihfail (by omega)
    | lit l =>
      simp only [List.map_cons, VSeg.sym, List.cons_append, npSym, List.countP_cons, VSeg.isDeep,
        Bool.false_eq_true, ↓reduceIte, Nat.add_zero]
      obtain ⟨ihok, ihfail⟩ := ih ({ s with tailLen := if s.pushMSeen then s.tailLen + 1 else s.tailLen, stack := s.stack + 1 }.bump)
      have h1 : seenN ({ s with tailLen := if s.pushMSeen then s.tailLen + 1 else s.tailLen, stack := s.stack + 1 }.bump) = seenN s := by
        simp [seenN, NPState.bump]
      constructor
      · intro h
        obtain ⟨s', e, hst, hseen, htl, hv⟩ := ihok (by omega)
        refine ⟨s', e, ?_, ?_, ?_, ?_⟩
        · simp only [NPState.bump] at hst; simp only [List.length_cons]; omega
        · omega
        · simp only [NPState.bump] at htl
          by_cases hs : s.pushMSeen = true
          · simp only [hs, ↓reduceIte, List.length_cons] at htl ⊢; omega
          · simp only [hs, Bool.false_eq_true, ↓reduceIte, tailLenOfAtoms] at htl ⊢; exact htl
        · simpa [NPState.bump] using hv
      · intro h; exact ihfail (by omega)
    | star =>
      simp only [List.map_cons, VSeg.sym, List.cons_append, npSym, List.countP_cons, VSeg.isDeep,
        Bool.false_eq_true, ↓reduceIte, Nat.add_zero]
      obtain ⟨ihok, ihfail⟩ := ih ({ s with tailLen := if s.pushMSeen then s.tailLen + 1 else s.tailLen, stack := s.stack + 1 }.bump)
      have h1 : seenN ({ s with tailLen := if s.pushMSeen then s.tailLen + 1 else s.tailLen, stack := s.stack + 1 }.bump) = seenN s := by
        simp [seenN, NPState.bump]
      constructor
      · intro h
        obtain ⟨s', e, hst, hseen, htl, hv⟩ := ihok (by omega)
        refine ⟨s', e, ?_, ?_, ?_, ?_⟩
        · simp only [NPState.bump] at hst; simp only [List.length_cons]; omega
        · omega
        · simp only [NPState.bump] at htl
          by_cases hs : s.pushMSeen = true
          · simp only [hs, ↓reduceIte, List.length_cons] at htl ⊢; omega
          · simp only [hs, Bool.false_eq_true, ↓reduceIte, tailLenOfAtoms] at htl ⊢; exact htl
        · simpa [NPState.bump] using hv
      · intro h; exact ihfail (by omega)

def Seg.ShapeOk : Seg → Prop
  | .plain v => v.sym.ShapeOk
  | .var x ps => x ≠ [] ∧ x ≠ eof ∧ ps ≠ [] ∧ ∀ p ∈ ps, p.sym.ShapeOk

/-- what the parser guarantees about its output: non-empty literals and field paths (never the `eof` token),
    variables with at least one part -/
def Tmpl.ShapeOk (t : Tmpl) : Prop := ∀ s ∈ t.segs, s.ShapeOk

theorem symOps_cons (s : Seg) (segs : List Seg) : symOps (s :: segs) = s.sym ++ symOps segs := by
  simp [symOps]

theorem capNames_append (a b : List SOp) : capNames (a ++ b) = capNames a ++ capNames b := by
  induction a with
  | nil => rfl
  | cons o r ih => cases o <;> simp [capNames, ih]

theorem capNames_atoms (as : List VSeg) : capNames (as.map VSeg.sym) = [] := by
  induction as with
  | nil => rfl
  | cons a as ih => cases a <;> simp [capNames, VSeg.sym, ih]

theorem tail_combine (s s' : NPState) (as A : List VSeg) (hc : seenN s + as.countP VSeg.isDeep ≤ 1)
    (hseen : seenN s' = seenN s + as.countP VSeg.isDeep)
    (htl : s'.tailLen = s.tailLen + (if s.pushMSeen then as.length else tailLenOfAtoms as)) :
    s'.tailLen + (if s'.pushMSeen then A.length else tailLenOfAtoms A) =
      s.tailLen + (if s.pushMSeen then (as ++ A).length else tailLenOfAtoms (as ++ A)) := by
  rw [htl, tailLenOfAtoms_append, List.length_append]
  by_cases h1 : s.pushMSeen = true <;> by_cases h2 : s'.pushMSeen = true <;>
    simp only [seenN, h1, h2, ↓reduceIte, Bool.false_eq_true] at hc hseen ⊢
  · omega
  · omega
  · have : ¬ as.countP VSeg.isDeep = 0 := by omega
    simp only [this, ↓reduceIte]; omega
  · have h0 : as.countP VSeg.isDeep = 0 := by omega
    simp only [h0, ↓reduceIte, tailLenOfAtoms_noDeep h0]; omega

theorem npSym_segs (segs : List Seg) (hshape : ∀ s ∈ segs, s.ShapeOk) : ∀ s : NPState,
    (seenN s + deepCount segs ≤ 1 →
      ∃ sF, npSym (symOps segs) s = some sF ∧
        sF.tailLen = s.tailLen + (if s.pushMSeen then (atomsOf segs).length else tailLenOfAtoms (atomsOf segs)) ∧
        sF.vars = s.vars ++ capNames (symOps segs)) ∧
    (1 < seenN s + deepCount segs → npSym (symOps segs) s = none) := by
  induction segs with
  | nil =>
    intro s
    refine ⟨fun _ => ⟨s, rfl, ?_, by simp [symOps, capNames]⟩, fun h => ?_⟩
    · by_cases hs : s.pushMSeen = true <;> simp [hs, atomsOf, tailLenOfAtoms]
    · simp only [deepCount, atomsOf, List.flatMap_nil, List.countP_nil, Nat.add_zero, seenN] at h
      split at h <;> omega
  | cons sg segs ih =>
    intro s
    have hsh : ∀ s ∈ segs, s.ShapeOk := fun x hx => hshape x (List.mem_cons_of_mem _ hx)
    have hsg := hshape sg (by simp)
    rw [symOps_cons, deepCount_cons, atomsOf_cons]
    cases sg with
    | plain v =>
      have hsym : (Seg.plain v).sym ++ symOps segs = [v].map VSeg.sym ++ symOps segs := rfl
      rw [hsym]
      simp only [Seg.atoms]
      obtain ⟨aok, afail⟩ := npSym_atoms [v] (symOps segs) s
      constructor
      · intro h
        obtain ⟨s', e, _, hseen, htl, hv⟩ := aok (by omega)
        obtain ⟨sF, e2, htl2, hv2⟩ := (ih hsh s').1 (by omega)
        refine ⟨sF, by rw [e, e2], ?_, ?_⟩
        · rw [htl2]; exact tail_combine s s' [v] (atomsOf segs) (by omega) hseen htl
        · rw [hv2, hv, capNames_append, capNames_atoms]; rfl
      · intro h
        by_cases hb : 1 < seenN s + [v].countP VSeg.isDeep
        · exact afail hb
        · obtain ⟨s', e, _, hseen, _, _⟩ := aok (by omega)
          rw [e]; exact (ih hsh s').2 (by omega)
    | var x ps =>
      obtain ⟨hx1, hx2, hps, _⟩ := hsg
      have hsym : (Seg.var x ps).sym ++ symOps segs =
          ps.map VSeg.sym ++ (SOp.concat ps.length :: SOp.capture x :: symOps segs) := by
        simp [Seg.sym]
      rw [hsym]
      simp only [Seg.atoms]
      obtain ⟨aok, afail⟩ := npSym_atoms ps (SOp.concat ps.length :: SOp.capture x :: symOps segs) s
      have hlen : ps.length ≠ 0 := by
        intro h0; exact hps (List.eq_nil_of_length_eq_zero h0)
      -- after the parts: ConcatN (never underflows) and Capture
      have hblock : ∀ s' : NPState, s'.stack = s.stack + ps.length →
          ∃ s3, npSym (SOp.concat ps.length :: SOp.capture x :: symOps segs) s' = npSym (symOps segs) s3 ∧
            seenN s3 = seenN s' ∧ s3.tailLen = s'.tailLen ∧ s3.pushMSeen = s'.pushMSeen ∧ s3.vars = s'.vars ++ [x] := by
        intro s' hst
        have h1 : ¬ s'.stack < ps.length := by omega
        simp only [npSym, hlen, ↓reduceIte, h1]
        have h2 : ¬ ({ s' with stack := s'.stack - ps.length + 1 }.bump).stack < 1 := by
          simp [NPState.bump]
        simp only [h2, ↓reduceIte]
        exact ⟨_, rfl, by simp [seenN, NPState.bump], by simp [NPState.bump], by simp [NPState.bump],
          by simp [NPState.bump]⟩
      constructor
      · intro h
        obtain ⟨s', e, hst, hseen, htl, hv⟩ := aok (by omega)
        obtain ⟨s3, e3, hseen3, htl3, hp3, hv3⟩ := hblock s' hst
        obtain ⟨sF, e2, htl2, hv2⟩ := (ih hsh s3).1 (by omega)
        refine ⟨sF, by rw [e, e3, e2], ?_, ?_⟩
        · rw [htl2, htl3, hp3]; exact tail_combine s s' ps (atomsOf segs) (by omega) hseen htl
        · rw [hv2, hv3, hv, capNames_append, capNames_atoms]; simp [capNames]
      · intro h
        by_cases hb : 1 < seenN s + ps.countP VSeg.isDeep
        · exact afail hb
        · obtain ⟨s', e, hst, hseen, _, _⟩ := aok (by omega)
          obtain ⟨s3, e3, hseen3, _, _, _⟩ := hblock s' hst
          rw [e, e3]; exact (ih hsh s3).2 (by omega)

theorem zip_fst_snd (b : Captures) : (b.map (·.1)).zip (b.map (·.2)) = b := by
  induction b with
  | nil => rfl
  | cons x xs ih => simp [ih]

theorem symOps_shape (segs : List Seg) (h : ∀ s ∈ segs, s.ShapeOk) : ∀ o ∈ symOps segs, o.ShapeOk := by
  intro o ho
  simp only [symOps, List.mem_flatMap] at ho
  obtain ⟨sg, hsg, ho⟩ := ho
  have hs := h sg hsg
  cases sg with
  | plain v =>
    simp only [Seg.sym, List.mem_singleton] at ho
    subst ho; exact hs
  | var x ps =>
    obtain ⟨hx1, hx2, _, hp⟩ := hs
    simp only [Seg.sym, List.mem_append, List.mem_map, List.mem_cons, List.not_mem_nil, or_false] at ho
    rcases ho with ⟨p, hp', rfl⟩ | rfl | rfl
    · exact hp p hp'
    · trivial
    · exact ⟨hx1, hx2⟩

/-- `NewPattern` on the compiled template: succeeds iff at most one `**`; its ops, pool, vars, tailLen, verb -/
theorem newPattern_compile (t : Tmpl) (hs : t.ShapeOk) :
    (deepCount t.segs ≤ 1 →
      ∃ P, newPattern 1 (compile t).opcodes (compile t).pool (compile t).verb = some P ∧
        P.ops = typed (compile t).pool (symOps t.segs) 0 ∧ P.pool = (compile t).pool ∧
        P.vars = capNames (symOps t.segs) ∧ P.tailLen = tailLenOfAtoms (atomsOf t.segs) ∧ P.verb = t.verb) ∧
    (1 < deepCount t.segs → newPattern 1 (compile t).opcodes (compile t).pool (compile t).verb = none) := by
  have hloop := npLoop_encode (symOps t.segs) (symOps_shape t.segs hs) [] {}
    (encode ((symOps t.segs).map SOp.raw) []).2.1 (List.prefix_refl _)
  rw [← rawOps_eq_sym] at hloop
  have hseg := npSym_segs t.segs hs {}
  have h0 : seenN ({} : NPState) = 0 := rfl
  constructor
  · intro hd
    obtain ⟨sF, e, htl, hv⟩ := hseg.1 (by omega)
    simp only [newPattern, compile, ne_eq, not_true_eq_false, ↓reduceIte, hloop, e, Option.map_some]
    exact ⟨_, rfl, rfl, rfl, by simpa using hv, by simpa using htl, rfl⟩
  · intro hd
    have e := hseg.2 (by omega)
    simp only [newPattern, compile, ne_eq, not_true_eq_false, ↓reduceIte, hloop, e, Option.map_none]

/-- The interpreter the gateway runs — `MatchAndEscape` of the `Pattern` that `NewPattern` builds from the integer
    program and pool `Compile` emits — computes the structural matcher, for every component list and verb. -/
theorem matchAndEscape_compile (t : Tmpl) (hs : t.ShapeOk) (hd : deepCount t.segs ≤ 1) :
    ∃ P, newPattern 1 (compile t).opcodes (compile t).pool (compile t).verb = some P ∧ P.verb = t.verb ∧
      ∀ comps verb, matchAndEscape P comps verb = matchTmpl t comps verb := by
  obtain ⟨P, hP, hops, hpool, hvars, htl, hverb⟩ := (newPattern_compile t hs).1 hd
  refine ⟨P, hP, hverb, ?_⟩
  have hlits : ∀ s, SOp.lit s ∈ symOps t.segs → litText s ∈ (compile t).pool := by
    intro s hs'
    have := lit_mem_encode (symOps t.segs) (symOps_shape t.segs hs) [] s hs'
    rw [← rawOps_eq_sym] at this
    exact this
  -- the op loop, for any component list
  have hrun : ∀ cs : List Bytes,
      (match runOps P.pool P.tailLen P.ops cs [] (List.replicate P.vars.length []) with
        | .ok captured => MatchRes.ok (P.vars.zip captured)
        | .notMatch => .notMatch
        | .malformed => .malformed
        | .fault => .fault) = matchSegs t.segs cs := by
    intro cs
    have h1 := runOps_typed (compile t).pool (tailLenOfAtoms (atomsOf t.segs)) (capNames (symOps t.segs)).length
      (symOps t.segs) hlits [] cs [] (by simp)
    simp only [List.length_nil, List.map_nil, List.nil_append, Nat.sub_zero] at h1
    rw [hops, hpool, htl, hvars, h1, runSym_segs _ _ _ _ _ (tailOk_tailLenOfAtoms _ hd)]
    cases hm : matchSegs t.segs cs with
    | ok b =>
      simp only [bind_ok, List.nil_append]
      have hn := runSym_names (tailLenOfAtoms (atomsOf t.segs)) (symOps t.segs) cs [] [] b (by
        rw [runSym_segs _ _ _ _ _ (tailOk_tailLenOfAtoms _ hd), hm]; simp)
      simp only [List.map_nil, List.nil_append] at hn
      have hl : (capNames (symOps t.segs)).length = b.length := by rw [← hn]; simp
      rw [hl, Nat.sub_self, List.replicate_zero, List.append_nil, ← hn]
      congr 1
      exact zip_fst_snd b
    | notMatch => simp
    | malformed => simp
    | fault => simp
  intro comps verb
  unfold matchAndEscape matchTmpl
  rw [hverb]
  split
  · rfl
  · exact hrun _

/-! ### the code-level routing table = the AST-level routing table -/

theorem mkRouteC_eq_A (id : RouteId) (m : Bytes) (t : Option Tmpl) (hs : ∀ t', t = some t' → t'.ShapeOk) :
    mkRouteC id m t = mkRouteA id m t := by
  cases t with
  | none => rfl
  | some t =>
    have hsh := hs t rfl
    by_cases hd : deepCount t.segs ≤ 1
    · obtain ⟨P, hP, hverb, hrun⟩ := matchAndEscape_compile t hsh hd
      simp only [mkRouteC, mkRouteA, hP, hd, ↓reduceIte, hverb]
      have : matchAndEscape P = matchTmpl t := by funext c v; exact hrun c v
      rw [this]
    · have := (newPattern_compile t hsh).2 (by omega)
      simp only [mkRouteC, mkRouteA, this, hd, ↓reduceIte]

/-- every template of the descriptions has the parser's shape -/
def TargetsShapeOk (ts : List TargetD) : Prop :=
  ∀ T ∈ ts, ∀ S ∈ T.services, ∀ M ∈ S.methods,
    (∀ t, M.dflt = some t → t.ShapeOk) ∧ ∀ B ∈ M.bindings, ∀ t, B.pattern = some t → t.ShapeOk

theorem mem_of_mem_enum {α} {xs : List α} {p : Nat × α} (h : p ∈ enum xs) : p.2 ∈ xs := by
  have := (mem_enum (i := p.1) (x := p.2)).1 h
  exact List.mem_of_getElem? this

theorem flatMap_congr' {α β} {l : List α} {f g : α → List β} (h : ∀ a ∈ l, f a = g a) :
    l.flatMap f = l.flatMap g := by
  induction l with
  | nil => rfl
  | cons x xs ih =>
    simp only [List.flatMap_cons]
    rw [h x (by simp), ih (fun a ha => h a (List.mem_cons_of_mem _ ha))]

theorem buildTable_C_eq_A (ts : List TargetD) (hs : TargetsShapeOk ts) :
    buildTable mkRouteC ts = buildTable mkRouteA ts := by
  unfold buildTable
  apply flatMap_congr'
  intro pt hpt
  unfold buildTarget
  apply flatMap_congr'
  intro ps hps
  apply flatMap_congr'
  intro pm hpm
  have hM := hs pt.2 (mem_of_mem_enum hpt) ps.2 (mem_of_mem_enum hps) pm.2 (mem_of_mem_enum hpm)
  unfold buildMethod
  split
  · exact mkRouteC_eq_A _ _ _ hM.1
  · apply flatMap_congr'
    intro pb hpb
    exact mkRouteC_eq_A _ _ _ (hM.2 pb.2 (mem_of_mem_enum hpb))

end GB.C03
