import GB.C03.ProofsCompile
/-
  C03 helper lemmas: index resolution. The INTEGER program `encode` emits (opcode/operand pairs, constant pool
  with de-duplicated first-occurrence indices, fields), read back by the model of `NewPattern` (`npLoop`: pool
  bounds, variable indices, tailLen, pushM-twice) and interpreted by the model of `MatchAndEscape` (`runOps`:
  pool lookups by index, `captured` array by variable index), is the symbolic program of ProofsCompile.lean.
-/
namespace GB.C03
set_option linter.unusedSimpArgs false
set_option linter.unusedVariables false

/-- shape of what the parser produces: literals, field paths non-empty; a field path is not the `eof` token -/
def SOp.ShapeOk : SOp → Prop
  | .lit s => s ≠ []
  | .capture x => x ≠ [] ∧ x ≠ eof
  | _ => True

/-- the typed ops `NewPattern` builds, given the final pool and the index of the next variable -/
def typed (poolF : List Bytes) : List SOp → Nat → List Op
  | [], _ => []
  | .push :: r, k => ⟨opPush, 0⟩ :: typed poolF r k
  | .pushM :: r, k => ⟨opPushM, 0⟩ :: typed poolF r k
  | .lit s :: r, k => ⟨opLitPush, poolF.idxOf (litText s)⟩ :: typed poolF r k
  | .concat n :: r, k => ⟨opConcatN, n⟩ :: typed poolF r k
  | .capture _ :: r, k => ⟨opCapture, k⟩ :: typed poolF r (k + 1)

/-- the accumulator updates of the `NewPattern` loop, on the symbolic program -/
def npSym : List SOp → NPState → Option NPState
  | [], s => some s
  | .push :: r, s =>
    npSym r { s with tailLen := if s.pushMSeen then s.tailLen + 1 else s.tailLen, stack := s.stack + 1 }.bump
  | .pushM :: r, s =>
    if s.pushMSeen then none else npSym r { s with pushMSeen := true, stack := s.stack + 1 }.bump
  | .lit _ :: r, s =>
    npSym r { s with tailLen := if s.pushMSeen then s.tailLen + 1 else s.tailLen, stack := s.stack + 1 }.bump
  | .concat n :: r, s =>
    if n = 0 then none else if s.stack < n then none
    else npSym r { s with stack := s.stack - n + 1 }.bump
  | .capture x :: r, s =>
    if s.stack < 1 then none
    else npSym r { s with vars := s.vars ++ [x], stack := s.stack - 1 }.bump

theorem encode_prefix (ops : List RawOp) : ∀ pool, pool <+: (encode ops pool).2.1 := by
  induction ops with
  | nil => intro pool; simp [encode]
  | cons op rest ih =>
    intro pool
    by_cases h : op.str = []
    · simp only [encode, h, ↓reduceIte]; exact ih pool
    · simp only [encode, h, ↓reduceIte]
      by_cases hm : (if op.str = eof then [] else op.str) ∈ pool
      · simp only [hm, ↓reduceIte]; exact ih pool
      · simp only [hm, ↓reduceIte]; exact (List.prefix_append _ _).trans (ih _)

theorem idxOf_of_prefix {p q : List Bytes} {t : Bytes} (ht : t ∈ p) (hpq : p <+: q) : q.idxOf t = p.idxOf t := by
  obtain ⟨z, rfl⟩ := hpq
  rw [List.idxOf_append]; simp [ht]

theorem getElem?_idxOf_of_mem {q : List Bytes} {t : Bytes} (ht : t ∈ q) : q[q.idxOf t]? = some t := by
  have h := List.idxOf_lt_length_of_mem ht
  rw [List.getElem?_eq_getElem h, List.getElem_idxOf h]

/-- the pool entry (and operand) `encode` produces for a non-empty string operand -/
theorem encode_str (code : Nat) (s : Bytes) (hs : s ≠ []) (rest : List RawOp) (pool : List Bytes) :
    encode (⟨code, s, 0⟩ :: rest) pool =
      let pool' := if litText s ∈ pool then pool else pool ++ [litText s]
      let r := encode rest pool'
      (code :: pool'.idxOf (litText s) :: r.1, r.2.1, if code = opCapture then litText s :: r.2.2 else r.2.2) := by
  simp only [encode, hs, litText, ↓reduceIte]
  rfl

theorem encode_nostr (code n : Nat) (rest : List RawOp) (pool : List Bytes) :
    encode (⟨code, [], n⟩ :: rest) pool =
      let r := encode rest pool
      (code :: n :: r.1, r.2.1, if code = opCapture then [] :: r.2.2 else r.2.2) := by
  simp [encode]

theorem litText_mem_pool' (t : Bytes) (pool : List Bytes) :
    t ∈ (if t ∈ pool then pool else pool ++ [t]) := by
  split
  · assumption
  · simp

/-- `NewPattern`'s loop over the integers `encode` produced = the symbolic loop, with the typed ops resolved
    against the final pool -/
theorem npLoop_encode (sops : List SOp) (hshape : ∀ o ∈ sops, o.ShapeOk) :
    ∀ (pool0 : List Bytes) (s0 : NPState) (poolF : List Bytes),
      (encode (sops.map SOp.raw) pool0).2.1 <+: poolF →
      npLoop poolF (encode (sops.map SOp.raw) pool0).1 s0 =
        (npSym sops s0).map fun sF => (typed poolF sops s0.vars.length, sF) := by
  induction sops with
  | nil => intro pool0 s0 poolF _; simp [encode, npLoop, npSym, typed]
  | cons o r ih =>
    intro pool0 s0 poolF hpre
    have hr : ∀ o ∈ r, o.ShapeOk := fun o ho => hshape o (List.mem_cons_of_mem _ ho)
    cases o with
    | push =>
      simp only [List.map_cons, SOp.raw, encode_nostr] at hpre ⊢
      simp only [npLoop, opNop, opPush, opPushM, opLitPush, opConcatN, opCapture, npSym, typed]
      simp only [show ¬ (1 : Nat) = 0 by decide, ↓reduceIte]
      rw [ih hr pool0 _ poolF hpre]
      cases npSym r _ <;> simp [NPState.bump]
    | pushM =>
      simp only [List.map_cons, SOp.raw, encode_nostr] at hpre ⊢
      simp only [npLoop, opNop, opPush, opPushM, opLitPush, opConcatN, opCapture, npSym, typed]
      simp only [show ¬ (3 : Nat) = 0 by decide, show ¬ (3 : Nat) = 1 by decide, ↓reduceIte]
      by_cases hseen : s0.pushMSeen = true
      · simp [hseen]
      · simp only [hseen, Bool.false_eq_true, ↓reduceIte]
        rw [ih hr pool0 _ poolF hpre]
        cases npSym r _ <;> simp [NPState.bump]
    | lit s =>
      have hs : s ≠ [] := hshape (.lit s) (by simp)
      simp only [List.map_cons, SOp.raw, encode_str _ _ hs] at hpre ⊢
      have hmem := litText_mem_pool' (litText s) pool0
      have hpre' := List.IsPrefix.trans (encode_prefix (r.map SOp.raw) _) hpre
      have hidx := idxOf_of_prefix hmem hpre'
      have hmemF : litText s ∈ poolF := hpre'.subset hmem
      have hlt : ¬ poolF.length ≤ poolF.idxOf (litText s) := by
        have := List.idxOf_lt_length_of_mem hmemF; omega
      simp only [npLoop, opNop, opPush, opPushM, opLitPush, opConcatN, opCapture, npSym, typed]
      simp only [show ¬ (2 : Nat) = 0 by decide, show ¬ (2 : Nat) = 1 by decide, show ¬ (2 : Nat) = 3 by decide, ↓reduceIte]
      rw [← hidx]
      simp only [hlt, ↓reduceIte]
      rw [ih hr _ _ poolF hpre]
      cases npSym r _ <;> simp [NPState.bump]
    | concat n =>
      simp only [List.map_cons, SOp.raw, encode_nostr] at hpre ⊢
      simp only [npLoop, opNop, opPush, opPushM, opLitPush, opConcatN, opCapture, npSym, typed]
      simp only [show ¬ (4 : Nat) = 0 by decide, show ¬ (4 : Nat) = 1 by decide, show ¬ (4 : Nat) = 3 by decide,
        show ¬ (4 : Nat) = 2 by decide, ↓reduceIte]
      by_cases hn : n = 0
      · simp [hn]
      · simp only [hn, ↓reduceIte]
        by_cases hst : s0.stack < n
        · simp [hst]
        · simp only [hst, ↓reduceIte]
          rw [ih hr pool0 _ poolF hpre]
          cases npSym r _ <;> simp [NPState.bump]
    | capture x =>
      have hx := hshape (.capture x) (by simp)
      have hxt : litText x = x := by simp [litText, hx.2]
      simp only [List.map_cons, SOp.raw, encode_str _ _ hx.1] at hpre ⊢
      have hmem := litText_mem_pool' (litText x) pool0
      have hpre' := List.IsPrefix.trans (encode_prefix (r.map SOp.raw) _) hpre
      have hidx := idxOf_of_prefix hmem hpre'
      have hmemF : litText x ∈ poolF := hpre'.subset hmem
      have hget := getElem?_idxOf_of_mem hmemF
      simp only [npLoop, opNop, opPush, opPushM, opLitPush, opConcatN, opCapture, npSym, typed]
      simp only [show ¬ (5 : Nat) = 0 by decide, show ¬ (5 : Nat) = 1 by decide, show ¬ (5 : Nat) = 3 by decide,
        show ¬ (5 : Nat) = 2 by decide, show ¬ (5 : Nat) = 4 by decide, ↓reduceIte]
      rw [← hidx]
      simp only [hget]
      by_cases hst : s0.stack < 1
      · simp [hst]
      · simp only [hst, ↓reduceIte]
        rw [ih hr _ _ poolF hpre, hxt]
        cases npSym r _ <;> simp [NPState.bump]

/-! ### the interpreter with indices = the interpreter with strings -/

def capNames : List SOp → List Bytes
  | [] => []
  | .capture x :: r => x :: capNames r
  | _ :: r => capNames r

theorem set_fill (a : List Bytes) (n : Nat) (top : Bytes) (h : a.length < n) :
    (a ++ List.replicate (n - a.length) []).set a.length top =
      (a ++ [top]) ++ List.replicate (n - (a.length + 1)) [] := by
  induction a generalizing n with
  | nil =>
    cases n with
    | zero => simp at h
    | succ m => simp [List.replicate_succ]
  | cons x xs ih =>
    cases n with
    | zero => simp at h
    | succ m =>
      have := ih m (by simpa using h)
      simp only [List.length_cons, List.cons_append, List.set_cons_succ, Nat.add_sub_add_right] at this ⊢
      rw [this]

/-- `runOps` over the typed ops (pool lookups by index, `captured` array by variable index) is `runSym` -/
theorem runOps_typed (poolF : List Bytes) (tl n : Nat) (sops : List SOp)
    (hlits : ∀ s, SOp.lit s ∈ sops → litText s ∈ poolF) :
    ∀ (caps : Captures) (rest stack : List Bytes), caps.length + (capNames sops).length ≤ n →
      runOps poolF tl (typed poolF sops caps.length) rest stack
          (caps.map (·.2) ++ List.replicate (n - caps.length) []) =
        (runSym tl sops rest stack caps).bind fun out =>
          .ok (out.map (·.2) ++ List.replicate (n - out.length) []) := by
  induction sops with
  | nil =>
    intro caps rest stack _
    simp only [typed, runOps, runSym]
    split <;> simp
  | cons o r ih =>
    intro caps rest stack hn
    have hl : ∀ s, SOp.lit s ∈ r → litText s ∈ poolF := fun s hs => hlits s (List.mem_cons_of_mem _ hs)
    cases o with
    | push =>
      simp only [typed, runOps, runSym, opNop, opPush, opPushM, opLitPush, opConcatN, opCapture, capNames] at hn ⊢
      simp only [show ¬ (1 : Nat) = 0 by decide, show ¬ (1 : Nat) = 2 by decide, ↓reduceIte, true_or]
      cases rest with
      | nil => simp
      | cons c rest' =>
        simp only
        cases unescape false c with
        | none => simp
        | some c' => exact ih hl caps rest' _ hn
    | pushM =>
      simp only [typed, runOps, runSym, opNop, opPush, opPushM, opLitPush, opConcatN, opCapture, capNames] at hn ⊢
      simp only [show ¬ (3 : Nat) = 0 by decide, show ¬ (3 : Nat) = 1 by decide, show ¬ (3 : Nat) = 2 by decide,
        ↓reduceIte, or_self]
      split
      · simp
      · cases unescape true (joinSlash (List.take (rest.length - tl) rest)) with
        | none => simp
        | some c => exact ih hl caps _ _ hn
    | lit s =>
      have hget := getElem?_idxOf_of_mem (hlits s (by simp))
      simp only [typed, runOps, runSym, opNop, opPush, opPushM, opLitPush, opConcatN, opCapture, capNames] at hn ⊢
      simp only [show ¬ (2 : Nat) = 0 by decide, show ¬ (2 : Nat) = 1 by decide, ↓reduceIte, or_true]
      cases rest with
      | nil => simp
      | cons c rest' =>
        simp only [hget]
        by_cases hc : c = litText s
        · simp only [hc, ne_eq, not_true_eq_false, ↓reduceIte]
          exact ih hl caps rest' _ hn
        · simp [hc]
    | concat m =>
      simp only [typed, runOps, runSym, opNop, opPush, opPushM, opLitPush, opConcatN, opCapture, capNames] at hn ⊢
      simp only [show ¬ (4 : Nat) = 0 by decide, show ¬ (4 : Nat) = 1 by decide, show ¬ (4 : Nat) = 2 by decide,
        show ¬ (4 : Nat) = 3 by decide, ↓reduceIte, or_self]
      split
      · simp
      · exact ih hl caps rest _ hn
    | capture x =>
      simp only [typed, runOps, runSym, opNop, opPush, opPushM, opLitPush, opConcatN, opCapture, capNames,
        List.length_cons] at hn ⊢
      simp only [show ¬ (5 : Nat) = 0 by decide, show ¬ (5 : Nat) = 1 by decide, show ¬ (5 : Nat) = 2 by decide,
        show ¬ (5 : Nat) = 3 by decide, show ¬ (5 : Nat) = 4 by decide, ↓reduceIte, or_self]
      cases stack.getLast? with
      | none => simp
      | some top =>
        simp only
        have hlen : (List.map (fun x => x.2) caps ++ List.replicate (n - caps.length) ([] : Bytes)).length = n := by
          simp only [List.length_append, List.length_map, List.length_replicate]; omega
        have hk : ¬ n ≤ caps.length := by omega
        simp only [hlen, hk, ↓reduceIte]
        have hset := set_fill (caps.map (·.2)) n top (by simp only [List.length_map]; omega)
        simp only [List.length_map] at hset
        rw [hset]
        have := ih hl (caps ++ [(x, top)]) rest stack.dropLast (by simp only [List.length_append, List.length_cons, List.length_nil]; omega)
        simp only [List.length_append, List.length_cons, List.length_nil, List.map_append, List.map_cons,
          List.map_nil, Nat.zero_add] at this
        exact this

theorem runSym_names (tl : Nat) (sops : List SOp) : ∀ (rest stack : List Bytes) (caps out : Captures),
    runSym tl sops rest stack caps = .ok out → out.map (·.1) = caps.map (·.1) ++ capNames sops := by
  induction sops with
  | nil =>
    intro rest stack caps out h
    simp only [runSym] at h
    split at h
    · cases h; simp [capNames]
    · cases h
  | cons o r ih =>
    intro rest stack caps out h
    cases o with
    | push =>
      simp only [runSym] at h
      cases rest with
      | nil => cases h
      | cons c rest' =>
        simp only at h
        cases hu : unescape false c with
        | none => rw [hu] at h; cases h
        | some c' => rw [hu] at h; exact ih _ _ _ _ h
    | pushM =>
      simp only [runSym] at h
      split at h
      · cases h
      · cases hu : unescape true (joinSlash (List.take (rest.length - tl) rest)) with
        | none => rw [hu] at h; cases h
        | some c => rw [hu] at h; exact ih _ _ _ _ h
    | lit s =>
      simp only [runSym] at h
      cases rest with
      | nil => cases h
      | cons c rest' =>
        simp only at h
        split at h
        · cases h
        · exact ih _ _ _ _ h
    | concat m =>
      simp only [runSym] at h
      split at h
      · cases h
      · exact ih _ _ _ _ h
    | capture x =>
      simp only [runSym] at h
      cases hg : stack.getLast? with
      | none => rw [hg] at h; cases h
      | some top =>
        rw [hg] at h
        have := ih _ _ _ _ h
        simp only [List.map_append, List.map_cons, List.map_nil, List.append_assoc, List.cons_append,
          List.nil_append] at this
        simpa [capNames] using this

theorem lit_mem_encode (sops : List SOp) (hshape : ∀ o ∈ sops, o.ShapeOk) :
    ∀ (pool0 : List Bytes) (s : Bytes), SOp.lit s ∈ sops → litText s ∈ (encode (sops.map SOp.raw) pool0).2.1 := by
  induction sops with
  | nil => intro _ _ h; cases h
  | cons o r ih =>
    intro pool0 s hs
    have hr : ∀ o ∈ r, o.ShapeOk := fun o ho => hshape o (List.mem_cons_of_mem _ ho)
    cases o with
    | push =>
      simp only [List.map_cons, SOp.raw, encode_nostr]
      rcases List.mem_cons.1 hs with e | e
      · cases e
      · exact ih hr _ _ e
    | pushM =>
      simp only [List.map_cons, SOp.raw, encode_nostr]
      rcases List.mem_cons.1 hs with e | e
      · cases e
      · exact ih hr _ _ e
    | concat m =>
      simp only [List.map_cons, SOp.raw, encode_nostr]
      rcases List.mem_cons.1 hs with e | e
      · cases e
      · exact ih hr _ _ e
    | capture x =>
      have hx := hshape (.capture x) (by simp)
      simp only [List.map_cons, SOp.raw, encode_str _ _ hx.1]
      rcases List.mem_cons.1 hs with e | e
      · cases e
      · exact ih hr _ _ e
    | lit s' =>
      have hs' : s' ≠ [] := hshape (.lit s') (by simp)
      simp only [List.map_cons, SOp.raw, encode_str _ _ hs']
      rcases List.mem_cons.1 hs with e | e
      · cases e
        exact (encode_prefix _ _).subset (litText_mem_pool' _ _)
      · exact ih hr _ _ e

end GB.C03
