import GB.C03.ProofsUrl
/- C03 helper lemmas: `buildPatternRoutes` as a table; splitting slash-free names; existence of a first match. -/
namespace GB.C03
set_option linter.unusedSimpArgs false
set_option linter.unusedVariables false

theorem mem_enum {α} {xs : List α} {i : Nat} {x : α} : (i, x) ∈ enum xs ↔ xs[i]? = some x := by
  simp only [enum, List.mem_map, Prod.mk.injEq]
  constructor
  · rintro ⟨⟨a, j⟩, hm, rfl, rfl⟩
    exact (List.mem_zipIdx_iff_getElem? (x := (a, j))).1 hm
  · intro h
    exact ⟨(x, i), (List.mem_zipIdx_iff_getElem? (x := (x, i))).2 h, rfl, rfl⟩

theorem mkRouteA_eq (id : RouteId) (m : Bytes) (t : Option Tmpl) : mkRouteA id m t = (mkEntry id m t).map mkR := by
  cases t with
  | none => rfl
  | some t =>
    simp only [mkRouteA, mkEntry]
    split <;> rfl

/-- the AST-level routes of `buildPatternRoutes` are the routes of the abstract table -/
theorem buildTable_routesOf (ts : List TargetD) : buildTable mkRouteA ts = routesOf (buildTable mkEntry ts) := by
  simp only [buildTable, buildTarget, buildMethod, routesOf, List.map_flatMap, mkRouteA_eq]
  congr 1; funext pt; congr 1; funext ps; congr 1; funext pm
  split <;> simp [List.map_flatMap]

/-- a method without bindings contributes its default binding (POST, template of its RPC name) -/
theorem default_mem_table (ts : List TargetD) {T : TargetD} {S : ServiceD} {M : MethodD} {ti si mi : Nat}
    (hT : ts[ti]? = some T) (hS : T.services[si]? = some S) (hM : S.methods[mi]? = some M)
    (hb : M.bindings = []) {t : Tmpl} (hd : M.dflt = some t) (h1 : deepCount t.segs ≤ 1) :
    (⟨ti, si, mi, none⟩, post, t) ∈ buildTable mkEntry ts := by
  simp only [buildTable, buildTarget, List.mem_flatMap]
  refine ⟨(ti, T), mem_enum.2 hT, (si, S), mem_enum.2 hS, (mi, M), mem_enum.2 hM, ?_⟩
  simp [buildMethod, hb, hd, mkEntry, h1]

/-- a declared binding contributes an entry with its own HTTP method and template, when the pattern can be built -/
theorem binding_mem_table (ts : List TargetD) {T : TargetD} {S : ServiceD} {M : MethodD} {B : BindingD}
    {ti si mi bi : Nat} (hT : ts[ti]? = some T) (hS : T.services[si]? = some S) (hM : S.methods[mi]? = some M)
    (hB : M.bindings[bi]? = some B) {t : Tmpl} (hp : B.pattern = some t) (h1 : deepCount t.segs ≤ 1) :
    (⟨ti, si, mi, some bi⟩, B.httpMethod, t) ∈ buildTable mkEntry ts := by
  simp only [buildTable, buildTarget, List.mem_flatMap]
  refine ⟨(ti, T), mem_enum.2 hT, (si, S), mem_enum.2 hS, (mi, M), mem_enum.2 hM, ?_⟩
  have hne : M.bindings.isEmpty = false := by
    cases hbs : M.bindings with
    | nil => simp [hbs] at hB
    | cons _ _ => rfl
  simp only [buildMethod, hne, Bool.false_eq_true, ↓reduceIte, List.mem_flatMap]
  exact ⟨(bi, B), mem_enum.2 hB, by simp [mkEntry, hp, h1]⟩

theorem splitSlash_noslash {s : Bytes} (h : ∀ c ∈ s, c ≠ 47) : splitSlash s = [s] := by
  induction s with
  | nil => rfl
  | cons c rest ih =>
    have hc : c ≠ 47 := h c (by simp)
    have := ih (fun c hc => h c (by simp [hc]))
    simp [splitSlash, hc, this]

theorem splitSlash_append {a : Bytes} (b : Bytes) (h : ∀ c ∈ a, c ≠ 47) :
    splitSlash (a ++ 47 :: b) = a :: splitSlash b := by
  induction a with
  | nil => simp [splitSlash]
  | cons c rest ih =>
    have hc : c ≠ 47 := h c (by simp)
    have := ih (fun c hc => h c (by simp [hc]))
    simp [splitSlash, hc, this]

/-- if some entry of the method matches, there is a first one -/
theorem exists_firstMatch {ι : Type} (tbl : Table ι) (m : Bytes) (segs : List Bytes)
    (h : ∃ e ∈ tbl, e.2.1 = m ∧ ∃ b, PathMatches e.2.2 segs b) : ∃ i b, FirstMatch tbl m segs i b := by
  induction tbl with
  | nil => obtain ⟨e, he, _⟩ := h; cases he
  | cons e tbl ih =>
    by_cases hme : e.2.1 = m ∧ ∃ b, PathMatches e.2.2 segs b
    · obtain ⟨hm, b, hb⟩ := hme
      exact ⟨e.1, b, [], e.2.2, tbl, by rw [← hm]; rfl, hb, by simp⟩
    · obtain ⟨e', he', hm', hb'⟩ := h
      rcases List.mem_cons.1 he' with rfl | he'
      · exact absurd ⟨hm', hb'⟩ hme
      · obtain ⟨i, b, hf⟩ := ih ⟨e', he', hm', hb'⟩
        refine ⟨i, b, (firstMatch_cons_skip ?_ i b).2 hf⟩
        intro hm hex; exact hme ⟨hm, hex⟩

/-- the canonical default template `/svc/Method` matches exactly its own path, capturing nothing -/
theorem default_pathMatches {svc meth : Bytes} (h1 : svc ≠ eof) (h2 : meth ≠ eof) :
    PathMatches ⟨[.plain (.lit svc), .plain (.lit meth)], []⟩ [svc, meth] [] := by
  simp only [PathMatches, ↓reduceIte]
  have e1 : litText svc = svc := by simp [litText, h1]
  have e2 : litText meth = meth := by simp [litText, h2]
  have p1 : PartMatch (.lit svc) [svc] svc := by have := @PartMatch.lit svc; rwa [e1] at this
  have p2 : PartMatch (.lit meth) [meth] meth := by have := @PartMatch.lit meth; rwa [e2] at this
  exact SegsMatch.plain (cs := [svc]) (cs' := [meth]) p1 (SegsMatch.plain (cs := [meth]) (cs' := []) p2 SegsMatch.nil)

end GB.C03
