import GB.C03.ProofsResolve
/- C03 helper lemmas: hand-built `url.URL{Path: p}` — `EscapedPath()` escapes, the matcher decodes once, giving `p` back. -/
namespace GB.C03
set_option linter.unusedSimpArgs false
set_option linter.unusedVariables false

theorem ishex_ne_slash {c : UInt8} (h : ishex c = true) : c ≠ 47 := by
  intro e; subst e; revert h; decide

set_option maxRecDepth 1000000 in
/-- every byte survives `upperhex` nibbles → `unhex` (checked on all 256 bytes) -/
theorem hex_roundtrip_nat : ∀ n, n < 256 →
    (ishex (upperhex (UInt8.ofNat n >>> 4)) && ishex (upperhex (UInt8.ofNat n &&& 15)) &&
      ((unhex (upperhex (UInt8.ofNat n >>> 4)) <<< 4 ||| unhex (upperhex (UInt8.ofNat n &&& 15))) == UInt8.ofNat n)) = true := by
  decide

theorem hex_roundtrip (c : UInt8) :
    ishex (upperhex (c >>> 4)) = true ∧ ishex (upperhex (c &&& 15)) = true ∧
      (unhex (upperhex (c >>> 4)) <<< 4 ||| unhex (upperhex (c &&& 15))) = c := by
  have h := hex_roundtrip_nat c.toNat (UInt8.toNat_lt c)
  rw [UInt8.ofNat_toNat] at h
  simp only [Bool.and_eq_true, beq_iff_eq] at h
  exact ⟨h.1.1, h.1.2, h.2⟩

theorem urlEscape_cons (c : UInt8) (rest : Bytes) : urlEscape (c :: rest) =
    if urlShouldEscape c then 37 :: upperhex (c >>> 4) :: upperhex (c &&& 15) :: urlEscape rest
    else c :: urlEscape rest := rfl

theorem urlShouldEscape_pct : urlShouldEscape 37 = true := by decide
theorem urlShouldEscape_slash : urlShouldEscape 47 = false := by decide

/-- decoding the default escaping of a path gives the path back: one encoding, one decoding -/
theorem decodeOnce_urlEscape (s : Bytes) : decodeOnce false (urlEscape s) = some s := by
  induction s with
  | nil => rfl
  | cons c rest ih =>
    rw [urlEscape_cons]
    by_cases he : urlShouldEscape c = true
    · obtain ⟨h1, h2, h3⟩ := hex_roundtrip c
      simp only [he, ↓reduceIte]
      rw [decodeOnce_pct3, ih]
      simp [hexVal_eq, h1, h2, h3]
    · have hc : c ≠ 37 := by intro e; subst e; exact he urlShouldEscape_pct
      simp only [he, Bool.false_eq_true, ↓reduceIte]
      rw [decodeOnce_cons_ne false hc, ih]; rfl

theorem urlUnescapeBuild_cons (c : UInt8) (rest : Bytes) : urlUnescapeBuild (c :: rest) =
    if c = 37 then
      match rest with
      | h :: l :: r => ((unhex h <<< 4) ||| unhex l) :: urlUnescapeBuild r
      | _ => 37 :: rest
    else c :: urlUnescapeBuild rest := by
  conv => lhs; unfold urlUnescapeBuild
  rfl

theorem urlUnescapeBuild_eq (s : Bytes) : urlUnescapeBuild s = unescapeBuild false s := by
  induction s using escapesOk.induct with
  | case1 => simp [urlUnescapeBuild, unescapeBuild]
  | case2 h l r ih => rw [urlUnescapeBuild_cons, unescapeBuild_pct3]; simp [ih]
  | case3 rest hne =>
    rw [urlUnescapeBuild_cons, unescapeBuild_cons]
    cases rest with
    | nil => rfl
    | cons x r =>
      cases r with
      | nil => rfl
      | cons y zs => exact absurd rfl (fun e => hne x y zs e)
  | case4 c rest hc ih => rw [urlUnescapeBuild_cons, unescapeBuild_cons_ne false hc]; simp [hc, ih]

/-- net/url's `unescape(·, encodePath)` and the gateway's single-segment `unescape` are the same function -/
theorem urlUnescape_eq (s : Bytes) : urlUnescape s = unescape false s := by
  unfold urlUnescape unescape
  rw [urlUnescapeBuild_eq]

theorem urlUnescape_urlEscape (s : Bytes) : urlUnescape (urlEscape s) = some s := by
  rw [urlUnescape_eq, unescape_eq_decodeOnce, decodeOnce_urlEscape]

theorem splitSlash_cons_ne {c : UInt8} (hc : c ≠ 47) (rest : Bytes) :
    splitSlash (c :: rest) = match splitSlash rest with
      | [] => [[c]]
      | x :: xs => (c :: x) :: xs := by
  conv => lhs; unfold splitSlash
  simp only [hc, ↓reduceIte]
  split <;> simp_all

theorem splitSlash_cons3 {a b c : UInt8} (ha : a ≠ 47) (hb : b ≠ 47) (hc : c ≠ 47) (rest x : Bytes) (xs : List Bytes)
    (h : splitSlash rest = x :: xs) : splitSlash (a :: b :: c :: rest) = (a :: b :: c :: x) :: xs := by
  rw [splitSlash_cons_ne ha, splitSlash_cons_ne hb, splitSlash_cons_ne hc, h]

/-- `/` is never escaped and never produced by escaping: the segments of the escaped path are the escaped segments -/
theorem splitSlash_urlEscape (p : Bytes) : splitSlash (urlEscape p) = (splitSlash p).map urlEscape := by
  induction p with
  | nil => rfl
  | cons c rest ih =>
    rw [urlEscape_cons]
    by_cases h47 : c = 47
    · subst h47
      simp only [urlShouldEscape_slash, Bool.false_eq_true, ↓reduceIte, splitSlash, List.map_cons, ih]
      rfl
    · rw [splitSlash_cons_ne h47]
      cases hs : splitSlash rest with
      | nil => exact absurd hs (splitSlash_ne_nil rest)
      | cons x xs =>
        rw [hs] at ih
        simp only [List.map_cons] at ih ⊢
        by_cases he : urlShouldEscape c = true
        · obtain ⟨h1, h2, _⟩ := hex_roundtrip c
          simp only [he, ↓reduceIte]
          rw [splitSlash_cons3 (by decide) (ishex_ne_slash h1) (ishex_ne_slash h2) _ _ _ ih, urlEscape_cons]
          simp [he]
        · simp only [he, Bool.false_eq_true, ↓reduceIte]
          rw [splitSlash_cons_ne h47, ih, urlEscape_cons]
          simp [he]

/-- a hand-built `url.URL{Path: p}` (no RawPath) is routed on the default escaping of `p` -/
theorem pathChoice_pathOnly (p : Bytes) (h : p ≠ [42]) : pathChoice ⟨p, []⟩ = urlEscape p := by
  simp [pathChoice, escapedPath, h]

end GB.C03
