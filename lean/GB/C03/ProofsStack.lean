import GB.C03.Model
/-
  C03 — `Pattern.stacksize` (the `maxstack` accumulator of `NewPattern`).

  The code uses it only as a capacity hint: `stack := make([]string, 0, p.stacksize)` in `MatchAndEscape`; a wrong
  value could not change a result, only cause a re-allocation. It is kept in the model because the differential run
  compares it with the real `runtime.Pattern` (read by reflection), and this file proves that the hint is right:
  for EVERY opcode program `NewPattern` accepts (not only compiled templates) and every component list the `stack`
  slice of `MatchAndEscape` never grows beyond `stacksize` — `append` never re-allocates.
-/
namespace GB.C03
set_option linter.unusedSimpArgs false
set_option linter.unusedVariables false

/-- `runOps` instrumented with the largest length the `stack` slice has from here on -/
def runOpsD (pool : List Bytes) (tailLen : Nat) : List Op → List Bytes → List Bytes → List Bytes →
    MatchRes (List Bytes) × Nat
  | [], rest, stack, captured => (if rest.isEmpty then .ok captured else .notMatch, stack.length)
  | op :: ops, rest, stack, captured =>
    if op.code = opNop then runOpsD pool tailLen ops rest stack captured
    else if op.code = opPush ∨ op.code = opLitPush then
      match rest with
      | [] => (.notMatch, stack.length)
      | c :: rest' =>
        if op.code = opLitPush then
          match pool[op.operand]? with
          | none => (.fault, stack.length)
          | some lit =>
            if c ≠ lit then (.notMatch, stack.length)
            else
              let r := runOpsD pool tailLen ops rest' (stack ++ [c]) captured
              (r.1, max stack.length r.2)
        else
          match unescape false c with
          | none => (.malformed, stack.length)
          | some c' =>
            let r := runOpsD pool tailLen ops rest' (stack ++ [c']) captured
            (r.1, max stack.length r.2)
    else if op.code = opPushM then
      if rest.length < tailLen then (.notMatch, stack.length)
      else
        let n := rest.length - tailLen
        match unescape true (joinSlash (rest.take n)) with
        | none => (.malformed, stack.length)
        | some c =>
          let r := runOpsD pool tailLen ops (rest.drop n) (stack ++ [c]) captured
          (r.1, max stack.length r.2)
    else if op.code = opConcatN then
      if stack.length < op.operand then (.fault, stack.length)
      else
        let l := stack.length - op.operand
        let r := runOpsD pool tailLen ops rest (stack.take l ++ [joinSlash (stack.drop l)]) captured
        (r.1, max stack.length r.2)
    else if op.code = opCapture then
      match stack.getLast? with
      | none => (.fault, stack.length)
      | some top =>
        if captured.length ≤ op.operand then (.fault, stack.length)
        else
          let r := runOpsD pool tailLen ops rest stack.dropLast (captured.set op.operand top)
          (r.1, max stack.length r.2)
    else runOpsD pool tailLen ops rest stack captured

/-- the instrumentation does not change the result -/
theorem runOpsD_fst (pool : List Bytes) (tailLen : Nat) (ops : List Op) :
    ∀ rest stack captured, (runOpsD pool tailLen ops rest stack captured).1 = runOps pool tailLen ops rest stack captured := by
  induction ops with
  | nil => intro rest stack captured; simp [runOpsD, runOps]
  | cons op ops ih =>
    intro rest stack captured
    unfold runOpsD runOps
    split
    · exact ih _ _ _
    · split
      · cases rest with
        | nil => rfl
        | cons c rest' =>
          simp only
          split
          · cases pool[op.operand]? with
            | none => rfl
            | some lit =>
              simp only
              split
              · rfl
              · exact ih _ _ _
          · cases unescape false c with
            | none => rfl
            | some c' => exact ih _ _ _
      · split
        · split
          · rfl
          · simp only
            cases unescape true (joinSlash (List.take (rest.length - tailLen) rest)) with
            | none => rfl
            | some c => exact ih _ _ _
        · split
          · split
            · rfl
            · exact ih _ _ _
          · split
            · cases stack.getLast? with
              | none => rfl
              | some top =>
                simp only
                split
                · rfl
                · exact ih _ _ _
            · exact ih _ _ _

theorem bump_facts (s : NPState) : s.bump.stack = s.stack ∧ s.bump.stack ≤ s.bump.maxstack ∧ s.maxstack ≤ s.bump.maxstack ∧
    s.bump.vars = s.vars ∧ s.bump.tailLen = s.tailLen ∧ s.bump.pushMSeen = s.pushMSeen := by
  unfold NPState.bump
  refine ⟨rfl, ?_, ?_, rfl, rfl, rfl⟩ <;> (simp only; split <;> omega)

theorem runOpsD_push_bound {pool : List Bytes} {tl : Nat} {op : Op} {ops : List Op} {M : Nat}
    (hc : op.code = opPush ∨ op.code = opLitPush ∨ op.code = opPushM) (rest stack cap : List Bytes)
    (hM : stack.length ≤ M)
    (hnext : ∀ rest' stack' cap', stack'.length = stack.length + 1 → (runOpsD pool tl ops rest' stack' cap').2 ≤ M) :
    (runOpsD pool tl (op :: ops) rest stack cap).2 ≤ M := by
  unfold runOpsD
  rcases hc with h | h | h <;> simp only [h, opNop, opPush, opLitPush, opPushM, opConcatN, opCapture] <;>
    simp only [Nat.reduceEqDiff, ↓reduceIte, or_true, true_or, or_false, false_or] <;>
    (repeat' split) <;>
    first
      | exact hM
      | exact Nat.max_le.2 ⟨hM, hnext _ _ _ (by simp)⟩

theorem runOpsD_concat_bound {pool : List Bytes} {tl : Nat} {op : Op} {ops : List Op} {M : Nat}
    (hc : op.code = opConcatN) (rest stack cap : List Bytes) (hM : stack.length ≤ M)
    (hnext : ∀ rest' stack' cap', stack'.length = stack.length - op.operand + 1 →
      (runOpsD pool tl ops rest' stack' cap').2 ≤ M) :
    (runOpsD pool tl (op :: ops) rest stack cap).2 ≤ M := by
  unfold runOpsD
  simp only [hc, opNop, opPush, opLitPush, opPushM, opConcatN, opCapture]
  simp only [Nat.reduceEqDiff, ↓reduceIte, or_true, true_or, or_false, false_or]
  split
  · exact hM
  · exact Nat.max_le.2 ⟨hM, hnext _ _ _ (by simp)⟩

theorem runOpsD_capture_bound {pool : List Bytes} {tl : Nat} {op : Op} {ops : List Op} {M : Nat}
    (hc : op.code = opCapture) (rest stack cap : List Bytes) (hM : stack.length ≤ M)
    (hnext : ∀ rest' stack' cap', stack'.length = stack.length - 1 → (runOpsD pool tl ops rest' stack' cap').2 ≤ M) :
    (runOpsD pool tl (op :: ops) rest stack cap).2 ≤ M := by
  unfold runOpsD
  simp only [hc, opNop, opPush, opLitPush, opPushM, opConcatN, opCapture]
  simp only [Nat.reduceEqDiff, ↓reduceIte, or_true, true_or, or_false, false_or]
  (repeat' split) <;>
    first
      | exact hM
      | exact Nat.max_le.2 ⟨hM, hnext _ _ _ (by simp)⟩

/-- the loop invariant: when `NewPattern` is at abstract depth `s.stack ≤ s.maxstack` and the run-time stack has that
    length, the rest of the run stays within the final `maxstack` -/
theorem npLoop_depth (pool : List Bytes) : ∀ (n : Nat) (codes : List Nat) (s : NPState) (tops : List Op) (s' : NPState),
    codes.length ≤ n → npLoop pool codes s = some (tops, s') → s.stack ≤ s.maxstack →
    s.maxstack ≤ s'.maxstack ∧
    ∀ (pool' : List Bytes) (tl : Nat) (rest stack captured : List Bytes), stack.length = s.stack →
      (runOpsD pool' tl tops rest stack captured).2 ≤ s'.maxstack := by
  intro n
  induction n with
  | zero =>
    intro codes s tops s' hlen h hs
    have : codes = [] := List.length_eq_zero_iff.mp (by omega)
    subst this
    simp only [npLoop, Option.some.injEq, Prod.mk.injEq] at h
    obtain ⟨rfl, rfl⟩ := h
    exact ⟨Nat.le_refl _, fun _ _ _ _ _ hl => by simp [runOpsD, hl, hs]⟩
  | succ n ih =>
    intro codes s tops s' hlen h hs
    match codes, hlen, h with
    | [], _, h =>
      simp only [npLoop, Option.some.injEq, Prod.mk.injEq] at h
      obtain ⟨rfl, rfl⟩ := h
      exact ⟨Nat.le_refl _, fun _ _ _ _ _ hl => by simp [runOpsD, hl, hs]⟩
    | [_], _, h => simp [npLoop] at h
    | code :: operand :: rest, hlen, h =>
      have hrl : rest.length ≤ n := by simp at hlen; omega
      -- the shared tail of every op case: `npLoop` continues from `s1` and emits `op`
      have step : ∀ (s1 : NPState) (op : Op), s1.stack ≤ s1.maxstack → s.maxstack ≤ s1.maxstack →
          (npLoop pool rest s1).map (fun r => (op :: r.1, r.2)) = some (tops, s') →
          (∀ (pool' : List Bytes) (tl : Nat) (ops : List Op) (rest' stack cap : List Bytes) (M : Nat),
            stack.length = s.stack → stack.length ≤ M →
            (∀ r' st' c', st'.length = s1.stack → (runOpsD pool' tl ops r' st' c').2 ≤ M) →
            (runOpsD pool' tl (op :: ops) rest' stack cap).2 ≤ M) →
          s.maxstack ≤ s'.maxstack ∧
          ∀ (pool' : List Bytes) (tl : Nat) (rest stack captured : List Bytes), stack.length = s.stack →
            (runOpsD pool' tl tops rest stack captured).2 ≤ s'.maxstack := by
        intro s1 op h1 h2 hm hop
        cases hr : npLoop pool rest s1 with
        | none => simp [hr] at hm
        | some r =>
          obtain ⟨t1, s1'⟩ := r
          simp only [hr, Option.map_some, Option.some.injEq, Prod.mk.injEq] at hm
          obtain ⟨rfl, rfl⟩ := hm
          obtain ⟨i1, i2⟩ := ih rest s1 t1 s1' hrl hr h1
          refine ⟨Nat.le_trans h2 i1, ?_⟩
          intro pool' tl rest' stack cap hl
          exact hop pool' tl t1 rest' stack cap _ hl (by omega) (fun r' st' c' hst => i2 pool' tl r' st' c' hst)
      unfold npLoop at h
      split at h
      · exact ih rest s tops s' hrl h hs
      · split at h
        · rename_i hc
          obtain ⟨b1, b2, b3, _⟩ := bump_facts { s with tailLen := if s.pushMSeen then s.tailLen + 1 else s.tailLen, stack := s.stack + 1 }
          refine step _ _ b2 b3 h ?_
          intro pool' tl ops rest' stack cap M hl hM hn
          exact runOpsD_push_bound (Or.inl hc) rest' stack cap hM (fun r' st' c' hst => hn r' st' c' (by rw [hst, hl, b1]))
        · split at h
          · split at h
            · cases h
            · rename_i hc _
              obtain ⟨b1, b2, b3, _⟩ := bump_facts { s with pushMSeen := true, stack := s.stack + 1 }
              refine step _ _ b2 b3 h ?_
              intro pool' tl ops rest' stack cap M hl hM hn
              exact runOpsD_push_bound (Or.inr (Or.inr hc)) rest' stack cap hM (fun r' st' c' hst => hn r' st' c' (by rw [hst, hl, b1]))
          · split at h
            · split at h
              · cases h
              · rename_i hc _
                obtain ⟨b1, b2, b3, _⟩ := bump_facts { s with tailLen := if s.pushMSeen then s.tailLen + 1 else s.tailLen, stack := s.stack + 1 }
                refine step _ _ b2 b3 h ?_
                intro pool' tl ops rest' stack cap M hl hM hn
                exact runOpsD_push_bound (Or.inr (Or.inl hc)) rest' stack cap hM (fun r' st' c' hst => hn r' st' c' (by rw [hst, hl, b1]))
            · split at h
              · split at h
                · cases h
                · split at h
                  · cases h
                  · rename_i hc _ _
                    obtain ⟨b1, b2, b3, _⟩ := bump_facts { s with stack := s.stack - operand + 1 }
                    refine step _ _ b2 b3 h ?_
                    intro pool' tl ops rest' stack cap M hl hM hn
                    exact runOpsD_concat_bound hc rest' stack cap hM (fun r' st' c' hst => hn r' st' c' (by rw [hst, hl, b1]))
              · split at h
                · split at h
                  · cases h
                  · split at h
                    · cases h
                    · have hc : code = opCapture := by assumption
                      rename_i v _ _
                      simp only at h
                      obtain ⟨b1, b2, b3, _⟩ := bump_facts { s with vars := s.vars ++ [v], stack := s.stack - 1 }
                      refine step _ _ b2 b3 h ?_
                      intro pool' tl ops rest' stack cap M hl hM hn
                      exact runOpsD_capture_bound hc rest' stack cap hM (fun r' st' c' hst => hn r' st' c' (by rw [hst, hl, b1]))
                · cases h

theorem stacksize_bound {version : Nat} {ops : List Nat} {pool : List Bytes} {verb : Bytes} {P : Pattern}
    (h : newPattern version ops pool verb = some P) (comps captured : List Bytes) :
    (runOpsD P.pool P.tailLen P.ops comps [] captured).2 ≤ P.stacksize := by
  unfold newPattern at h
  split at h
  · cases h
  · cases hl : npLoop pool ops {} with
    | none => simp [hl] at h
    | some r =>
      obtain ⟨tops, s⟩ := r
      simp only [hl, Option.some.injEq] at h
      subst h
      exact (npLoop_depth pool ops.length ops {} tops s (Nat.le_refl _) hl (Nat.le_refl _)).2 _ _ _ _ _ rfl

end GB.C03
