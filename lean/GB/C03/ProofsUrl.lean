import GB.C03.Proofs
/- C03 helper lemmas: the path `RouteHTTP` routes on is the request target's path text. -/
namespace GB.C03
set_option linter.unusedSimpArgs false
set_option linter.unusedVariables false

theorem beforeQuery_slash (r : Bytes) : beforeQuery (47 :: r) = 47 :: beforeQuery r := by
  simp [beforeQuery]

theorem pathChoice_setPath {p : Bytes} {u : Url} (hp : ∃ q, p = 47 :: q) (h : setPath p = some u) :
    pathChoice u = p := by
  obtain ⟨q, rfl⟩ := hp
  unfold setPath at h
  cases hu : urlUnescape (47 :: q) with
  | none => simp [hu] at h
  | some path =>
    simp only [hu, Option.some.injEq] at h
    subst h
    by_cases he : urlEscape path = 47 :: q
    · simp only [pathChoice, he, ↓reduceIte, ne_eq, not_true_eq_false, escapedPath, false_and]
      by_cases hs : path = [42]
      · subst hs
        have h42 : urlEscape [42] = [37, 50, 65] := by decide
        rw [h42] at he; cases he
      · simp [hs, he]
    · simp [pathChoice, he]

theorem getScheme_slash (r : Bytes) : getScheme true [] (47 :: r) = some none := by
  simp [getScheme, isLetter]

/-- for an origin-form request target, what `url.ParseRequestURI` stores and `RouteHTTP` picks
    (RawPath, else EscapedPath) is the target's path text, byte for byte -/
theorem pathChoice_parseRequestURI {raw : Bytes} {u : Url} (hs : ∃ r, raw = 47 :: r)
    (h : parseRequestURI raw = some (some u)) : pathChoice u = beforeQuery raw := by
  obtain ⟨r, rfl⟩ := hs
  unfold parseRequestURI at h
  have h42 : (47 :: r : Bytes) ≠ [42] := by intro e; cases e
  have hne : (47 :: r : Bytes) ≠ [] := by intro e; cases e
  split at h
  · cases h
  · simp only [hne, h42, ↓reduceIte, getScheme_slash, Option.some.injEq] at h
    exact pathChoice_setPath ⟨beforeQuery r, beforeQuery_slash r⟩ h

/-- for an absolute-form request target `scheme://authority/path?query` the same holds for its path part -/
theorem pathChoice_parseRequestURI_abs {raw sch rest a q : Bytes} {u : Url}
    (hsch : getScheme true [] raw = some (some (sch, rest))) (hr : beforeQuery rest = 47 :: 47 :: a)
    (hq : a.dropWhile (· != 47) = 47 :: q) (h : parseRequestURI raw = some (some u)) :
    pathChoice u = 47 :: q := by
  unfold parseRequestURI at h
  split at h
  · cases h
  · split at h
    · cases h
    · split at h
      · rename_i h42
        rw [h42] at hsch
        simp [getScheme, isLetter] at hsch
      · simp only [hsch, hr] at h
        split at h
        · simp only [Option.some.injEq, hq] at h
          exact pathChoice_setPath ⟨q, rfl⟩ h
        · cases h

/-- absolute-form targets: the authority only gates success; Path / RawPath come from the text after it -/
theorem parseRequestURI_abs {raw sch rest a : Bytes} (hctl : containsCTL raw = false)
    (hsch : getScheme true [] raw = some (some (sch, rest))) (hr : beforeQuery rest = 47 :: 47 :: a) :
    parseRequestURI raw =
      some (if authorityOk (a.takeWhile (· != 47)) then setPath (a.dropWhile (· != 47)) else none) := by
  have hne : raw ≠ [] := by intro e; subst e; simp [getScheme] at hsch
  have h42 : raw ≠ [42] := by intro e; subst e; simp [getScheme, isLetter] at hsch
  unfold parseRequestURI
  simp only [hctl, Bool.false_eq_true, ↓reduceIte, hne, h42, hsch, hr]
  split <;> rfl

theorem pathChoice_empty : pathChoice ⟨[], []⟩ = [] := by decide

/-! ### the earlier easy authority class lies inside the full `parseAuthority` model -/

theorem mem_takeWhile_pred {p : UInt8 → Bool} {c : UInt8} : ∀ {l : Bytes}, c ∈ l.takeWhile p → p c = true
  | [], h => by cases h
  | x :: r, h => by
    by_cases hx : p x = true
    · simp only [List.takeWhile_cons, hx, ↓reduceIte, List.mem_cons] at h
      rcases h with rfl | h
      · exact hx
      · exact mem_takeWhile_pred h
    · simp [List.takeWhile_cons, hx] at h

theorem lastIndexByte_none {x : UInt8} : ∀ {a : Bytes}, (∀ c ∈ a, c ≠ x) → lastIndexByte x a = none
  | [], _ => rfl
  | c :: r, h => by
    have h1 := lastIndexByte_none (x := x) (a := r) (fun d hd => h d (List.mem_cons_of_mem _ hd))
    have h2 : c ≠ x := h c (List.mem_cons_self ..)
    simp [lastIndexByte, h1, h2]

theorem lastIndexByte_append {x : UInt8} (ds : Bytes) (hd : ∀ c ∈ ds, c ≠ x) :
    ∀ h : Bytes, lastIndexByte x (h ++ x :: ds) = some h.length
  | [] => by simp [lastIndexByte, lastIndexByte_none hd]
  | c :: r => by simp [lastIndexByte, lastIndexByte_append ds hd r]

def simpleByte (c : UInt8) : Bool := isAlnum c || c == 46 || c == 45 || c == 58

theorem hostEscapesOk_simple : ∀ a : Bytes, (∀ c ∈ a, simpleByte c = true) → hostEscapesOk false a = true
  | [], _ => rfl
  | c :: r, h => by
    have hc := h c (List.mem_cons_self ..)
    have ih := hostEscapesOk_simple r (fun d hd => h d (List.mem_cons_of_mem _ hd))
    have h37 : c ≠ 37 := by intro e; subst e; revert hc; decide
    have hs : hostShouldEscape c = false := by
      simp only [simpleByte, Bool.or_eq_true, beq_iff_eq] at hc
      unfold hostShouldEscape
      rcases hc with ((hc | hc) | hc) | hc
      · simp [hc]
      · subst hc; decide
      · subst hc; decide
      · subst hc; decide
    unfold hostEscapesOk
    simp [h37, hs, ih]

theorem authorityOk_simpleBytes (host : Bytes) (hhost : ∀ c ∈ host, simpleByte c = true ∧ c ≠ 58)
    (port : Bytes) (hport : port = [] ∨ ∃ ds, port = 58 :: ds ∧ ∀ c ∈ ds, 48 ≤ c ∧ c ≤ 57) :
    authorityOk (host ++ port) = true := by
  have hall : ∀ c ∈ host ++ port, simpleByte c = true := by
    intro c hc
    rcases List.mem_append.mp hc with h | h
    · exact (hhost c h).1
    · rcases hport with rfl | ⟨ds, rfl, hds⟩
      · cases h
      · rcases List.mem_cons.mp h with rfl | h
        · decide
        · obtain ⟨h1, h2⟩ := hds c h
          simp only [simpleByte, isAlnum, Bool.or_eq_true, Bool.and_eq_true, decide_eq_true_eq]
          left; left; left; right; exact ⟨h1, h2⟩
  have hat : ∀ c ∈ host ++ port, c ≠ 64 := by
    intro c hc e; subst e; have := hall _ hc; revert this; decide
  have hbr : ∀ c ∈ host ++ port, c ≠ 91 := by
    intro c hc e; subst e; have := hall _ hc; revert this; decide
  have hesc := hostEscapesOk_simple _ hall
  have hhostOk : hostOk (host ++ port) = true := by
    unfold hostOk
    split
    · rename_i r heq
      exact absurd rfl (hbr 91 (by rw [heq]; exact List.mem_cons_self ..))
    · rcases hport with rfl | ⟨ds, rfl, hds⟩
      · have : lastIndexByte 58 (host ++ []) = none :=
          lastIndexByte_none (by intro c hc; rw [List.append_nil] at hc; exact (hhost c hc).2)
        simp only [this]; exact hesc
      · have hd : ∀ c ∈ ds, c ≠ 58 := by
          intro c hc e; subst e; have := (hds _ hc).2; revert this; decide
        rw [lastIndexByte_append ds hd host]
        have hv : validOptionalPort (List.drop host.length (host ++ 58 :: ds)) = true := by
          rw [List.drop_left]
          simp only [validOptionalPort, beq_self_eq_true, Bool.true_and, List.all_eq_true, Bool.and_eq_true,
            decide_eq_true_eq]
          exact hds
        simp only [hv, Bool.not_true, Bool.false_eq_true, ↓reduceIte]
        exact hesc
  unfold authorityOk
  rw [lastIndexByte_none hat]
  exact hhostOk

/-- the authorities of the earlier, easy model class are accepted by the full model of `parseAuthority` -/
theorem simpleAuth_authorityOk (a : Bytes) (h : simpleAuth a = true) : authorityOk a = true := by
  simp only [simpleAuth, Bool.and_eq_true, List.all_eq_true] at h
  obtain ⟨hh, hp⟩ := h
  rw [← List.takeWhile_append_dropWhile (p := (· != 58)) (l := a)]
  apply authorityOk_simpleBytes
  · intro c hc
    have h1 := hh c hc
    have h2 := mem_takeWhile_pred hc
    refine ⟨?_, by simpa using h2⟩
    simp only [simpleByte, Bool.or_eq_true] at h1 ⊢
    exact Or.inl h1
  · have hd := List.head?_dropWhile_not (· != 58) a
    cases hP : a.dropWhile (· != 58) with
    | nil => exact Or.inl rfl
    | cons x ds =>
      right
      simp only [hP, List.head?_cons] at hd
      have hx : x = 58 := by simpa using hd
      subst hx
      refine ⟨ds, rfl, ?_⟩
      simp only [hP, List.all_eq_true, Bool.and_eq_true, decide_eq_true_eq] at hp
      exact hp

end GB.C03
