import GB.C03.Proofs
/- C03 helper lemmas: the path `RouteHTTP` routes on is the request target's path text. -/
namespace GB.C03
set_option linter.unusedSimpArgs false
set_option linter.unusedVariables false

theorem beforeQuery_slash (r : Bytes) : beforeQuery (47 :: r) = 47 :: beforeQuery r := by
  simp [beforeQuery]

theorem pathChoice_setPath {p : Bytes} {u : Url} (hp : ∃ q, p = 47 :: q) (h : setPath p = some u) :
    pathChoice u = p := by
  obtain ⟨q, rfl⟩ := hp
  unfold setPath at h
  cases hu : urlUnescape (47 :: q) with
  | none => simp [hu] at h
  | some path =>
    simp only [hu, Option.some.injEq] at h
    subst h
    by_cases he : urlEscape path = 47 :: q
    · simp only [pathChoice, he, ↓reduceIte, ne_eq, not_true_eq_false, escapedPath, false_and]
      by_cases hs : path = [42]
      · subst hs
        have h42 : urlEscape [42] = [37, 50, 65] := by decide
        rw [h42] at he; cases he
      · simp [hs, he]
    · simp [pathChoice, he]

theorem getScheme_slash (r : Bytes) : getScheme true [] (47 :: r) = some none := by
  simp [getScheme, isLetter]

/-- for an origin-form request target, what `url.ParseRequestURI` stores and `RouteHTTP` picks
    (RawPath, else EscapedPath) is the target's path text, byte for byte -/
theorem pathChoice_parseRequestURI {raw : Bytes} {u : Url} (hs : ∃ r, raw = 47 :: r)
    (h : parseRequestURI raw = some (some u)) : pathChoice u = beforeQuery raw := by
  obtain ⟨r, rfl⟩ := hs
  unfold parseRequestURI at h
  have h42 : (47 :: r : Bytes) ≠ [42] := by intro e; cases e
  have hne : (47 :: r : Bytes) ≠ [] := by intro e; cases e
  split at h
  · cases h
  · simp only [hne, h42, ↓reduceIte, getScheme_slash, Option.some.injEq] at h
    exact pathChoice_setPath ⟨beforeQuery r, beforeQuery_slash r⟩ h

/-- for an absolute-form request target `scheme://authority/path?query` the same holds for its path part -/
theorem pathChoice_parseRequestURI_abs {raw sch rest a q : Bytes} {u : Url}
    (hsch : getScheme true [] raw = some (some (sch, rest))) (hr : beforeQuery rest = 47 :: 47 :: a)
    (hq : a.dropWhile (· != 47) = 47 :: q) (h : parseRequestURI raw = some (some u)) :
    pathChoice u = 47 :: q := by
  unfold parseRequestURI at h
  split at h
  · cases h
  · split at h
    · cases h
    · split at h
      · rename_i h42
        rw [h42] at hsch
        simp [getScheme, isLetter] at hsch
      · simp only [hsch, hr] at h
        split at h
        · simp only [Option.some.injEq, hq] at h
          exact pathChoice_setPath ⟨q, rfl⟩ h
        · cases h

/-- absolute-form targets: the authority only gates success; Path / RawPath come from the text after it -/
theorem parseRequestURI_abs {raw sch rest a : Bytes} (hctl : containsCTL raw = false)
    (hsch : getScheme true [] raw = some (some (sch, rest))) (hr : beforeQuery rest = 47 :: 47 :: a) :
    parseRequestURI raw =
      some (if authorityOk (a.takeWhile (· != 47)) then setPath (a.dropWhile (· != 47)) else none) := by
  have hne : raw ≠ [] := by intro e; subst e; simp [getScheme] at hsch
  have h42 : raw ≠ [42] := by intro e; subst e; simp [getScheme, isLetter] at hsch
  unfold parseRequestURI
  simp only [hctl, Bool.false_eq_true, ↓reduceIte, hne, h42, hsch, hr]
  split <;> rfl

theorem pathChoice_empty : pathChoice ⟨[], []⟩ = [] := by decide

end GB.C03
