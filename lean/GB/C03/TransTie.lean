import GB.Generated.Trans
import GB.Base.TransLemmas
import GB.C03.Model
/-
  C03 — SOURCE-TO-LEAN TRANSLATOR TIE for two STATEMENT RANGES of `(*PatternRouter).RouteHTTP`
  (routing/pattern_router.go), regenerated from the source on every run (extract/trans fragment targets):
    * `routeHTTP_split`  : `if !strings.HasPrefix(path, "/") { return … }` … `lastPathComponent := …`
    * `routeHTTP_verbIdx`: `verbIdx := -1` … `if verbIdx == 0 { return true }` (inside the iterate callback)
  A fragment returns `Frag.ret n` (the n-th `return` of the range was taken) or `Frag.done outputs`.
-/
set_option linter.unusedSimpArgs false
set_option linter.unusedVariables false

open GB GB.Trans

/-- library `strings.Split(s, "/")` = the model's `splitSlash` -/
theorem GB.C03.TransTie.splitByte_slash (l : Bytes) : splitByte 47 l = GB.C03.splitSlash l := by
  induction l with
  | nil => rfl
  | cons c r ih =>
    simp only [splitByte, GB.C03.splitSlash, ih, beq_iff_eq]
    split <;> rfl

theorem GB.C03.TransTie.splitSlash_ne_nil (l : Bytes) : GB.C03.splitSlash l ≠ [] := by
  cases l with
  | nil => simp [GB.C03.splitSlash]
  | cons c r =>
    simp only [GB.C03.splitSlash]
    split
    · simp
    · split <;> simp

/-- `xs[len(xs)-1]` = the last element -/
theorem GB.C03.TransTie.idxS_last (xs : List Bytes) (h : xs ≠ []) :
    idxS xs (len xs - 1) = (xs.getLast?).getD [] := by
  have hl : 0 < xs.length := List.length_pos_iff.mpr h
  have h0 : ¬ ((len xs - 1) < 0) := by simp only [len, Int.ofNat_eq_natCast]; omega
  have h1 : (len xs - 1).toNat = xs.length - 1 := by simp only [len, Int.ofNat_eq_natCast]; omega
  simp only [idxS, h0, if_false, h1, List.getLast?_eq_getElem?, List.getD_eq_getElem?_getD]

open GB.C03.TransTie

/-- leading-slash test, `strings.Split(path[1:], "/")`, last component -/
theorem C03_trans_routeHTTP_split (path : GB.Bytes) :
    GB.Generated.Trans.routeHTTP_split path =
      match path with
      | 47 :: p => .done (GB.C03.splitSlash p, ((GB.C03.splitSlash p).getLast?).getD [])
      | _ => .ret 0 := by
  unfold GB.Generated.Trans.routeHTTP_split
  cases path with
  | nil => simp [hasPrefix]
  | cons c p =>
    by_cases hc : c = 47
    · subst hc
      have hs : slice (47 :: p) 1 (len (47 :: p)) = p := by
        simp [slice, len]
      simp [hasPrefix, hs, splitByte_slash, idxS_last _ (splitSlash_ne_nil p)]
    · have : hasPrefix (c :: p) [47] = false := by simp [hasPrefix, hc]
      simp only [this, Bool.not_false, if_true]
      split
      · rename_i h; cases h; exact absurd rfl hc
      · rfl

/-- the model's `routePath` is the code's control flow over the regenerated fragment: `return` 0 of the range is
    the InvalidArgument answer, otherwise `iterate` runs on the regenerated components / last component -/
theorem C03_trans_routePath {ι : Type} (tbl : List (GB.C03.Route ι)) (method path : GB.Bytes) :
    GB.C03.routePath tbl method path =
      match GB.Generated.Trans.routeHTTP_split path with
      | .ret _ => .error .invalidArgument
      | .done (comps, last) => GB.C03.iterate comps last (tbl.filter fun r => r.httpMethod == method) := by
  rw [C03_trans_routeHTTP_split]
  cases path with
  | nil => rfl
  | cons c p =>
    by_cases hc : c = 47
    · subst hc
      simp only [GB.C03.routePath]
      have h := splitSlash_ne_nil p
      cases hq : (GB.C03.splitSlash p).getLast? with
      | none => simp [List.getLast?_eq_none_iff] at hq; exact absurd hq h
      | some last => simp [hq]
    · unfold GB.C03.routePath
      split
      · rename_i h; cases h; exact absurd rfl hc
      · split
        · rfl
        · rename_i h2; split at h2
          · rename_i h; cases h; exact absurd rfl hc
          · cases h2

theorem GB.C03.TransTie.hasSuffix_eq (s p : Bytes) : GB.Trans.hasSuffix s p = GB.C03.hasSuffix s p := rfl

/-- the per-route verb cut: the model's `stepRoute` (body of the closure passed to `iterate`) is the code's control
    flow over the regenerated range `verbIdx := -1 … if verbIdx == 0 { return true }`: `return` 0 of the range
    (a component consisting only of the verb, fix D3) is "continue with the next route"; otherwise
    `if verbIdx > 0 { cut }` and `MatchAndEscape` on the result (`verbIdx = -1` ⇒ uncut components, verb ""). -/
theorem C03_trans_routeHTTP_verbIdx {ι : Type} (comps : List GB.Bytes) (last : GB.Bytes) (r : GB.C03.Route ι) :
    GB.C03.stepRoute comps last r =
      match GB.Generated.Trans.routeHTTP_verbIdx r.verb last with
      | .ret _ => .notMatch
      | .done v =>
        if v > 0 then r.run (comps.dropLast ++ [last.take v.toNat]) (last.drop (v.toNat + 1)) else r.run comps [] := by
  unfold GB.C03.stepRoute GB.Generated.Trans.routeHTTP_verbIdx
  by_cases hv : r.verb = []
  · simp [hv]
  · by_cases hs : GB.C03.hasSuffix last (58 :: r.verb) = true
    · have hlen : r.verb.length + 1 ≤ last.length := by
        simp only [GB.C03.hasSuffix, Bool.and_eq_true, decide_eq_true_eq, List.length_cons] at hs
        exact hs.1
      have hs' : hasSuffix last (58 :: r.verb) = true := by rw [hasSuffix_eq]; exact hs
      by_cases h0 : last.length - r.verb.length - 1 = 0
      · have h0' : len last - len r.verb - 1 = 0 := by simp only [len, Int.ofNat_eq_natCast]; omega
        simp [hv, hs, hs', h0, h0']
      · have h0' : ¬ (len last - len r.verb - 1 = 0) := by simp only [len, Int.ofNat_eq_natCast]; omega
        have hpos : len last - len r.verb - 1 > 0 := by simp only [len, Int.ofNat_eq_natCast]; omega
        have hnat : (len last - len r.verb - 1).toNat = last.length - r.verb.length - 1 := by
          simp only [len, Int.ofNat_eq_natCast]; omega
        have hle : ¬ (len last - len r.verb ≤ 1) := by omega
        simp [hv, hs, hs', h0, h0', hpos, hnat, hle]
    · have hs' : hasSuffix last (58 :: r.verb) = false := by
        rw [hasSuffix_eq]; simpa using hs
      simp [hv, hs, hs']

/-- the regenerated fragment never yields `verbIdx = 0` at its end, and a non-negative result is the cut position -/
theorem C03_trans_routeHTTP_verbIdx_range (verb last : GB.Bytes) (v : Int)
    (h : GB.Generated.Trans.routeHTTP_verbIdx verb last = .done v) :
    v = -1 ∨ (0 < v ∧ v + len verb + 1 = len last) := by
  unfold GB.Generated.Trans.routeHTTP_verbIdx at h
  split at h
  · dsimp only at h
    split at h
    · cases h
    · rename_i hne; cases h; right
      rename_i hc
      simp only [Bool.and_eq_true, hasSuffix, decide_eq_true_eq, List.length_append, List.length_cons,
        List.length_nil] at hc
      simp only [len, Int.ofNat_eq_natCast] at hne ⊢
      have := hc.2.1
      constructor
      · simp at hne; omega
      · omega
  · simp at h; left; exact h.symm

example : GB.Generated.Trans.routeHTTP_verbIdx [118] [97, 58, 118] = .done 1 := by decide
example : GB.Generated.Trans.routeHTTP_verbIdx [118] [58, 118] = .ret 0 := by decide
example : GB.Generated.Trans.routeHTTP_verbIdx [] [97, 58, 118] = .done (-1) := by decide
example : GB.Generated.Trans.routeHTTP_split [47, 97, 47, 98] = .done ([[97], [98]], [98]) := by decide
example : GB.Generated.Trans.routeHTTP_split [97] = .ret 0 := by decide
