import GB.C03.ProofsRoute
/- C03 helper lemmas: `routePath` in terms of `iterTbl`. (Proofs are split over ProofsDecode / ProofsMatch / ProofsRoute.) -/
namespace GB.C03
set_option linter.unusedSimpArgs false
set_option linter.unusedVariables false

theorem routePath_slash {ι : Type} (tbl : Table ι) (m : Bytes) (p : Bytes) :
    ∃ last, (splitSlash p).getLast? = some last ∧
      routePath (routesOf tbl) m (47 :: p) = iterTbl tbl m (splitSlash p) last := by
  cases h : (splitSlash p).getLast? with
  | none =>
    rw [List.getLast?_eq_none_iff] at h
    exact absurd h (splitSlash_ne_nil p)
  | some last =>
    refine ⟨last, rfl, ?_⟩
    simp only [routePath, h, iterTbl]

theorem routePath_no_slash {ι : Type} (rs : List (Route ι)) (m : Bytes) (path : Bytes)
    (h : ∀ p, path ≠ 47 :: p) : routePath rs m path = .error .invalidArgument := by
  unfold routePath
  split
  · rename_i p; exact absurd rfl (h p)
  · rfl

end GB.C03
