import GB.Base.Bytes
/-
  C03 — executable model of HTTP pattern routing.

  Code modelled (statement by statement where practical):
    internal/httprule/gwbased/{types,compile}.go   template AST, `Compile` (rawOps → opcodes/pool/fields)
    grpc-gateway/v2@v2.19.1/runtime/pattern.go     `NewPattern`, `Pattern.MatchAndEscape`, `unescape`
                                                   (called with `UnescapingModeAllExceptReserved`)
    net/url (go1.23) url.go                        `unescape`/`escape`/`shouldEscape`/`validEncoded` for
                                                   `encodePath`, `setPath`, `EscapedPath`, request-target parse
    routing/pattern_router.go                      `RouteHTTP` (path choice, leading slash, split, per-route verb
                                                   handling, skip/abort exits, first match), `buildPatternRoutes`
  The AST (`Tmpl`) is what `gwbased.Parse` returns; parsing itself is property C20's model.
  Two matchers are defined: the opcode interpreter over the compiled pattern (`matchAndEscape`, the code),
  and `matchSegs`, a structural matcher over the AST; `Proofs.lean` shows they agree
  (`matchAndEscape_compile`, ProofsResolve.lean) and that `matchSegs` decides the declarative relation of `Spec.lean`.
-/
namespace GB.C03

/-! ## Template AST (internal/httprule/gwbased/types.go) -/

/-- `wildcard`, `deepWildcard`, `literal` — the segments that may also appear inside a variable. -/
inductive VSeg where
  | lit (b : Bytes)
  | star
  | deep
  deriving DecidableEq, Repr, Inhabited

/-- A top-level segment: a plain one or `variable{path, segments}` (variables do not nest). -/
inductive Seg where
  | plain (v : VSeg)
  | var (path : Bytes) (parts : List VSeg)
  deriving DecidableEq, Repr, Inhabited

structure Tmpl where
  segs : List Seg
  verb : Bytes
  deriving DecidableEq, Repr, Inhabited

/-- `const eof = "\u0000"`: the literal the parser produces for the template `/`. -/
def eof : Bytes := [0]

/-! ## gwbased `Compile` -/

def opNop : Nat := 0
def opPush : Nat := 1
def opLitPush : Nat := 2
def opPushM : Nat := 3
def opConcatN : Nat := 4
def opCapture : Nat := 5

/-- gwbased `op{code, str, num}` -/
structure RawOp where
  code : Nat
  str : Bytes
  num : Nat
  deriving DecidableEq, Repr

def VSeg.compile : VSeg → RawOp
  | .star => ⟨opPush, [], 0⟩
  | .deep => ⟨opPushM, [], 0⟩
  | .lit l => ⟨opLitPush, l, 0⟩

def Seg.compile : Seg → List RawOp
  | .plain v => [v.compile]
  | .var path parts => parts.map VSeg.compile ++ [⟨opConcatN, [], parts.length⟩, ⟨opCapture, path, 0⟩]

def rawOps (segs : List Seg) : List RawOp := segs.flatMap Seg.compile

/-- The loop of `template.Compile` over `rawOps`. The Go `consts` map always holds the index of the first
    occurrence of a string in `pool`, so it is modelled by `List.idxOf`.
    Returns (opcodes, final pool, fields). -/
def encode : List RawOp → List Bytes → List Nat × List Bytes × List Bytes
  | [], pool => ([], pool, [])
  | op :: rest, pool =>
    if op.str = [] then
      let r := encode rest pool
      (op.code :: op.num :: r.1, r.2.1, if op.code = opCapture then op.str :: r.2.2 else r.2.2)
    else
      let s := if op.str = eof then [] else op.str
      let pool' := if s ∈ pool then pool else pool ++ [s]
      let r := encode rest pool'
      (op.code :: pool'.idxOf s :: r.1, r.2.1, if op.code = opCapture then s :: r.2.2 else r.2.2)

/-- gwbased `Template` (Version is the constant 1, Template the source text). -/
structure Template where
  opcodes : List Nat
  pool : List Bytes
  verb : Bytes
  fields : List Bytes
  deriving DecidableEq, Repr

def compile (t : Tmpl) : Template :=
  let r := encode (rawOps t.segs) []
  { opcodes := r.1, pool := r.2.1, verb := t.verb, fields := r.2.2 }

/-! ## runtime.NewPattern -/

structure Op where
  code : Nat
  operand : Nat
  deriving DecidableEq, Repr

structure Pattern where
  ops : List Op
  pool : List Bytes
  vars : List Bytes
  stacksize : Nat
  tailLen : Nat
  verb : Bytes
  deriving DecidableEq, Repr

/-- accumulators of the `NewPattern` loop -/
structure NPState where
  stack : Nat := 0
  maxstack : Nat := 0
  tailLen : Nat := 0
  pushMSeen : Bool := false
  vars : List Bytes := []
  deriving DecidableEq, Repr

def NPState.bump (s : NPState) : NPState :=
  { s with maxstack := if s.maxstack < s.stack then s.stack else s.maxstack }

/-- The `for i := 0; i < l; i += 2` loop; `none` = `ErrInvalidPattern` (an odd number of opcodes is
    detected here at the end instead of up front — same result). Operands are `Nat`: the compiled
    operands are never negative, so the `operand < 0` tests of the code are vacuous. -/
def npLoop (pool : List Bytes) : List Nat → NPState → Option (List Op × NPState)
  | [], s => some ([], s)
  | [_], _ => none
  | code :: operand :: rest, s =>
    if code = opNop then npLoop pool rest s
    else if code = opPush then
      let s := { s with tailLen := if s.pushMSeen then s.tailLen + 1 else s.tailLen, stack := s.stack + 1 }.bump
      (npLoop pool rest s).map fun r => (⟨code, operand⟩ :: r.1, r.2)
    else if code = opPushM then
      if s.pushMSeen then none
      else
        let s := { s with pushMSeen := true, stack := s.stack + 1 }.bump
        (npLoop pool rest s).map fun r => (⟨code, operand⟩ :: r.1, r.2)
    else if code = opLitPush then
      if pool.length ≤ operand then none
      else
        let s := { s with tailLen := if s.pushMSeen then s.tailLen + 1 else s.tailLen, stack := s.stack + 1 }.bump
        (npLoop pool rest s).map fun r => (⟨code, operand⟩ :: r.1, r.2)
    else if code = opConcatN then
      if operand = 0 then none
      else if s.stack < operand then none
      else
        let s := { s with stack := s.stack - operand + 1 }.bump
        (npLoop pool rest s).map fun r => (⟨code, operand⟩ :: r.1, r.2)
    else if code = opCapture then
      match pool[operand]? with
      | none => none
      | some v =>
        if s.stack < 1 then none
        else
          let idx := s.vars.length
          let s := { s with vars := s.vars ++ [v], stack := s.stack - 1 }.bump
          (npLoop pool rest s).map fun r => (⟨code, idx⟩ :: r.1, r.2)
    else none

def newPattern (version : Nat) (ops : List Nat) (pool : List Bytes) (verb : Bytes) : Option Pattern :=
  if version ≠ 1 then none
  else match npLoop pool ops {} with
    | none => none
    | some (tops, s) =>
      some { ops := tops, pool := pool, vars := s.vars, stacksize := s.maxstack, tailLen := s.tailLen, verb := verb }

/-! ## runtime `unescape` -/

def ishex (c : UInt8) : Bool :=
  (48 ≤ c && c ≤ 57) || (97 ≤ c && c ≤ 102) || (65 ≤ c && c ≤ 70)

def unhex (c : UInt8) : UInt8 :=
  if 48 ≤ c && c ≤ 57 then c - 48
  else if 97 ≤ c && c ≤ 102 then c - 97 + 10
  else if 65 ≤ c && c ≤ 70 then c - 65 + 10
  else 0

/-- `isRFC6570Reserved`:  ! # $ & ' ( ) * + , / : ; = ? @ [ ] -/
def isRFC6570Reserved (c : UInt8) : Bool :=
  c == 33 || c == 35 || c == 36 || c == 38 || c == 39 || c == 40 || c == 41 || c == 42 ||
  c == 43 || c == 44 || c == 47 || c == 58 || c == 59 || c == 61 || c == 63 || c == 64 || c == 91 || c == 93

/-- First loop of `unescape`: every `%` is followed by two hex digits. -/
def escapesOk : Bytes → Bool
  | [] => true
  | c :: rest =>
    if c = 37 then
      match rest with
      | h :: l :: r => ishex h && ishex l && escapesOk r
      | _ => false
    else escapesOk rest

/-- Second loop of `unescape` (`multisegment = true` keeps RFC 6570 reserved bytes encoded:
    only the `%` is written and the two hex digits follow as ordinary bytes). -/
def unescapeBuild (multisegment : Bool) : Bytes → Bytes
  | [] => []
  | c :: rest =>
    if c = 37 then
      match rest with
      | h :: l :: r =>
        let ch := (unhex h <<< 4) ||| unhex l
        -- `fallthrough`: only the `%` is written; the next two iterations copy `h`, `l` (hex digits, so not `%`)
        if multisegment && isRFC6570Reserved ch then 37 :: h :: l :: unescapeBuild multisegment r
        else ch :: unescapeBuild multisegment r
      | _ => 37 :: rest   -- unreachable after `escapesOk` (Go would index out of range)
    else c :: unescapeBuild multisegment rest

/-- `unescape(s, UnescapingModeAllExceptReserved, multisegment)`; `none` = `MalformedSequenceError`. -/
def unescape (multisegment : Bool) (s : Bytes) : Option Bytes :=
  if escapesOk s then some (unescapeBuild multisegment s) else none

/-! ## Pattern.MatchAndEscape -/

inductive MatchRes (α : Type) where
  | ok (a : α)
  | notMatch      -- `ErrNotMatch`
  | malformed     -- `MalformedSequenceError`
  | fault         -- a Go run-time panic (index out of range); unreachable for patterns built by `newPattern`
  deriving DecidableEq, Repr

/-- `strings.Join(xs, "/")` -/
def joinSlash : List Bytes → Bytes
  | [] => []
  | [x] => x
  | x :: y :: rest => x ++ 47 :: joinSlash (y :: rest)

abbrev Captures := List (Bytes × Bytes)

/-- The op loop. `rest` is `components[pos:]`, `stack` grows at the end like the Go slice,
    `captured` is the `captured []string` array. -/
def runOps (pool : List Bytes) (tailLen : Nat) : List Op → List Bytes → List Bytes → List Bytes →
    MatchRes (List Bytes)
  | [], rest, _, captured => if rest.isEmpty then .ok captured else .notMatch
  | op :: ops, rest, stack, captured =>
    if op.code = opNop then runOps pool tailLen ops rest stack captured
    else if op.code = opPush ∨ op.code = opLitPush then
      match rest with
      | [] => .notMatch
      | c :: rest' =>
        if op.code = opLitPush then
          match pool[op.operand]? with
          | none => .fault
          | some lit => if c ≠ lit then .notMatch else runOps pool tailLen ops rest' (stack ++ [c]) captured
        else
          match unescape false c with
          | none => .malformed
          | some c' => runOps pool tailLen ops rest' (stack ++ [c']) captured
    else if op.code = opPushM then
      if rest.length < tailLen then .notMatch
      else
        let n := rest.length - tailLen
        match unescape true (joinSlash (rest.take n)) with
        | none => .malformed
        | some c => runOps pool tailLen ops (rest.drop n) (stack ++ [c]) captured
    else if op.code = opConcatN then
      if stack.length < op.operand then .fault
      else
        let l := stack.length - op.operand
        runOps pool tailLen ops rest (stack.take l ++ [joinSlash (stack.drop l)]) captured
    else if op.code = opCapture then
      match stack.getLast? with
      | none => .fault
      | some top =>
        if captured.length ≤ op.operand then .fault
        else runOps pool tailLen ops rest stack.dropLast (captured.set op.operand top)
    else runOps pool tailLen ops rest stack captured

/-- `MatchAndEscape(components, verb, UnescapingModeAllExceptReserved)`. The result lists
    `(p.vars[i], captured[i])` in index order; the Go map built from it keeps the last value per key. -/
def matchAndEscape (p : Pattern) (components : List Bytes) (verb : Bytes) : MatchRes Captures :=
  if p.verb ≠ verb ∧ p.verb ≠ [] then .notMatch
  else
    let components :=
      if p.verb ≠ verb then
        match components.getLast? with
        | none => [58 :: verb]
        | some last => components.dropLast ++ [last ++ 58 :: verb]
      else components
    match runOps p.pool p.tailLen p.ops components [] (List.replicate p.vars.length []) with
    | .ok captured => .ok (p.vars.zip captured)
    | .notMatch => .notMatch
    | .malformed => .malformed
    | .fault => .fault

/-! ## The same matcher, structurally over the AST (shown equal to the above in Proofs.lean) -/

/-- the text a literal is compared with (`eof` stands for the empty segment of the template `/`) -/
def litText (l : Bytes) : Bytes := if l = eof then [] else l

def VSeg.isDeep : VSeg → Bool
  | .deep => true
  | _ => false

def Seg.atoms : Seg → List VSeg
  | .plain v => [v]
  | .var _ ps => ps

/-- all push-type ops of a template, in order -/
def atomsOf (segs : List Seg) : List VSeg := segs.flatMap Seg.atoms

def deepCount (segs : List Seg) : Nat := (atomsOf segs).countP VSeg.isDeep

/-- one push-type op; `after` = number of push-type ops that follow it in the pattern
    (for the single `**` of a pattern this is `tailLen`). Returns the pushed value and the remaining components. -/
def matchPart (after : Nat) : VSeg → List Bytes → MatchRes (Bytes × List Bytes)
  | .lit _, [] => .notMatch
  | .lit l, c :: rest => if c = litText l then .ok (c, rest) else .notMatch
  | .star, [] => .notMatch
  | .star, c :: rest =>
    match unescape false c with
    | none => .malformed
    | some v => .ok (v, rest)
  | .deep, cs =>
    if cs.length < after then .notMatch
    else
      match unescape true (joinSlash (cs.take (cs.length - after))) with
      | none => .malformed
      | some v => .ok (v, cs.drop (cs.length - after))

def MatchRes.bind {α β : Type} : MatchRes α → (α → MatchRes β) → MatchRes β
  | .ok a, f => f a
  | .notMatch, _ => .notMatch
  | .malformed, _ => .malformed
  | .fault, _ => .fault

def matchParts : List VSeg → Nat → List Bytes → MatchRes (List Bytes × List Bytes)
  | [], _, cs => .ok ([], cs)
  | p :: ps, after, cs =>
    (matchPart (ps.length + after) p cs).bind fun r =>
      (matchParts ps after r.2).bind fun r' => .ok (r.1 :: r'.1, r'.2)

def matchSegs : List Seg → List Bytes → MatchRes Captures
  | [], cs => if cs.isEmpty then .ok [] else .notMatch
  | .plain p :: ss, cs =>
    (matchPart (atomsOf ss).length p cs).bind fun r => matchSegs ss r.2
  | .var x ps :: ss, cs =>
    (matchParts ps (atomsOf ss).length cs).bind fun r =>
      (matchSegs ss r.2).bind fun b => .ok ((x, joinSlash r.1) :: b)

/-- `MatchAndEscape` of the pattern compiled from `t`, over the AST. -/
def matchTmpl (t : Tmpl) (components : List Bytes) (verb : Bytes) : MatchRes Captures :=
  if t.verb ≠ verb ∧ t.verb ≠ [] then .notMatch
  else
    let components :=
      if t.verb ≠ verb then
        match components.getLast? with
        | none => [58 :: verb]
        | some last => components.dropLast ++ [last ++ 58 :: verb]
      else components
    matchSegs t.segs components

/-! ## net/url (mode `encodePath` only) -/

structure Url where
  path : Bytes
  rawPath : Bytes
  deriving DecidableEq, Repr, Inhabited

def isAlnum (c : UInt8) : Bool :=
  (97 ≤ c && c ≤ 122) || (65 ≤ c && c ≤ 90) || (48 ≤ c && c ≤ 57)

/-- `shouldEscape(c, encodePath)`: unreserved and `$ & + , / : ; = @` stay, everything else (incl. `?`) is escaped. -/
def urlShouldEscape (c : UInt8) : Bool :=
  if isAlnum c then false
  else if c == 45 || c == 95 || c == 46 || c == 126 then false
  else if c == 36 || c == 38 || c == 43 || c == 44 || c == 47 || c == 58 || c == 59 || c == 61 || c == 63 || c == 64 then
    c == 63
  else true

/-- second loop of net/url `unescape` for `encodePath`: every escape is decoded, `+` stays -/
def urlUnescapeBuild : Bytes → Bytes
  | [] => []
  | c :: rest =>
    if c = 37 then
      match rest with
      | h :: l :: r => ((unhex h <<< 4) ||| unhex l) :: urlUnescapeBuild r
      | _ => 37 :: rest   -- unreachable after `escapesOk`
    else c :: urlUnescapeBuild rest

/-- `unescape(s, encodePath)`; `none` = `EscapeError`. The validation loop is the same as the gateway's. -/
def urlUnescape (s : Bytes) : Option Bytes :=
  if escapesOk s then some (urlUnescapeBuild s) else none

def upperhex (n : UInt8) : UInt8 := if n < 10 then 48 + n else 55 + n

/-- `escape(s, encodePath)` -/
def urlEscape : Bytes → Bytes
  | [] => []
  | c :: rest =>
    if urlShouldEscape c then 37 :: upperhex (c >>> 4) :: upperhex (c &&& 15) :: urlEscape rest
    else c :: urlEscape rest

/-- `validEncoded(s, encodePath)` -/
def validEncoded (s : Bytes) : Bool :=
  s.all fun c =>
    if c == 33 || c == 36 || c == 38 || c == 39 || c == 40 || c == 41 || c == 42 || c == 43 || c == 44 ||
       c == 59 || c == 61 || c == 58 || c == 64 || c == 91 || c == 93 || c == 37 then true
    else !urlShouldEscape c

/-- `(*URL).setPath` -/
def setPath (p : Bytes) : Option Url :=
  match urlUnescape p with
  | none => none
  | some path => some { path := path, rawPath := if urlEscape path = p then [] else p }

/-- `(*URL).EscapedPath` -/
def escapedPath (u : Url) : Bytes :=
  if u.rawPath ≠ [] ∧ validEncoded u.rawPath ∧ urlUnescape u.rawPath = some u.path then u.rawPath
  else if u.path = [42] then [42]
  else urlEscape u.path

def containsCTL (s : Bytes) : Bool := s.any fun b => b < 32 || b == 127

/-- `strings.Cut(s, "?")` first component -/
def beforeQuery : Bytes → Bytes
  | [] => []
  | c :: rest => if c = 63 then [] else c :: beforeQuery rest

def isLetter (c : UInt8) : Bool := (97 ≤ c && c ≤ 122) || (65 ≤ c && c ≤ 90)

/-- `getScheme`: `none` = error ("missing protocol scheme"), `some none` = no scheme,
    `some (some (scheme, rest))` = `scheme:rest`. `first` is `i == 0`. -/
def getScheme (first : Bool) (acc : Bytes) : Bytes → Option (Option (Bytes × Bytes))
  | [] => some none
  | c :: r =>
    if isLetter c then getScheme false (acc ++ [c]) r
    else if (48 ≤ c && c ≤ 57) || c == 43 || c == 45 || c == 46 then
      (if first then some none else getScheme false (acc ++ [c]) r)
    else if c == 58 then (if first then none else some (some (acc, r)))
    else some none

/-- authorities whose `parseAuthority` is certainly fine and has no effect on the path:
    `[A-Za-z0-9.-]*` optionally followed by `:` and digits (no userinfo, no IPv6 literal, no escapes).
    Kept as the easy sub-domain (`simpleAuth a → authorityOk a`, ProofsUrl.lean); the model now uses `authorityOk`. -/
def simpleAuth (a : Bytes) : Bool :=
  let host := a.takeWhile (· != 58)
  let port := a.dropWhile (· != 58)
  host.all (fun c => isAlnum c || c == 46 || c == 45) &&
    (match port with
     | [] => true
     | _ :: ds => ds.all fun c => 48 ≤ c && c ≤ 57)

/-! ### `parseAuthority` (userinfo, `[v6]` literals with zones, ports, %-escapes in the host)

  Only success/failure matters for routing: `URL.User`/`URL.Host` are never read by `RouteHTTP`, and the path that
  follows the authority is handed to `setPath` unchanged. -/

/-- `shouldEscape(c, encodeHost)` = `shouldEscape(c, encodeZone)`: alphanumerics, the sub-delims
    `! $ & ' ( ) * + , ; =`, `: [ ] < > "` and the marks `- _ . ~` stay; `/ ? @` and everything else is escaped. -/
def hostShouldEscape (c : UInt8) : Bool :=
  if isAlnum c then false
  else if c == 33 || c == 36 || c == 38 || c == 39 || c == 40 || c == 41 || c == 42 || c == 43 || c == 44 ||
      c == 59 || c == 61 || c == 58 || c == 91 || c == 93 || c == 60 || c == 62 || c == 34 then false
  else if c == 45 || c == 95 || c == 46 || c == 126 then false
  else true

/-- the validation loop of `unescape(s, encodeHost)` (`zone = false`) / `unescape(s, encodeZone)` (`zone = true`):
    `%XY` needs two hex digits; in a host only `%25` and escapes of non-ASCII bytes (`unhex(X) ≥ 8`) are allowed; in a
    zone `%25`, `%20` and escapes of bytes that could be written directly; an unescaped ASCII byte must be a host byte. -/
def hostEscapesOk (zone : Bool) : Bytes → Bool
  | [] => true
  | c :: rest =>
    if c = 37 then
      match rest with
      | h :: l :: r =>
        ishex h && ishex l &&
          (if zone then ((h == 50 && l == 53) || ((unhex h <<< 4) ||| unhex l) == 32 ||
              !hostShouldEscape ((unhex h <<< 4) ||| unhex l))
           else (!(unhex h < 8) || (h == 50 && l == 53))) &&
          hostEscapesOk zone r
      | _ => false
    else !(c < 128 && hostShouldEscape c) && hostEscapesOk zone rest

/-- `validOptionalPort` -/
def validOptionalPort : Bytes → Bool
  | [] => true
  | c :: ds => c == 58 && ds.all fun b => 48 ≤ b && b ≤ 57

/-- `strings.LastIndex(s, string(c))` -/
def lastIndexByte (c : UInt8) : Bytes → Option Nat
  | [] => none
  | x :: r =>
    match lastIndexByte c r with
    | some i => some (i + 1)
    | none => if x = c then some 0 else none

/-- `strings.Index(s, "%25")` -/
def indexPct25 : Bytes → Option Nat
  | [] => none
  | c :: r => if (c :: r).take 3 = [37, 50, 53] then some 0 else (indexPct25 r).map (· + 1)

/-- `parseHost(host)` succeeds -/
def hostOk (host : Bytes) : Bool :=
  match host with
  | 91 :: _ =>
    match lastIndexByte 93 host with
    | none => false                                   -- missing ']' in host
    | some i =>
      if !validOptionalPort (host.drop (i + 1)) then false
      else match indexPct25 (host.take i) with
        | some z => hostEscapesOk false (host.take z) && hostEscapesOk true ((host.take i).drop z) &&
                      hostEscapesOk false (host.drop i)
        | none => hostEscapesOk false host
  | _ =>
    match lastIndexByte 58 host with
    | some i => if !validOptionalPort (host.drop i) then false else hostEscapesOk false host
    | none => hostEscapesOk false host

/-- `validUserinfo` (ranging over runes: every byte ≥ 0x80 belongs to a rune outside the allowed set) -/
def validUserinfo (s : Bytes) : Bool :=
  s.all fun c => isAlnum c || c == 45 || c == 46 || c == 95 || c == 58 || c == 126 || c == 33 || c == 36 || c == 38 ||
    c == 39 || c == 40 || c == 41 || c == 42 || c == 43 || c == 44 || c == 59 || c == 61 || c == 37 || c == 64

/-- `parseAuthority(authority)` succeeds: host after the last `@`; userinfo valid and, cut at its first `:`,
    both halves with complete escapes (`unescape(·, encodeUserPassword)`) -/
def authorityOk (a : Bytes) : Bool :=
  match lastIndexByte 64 a with
  | none => hostOk a
  | some i =>
    hostOk (a.drop (i + 1)) &&
      (let userinfo := a.take i
       validUserinfo userinfo &&
         (if userinfo.contains 58 then
            escapesOk (userinfo.takeWhile (· != 58)) && escapesOk ((userinfo.dropWhile (· != 58)).drop 1)
          else escapesOk userinfo))

/-- `url.ParseRequestURI(raw)` (`parse(raw, viaRequest = true)`): control-character check, empty, `*`, `getScheme`,
    query cut (both branches of the code — `ForceQuery` / `strings.Cut` — leave the text before the first `?`),
    then: no scheme ⇒ the target must start with `/` and no authority is split off; with a scheme ⇒ opaque
    (`Path` empty) / `//authority` + path / `/path`; the authority goes through `parseAuthority` (`authorityOk`:
    userinfo, IPv6 literals and zones, ports, escapes) and only decides between error and success.
    Inner `none` = parse error; the outer `Option` is always `some` (kept from the time when non-trivial
    authorities were outside the model). -/
def parseRequestURI (raw : Bytes) : Option (Option Url) :=
  if containsCTL raw then some none
  else if raw = [] then some none
  else if raw = [42] then some (some { path := [42], rawPath := [] })
  else match getScheme true [] raw with
    | none => some none
    | some none =>
      match raw with
      | 47 :: _ => some (setPath (beforeQuery raw))
      | _ => some none
    | some (some (_, rest)) =>
      match beforeQuery rest with
      | 47 :: 47 :: a =>
        if authorityOk (a.takeWhile (· != 47)) then some (setPath (a.dropWhile (· != 47))) else some none
      | 47 :: r => some (setPath (47 :: r))
      | _ => some (some { path := [], rawPath := [] })

/-! ## PatternRouter.RouteHTTP -/

/-- `strings.Split(s, "/")` (always at least one component) -/
def splitSlash : Bytes → List Bytes
  | [] => [[]]
  | c :: rest =>
    if c = 47 then [] :: splitSlash rest
    else match splitSlash rest with
      | [] => [[c]]   -- unreachable
      | x :: xs => (c :: x) :: xs

inductive Code where
  | notFound
  | invalidArgument
  deriving DecidableEq, Repr

inductive RouteResult (ι : Type) where
  | found (id : ι) (params : Captures)
  | error (c : Code)
  deriving Repr

instance {ι} [DecidableEq ι] : DecidableEq (RouteResult ι) := fun a b => by
  cases a <;> cases b <;> first
    | (rename_i i p j q; exact if h : i = j ∧ p = q then isTrue (by rw [h.1, h.2]) else isFalse (by intro e; cases e; exact h ⟨rfl, rfl⟩))
    | (rename_i c d; exact if h : c = d then isTrue (by rw [h]) else isFalse (by intro e; cases e; exact h rfl))
    | exact isFalse (by intro e; cases e)

/-- one entry of the routing table: `patternRoute` + its HTTP method; `run` is
    `route.pattern.MatchAndEscape(·, ·, UnescapingModeAllExceptReserved)` and `verb` is `route.pattern.Verb()`. -/
structure Route (ι : Type) where
  id : ι
  httpMethod : Bytes
  verb : Bytes
  run : List Bytes → Bytes → MatchRes Captures

def hasSuffix (s suf : Bytes) : Bool := suf.length ≤ s.length && s.drop (s.length - suf.length) == suf

/-- body of the closure passed to `iterate` for one route, after fix D3 (`verbIdx == 0` ⇒ `return true`). -/
def stepRoute {ι} (comps : List Bytes) (last : Bytes) (r : Route ι) : MatchRes Captures :=
  if r.verb ≠ [] ∧ hasSuffix last (58 :: r.verb) then
    let verbIdx := last.length - r.verb.length - 1
    if verbIdx = 0 then .notMatch
    else r.run (comps.dropLast ++ [last.take verbIdx]) (last.drop (verbIdx + 1))
  else r.run comps []

def iterate {ι} (comps : List Bytes) (last : Bytes) : List (Route ι) → RouteResult ι
  | [] => .error .notFound
  | r :: rs =>
    match stepRoute comps last r with
    | .ok params => .found r.id params
    | .malformed => .error .invalidArgument
    | .notMatch => iterate comps last rs
    | .fault => iterate comps last rs   -- unreachable

/-- routing on the chosen path string -/
def routePath {ι} (tbl : List (Route ι)) (method : Bytes) (path : Bytes) : RouteResult ι :=
  match path with
  | 47 :: p =>
    let comps := splitSlash p
    match comps.getLast? with
    | none => .error .notFound   -- unreachable: Split returns ≥ 1 component
    | some last => iterate comps last (tbl.filter fun r => r.httpMethod == method)
  | _ => .error .invalidArgument

/-- path selection after fix D2: `RawPath`, else `EscapedPath()` -/
def pathChoice (u : Url) : Bytes := if u.rawPath ≠ [] then u.rawPath else escapedPath u

def routeHTTP {ι} (tbl : List (Route ι)) (method : Bytes) (u : Url) : RouteResult ι :=
  routePath tbl method (pathChoice u)

/-! ### the code before fixes D2 / D3 (kept to state what was wrong) -/

def pathChoicePreFix (u : Url) : Bytes := if u.rawPath ≠ [] then u.rawPath else u.path

def iteratePreFix {ι} (comps : List Bytes) (last : Bytes) : List (Route ι) → RouteResult ι
  | [] => .error .notFound
  | r :: rs =>
    if r.verb ≠ [] ∧ hasSuffix last (58 :: r.verb) ∧ last.length - r.verb.length - 1 = 0 then .error .notFound
    else match stepRoute comps last r with
      | .ok params => .found r.id params
      | .malformed => .error .invalidArgument
      | .notMatch => iteratePreFix comps last rs
      | .fault => iteratePreFix comps last rs

def routeHTTPPreFix {ι} (tbl : List (Route ι)) (method : Bytes) (u : Url) : RouteResult ι :=
  match pathChoicePreFix u with
  | 47 :: p =>
    let comps := splitSlash p
    match comps.getLast? with
    | none => .error .notFound
    | some last => iteratePreFix comps last (tbl.filter fun r => r.httpMethod == method)
  | _ => .error .invalidArgument

/-! ### a single verb split before the route loop (grpc-gateway `ServeMux` style; seeded change C03-m10)

  NOT what `RouteHTTP` does — kept to state why the verb must be cut per route: behind a closing `}` the template
  verb is everything after the first `:` (gwbased `tokenize`), so it may contain `:` itself. -/

/-- `idx := strings.LastIndexByte(last, ':'); idx > 0 && idx < len(last)-1` ⇒ `(last[:idx], last[idx+1:])` -/
def splitLastColon (last : Bytes) : Bytes × Bytes :=
  match lastIndexByte 58 last with
  | some idx => if 0 < idx ∧ idx < last.length - 1 then (last.take idx, last.drop (idx + 1)) else (last, [])
  | none => (last, [])

def iteratePreSplit {ι} (comps : List Bytes) (verb : Bytes) : List (Route ι) → RouteResult ι
  | [] => .error .notFound
  | r :: rs =>
    match r.run comps verb with
    | .ok params => .found r.id params
    | .malformed => .error .invalidArgument
    | .notMatch => iteratePreSplit comps verb rs
    | .fault => iteratePreSplit comps verb rs

def routePathPreSplit {ι} (tbl : List (Route ι)) (method : Bytes) (path : Bytes) : RouteResult ι :=
  match path with
  | 47 :: p =>
    let comps := splitSlash p
    match comps.getLast? with
    | none => .error .notFound
    | some last =>
      let sv := splitLastColon last
      iteratePreSplit (comps.dropLast ++ [sv.1]) sv.2 (tbl.filter fun r => r.httpMethod == method)
  | _ => .error .invalidArgument

/-! ## buildPatternRoutes -/

/-- a binding as `buildPattern` sees it: `pattern = none` when `httprule.Parse` rejected the text -/
structure BindingD where
  httpMethod : Bytes
  pattern : Option Tmpl
  deriving Repr

/-- `dflt` = `httprule.Parse(method.RPCName)` (pattern of `bridgedesc.DefaultBinding`) -/
structure MethodD where
  dflt : Option Tmpl
  bindings : List BindingD
  deriving Repr

structure ServiceD where
  methods : List MethodD
  deriving Repr

structure TargetD where
  services : List ServiceD
  deriving Repr

/-- which binding a route came from: target, service, method index; `binding = none` is the default binding -/
structure RouteId where
  target : Nat
  service : Nat
  method : Nat
  binding : Option Nat
  deriving DecidableEq, Repr

def post : Bytes := [80, 79, 83, 84]

/-- `buildPattern` + `addBinding` through the compiled pattern (the code path) -/
def mkRouteC (id : RouteId) (m : Bytes) (t : Option Tmpl) : List (Route RouteId) :=
  match t with
  | none => []
  | some t =>
    let tp := compile t
    match newPattern 1 tp.opcodes tp.pool tp.verb with
    | none => []
    | some p => [{ id := id, httpMethod := m, verb := p.verb, run := matchAndEscape p }]

/-- the same over the AST: `NewPattern` rejects exactly the templates with two `**` -/
def mkRouteA (id : RouteId) (m : Bytes) (t : Option Tmpl) : List (Route RouteId) :=
  match t with
  | none => []
  | some t => if deepCount t.segs ≤ 1 then [{ id := id, httpMethod := m, verb := t.verb, run := matchTmpl t }] else []

def enum {α} (xs : List α) : List (Nat × α) := xs.zipIdx.map fun p => (p.2, p.1)

/-- `buildPatternRoutes`, flattened: routes of all HTTP methods in description order
    (`iterate(method)` then filters by method, which is what the per-method map lists hold).
    `mk` turns one binding into zero or one table entries (`addBinding`; a failing `buildPattern` adds nothing). -/
def buildMethod {β : Type} (mk : RouteId → Bytes → Option Tmpl → List β) (ti si mi : Nat) (m : MethodD) : List β :=
  if m.bindings.isEmpty then mk ⟨ti, si, mi, none⟩ post m.dflt
  else (enum m.bindings).flatMap fun p => mk ⟨ti, si, mi, some p.1⟩ p.2.httpMethod p.2.pattern

def buildTarget {β : Type} (mk : RouteId → Bytes → Option Tmpl → List β) (ti : Nat) (t : TargetD) : List β :=
  (enum t.services).flatMap fun ps => (enum ps.2.methods).flatMap fun pm => buildMethod mk ti ps.1 pm.1 pm.2

/-- the static table after `UpdateDesc` of each target once, in that order -/
def buildTable {β : Type} (mk : RouteId → Bytes → Option Tmpl → List β) (ts : List TargetD) : List β :=
  (enum ts).flatMap fun pt => buildTarget mk pt.1 pt.2

/-- the table abstractly: (binding id, HTTP method, template) for every binding that yields a pattern -/
def mkEntry (id : RouteId) (m : Bytes) (t : Option Tmpl) : List (RouteId × Bytes × Tmpl) :=
  match t with
  | none => []
  | some t => if deepCount t.segs ≤ 1 then [(id, m, t)] else []

end GB.C03
