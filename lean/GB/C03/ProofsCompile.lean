import GB.C03.ProofsBuild
/-
  C03 helper lemmas: the opcode *program* `Compile` emits, run on the gateway's stack machine, computes the
  structural matcher `matchSegs`. Here the program is read symbolically (`SOp`: operands are the strings
  themselves, i.e. `rawOps` of compile.go before the constant pool is built); the resolution of pool / variable
  indices (`encode`, `npLoop`, `runOps`) is ProofsResolve.lean.
-/
namespace GB.C03
set_option linter.unusedSimpArgs false
set_option linter.unusedVariables false

inductive SOp where
  | push
  | pushM
  | lit (s : Bytes)
  | concat (n : Nat)
  | capture (x : Bytes)
  deriving DecidableEq, Repr

def SOp.raw : SOp → RawOp
  | .push => ⟨opPush, [], 0⟩
  | .pushM => ⟨opPushM, [], 0⟩
  | .lit s => ⟨opLitPush, s, 0⟩
  | .concat n => ⟨opConcatN, [], n⟩
  | .capture x => ⟨opCapture, x, 0⟩

def VSeg.sym : VSeg → SOp
  | .star => .push
  | .deep => .pushM
  | .lit l => .lit l

def Seg.sym : Seg → List SOp
  | .plain v => [v.sym]
  | .var x ps => ps.map VSeg.sym ++ [.concat ps.length, .capture x]

def symOps (segs : List Seg) : List SOp := segs.flatMap Seg.sym

theorem rawOps_eq_sym (segs : List Seg) : rawOps segs = (symOps segs).map SOp.raw := by
  simp only [rawOps, symOps, List.map_flatMap]
  congr 1; funext s
  cases s with
  | plain v => cases v <;> rfl
  | var x ps =>
    simp only [Seg.compile, Seg.sym, List.map_append, List.map_map, List.map_cons, List.map_nil, SOp.raw]
    congr 1
    apply List.map_congr_left
    intro v _; cases v <;> rfl

/-- `runOps` with the operands resolved: same stack machine, strings instead of pool / variable indices;
    captures are appended in op order (the `captured` array is filled in index order). -/
def runSym (tl : Nat) : List SOp → List Bytes → List Bytes → Captures → MatchRes Captures
  | [], rest, _, caps => if rest.isEmpty then .ok caps else .notMatch
  | .push :: ops, rest, stack, caps =>
    match rest with
    | [] => .notMatch
    | c :: r =>
      match unescape false c with
      | none => .malformed
      | some c' => runSym tl ops r (stack ++ [c']) caps
  | .lit s :: ops, rest, stack, caps =>
    match rest with
    | [] => .notMatch
    | c :: r => if c ≠ litText s then .notMatch else runSym tl ops r (stack ++ [c]) caps
  | .pushM :: ops, rest, stack, caps =>
    if rest.length < tl then .notMatch
    else
      match unescape true (joinSlash (rest.take (rest.length - tl))) with
      | none => .malformed
      | some c => runSym tl ops (rest.drop (rest.length - tl)) (stack ++ [c]) caps
  | .concat n :: ops, rest, stack, caps =>
    if stack.length < n then .fault
    else runSym tl ops rest (stack.take (stack.length - n) ++ [joinSlash (stack.drop (stack.length - n))]) caps
  | .capture x :: ops, rest, stack, caps =>
    match stack.getLast? with
    | none => .fault
    | some top => runSym tl ops rest stack.dropLast (caps ++ [(x, top)])

/-- `tl` is the pattern's `tailLen` as far as the remaining atoms are concerned:
    if a `**` is still to come, `tl` is the number of atoms after it -/
def TailOk (tl : Nat) (atoms : List VSeg) : Prop :=
  ∀ pre post, atoms = pre ++ VSeg.deep :: post → tl = post.length

theorem TailOk.tail {tl : Nat} {a : VSeg} {as : List VSeg} (h : TailOk tl (a :: as)) : TailOk tl as :=
  fun pre post e => h (a :: pre) post (by rw [e]; rfl)

theorem TailOk.drop {tl : Nat} {as bs : List VSeg} (h : TailOk tl (as ++ bs)) : TailOk tl bs :=
  fun pre post e => h (as ++ pre) post (by rw [e, List.append_assoc])

/-- one push-type op of the machine is `matchPart` -/
theorem runSym_atom (tl : Nat) (v : VSeg) (ops : List SOp) (cs stack : List Bytes) (caps : Captures)
    (after : Nat) (hd : v = .deep → tl = after) :
    runSym tl (v.sym :: ops) cs stack caps =
      (matchPart after v cs).bind fun r => runSym tl ops r.2 (stack ++ [r.1]) caps := by
  cases v with
  | lit l =>
    cases cs with
    | nil => simp [VSeg.sym, runSym, matchPart]
    | cons c r =>
      simp only [VSeg.sym, runSym, matchPart]
      by_cases hc : c = litText l <;> simp [hc]
  | star =>
    cases cs with
    | nil => simp [VSeg.sym, runSym, matchPart]
    | cons c r =>
      simp only [VSeg.sym, runSym, matchPart]
      cases unescape false c <;> simp
  | deep =>
    have := hd rfl; subst this
    simp only [VSeg.sym, runSym, matchPart]
    split
    · simp
    · cases unescape true (joinSlash (List.take (cs.length - tl) cs)) <;> simp

theorem matchParts_len {ps : List VSeg} : ∀ {after : Nat} {cs vs cs' : List Bytes},
    matchParts ps after cs = .ok (vs, cs') → vs.length = ps.length := by
  induction ps with
  | nil => intro after cs vs cs' h; simp only [matchParts, MatchRes.ok.injEq, Prod.mk.injEq] at h; rw [← h.1]; rfl
  | cons p ps ih =>
    intro after cs vs cs' h
    simp only [matchParts] at h
    obtain ⟨r, h1, h⟩ := bind_eq_ok h
    obtain ⟨r', h2, h⟩ := bind_eq_ok h
    simp only [MatchRes.ok.injEq, Prod.mk.injEq] at h
    rw [← h.1]
    simp only [List.length_cons]
    rw [ih (vs := r'.1) (cs' := r'.2) h2]

/-- the pushes of a variable's parts are `matchParts` -/
theorem runSym_parts (tl : Nat) (ps : List VSeg) : ∀ (more : List SOp) (cs stack : List Bytes) (caps : Captures)
    (after : Nat), (∀ pre post, ps = pre ++ VSeg.deep :: post → tl = post.length + after) →
    runSym tl (ps.map VSeg.sym ++ more) cs stack caps =
      (matchParts ps after cs).bind fun r => runSym tl more r.2 (stack ++ r.1) caps := by
  induction ps with
  | nil => intro more cs stack caps after _; simp [matchParts]
  | cons p ps ih =>
    intro more cs stack caps after h
    simp only [List.map_cons, List.cons_append, matchParts]
    rw [runSym_atom tl p _ cs stack caps (ps.length + after) (by
      intro hp; subst hp; exact h [] ps rfl)]
    cases hm : matchPart (ps.length + after) p cs with
    | ok r =>
      simp only [bind_ok]
      rw [ih more r.2 (stack ++ [r.1]) caps after (fun pre post e => h (p :: pre) post (by rw [e]; rfl))]
      cases matchParts ps after r.2 with
      | ok r' => simp [List.append_assoc]
      | notMatch => simp
      | malformed => simp
      | fault => simp
    | notMatch => simp
    | malformed => simp
    | fault => simp

/-- The compiled program on the stack machine computes `matchSegs` (captures appended in order). -/
theorem runSym_segs (tl : Nat) (segs : List Seg) : ∀ (cs stack : List Bytes) (caps : Captures),
    TailOk tl (atomsOf segs) →
    runSym tl (symOps segs) cs stack caps = (matchSegs segs cs).bind fun b => .ok (caps ++ b) := by
  induction segs with
  | nil =>
    intro cs stack caps _
    simp only [symOps, List.flatMap_nil, runSym, matchSegs]
    split <;> simp
  | cons s segs ih =>
    intro cs stack caps h
    rw [atomsOf_cons] at h
    have hrest : TailOk tl (atomsOf segs) := h.drop
    cases s with
    | plain v =>
      simp only [symOps, List.flatMap_cons, Seg.sym, List.cons_append, List.nil_append, matchSegs]
      rw [runSym_atom tl v _ cs stack caps (atomsOf segs).length (by
        intro hv; subst hv; exact h [] (atomsOf segs) rfl)]
      cases hm : matchPart (atomsOf segs).length v cs with
      | ok r =>
        simp only [bind_ok]
        exact ih r.2 (stack ++ [r.1]) caps hrest
      | notMatch => simp
      | malformed => simp
      | fault => simp
    | var x ps =>
      simp only [symOps, List.flatMap_cons, Seg.sym, List.append_assoc, List.cons_append, List.nil_append, matchSegs]
      rw [runSym_parts tl ps _ cs stack caps (atomsOf segs).length (by
        intro pre post e
        have := h pre (post ++ atomsOf segs) (by simp only [Seg.atoms]; rw [e]; simp)
        rw [this, List.length_append])]
      cases hm : matchParts ps (atomsOf segs).length cs with
      | ok r =>
        simp only [bind_ok]
        have hlen := matchParts_len (vs := r.1) (cs' := r.2) hm
        have h1 : ¬ (stack ++ r.1).length < ps.length := by simp [List.length_append, hlen]
        have h2 : (stack ++ r.1).length - ps.length = stack.length := by simp [List.length_append, hlen]
        simp only [runSym, h1, ↓reduceIte, h2, List.take_left', List.drop_left', List.getLast?_append,
          List.getLast?_singleton, Option.some_or, List.dropLast_concat]
        have := ih r.2 stack (caps ++ [(x, joinSlash r.1)]) hrest
        simp only [symOps] at this
        rw [this]
        cases matchSegs segs r.2 <;> simp
      | notMatch => simp
      | malformed => simp
      | fault => simp

/-- what `NewPattern` computes as `tailLen`: the push-type ops after the first `**` -/
def tailLenOfAtoms : List VSeg → Nat
  | [] => 0
  | .deep :: rest => rest.length
  | _ :: rest => tailLenOfAtoms rest

theorem tailOk_tailLenOfAtoms (atoms : List VSeg) (h : atoms.countP VSeg.isDeep ≤ 1) :
    TailOk (tailLenOfAtoms atoms) atoms := by
  induction atoms with
  | nil => intro pre post e; cases pre <;> simp at e
  | cons a as ih =>
    intro pre post e
    cases pre with
    | nil =>
      simp only [List.nil_append, List.cons.injEq] at e
      obtain ⟨rfl, rfl⟩ := e
      rfl
    | cons p pre' =>
      simp only [List.cons_append, List.cons.injEq] at e
      obtain ⟨rfl, rfl⟩ := e
      rw [List.countP_cons] at h
      cases a with
      | deep =>
        -- a second `**` would follow: excluded by the count
        simp only [VSeg.isDeep, ↓reduceIte, List.countP_append, List.countP_cons] at h
        omega
      | lit l =>
        simp only [tailLenOfAtoms]
        exact ih (by simp only [VSeg.isDeep] at h; simpa using h) pre' post rfl
      | star =>
        simp only [tailLenOfAtoms]
        exact ih (by simp only [VSeg.isDeep] at h; simpa using h) pre' post rfl

end GB.C03
