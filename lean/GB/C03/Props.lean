import GB.C03.ProofsPath
import GB.C20.BridgeShape
import GB.C03.ProofsStack
import GB.Generated.Facts
/-
  C03 — property theorems. Theorems only; helper lemmas live in Proofs*.lean.
  `Tmpl` is the parsed template (`gwbased.Parse`, property C20), `Table` the routing table as a list of
  (binding id, HTTP method, template) in iteration order, `routesOf` its routes with `MatchAndEscape` read
  over the AST (`matchTmpl`); `C03_compiled_matcher` / `C03_code_table` show that is what the compiled pattern
  computes and that the table built through `Compile` + `NewPattern` is this one.
-/
open GB GB.C03

/-- The gateway's validate-then-build `unescape` is the one-pass decoder of the spec, for every byte string
    and both modes: each captured value is produced by exactly one decoding pass. -/
theorem C03_unescape_once (multi : Bool) (s : Bytes) : unescape multi s = decodeOnce multi s :=
  unescape_eq_decodeOnce multi s

/-- matcher ↔ `Matches`, for every template with at most one `**` and every component list. -/
theorem C03_matcher (t : Tmpl) (hd : deepCount t.segs ≤ 1) (comps : List Bytes) (b : Captures) :
    matchTmpl t comps t.verb = .ok b ↔ Matches t comps t.verb b := by
  rw [matchTmpl_own_verb, matchSegs_iff hd]
  simp [Matches]

/-- a template with a verb never matches a different verb; the matcher never faults;
    it reports a malformed escape only when a component has one. -/
theorem C03_matcher_other (t : Tmpl) (comps : List Bytes) (verb : Bytes) :
    (t.verb ≠ [] → verb ≠ t.verb → matchTmpl t comps verb = .notMatch) ∧
    matchTmpl t comps t.verb ≠ .fault ∧
    (matchTmpl t comps t.verb = .malformed → ∃ c ∈ comps, ¬ WellEscaped c) := by
  refine ⟨?_, ?_, ?_⟩
  · intro h1 h2
    have : t.verb ≠ verb := fun e => h2 e.symm
    simp [matchTmpl, h1, this]
  · rw [matchTmpl_own_verb]; exact matchSegs_ne_fault _
  · rw [matchTmpl_own_verb]; exact matchSegs_malformed

/-- Compiler correctness, symbolic level: the op sequence `Compile` emits (`rawOps`, operands still strings),
    run on the gateway's stack machine (`runSym`: pos/stack/concat/capture, `tailLen` = ops after the `**`),
    computes exactly the structural matcher — for every template with at most one `**` and every component list.
    (The resolution of pool / variable indices by `encode` + `npLoop` is `C03_compiled_matcher` below.) -/
theorem C03_compiled_program (t : Tmpl) (hd : deepCount t.segs ≤ 1) (comps : List Bytes) :
    rawOps t.segs = (symOps t.segs).map SOp.raw ∧
    runSym (tailLenOfAtoms (atomsOf t.segs)) (symOps t.segs) comps [] [] = matchSegs t.segs comps := by
  refine ⟨rawOps_eq_sym _, ?_⟩
  rw [runSym_segs _ _ _ _ _ (tailOk_tailLenOfAtoms _ hd)]
  cases matchSegs t.segs comps <;> simp

/-- The missing link, closed: the INTEGER program and constant pool `Compile` emits (`encode`: opcode/operand pairs,
    pool de-duplication with first-occurrence indices, fields), read by the model of `NewPattern` (pool bounds,
    variable indices, `tailLen`) and interpreted by the model of `MatchAndEscape` (pool lookups by index, `captured`
    array by variable index, stack, `vars` zip) computes the structural matcher — for every parser-shaped template
    with at most one `**`, every component list and every verb. -/
theorem C03_compiled_matcher (t : Tmpl) (hs : t.ShapeOk) (hd : deepCount t.segs ≤ 1) :
    ∃ P, newPattern 1 (compile t).opcodes (compile t).pool (compile t).verb = some P ∧ P.verb = t.verb ∧
      ∀ comps verb, matchAndEscape P comps verb = matchTmpl t comps verb :=
  matchAndEscape_compile t hs hd

/-- `C03_matcher` for the interpreter the gateway runs: the compiled pattern matches iff `Matches`. -/
theorem C03_matcher_code (t : Tmpl) (hs : t.ShapeOk) (hd : deepCount t.segs ≤ 1) :
    ∃ P, newPattern 1 (compile t).opcodes (compile t).pool (compile t).verb = some P ∧
      ∀ comps b, matchAndEscape P comps t.verb = .ok b ↔ Matches t comps t.verb b := by
  obtain ⟨P, hP, _, hrun⟩ := matchAndEscape_compile t hs hd
  exact ⟨P, hP, fun comps b => by rw [hrun]; exact C03_matcher t hd comps b⟩

/-- `NewPattern` rejects exactly the (parser-shaped) templates with more than one `**`: those bindings are skipped. -/
theorem C03_invalid_pattern (t : Tmpl) (hs : t.ShapeOk) :
    newPattern 1 (compile t).opcodes (compile t).pool (compile t).verb = none ↔ 1 < deepCount t.segs := by
  constructor
  · intro h
    apply Classical.byContradiction
    intro hn
    obtain ⟨P, hP, _⟩ := (newPattern_compile t hs).1 (by omega)
    rw [h] at hP; cases hP
  · exact (newPattern_compile t hs).2

/-- The routing table the code builds (every binding through `Compile` + `NewPattern`, routes running
    `MatchAndEscape`) IS the table of the abstract entries: all routing theorems below speak about it. -/
theorem C03_code_table (ts : List TargetD) (hs : TargetsShapeOk ts) :
    buildTable mkRouteC ts = routesOf (buildTable mkEntry ts) := by
  rw [buildTable_C_eq_A ts hs, buildTable_routesOf]

/-- One route step (verb detection on the last raw segment, stripping, matching) decides `PathMatches`. -/
theorem C03_path_matches {ι : Type} (e : ι × Bytes × Tmpl) (hd : deepCount e.2.2.segs ≤ 1)
    (segs : List Bytes) (last : Bytes) (hlast : segs.getLast? = some last) (b : Captures) :
    stepRoute segs last (mkR e) = .ok b ↔ PathMatches e.2.2 segs b :=
  stepRoute_iff e hd hlast b

/-- Routed iff a binding of the same HTTP method matches; the first one in table order wins;
    the captures are those of `PathMatches` (decoded once, by `decodeOnce`). -/
theorem C03_route_iff {ι : Type} (tbl : Table ι) (hwf : ∀ e ∈ tbl, WF e.2.2) (m p : Bytes) (i : ι) (b : Captures) :
    routePath (routesOf tbl) m (47 :: p) = .found i b ↔ FirstMatch tbl m (splitSlash p) i b := by
  obtain ⟨last, hlast, h⟩ := routePath_slash tbl m p
  rw [h]
  exact iterTbl_found_iff tbl hwf m hlast i b

/-- Everything else is an error: no binding matches, and `InvalidArgument` is only given to paths without
    the leading slash or with a malformed percent-escape in some segment. -/
theorem C03_else {ι : Type} (tbl : Table ι) (hwf : ∀ e ∈ tbl, WF e.2.2) (m path : Bytes) (c : Code)
    (h : routePath (routesOf tbl) m path = .error c) :
    (∀ p, path = 47 :: p → ¬ ∃ i b, FirstMatch tbl m (splitSlash p) i b) ∧
    (c = .invalidArgument → (∀ p, path ≠ 47 :: p) ∨ ∃ p, path = 47 :: p ∧ ∃ s ∈ splitSlash p, ¬ WellEscaped s) := by
  constructor
  · rintro p rfl ⟨i, b, hf⟩
    rw [(C03_route_iff tbl hwf m p i b).2 hf] at h
    cases h
  · intro hc
    subst hc
    match path, h with
    | [], _ => left; intro p hp; cases hp
    | 47 :: p, h =>
      right
      obtain ⟨last, hlast, he⟩ := routePath_slash tbl m p
      rw [he] at h
      exact ⟨p, rfl, iterTbl_invalid tbl m hlast h⟩
    | x :: p, h =>
      by_cases hx : x = 47
      · subst hx
        right
        obtain ⟨last, hlast, he⟩ := routePath_slash tbl m p
        rw [he] at h
        exact ⟨p, rfl, iterTbl_invalid tbl m hlast h⟩
      · left; intro q hq; cases hq; exact hx rfl

/-- A path without the leading slash is `InvalidArgument`; a well-escaped path that no binding matches is `NotFound`. -/
theorem C03_error_codes {ι : Type} (tbl : Table ι) (hwf : ∀ e ∈ tbl, WF e.2.2) (m : Bytes) :
    (∀ path, (∀ p, path ≠ 47 :: p) → routePath (routesOf tbl) m path = .error .invalidArgument) ∧
    (∀ p, (∀ s ∈ splitSlash p, WellEscaped s) → (¬ ∃ i b, FirstMatch tbl m (splitSlash p) i b) →
      routePath (routesOf tbl) m (47 :: p) = .error .notFound) := by
  constructor
  · intro path h; exact routePath_no_slash _ m path h
  · intro p hw hno
    cases hr : routePath (routesOf tbl) m (47 :: p) with
    | found i b => exact absurd ⟨i, b, (C03_route_iff tbl hwf m p i b).1 hr⟩ hno
    | error c =>
      cases c with
      | notFound => rfl
      | invalidArgument =>
        rcases (C03_else tbl hwf m (47 :: p) _ hr).2 rfl with h | ⟨q, hq, s, hs, hns⟩
        · exact absurd rfl (h p)
        · cases hq; exact absurd (hw s hs) hns

/-- Decoded exactly once, end to end: for an origin-form request target as `net/http` parses it
    (`url.ParseRequestURI`: Path = decoded, RawPath only when the default encoding differs), `RouteHTTP` routes
    on the target's own path text — so the captures are `decodeOnce` of the raw segments of the request line
    (`PathMatches`), never of something already decoded. -/
theorem C03_decode_once {ι : Type} (tbl : Table ι) (hwf : ∀ e ∈ tbl, WF e.2.2) (m raw : Bytes) (u : Url)
    (hs : ∃ r, raw = 47 :: r) (hp : parseRequestURI raw = some (some u)) (i : ι) (b : Captures) :
    routeHTTP (routesOf tbl) m u = .found i b ↔
      ∃ p, beforeQuery raw = 47 :: p ∧ FirstMatch tbl m (splitSlash p) i b := by
  unfold routeHTTP
  rw [pathChoice_parseRequestURI hs hp]
  obtain ⟨r, rfl⟩ := hs
  rw [beforeQuery_slash, C03_route_iff tbl hwf]
  constructor
  · intro h; exact ⟨_, rfl, h⟩
  · rintro ⟨p, hp', h⟩; cases hp'; exact h

/-- The same for absolute-form request targets `scheme://authority/path?query` (authority of the plain
    `host[:port]` kind): routing runs on the path part of the request line, byte for byte. -/
theorem C03_decode_once_absolute {ι : Type} (tbl : Table ι) (hwf : ∀ e ∈ tbl, WF e.2.2) (m raw sch rest a q : Bytes)
    (u : Url) (hsch : getScheme true [] raw = some (some (sch, rest))) (hr : beforeQuery rest = 47 :: 47 :: a)
    (hq : a.dropWhile (· != 47) = 47 :: q) (hp : parseRequestURI raw = some (some u)) (i : ι) (b : Captures) :
    routeHTTP (routesOf tbl) m u = .found i b ↔ FirstMatch tbl m (splitSlash q) i b := by
  unfold routeHTTP
  rw [pathChoice_parseRequestURI_abs hsch hr hq hp, C03_route_iff tbl hwf]

/-- Absolute-form targets with ANY authority (userinfo, `[v6]` literals with zones, ports, %-escapes in the host), as
    `url.ParseRequestURI` treats them: the authority is only a gate — `parseAuthority` (`authorityOk`) decides between
    a parse error (net/http answers 400 before any routing) and success, and on success `Path`/`RawPath` are `setPath`
    of the text after the authority, exactly as for an origin-form target with that text. Together with
    `C03_decode_once_absolute` (whose hypothesis `parseRequestURI raw = some (some u)` no longer excludes any
    authority): nothing in the authority can change what is routed or captured. -/
theorem C03_absolute_authority (raw sch rest a : Bytes) (hctl : containsCTL raw = false)
    (hsch : getScheme true [] raw = some (some (sch, rest))) (hr : beforeQuery rest = 47 :: 47 :: a) :
    parseRequestURI raw =
      some (if authorityOk (a.takeWhile (· != 47)) then setPath (a.dropWhile (· != 47)) else none) :=
  parseRequestURI_abs hctl hsch hr

/-- The plain `host[:port]` authorities (`[A-Za-z0-9.-]*`, optional `:digits`) — all the earlier model covered — are
    accepted by the full model of `parseAuthority`: the extension is conservative. -/
theorem C03_simple_authority_ok (a : Bytes) (h : simpleAuth a = true) : authorityOk a = true :=
  simpleAuth_authorityOk a h

/-- An absolute-form target without a path (`GET http://host HTTP/1.1`) has `Path = ""`: no leading slash, so
    `RouteHTTP` answers InvalidArgument whatever the table holds. -/
theorem C03_absolute_no_path {ι : Type} (tbl : List (Route ι)) (m raw sch rest a : Bytes) (u : Url)
    (hctl : containsCTL raw = false)
    (hsch : getScheme true [] raw = some (some (sch, rest))) (hr : beforeQuery rest = 47 :: 47 :: a)
    (hq : a.dropWhile (· != 47) = []) (hp : parseRequestURI raw = some (some u)) :
    routeHTTP tbl m u = .error .invalidArgument := by
  rw [parseRequestURI_abs hctl hsch hr, hq] at hp
  split at hp
  · simp only [setPath, urlUnescape, escapesOk, urlUnescapeBuild, urlEscape, ↓reduceIte, Option.some.injEq] at hp
    subst hp
    simp [routeHTTP, pathChoice_empty, routePath]
  · cases hp

/-! `http://u:p%40@[fe80::1%25en0]:80/v/a%2Fb?x` parses (userinfo with an escape, IPv6 literal with a zone, port) and
    keeps `RawPath = /v/a%2Fb`; `%41` in a host, a missing `]`, a non-numeric port, `%zz` in the userinfo are errors. -/
example : parseRequestURI [104, 116, 116, 112, 58, 47, 47, 117, 58, 112, 37, 52, 48, 64, 91, 102, 101, 56, 48, 58, 58, 49, 37,
      50, 53, 101, 110, 48, 93, 58, 56, 48, 47, 118, 47, 97, 37, 50, 70, 98, 63, 120] =
    some (some ⟨[47, 118, 47, 97, 47, 98], [47, 118, 47, 97, 37, 50, 70, 98]⟩) := by decide
example : parseRequestURI [104, 58, 47, 47, 104, 37, 52, 49, 47, 97] = some none ∧           -- h://h%41/a
    parseRequestURI [104, 58, 47, 47, 91, 58, 58, 49, 47, 97] = some none ∧                  -- h://[::1/a
    parseRequestURI [104, 58, 47, 47, 104, 58, 56, 120, 47, 97] = some none ∧                -- h://h:8x/a
    parseRequestURI [104, 58, 47, 47, 37, 122, 122, 64, 104, 47, 97] = some none ∧           -- h://%zz@h/a
    parseRequestURI [104, 58, 47, 47, 104, 37, 67, 51, 37, 65, 57, 47, 97] = some (some ⟨[47, 97], []⟩) := by  -- h://h%C3%A9/a
  decide

/-- net/url's default path escaping is undone by exactly one decoding pass, segment by segment:
    `unescape(escape(s)) = s`, for the matcher's single-segment decoder as well, and `/` is neither escaped nor
    produced by escaping. -/
theorem C03_escape_roundtrip (s : Bytes) :
    urlUnescape (urlEscape s) = some s ∧ decodeOnce false (urlEscape s) = some s ∧
      splitSlash (urlEscape s) = (splitSlash s).map urlEscape :=
  ⟨urlUnescape_urlEscape s, decodeOnce_urlEscape s, splitSlash_urlEscape s⟩

/-- Decoded exactly once for hand-built `url.URL{Path: p}` values (no RawPath): `RouteHTTP` routes on
    `EscapedPath()`, whose segments are the escaped Path segments — so by `C03_escape_roundtrip` every `*` capture is
    the Path segment itself (escaped once by `EscapedPath`, decoded once by the matcher), and a `**` capture is the
    `/`-join of the Path segments with RFC 6570 reserved bytes left percent-encoded. -/
theorem C03_decode_once_path {ι : Type} (tbl : Table ι) (hwf : ∀ e ∈ tbl, WF e.2.2) (m q : Bytes)
    (i : ι) (b : Captures) :
    routeHTTP (routesOf tbl) m ⟨47 :: q, []⟩ = .found i b ↔
      FirstMatch tbl m ((splitSlash q).map urlEscape) i b := by
  unfold routeHTTP
  rw [pathChoice_pathOnly (47 :: q) (by intro e; cases e), urlEscape_cons]
  simp only [urlShouldEscape_slash, Bool.false_eq_true, ↓reduceIte]
  rw [C03_route_iff tbl hwf, splitSlash_urlEscape]

/-- Hand-built URLs as the repo's tests use them (`url.URL{RawPath: x}`) are routed on `x` itself. -/
theorem C03_rawpath_first (x path : Bytes) (hx : x ≠ []) : pathChoice ⟨path, x⟩ = x := by
  simp [pathChoice, hx]

/-- `buildPatternRoutes`: the AST-level routes of the built table are the routes of the abstract table
    `buildTable mkEntry` (bindings in description order, templates `Parse`/`NewPattern` reject skipped). -/
theorem C03_build_table (ts : List TargetD) : buildTable mkRouteA ts = routesOf (buildTable mkEntry ts) :=
  buildTable_routesOf ts

/-- every declared binding whose pattern can be built is in the table under its own HTTP method,
    and a method without bindings is in the table with the default binding `POST <RPCName>`. -/
theorem C03_build_bindings (ts : List TargetD) {T : TargetD} {S : ServiceD} {M : MethodD} {ti si mi : Nat}
    (hT : ts[ti]? = some T) (hS : T.services[si]? = some S) (hM : S.methods[mi]? = some M) :
    (∀ bi B t, M.bindings[bi]? = some B → B.pattern = some t → deepCount t.segs ≤ 1 →
      (⟨ti, si, mi, some bi⟩, B.httpMethod, t) ∈ buildTable mkEntry ts) ∧
    (∀ t, M.bindings = [] → M.dflt = some t → deepCount t.segs ≤ 1 →
      (⟨ti, si, mi, none⟩, post, t) ∈ buildTable mkEntry ts) :=
  ⟨fun _ _ _ hB hp h1 => binding_mem_table ts hT hS hM hB hp h1,
   fun _ hb hd h1 => default_mem_table ts hT hS hM hb hd h1⟩

/-- Default binding reachability: a method without bindings whose RPC name is `/svc/Method` (slash-free parts)
    is reachable at `POST /svc/Method`: the request is routed (never NotFound), to the first POST binding in table
    order matching that path — which is the default binding itself unless an earlier binding also matches it. -/
theorem C03_default (ts : List TargetD) (hwf : ∀ e ∈ buildTable mkEntry ts, WF e.2.2)
    {T : TargetD} {S : ServiceD} {M : MethodD} {ti si mi : Nat}
    (hT : ts[ti]? = some T) (hS : T.services[si]? = some S) (hM : S.methods[mi]? = some M)
    (hb : M.bindings = []) (svc meth : Bytes)
    (hd : M.dflt = some ⟨[.plain (.lit svc), .plain (.lit meth)], []⟩)
    (h1 : svc ≠ eof) (h2 : meth ≠ eof) (h3 : ∀ c ∈ svc, c ≠ 47) (h4 : ∀ c ∈ meth, c ≠ 47) :
    ∃ i b, routePath (routesOf (buildTable mkEntry ts)) post (47 :: (svc ++ 47 :: meth)) = .found i b ∧
      FirstMatch (buildTable mkEntry ts) post [svc, meth] i b ∧
      ((∀ e ∈ buildTable mkEntry ts, e.2.1 = post → (∃ b', PathMatches e.2.2 [svc, meth] b') → e.1 = ⟨ti, si, mi, none⟩) →
        i = ⟨ti, si, mi, none⟩) := by
  have hmem := default_mem_table ts hT hS hM hb hd (by simp [deepCount, atomsOf, Seg.atoms, VSeg.isDeep])
  have hsplit : splitSlash (svc ++ 47 :: meth) = [svc, meth] := by
    rw [splitSlash_append _ h3, splitSlash_noslash h4]
  obtain ⟨i, b, hf⟩ := exists_firstMatch (buildTable mkEntry ts) post [svc, meth]
    ⟨_, hmem, rfl, [], default_pathMatches h1 h2⟩
  refine ⟨i, b, ?_, hf, ?_⟩
  · rw [C03_route_iff _ hwf, hsplit]; exact hf
  · intro huniq
    obtain ⟨pre, t, post', htbl, hm, _⟩ := hf
    exact huniq (i, post, t) (by rw [htbl]; simp) rfl ⟨b, hm⟩

/-- What fix D3 removed: with bindings `[GET /a/*:get, GET /a/*]` the path `/a/:get` was answered NotFound by the
    first route's `verbIdx == 0` exit although the second binding matches it (`*` = `:get`). -/
theorem C03_prefix_verb_abort :
    let tbl : Table Nat := [(0, [71, 69, 84], ⟨[.plain (.lit [97]), .plain .star], [103, 101, 116]⟩),
                            (1, [71, 69, 84], ⟨[.plain (.lit [97]), .plain .star], []⟩)]
    routeHTTPPreFix (routesOf tbl) [71, 69, 84] ⟨[], [47, 97, 47, 58, 103, 101, 116]⟩ = .error .notFound ∧
    routeHTTP (routesOf tbl) [71, 69, 84] ⟨[], [47, 97, 47, 58, 103, 101, 116]⟩ = .found 1 [] := by
  decide

/-- What fix D2 removed: `/v/%2541` parses to Path `/v/%41`, RawPath empty; routing on Path decodes again. -/
theorem C03_prefix_double_decode :
    setPath [47, 118, 47, 37, 50, 53, 52, 49] = some ⟨[47, 118, 47, 37, 52, 49], []⟩ ∧
    pathChoicePreFix ⟨[47, 118, 47, 37, 52, 49], []⟩ = [47, 118, 47, 37, 52, 49] ∧
    pathChoice ⟨[47, 118, 47, 37, 52, 49], []⟩ = [47, 118, 47, 37, 50, 53, 52, 49] := by
  decide

/-- and what the double decoding did to the captured value: `/v/%2541` bound `x = "A"` instead of `x = "%41"`. -/
theorem C03_prefix_double_decode_value :
    let tbl : Table Nat := [(0, [71, 69, 84], ⟨[.plain (.lit [118]), .var [120] [.star]], []⟩)]
    routeHTTPPreFix (routesOf tbl) [71, 69, 84] ⟨[47, 118, 47, 37, 52, 49], []⟩ = .found 0 [([120], [65])] ∧
    routeHTTP (routesOf tbl) [71, 69, 84] ⟨[47, 118, 47, 37, 52, 49], []⟩ = .found 0 [([120], [37, 52, 49])] := by
  decide

/-! Non-vacuity: a three-binding table, a request line with `%2F`, `%25` and a verb. -/
section
def exTbl : Table Nat :=
  [ (0, [71, 69, 84], ⟨[.plain (.lit [97]), .plain .star], [103]⟩),                       -- GET /a/*:g
    (1, [71, 69, 84], ⟨[.plain (.lit [97]), .var [120] [.star], .var [121] [.deep]], [103]⟩), -- GET /a/{x}/{y=**}:g
    (2, [71, 69, 84], ⟨[.plain (.lit [97]), .var [122] [.deep]], []⟩) ]                    -- GET /a/{z=**}

example : ∀ e ∈ exTbl, WF e.2.2 := by
  intro e he
  simp only [exTbl, List.mem_cons, List.not_mem_nil, or_false] at he
  rcases he with rfl | rfl | rfl <;>
    exact ⟨by decide, by
      intro p hp
      simp only [atomsOf, List.flatMap_cons, List.flatMap_nil, Seg.atoms, List.cons_append, List.nil_append,
        List.mem_cons, List.not_mem_nil, or_false] at hp
      rcases hp with rfl | rfl | rfl <;> simp [VSeg.litsOk, wellEscaped_iff, litText, eof, escapesOk], by
      simp [wellEscaped_iff, escapesOk]⟩

/-- `GET /a/b%2Fc/d%2Fe%2541:g` — binding 1 wins (binding 0 has too few segments); `x` is decoded fully
    (`b/c`), `y` keeps the reserved `/` encoded and decodes `%25` once (`d%2Fe%41`). -/
example : routePath (routesOf exTbl) [71, 69, 84]
      [47, 97, 47, 98, 37, 50, 70, 99, 47, 100, 37, 50, 70, 101, 37, 50, 53, 52, 49, 58, 103] =
    .found 1 [([120], [98, 47, 99]), ([121], [100, 37, 50, 70, 101, 37, 52, 49])] := by decide
end

/-- `Pattern.stacksize` (`maxstack` of `NewPattern`) is only the capacity of `make([]string, 0, p.stacksize)` in
    `MatchAndEscape` — no result depends on it — and it is a correct upper bound: for EVERY opcode program and pool
    `NewPattern` accepts (compiled from a template or not), every component list and every initial `captured` array, the
    op loop instrumented with the largest `stack` length it reaches (`runOpsD`, same result as `runOps`) never exceeds
    `stacksize`: the slice never re-allocates. -/
theorem C03_stacksize_bound (version : Nat) (ops : List Nat) (pool : List Bytes) (verb : Bytes) (P : Pattern)
    (h : newPattern version ops pool verb = some P) (comps captured : List Bytes) :
    (runOpsD P.pool P.tailLen P.ops comps [] captured).1 = runOps P.pool P.tailLen P.ops comps [] captured ∧
    (runOpsD P.pool P.tailLen P.ops comps [] captured).2 ≤ P.stacksize :=
  ⟨runOpsD_fst _ _ _ _ _ _, stacksize_bound h comps captured⟩

/-- the bound is reached (so it is the least one) for `/a/{x=b/*/**}` on `/a/b/c/d/e`: stacksize 4, depth 4 -/
example : (newPattern 1 (compile ⟨[.plain (.lit [97]), .var [120] [.lit [98], .star, .deep]], []⟩).opcodes
      (compile ⟨[.plain (.lit [97]), .var [120] [.lit [98], .star, .deep]], []⟩).pool []).map
      (fun P => (P.stacksize, (runOpsD P.pool P.tailLen P.ops [[97], [98], [99], [100], [101]] [] [[]]).2)) = some (4, 4) := by
  decide

/-- **The verb is cut per route, at `":" ++ <that route's verb>`.** Behind a closing `}` the template verb is
    everything after the first `:` (gwbased `tokenize`), so verbs may contain `:` (`/v1/{name}:batch:cancel` has the
    verb `batch:cancel`). For the bindings `[/{n}:a:b, /{n}:b]` (any field path `n`, any verbs `a:b` / `b`, any HTTP
    method) and the request path `/x:a:b` — `x` non-empty — BOTH templates match (`n = x` with verb `a:b`; `n = x:a`
    with verb `b`), and `RouteHTTP` answers the FIRST one in table order with `n` = `x` decoded once. -/
theorem C03_verb_split_per_route (m n a b x v : Bytes) (hx : x ≠ [])
    (hs : ∀ c ∈ x ++ 58 :: (a ++ 58 :: b), c ≠ 47) (hv : decodeOnce false x = some v)
    (hw1 : WellEscaped (a ++ 58 :: b)) (hw2 : WellEscaped b) :
    routePath (routesOf [(0, m, ⟨[.var n [.star]], a ++ 58 :: b⟩), (1, m, ⟨[.var n [.star]], b⟩)]) m
      (47 :: (x ++ 58 :: (a ++ 58 :: b))) = .found (0 : Nat) [(n, v)] := by
  have hwf : ∀ e ∈ [((0 : Nat), m, (⟨[.var n [.star]], a ++ 58 :: b⟩ : Tmpl)), (1, m, ⟨[.var n [.star]], b⟩)], WF e.2.2 := by
    intro e he
    simp only [List.mem_cons, List.not_mem_nil, or_false] at he
    rcases he with rfl | rfl
    · exact ⟨by simp [deepCount, atomsOf, Seg.atoms, VSeg.isDeep], by
        intro p hp; simp [atomsOf, Seg.atoms] at hp; subst hp; trivial, hw1⟩
    · exact ⟨by simp [deepCount, atomsOf, Seg.atoms, VSeg.isDeep], by
        intro p hp; simp [atomsOf, Seg.atoms] at hp; subst hp; trivial, hw2⟩
  rw [C03_route_iff _ hwf, splitSlash_noslash hs]
  refine ⟨[], _, _, rfl, ?_, by simp⟩
  have hne : a ++ 58 :: b ≠ [] := by simp
  simp only [PathMatches, hne, ↓reduceIte]
  refine ⟨[], x, rfl, hx, ?_⟩
  have := SegsMatch.var (x := n) (PartsMatch.cons (PartMatch.star hv) PartsMatch.nil) SegsMatch.nil
  simpa [joinSlash] using this

/-- …and a single split at the LAST colon before the route loop (grpc-gateway `ServeMux` style, `routePathPreSplit`;
    seeded change C03-m10) answers differently — kernel-checked on `[POST /v1/{n}:a:b, POST /v1/{n}:b]`, `POST /v1/x:a:b`:
    `RouteHTTP` ⇒ binding 0 with `n = x`; pre-split ⇒ binding 1 with `n = x:a` (wrong binding, wrong capture); and with
    binding 0 alone the pre-split router answers NotFound although the binding matches. -/
theorem C03_verb_presplit_fails :
    let t0 : Tmpl := ⟨[.plain (.lit [118, 49]), .var [110] [.star]], [97, 58, 98]⟩
    let t1 : Tmpl := ⟨[.plain (.lit [118, 49]), .var [110] [.star]], [98]⟩
    let path : Bytes := [47, 118, 49, 47, 120, 58, 97, 58, 98]
    routePath (routesOf [(0, post, t0), (1, post, t1)]) post path = .found (0 : Nat) [([110], [120])] ∧
    routePathPreSplit (routesOf [(0, post, t0), (1, post, t1)]) post path = .found (1 : Nat) [([110], [120, 58, 97])] ∧
    routePath (routesOf [((0 : Nat), post, t0)]) post path = .found 0 [([110], [120])] ∧
    routePathPreSplit (routesOf [((0 : Nat), post, t0)]) post path = .error .notFound ∧
    PathMatches t0 [[118, 49], [120, 58, 97, 58, 98]] [([110], [120])] := by
  refine ⟨by decide, by decide, by decide, by decide, ?_⟩
  refine ⟨[[118, 49]], [120], rfl, by decide, ?_⟩
  have h1 : PartMatch (.lit [118, 49]) [litText [118, 49]] (litText [118, 49]) := PartMatch.lit
  have h2 := SegsMatch.var (x := [110]) (PartsMatch.cons (PartMatch.star (s := [120]) (v := [120]) (by decide)) PartsMatch.nil)
    SegsMatch.nil
  have := SegsMatch.plain h1 h2
  simpa [joinSlash, litText, eof] using this

/-- Regenerated go/ast facts (extract/c03.go): in the source of `PatternRouter.RouteHTTP` the verb is cut INSIDE the
    per-route callback handed to `routes.iterate`, by that route's own verb — the callback reads `route.pattern.Verb()`,
    tests `strings.HasSuffix(lastPathComponent, ":" + patternVerb)`, declares `verb` / `patternVerb` / `verbIdx` locally
    and passes its own copy `matchComponents` and `verb` to `MatchAndEscape` in mode AllExceptReserved; outside the
    callback nothing searches the path for a colon (no `strings.LastIndex*` / `Index*` / `Cut`). This is the shape
    `stepRoute` models; a split moved in front of the loop (C03-m10) breaks this theorem even if no generated case
    reached it. -/
theorem C03_facts_verb_split :
    "route.pattern.Verb" ∈ GB.Generated.c03RouteCallbackCalls ∧
    "strings.HasSuffix" ∈ GB.Generated.c03RouteCallbackCalls ∧
    "route.pattern.MatchAndEscape" ∈ GB.Generated.c03RouteCallbackCalls ∧
    GB.Generated.c03RouteSuffixArgs = ["lastPathComponent", "\":\" + patternVerb"] ∧
    GB.Generated.c03RouteMatchArgs = ["matchComponents", "verb", "runtime.UnescapingModeAllExceptReserved"] ∧
    "verb" ∈ GB.Generated.c03RouteCallbackDecls ∧ "patternVerb" ∈ GB.Generated.c03RouteCallbackDecls ∧
    "verbIdx" ∈ GB.Generated.c03RouteCallbackDecls ∧
    (GB.Generated.c03RouteOuterCalls.all fun c =>
      !(["strings.LastIndexByte", "strings.LastIndex", "strings.Index", "strings.IndexByte", "strings.Cut",
         "strings.TrimSuffix", "strings.HasSuffix", "route.pattern.Verb"].contains c)) = true ∧
    "pr.routes.iterate" ∈ GB.Generated.c03RouteOuterCalls := by
  decide

/-- **The HTTP method is matched exactly.** `RouteHTTP` for method `m` consults only the routes whose HTTP method
    equals `m` byte for byte (a case-sensitive token: no HEAD→GET, OPTIONS or lower-case fallback): routing on the
    whole table = routing on its `m`-part; if no binding has method `m` every path with a leading slash is NotFound;
    and whatever is found is an entry of the table stored under `m` itself. -/
theorem C03_method_exact {ι : Type} (tbl : List (Route ι)) (m path : Bytes) :
    routePath tbl m path = routePath (tbl.filter fun r => r.httpMethod == m) m path ∧
    ((∀ r ∈ tbl, r.httpMethod ≠ m) → ∀ p, routePath tbl m (47 :: p) = .error .notFound) ∧
    (∀ (T : Table ι), (∀ e ∈ T, WF e.2.2) → ∀ p i b, routePath (routesOf T) m (47 :: p) = .found i b →
      ∃ t, (i, m, t) ∈ T) := by
  refine ⟨?_, ?_, ?_⟩
  · unfold routePath
    simp only [List.filter_filter, Bool.and_self]
  · intro h p
    have hf : (tbl.filter fun r => r.httpMethod == m) = [] := by
      rw [List.filter_eq_nil_iff]
      intro r hr; simpa using h r hr
    unfold routePath
    simp only [hf]
    cases (splitSlash p).getLast? <;> rfl
  · intro T hwf p i b hfound
    obtain ⟨pre, t, post', hT, _, _⟩ := (C03_route_iff T hwf m p i b).1 hfound
    exact ⟨t, by rw [hT]; simp⟩

/-- HEAD vs GET, kernel-checked: the table `[GET /a/*]` answers `GET /a/x` with the binding and `HEAD /a/x`, `get /a/x`,
    `OPTIONS /a/x` with NotFound (what seeded change C03-m12 — the GET list aliased under HEAD in `commit()` — broke). -/
theorem C03_method_exact_head :
    let tbl : Table Nat := [(0, [71, 69, 84], ⟨[.plain (.lit [97]), .plain .star], []⟩)]
    routePath (routesOf tbl) [71, 69, 84] [47, 97, 47, 120] = .found 0 [] ∧
    routePath (routesOf tbl) [72, 69, 65, 68] [47, 97, 47, 120] = .error .notFound ∧
    routePath (routesOf tbl) [103, 101, 116] [47, 97, 47, 120] = .error .notFound ∧
    routePath (routesOf tbl) [79, 80, 84, 73, 79, 78, 83] [47, 97, 47, 120] = .error .notFound := by
  decide

/-- Regenerated go/ast facts: `mutablePatternRoutingTable.commit` builds the static table by copying every method's list
    under its OWN key — one range loop over `mt.routes`, one index assignment `routes[method] = cloneLinkedList(list)`,
    three statements (make, loop, return): no second key is ever written. -/
theorem C03_facts_commit :
    GB.Generated.c03CommitIndexAssigns = ["routes[method]=cloneLinkedList(list)"] ∧
    GB.Generated.c03CommitRanges = ["method,list:=range mt.routes"] ∧
    GB.Generated.c03CommitStmts = 3 := by
  decide

/-! ## Composition with the parser (property C20's model of `gwbased.Parse`)

  `Tmpl.ShapeOk`, an assumption of `C03_compiled_matcher` so far, is a THEOREM about the parser model: it holds for
  the output on every byte string the parser accepts (lean/GB/C20/BridgeShape.lean: acceptance ⇒ the segments and
  verb are those of the grammar's abstract syntax — soundness + completeness + unambiguity — and that syntax has the
  shape). The parser model has its own AST (`C20.GwTemplate`, field paths as identifier lists, variables may nest
  syntactically); `C20.toC03` is the conversion and `C20.tmplC03` is the same for the grammar's abstract syntax. -/

/-- **`ShapeOk` and `WF` proved** for everything the parser returns: for every byte string `s` the gwbased parser model
    accepts, the produced template (converted to C03's AST) has the parser shape, complete percent-escapes in every
    literal and in the verb (fix D27), and is the grammar's abstract syntax of `s`; with at most one `**` it is `WF`. -/
theorem C03_parsed_template_wf (s : Bytes) (g : C20.GwTemplate) (h : C20.gwParse s = .ok g) :
    (C20.toC03 g).ShapeOk ∧ (deepCount (C20.toC03 g).segs ≤ 1 → WF (C20.toC03 g)) ∧
    ∃ t, C20.DerivesRelaxed s t ∧ C20.toC03 g = C20.tmplC03 t := by
  obtain ⟨h1, h2, h3⟩ := C20.gwParse_shape s g h
  obtain ⟨t, hw, hr, hs, hv⟩ := C20.gwParse_full s g h
  exact ⟨h1, fun hd => ⟨hd, h2, h3⟩, t, ⟨hw, hr⟩, C20.toC03_of t g hs hv⟩

/-- **Parser ∘ compiler ∘ matcher = declarative semantics, no shape hypothesis.** For every template STRING `s` the
    parser model accepts — `T` is the template it denotes (`tmplC03 t` for the unique `t` with `DerivesRelaxed s t`) —:

    * more than one `**`: `routing.buildPattern` (Parse ▸ Compile ▸ NewPattern) yields no pattern, the binding is skipped;
    * otherwise it yields a pattern `P` with `P.verb = T.verb`, and
      - for all components: `MatchAndEscape P comps T.verb = ok b ↔ Matches T comps T.verb b`, any other verb of a
        template with a verb is not-match, never a fault;
      - for every request path `/p` and HTTP method `m`: the router holding just this binding (`RouteHTTP`'s per-route
        verb detection + `MatchAndEscape`) answers `found i b` iff `PathMatches T (splitSlash p) b` — the http.proto
        semantics on the raw segments with the captured variables decoded exactly once. -/
theorem C03_parsed_template_matcher (s : Bytes) (g : C20.GwTemplate) (h : C20.gwParse s = .ok g) :
    ∃ t, C20.DerivesRelaxed s t ∧ C20.toC03 g = C20.tmplC03 t ∧
      (1 < deepCount (C20.tmplC03 t).segs → C20.buildPatternM s = none) ∧
      (deepCount (C20.tmplC03 t).segs ≤ 1 → ∃ P, C20.buildPatternM s = some P ∧ P.verb = (C20.tmplC03 t).verb ∧
        (∀ comps b, matchAndEscape P comps P.verb = .ok b ↔ Matches (C20.tmplC03 t) comps (C20.tmplC03 t).verb b) ∧
        (∀ comps verb, P.verb ≠ [] → verb ≠ P.verb → matchAndEscape P comps verb = .notMatch) ∧
        (∀ comps, matchAndEscape P comps P.verb ≠ .fault) ∧
        (∀ {ι : Type} (i : ι) (m p : Bytes) (b : Captures),
          routePath [⟨i, m, P.verb, matchAndEscape P⟩] m (47 :: p) = .found i b ↔
            PathMatches (C20.tmplC03 t) (splitSlash p) b)) := by
  obtain ⟨hshape, hwf, t, hder, heq⟩ := C03_parsed_template_wf s g h
  refine ⟨t, hder, heq, ?_, ?_⟩
  · intro hd
    simp only [C20.buildPatternM, h]
    rw [← heq] at hd
    exact (C03_invalid_pattern _ hshape).2 hd
  · intro hd
    rw [← heq] at hd ⊢
    obtain ⟨P, hP, hverb, hrun⟩ := C03_compiled_matcher _ hshape hd
    have hP' : C20.buildPatternM s = some P := by simp only [C20.buildPatternM, h]; exact hP
    refine ⟨P, hP', hverb, ?_, ?_, ?_, ?_⟩
    · intro comps b; rw [hrun, hverb]; exact C03_matcher _ hd comps b
    · intro comps verb h1 h2
      rw [hrun]; rw [hverb] at h1 h2
      exact (C03_matcher_other _ comps verb).1 h1 h2
    · intro comps; rw [hrun, hverb]; exact (C03_matcher_other _ comps []).2.1
    · intro ι i m p b
      have hfun : matchAndEscape P = matchTmpl (C20.toC03 g) := by funext c v; exact hrun c v
      have hroute : [(⟨i, m, P.verb, matchAndEscape P⟩ : Route ι)] = routesOf [(i, m, C20.toC03 g)] := by
        simp [routesOf, mkR, hverb, hfun]
      rw [hroute, C03_route_iff [(i, m, C20.toC03 g)] (by
        intro e he; simp only [List.mem_singleton] at he; subst he; exact hwf hd) m p i b]
      constructor
      · rintro ⟨pre, t', post, htbl, hm, _⟩
        cases pre with
        | nil => simp only [List.nil_append, List.cons.injEq, Prod.mk.injEq] at htbl; rw [htbl.1.2.2]; exact hm
        | cons x xs => simp at htbl
      · intro hm
        exact ⟨[], _, [], rfl, hm, by simp⟩

/-! Non-vacuity, evaluated by the kernel through the real models: the template text `/v1/{name=shelves/*}:get`
    (parser model ▸ Compile ▸ NewPattern) and the request path `/v1/shelves/a%2Fb:get`. -/
section
def exText : Bytes := [47, 118, 49, 47, 123, 110, 97, 109, 101, 61, 115, 104, 101, 108, 118, 101, 115, 47, 42, 125, 58, 103, 101, 116]

example : (C20.gwParse exText).toOption.map C20.toC03 =
    some ⟨[.plain (.lit [118, 49]), .var [110, 97, 109, 101] [.lit [115, 104, 101, 108, 118, 101, 115], .star]], [103, 101, 116]⟩ := by
  decide

set_option maxRecDepth 100000 in
example : (C20.buildPatternM exText).map (fun P =>
      routePath [⟨0, [71], P.verb, matchAndEscape P⟩] [71]
        [47, 118, 49, 47, 115, 104, 101, 108, 118, 101, 115, 47, 97, 37, 50, 70, 98, 58, 103, 101, 116]) =
    some (.found 0 [([110, 97, 109, 101], [115, 104, 101, 108, 118, 101, 115, 47, 97, 47, 98])]) := by decide

/-- two `**`: parsed (the gwbased parser has no such restriction) but no pattern -/
example : (C20.gwParse [47, 42, 42, 47, 42, 42]).toOption.isSome = true ∧ C20.buildPatternM [47, 42, 42, 47, 42, 42] = none := by
  decide
end
