import GB.C03.Proofs
/-
  C03 — property theorems. Theorems only; helper lemmas live in Proofs*.lean.
  `Tmpl` is the parsed template (`gwbased.Parse`, property C20), `Table` the routing table as a list of
  (binding id, HTTP method, template) in iteration order, `routesOf` its routes with `MatchAndEscape` read
  over the AST (`matchTmpl`); `C03_compiled_matcher` shows that is what the compiled pattern computes.
-/
open GB GB.C03

/-- The gateway's validate-then-build `unescape` is the one-pass decoder of the spec, for every byte string
    and both modes: each captured value is produced by exactly one decoding pass. -/
theorem C03_unescape_once (multi : Bool) (s : Bytes) : unescape multi s = decodeOnce multi s :=
  unescape_eq_decodeOnce multi s

/-- matcher ↔ `Matches`, for every template with at most one `**` and every component list. -/
theorem C03_matcher (t : Tmpl) (hd : deepCount t.segs ≤ 1) (comps : List Bytes) (b : Captures) :
    matchTmpl t comps t.verb = .ok b ↔ Matches t comps t.verb b := by
  rw [matchTmpl_own_verb, matchSegs_iff hd]
  simp [Matches]

/-- a template with a verb never matches a different verb; the matcher never faults;
    it reports a malformed escape only when a component has one. -/
theorem C03_matcher_other (t : Tmpl) (comps : List Bytes) (verb : Bytes) :
    (t.verb ≠ [] → verb ≠ t.verb → matchTmpl t comps verb = .notMatch) ∧
    matchTmpl t comps t.verb ≠ .fault ∧
    (matchTmpl t comps t.verb = .malformed → ∃ c ∈ comps, ¬ WellEscaped c) := by
  refine ⟨?_, ?_, ?_⟩
  · intro h1 h2
    have : t.verb ≠ verb := fun e => h2 e.symm
    simp [matchTmpl, h1, this]
  · rw [matchTmpl_own_verb]; exact matchSegs_ne_fault _
  · rw [matchTmpl_own_verb]; exact matchSegs_malformed

/-- One route step (verb detection on the last raw segment, stripping, matching) decides `PathMatches`. -/
theorem C03_path_matches {ι : Type} (e : ι × Bytes × Tmpl) (hd : deepCount e.2.2.segs ≤ 1)
    (segs : List Bytes) (last : Bytes) (hlast : segs.getLast? = some last) (b : Captures) :
    stepRoute segs last (mkR e) = .ok b ↔ PathMatches e.2.2 segs b :=
  stepRoute_iff e hd hlast b

/-- Routed iff a binding of the same HTTP method matches; the first one in table order wins;
    the captures are those of `PathMatches` (decoded once, by `decodeOnce`). -/
theorem C03_route_iff {ι : Type} (tbl : Table ι) (hwf : ∀ e ∈ tbl, WF e.2.2) (m p : Bytes) (i : ι) (b : Captures) :
    routePath (routesOf tbl) m (47 :: p) = .found i b ↔ FirstMatch tbl m (splitSlash p) i b := by
  obtain ⟨last, hlast, h⟩ := routePath_slash tbl m p
  rw [h]
  exact iterTbl_found_iff tbl hwf m hlast i b

/-- Everything else is an error: no binding matches, and `InvalidArgument` is only given to paths without
    the leading slash or with a malformed percent-escape in some segment. -/
theorem C03_else {ι : Type} (tbl : Table ι) (hwf : ∀ e ∈ tbl, WF e.2.2) (m path : Bytes) (c : Code)
    (h : routePath (routesOf tbl) m path = .error c) :
    (∀ p, path = 47 :: p → ¬ ∃ i b, FirstMatch tbl m (splitSlash p) i b) ∧
    (c = .invalidArgument → (∀ p, path ≠ 47 :: p) ∨ ∃ p, path = 47 :: p ∧ ∃ s ∈ splitSlash p, ¬ WellEscaped s) := by
  constructor
  · rintro p rfl ⟨i, b, hf⟩
    rw [(C03_route_iff tbl hwf m p i b).2 hf] at h
    cases h
  · intro hc
    subst hc
    match path, h with
    | [], _ => left; intro p hp; cases hp
    | 47 :: p, h =>
      right
      obtain ⟨last, hlast, he⟩ := routePath_slash tbl m p
      rw [he] at h
      exact ⟨p, rfl, iterTbl_invalid tbl m hlast h⟩
    | x :: p, h =>
      by_cases hx : x = 47
      · subst hx
        right
        obtain ⟨last, hlast, he⟩ := routePath_slash tbl m p
        rw [he] at h
        exact ⟨p, rfl, iterTbl_invalid tbl m hlast h⟩
      · left; intro q hq; cases hq; exact hx rfl

/-- A path without the leading slash is `InvalidArgument`; a well-escaped path that no binding matches is `NotFound`. -/
theorem C03_error_codes {ι : Type} (tbl : Table ι) (hwf : ∀ e ∈ tbl, WF e.2.2) (m : Bytes) :
    (∀ path, (∀ p, path ≠ 47 :: p) → routePath (routesOf tbl) m path = .error .invalidArgument) ∧
    (∀ p, (∀ s ∈ splitSlash p, WellEscaped s) → (¬ ∃ i b, FirstMatch tbl m (splitSlash p) i b) →
      routePath (routesOf tbl) m (47 :: p) = .error .notFound) := by
  constructor
  · intro path h; exact routePath_no_slash _ m path h
  · intro p hw hno
    cases hr : routePath (routesOf tbl) m (47 :: p) with
    | found i b => exact absurd ⟨i, b, (C03_route_iff tbl hwf m p i b).1 hr⟩ hno
    | error c =>
      cases c with
      | notFound => rfl
      | invalidArgument =>
        rcases (C03_else tbl hwf m (47 :: p) _ hr).2 rfl with h | ⟨q, hq, s, hs, hns⟩
        · exact absurd rfl (h p)
        · cases hq; exact absurd (hw s hs) hns

/-- What fix D2 removed: `/v/%2541` parses to Path `/v/%41`, RawPath empty; routing on Path decodes again. -/
theorem C03_prefix_double_decode :
    setPath [47, 118, 47, 37, 50, 53, 52, 49] = some ⟨[47, 118, 47, 37, 52, 49], []⟩ ∧
    pathChoicePreFix ⟨[47, 118, 47, 37, 52, 49], []⟩ = [47, 118, 47, 37, 52, 49] ∧
    pathChoice ⟨[47, 118, 47, 37, 52, 49], []⟩ = [47, 118, 47, 37, 50, 53, 52, 49] := by
  decide
