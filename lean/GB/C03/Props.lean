import GB.C03.Spec
/- C03 — property theorems. -/
open GB GB.C03

/-- What fix D2 removed: `/v/%2541` parses to Path `/v/%41`, RawPath empty; routing on Path decodes again. -/
theorem C03_prefix_double_decode :
    setPath [47, 118, 47, 37, 50, 53, 52, 49] = some ⟨[47, 118, 47, 37, 52, 49], []⟩ ∧
    pathChoicePreFix ⟨[47, 118, 47, 37, 52, 49], []⟩ = [47, 118, 47, 37, 52, 49] ∧
    pathChoice ⟨[47, 118, 47, 37, 52, 49], []⟩ = [47, 118, 47, 37, 50, 53, 52, 49] := by
  decide
