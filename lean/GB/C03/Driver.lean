import GB.Base.Proto
import GB.C03.Spec
/-
  C03 driver. Case lines (fields separated by one space, byte strings hex `x…`):

    m <tspec> <comps> <verb>            => ERR | <res> <P|E> <ast> <opcodes> <pool> <verb> <fields>
        real gwbased.Parse + Compile + runtime.NewPattern + MatchAndEscape on one template
    u <pru|req> <target>                => err | ok <Path> <RawPath> <EscapedPath>
        real url.ParseRequestURI / http.ReadRequest on a request target
    r <table> <method> <req|raw|path> <x> => <found:ti:si:mi:bi|d:params | err:Code | urlerr> <parsed asts ;-separated>
        real PatternRouter (Watch + UpdateDesc per target, fake pool) + RouteHTTP

  tspec  = `A:`ast (intended AST, rendered to template text by the harness) | `R:`hex (raw template text)
  ast    = seg{`,`seg}`|`verbhex ; seg = `L`hex | `S` | `D` | `V`hex`:`part{`.`part} ; part = `L`hex | `S` | `D`
  comps  = hex{`,`hex} | `-` (no components) ; params = k`=`v{`,`k`=`v} sorted by hex key | `-`
  table  = target{`;`target} ; target = svc{`+`svc} ; svc = method{`!`method} ;
  method = rpcNameHex{`~`httpMethodHex`@`tspec}
-/
namespace GB.C03
open GB GB.Proto

def parsePart (s : String) : Option VSeg :=
  if s = "S" then some .star
  else if s = "D" then some .deep
  else match s.toList with
    | 'L' :: rest => (parseHex (String.ofList rest)).map .lit
    | _ => none

def parseSeg (s : String) : Option Seg :=
  match s.toList with
  | 'V' :: rest =>
    match (String.ofList rest).splitOn ":" with
    | [p, parts] =>
      match parseHex p, (parts.splitOn ".").mapM parsePart with
      | some path, some ps => some (.var path ps)
      | _, _ => none
    | _ => none
  | _ => (parsePart s).map .plain

def parseAst (s : String) : Option Tmpl :=
  match s.splitOn "|" with
  | [segs, verb] =>
    match (if segs = "" then some [] else (segs.splitOn ",").mapM parseSeg), parseHex verb with
    | some ss, some v => some ⟨ss, v⟩
    | _, _ => none
  | _ => none

def showPart : VSeg → String
  | .star => "S"
  | .deep => "D"
  | .lit l => "L" ++ toHex l

def showSeg : Seg → String
  | .plain p => showPart p
  | .var x ps => "V" ++ toHex x ++ ":" ++ ".".intercalate (ps.map showPart)

def showAst (t : Tmpl) : String := ",".intercalate (t.segs.map showSeg) ++ "|" ++ toHex t.verb

def parseHexList (s : String) : Option (List Bytes) :=
  if s = "-" then some [] else (s.splitOn ",").mapM parseHex

def showHexList (l : List Bytes) : String :=
  if l.isEmpty then "-" else ",".intercalate (l.map toHex)

def showNatList (l : List Nat) : String :=
  if l.isEmpty then "-" else ",".intercalate (l.map toString)

/-- the Go map built from the captures: last value per key; shown sorted by hex key -/
def canonParams (b : Captures) : String :=
  let dedup : List (String × String) := b.foldl (fun acc (k, v) =>
    (acc.filter (fun e => e.1 ≠ toHex k)) ++ [(toHex k, toHex v)]) []
  let sorted := dedup.toArray.qsort (fun a b => a.1 < b.1) |>.toList
  if sorted.isEmpty then "-" else ",".intercalate (sorted.map fun (k, v) => k ++ "=" ++ v)

def showMatch : MatchRes Captures → String
  | .ok b => "ok:" ++ canonParams b
  | .notMatch => "nm"
  | .malformed => "mal"
  | .fault => "fault"

/-- executable forms of the `WF` conditions of Spec.lean -/
def wellEscapedB (s : Bytes) : Bool := (decodeOnce false s).isSome

def wfB (t : Tmpl) : Bool :=
  decide (deepCount t.segs ≤ 1) &&
  (atomsOf t.segs).all (fun p => match p with | .lit l => wellEscapedB (litText l) | _ => true) &&
  wellEscapedB t.verb

/-- executable form of `Tmpl.ShapeOk` (ProofsResolve.lean): what the parser guarantees about its output;
    monitored on every AST the real parser returns, because `C03_compiled_matcher` assumes it -/
def shapeB (t : Tmpl) : Bool :=
  t.segs.all fun s => match s with
    | .plain (.lit l) => !l.isEmpty
    | .plain _ => true
    | .var x ps => !x.isEmpty && x != eof && !ps.isEmpty && ps.all fun p => match p with
      | .lit l => !l.isEmpty
      | _ => true

/-- tspec → (intended AST if given) -/
def parseTSpec (s : String) : Option (Option Tmpl) :=
  match s.toList with
  | 'A' :: ':' :: rest => (parseAst (String.ofList rest)).map some
  | 'R' :: ':' :: _ => some none
  | _ => none

def parseParsed (s : String) : Option (Option Tmpl) :=
  if s = "ERR" then some none else (parseAst s).map some

/-! ### m — one template against one component list -/

def handleMatch (tspec comps verb : String) (out : List String) : String :=
  match parseTSpec tspec, parseHexList comps, parseHex verb with
  | some intended, some cs, some vb =>
    match out with
    | ["ERR"] =>
      match intended with
      | some _ => "DIFF model=parsed (the real parser rejected a grammar-generated template)"
      | none => "OK b=m-parse-error"
    | [resS, patS, astS, opsS, poolS, verbS, fieldsS] =>
      match parseAst astS with
      | none => "BAD ast"
      | some t =>
        let tp := compile t
        let compS := s!"{showNatList tp.opcodes} {showHexList tp.pool} {toHex tp.verb} {showHexList tp.fields}"
        let pat := newPattern 1 tp.opcodes tp.pool tp.verb
        let modelPat := if pat.isSome then "P" else "E"
        let modelRes := match pat with
          | some p => showMatch (matchAndEscape p cs vb)
          | none => "-"
        let absRes := if deepCount t.segs ≤ 1 then showMatch (matchTmpl t cs vb) else "-"
        let model := s!"{compS} {modelPat} {modelRes}"
        let impl := s!"{opsS} {poolS} {verbS} {fieldsS} {patS} {resS}"
        -- spec judgement: for a well-formed template the match result is fixed by `Matches`
        -- (C03_matcher: matchTmpl decides it), whatever the compiled form looks like
        if ¬ shapeB t then s!"DIFF model=shape (the parser returned an AST outside the proved domain: {showAst t})"
        else if intended.isSome ∧ intended ≠ some t then s!"DIFF model=parse:{showAst t}"
        else if wfB t ∧ absRes ≠ resS then s!"VIOL match impl={resS} spec={absRes}"
        else if absRes ≠ modelRes then s!"DIFF model-internal compiled={modelRes} ast={absRes}"
        else if impl ≠ model then s!"DIFF model={model}"
        else
          let br := if modelRes.startsWith "ok:-" then "m-ok-nocapture" else if modelRes.startsWith "ok:" then "m-ok-capture"
            else if modelRes = "nm" then "m-notmatch" else if modelRes = "mal" then "m-malformed" else "m-invalid-pattern"
          let nt := if modelRes = "nm" ∨ modelRes = "-" then "" else " nt"
          s!"OK{nt} b={br}"
    | _ => "BAD m output"
  | _, _, _ => "BAD m input"

/-! ### u — request-target parsing -/

def handleUrl (kind target : String) (out : List String) : String :=
  match parseHex target with
  | none => "BAD u input"
  | some raw =>
    -- http.ReadRequest cuts the request line at spaces before url.ParseRequestURI sees the target
    let dom := if (kind = "req" ∨ kind = "srv") ∧ raw.contains 32 then some none else parseRequestURI raw
    match dom with
    | none => "OK b=u-unmodelled"
    | some m =>
      let model := match m with
        | none => "err"
        | some u => s!"ok {toHex u.path} {toHex u.rawPath} {toHex (escapedPath u)}"
      let impl := " ".intercalate out
      -- spec: the path RouteHTTP routes on is the request target's path text, untouched
      let specOk : Bool := match raw, m, out with
        | 47 :: _, some _, [_, _, rp, ep] => (if rp ≠ "x" then rp else ep) == toHex (beforeQuery raw)
        | _, _, _ => true
      if ¬ specOk then s!"VIOL url path choice differs from the target's path text {toHex (beforeQuery raw)}"
      else if impl ≠ model then s!"DIFF model={model}"
      else match m with
        | none => "OK b=u-error"
        | some u =>
          let form := match raw with
            | 47 :: _ => "origin"
            | _ =>
              -- an authority outside the old easy class (userinfo, [v6], escapes, ...)?
              match getScheme true [] raw with
              | some (some (_, rest)) =>
                (match beforeQuery rest with
                 | 47 :: 47 :: a => if simpleAuth (a.takeWhile (· != 47)) then "absolute" else "absolute-auth"
                 | _ => "absolute")
              | _ => "absolute"
          if u.rawPath = [] then s!"OK nt b=u-{form}-path-only" else s!"OK nt b=u-{form}-rawpath"

/-! ### r — routing through the real PatternRouter -/

structure BindingIn where
  httpMethod : Bytes
  intended : Option Tmpl

structure MethodIn where
  rpcName : Bytes
  bindings : List BindingIn

def parseBindingIn (s : String) : Option BindingIn :=
  match s.splitOn "@" with
  | [m, ts] =>
    match parseHex m, parseTSpec ts with
    | some hm, some it => some ⟨hm, it⟩
    | _, _ => none
  | _ => none

def parseMethodIn (s : String) : Option MethodIn :=
  match s.splitOn "~" with
  | [] => none
  | name :: bs =>
    match parseHex name, bs.mapM parseBindingIn with
    | some n, some l => some ⟨n, l⟩
    | _, _ => none

def parseTableIn (s : String) : Option (List (List (List MethodIn))) :=
  (s.splitOn ";").mapM fun t => (t.splitOn "+").mapM fun sv => (sv.splitOn "!").mapM parseMethodIn

/-- pair the input table with the parsed templates reported by the harness (per method: default, then bindings).
    Returns the model table (parsed ASTs) and the spec table (intended AST where given). -/
def zipMethods : List MethodIn → List (Option Tmpl) → Option (List MethodD × List MethodD × List (Option Tmpl))
  | [], ps => some ([], [], ps)
  | m :: ms, ps =>
    match ps with
    | [] => none
    | d :: ps =>
      let n := m.bindings.length
      if ps.length < n then none
      else
        let mine := ps.take n
        let bM := (m.bindings.zip mine).map fun (b, p) => (⟨b.httpMethod, p⟩ : BindingD)
        let bS := (m.bindings.zip mine).map fun (b, p) => (⟨b.httpMethod, match b.intended with | some t => some t | none => p⟩ : BindingD)
        match zipMethods ms (ps.drop n) with
        | none => none
        | some (rm, rs, rest) => some (⟨d, bM⟩ :: rm, ⟨d, bS⟩ :: rs, rest)

def zipServices : List (List MethodIn) → List (Option Tmpl) → Option (List ServiceD × List ServiceD × List (Option Tmpl))
  | [], ps => some ([], [], ps)
  | s :: ss, ps =>
    match zipMethods s ps with
    | none => none
    | some (m1, m2, rest) =>
      match zipServices ss rest with
      | none => none
      | some (r1, r2, rest') => some (⟨m1⟩ :: r1, ⟨m2⟩ :: r2, rest')

def zipTargets : List (List (List MethodIn)) → List (Option Tmpl) → Option (List TargetD × List TargetD × List (Option Tmpl))
  | [], ps => some ([], [], ps)
  | t :: ts, ps =>
    match zipServices t ps with
    | none => none
    | some (s1, s2, rest) =>
      match zipTargets ts rest with
      | none => none
      | some (r1, r2, rest') => some (⟨s1⟩ :: r1, ⟨s2⟩ :: r2, rest')

def showId (i : RouteId) : String :=
  s!"{i.target}:{i.service}:{i.method}:" ++ (match i.binding with | some b => toString b | none => "d")

def showRoute : RouteResult RouteId → String
  | .found i b => s!"found:{showId i}:{canonParams b}"
  | .error .notFound => "err:NotFound"
  | .error .invalidArgument => "err:InvalidArgument"

/-- all (id, method, template) of the spec table, templates `NewPattern` would reject left out -/
def specEntries (ts : List TargetD) : List (RouteId × Bytes × Tmpl) := buildTable mkEntry ts

/-- executable `PathMatches` (C03_pathMatch: `pathMatch t segs = .ok b ↔ PathMatches t segs b` for well-formed `t`) -/
def pathMatch (t : Tmpl) (segs : List Bytes) : MatchRes Captures :=
  match segs.getLast? with
  | none => .notMatch
  | some last => stepRoute segs last ({ id := (), httpMethod := [], verb := t.verb, run := matchTmpl t } : Route Unit)

def isOk {α} : MatchRes α → Bool
  | .ok _ => true
  | _ => false

/-- does the implementation's answer satisfy the property text? returns a reason when it does not -/
def specJudge (entries : List (RouteId × Bytes × Tmpl)) (method path : Bytes) (res : String) : Option String :=
  let segs? : Option (List Bytes) := match path with
    | 47 :: p => some (splitSlash p)
    | _ => none
  let mine := entries.filter fun e => e.2.1 == method
  let matching : List (RouteId × Captures) := match segs? with
    | none => []
    | some segs => mine.filterMap fun (i, _, t) => match pathMatch t segs with
      | .ok b => some (i, b)
      | _ => none
  if res.startsWith "found:" then
    match matching.find? (fun (i, b) => s!"found:{showId i}:{canonParams b}" = res) with
    | none =>
      if matching.isEmpty then some "routed although no binding of this HTTP method matches the path"
      else some s!"routed to a binding that does not match, or with wrong captures; matching={matching.map (fun (i, b) => showId i ++ ":" ++ canonParams b)}"
    | some (i, _) =>
      -- the first matching binding of the same target must win
      match matching.find? (fun (j, _) => j.target = i.target) with
      | some (j, _) => if j = i then none else some s!"binding {showId j} of the same target matches and precedes {showId i}"
      | none => none
  else if res = "err:NotFound" then
    match matching with
    | [] => none
    | (i, _) :: _ => some s!"NotFound although binding {showId i} matches"
  else if res = "err:InvalidArgument" then
    match matching with
    | (i, _) :: _ => some s!"InvalidArgument although binding {showId i} matches"
    | [] => match segs? with
      | none => none
      | some segs => if segs.all wellEscapedB then some "InvalidArgument for a well-formed path" else none
  else some s!"unexpected result {res}"

def handleRoute (table method kind x : String) (out : List String) : String :=
  match parseTableIn table, parseHex method, parseHex x, out with
  | some tin, some meth, some xb, [res, parsedS] =>
    match (parsedS.splitOn ";").mapM parseParsed with
    | none => "BAD parsed list"
    | some parsed =>
      match zipTargets tin parsed with
      | none => "BAD parsed list length"
      | some (modelT, specT, _) =>
        -- the URL as the model sees it
        let url? : Option (Option Url) :=
          if kind = "req" ∨ kind = "srv" then (if xb.contains 32 then some none else parseRequestURI xb)
          else if kind = "raw" then some (some ⟨[], xb⟩)
          else if kind = "path" then some (some ⟨xb, []⟩)
          else none
        match url? with
        | none => "OK b=r-unmodelled-target"
        | some none => if res = "urlerr" then "OK b=r-urlerr" else s!"DIFF model=urlerr"
        | some (some u) =>
          let tblC := buildTable mkRouteC modelT
          let tblA := buildTable mkRouteA modelT
          let mC := showRoute (routeHTTP tblC meth u)
          let mA := showRoute (routeHTTP tblA meth u)
          let entries := specEntries specT
          let allWf := entries.all fun e => wfB e.2.2
          -- the path the request carries: for `req` the target's path text, otherwise the chosen path
          let reqPath := match kind, xb with
            | "req", 47 :: _ => beforeQuery xb
            | "srv", 47 :: _ => beforeQuery xb
            | _, _ => pathChoice u
          let parseOk := (specEntries modelT).map (fun e => (e.1, e.2.2)) == entries.map (fun e => (e.1, e.2.2))
          match (if allWf then specJudge entries meth reqPath res else none) with
          | some why => s!"VIOL route {why}"
          | none =>
            if ¬ (parsed.all fun p => match p with | some t => shapeB t | none => true) then
              "DIFF model=shape (the parser returned an AST outside the proved domain)"
            else if ¬ parseOk then "DIFF model=parse (a grammar-generated template was parsed to a different AST)"
            else if mC ≠ mA then s!"DIFF model-internal compiled={mC} ast={mA}"
            else if res ≠ mC then s!"DIFF model={mC}"
            else
              let br := if ¬ allWf then "r-nonwf-table"
                else if res.startsWith "found:" then
                  (if (res.splitOn ":").getD 4 "" = "d" then "r-found-default"
                   else if res.endsWith ":-" then "r-found-nocapture" else "r-found-capture")
                else if res = "err:NotFound" then "r-notfound" else "r-invalid"
              let nt := if res.startsWith "found:" ∨ res = "err:InvalidArgument" ∨
                  (entries.any fun e => e.2.1 == meth) then " nt" else ""
              s!"OK{nt} b={br}"
  | _, _, _, _ => "BAD r line"

def handle : Handler
  | ["m", tspec, comps, verb], out => handleMatch tspec comps verb out
  | ["u", kind, target], out => handleUrl kind target out
  | ["r", table, method, kind, x], out => handleRoute table method kind x out
  | _, _ => "BAD c03 line"

end GB.C03
