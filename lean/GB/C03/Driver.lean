import GB.Base.Proto
namespace GB.C03
open GB GB.Proto

/-- stub: replaced when the C03 slice is built -/
def handle : Handler := fun _ _ => "BAD c03 unimplemented"

end GB.C03
