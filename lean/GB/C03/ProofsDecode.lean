import GB.C03.Spec
/- C03 helper lemmas: the gateway's two-loop `unescape` is the one-pass `decodeOnce`; well-escapedness. -/
namespace GB.C03
set_option linter.unusedSimpArgs false
set_option linter.unusedVariables false

theorem escapesOk_cons (c : UInt8) (rest : Bytes) : escapesOk (c :: rest) =
    if c = 37 then (match rest with | h :: l :: r => ishex h && ishex l && escapesOk r | _ => false) else escapesOk rest := by
  conv => lhs; unfold escapesOk
  rfl
theorem unescapeBuild_cons (m : Bool) (c : UInt8) (rest : Bytes) : unescapeBuild m (c :: rest) =
    if c = 37 then
      match rest with
      | h :: l :: r =>
        if m && isRFC6570Reserved ((unhex h <<< 4) ||| unhex l) then 37 :: h :: l :: unescapeBuild m r
        else ((unhex h <<< 4) ||| unhex l) :: unescapeBuild m r
      | _ => 37 :: rest
    else c :: unescapeBuild m rest := by
  conv => lhs; unfold unescapeBuild
  rfl
theorem decodeOnce_cons (m : Bool) (c : UInt8) (rest : Bytes) : decodeOnce m (c :: rest) =
    if c = 37 then
      match rest with
      | h :: l :: r =>
        match hexVal h, hexVal l, decodeOnce m r with
        | some a, some b, some d =>
          if m && isRFC6570Reserved (a <<< 4 ||| b) then some (37 :: h :: l :: d) else some ((a <<< 4 ||| b) :: d)
        | _, _, _ => none
      | _ => none
    else (decodeOnce m rest).map (c :: ·) := by
  conv => lhs; unfold decodeOnce
  rfl
theorem escapesOk_cons_ne {c : UInt8} {rest : Bytes} (h : c ≠ 37) : escapesOk (c :: rest) = escapesOk rest := by
  rw [escapesOk_cons]; simp [h]
theorem escapesOk_pct3 (h l : UInt8) (r : Bytes) : escapesOk (37 :: h :: l :: r) = (ishex h && ishex l && escapesOk r) := by
  rw [escapesOk_cons]; simp
theorem escapesOk_pct_short {rest : Bytes} (hne : ∀ h l r, rest = h :: l :: r → False) : escapesOk (37 :: rest) = false := by
  rw [escapesOk_cons]
  match rest, hne with
  | [], _ => rfl
  | [_], _ => rfl
  | x :: y :: zs, hne => exact absurd rfl (fun e => hne x y zs e)

theorem unescapeBuild_cons_ne (m : Bool) {c : UInt8} {rest : Bytes} (h : c ≠ 37) :
    unescapeBuild m (c :: rest) = c :: unescapeBuild m rest := by
  rw [unescapeBuild_cons]; simp [h]
theorem unescapeBuild_pct3 (m : Bool) (h l : UInt8) (r : Bytes) : unescapeBuild m (37 :: h :: l :: r) =
    if m && isRFC6570Reserved ((unhex h <<< 4) ||| unhex l) then 37 :: h :: l :: unescapeBuild m r
    else ((unhex h <<< 4) ||| unhex l) :: unescapeBuild m r := by
  rw [unescapeBuild_cons]; simp
theorem decodeOnce_cons_ne (m : Bool) {c : UInt8} {rest : Bytes} (h : c ≠ 37) :
    decodeOnce m (c :: rest) = (decodeOnce m rest).map (c :: ·) := by
  rw [decodeOnce_cons]; simp [h]
theorem decodeOnce_pct_short (m : Bool) {rest : Bytes} (hne : ∀ h l r, rest = h :: l :: r → False) :
    decodeOnce m (37 :: rest) = none := by
  rw [decodeOnce_cons]
  match rest, hne with
  | [], _ => rfl
  | [_], _ => rfl
  | x :: y :: zs, hne => exact absurd rfl (fun e => hne x y zs e)
theorem decodeOnce_pct3 (m : Bool) (h l : UInt8) (r : Bytes) : decodeOnce m (37 :: h :: l :: r) =
    match hexVal h, hexVal l, decodeOnce m r with
    | some a, some b, some d =>
      if m && isRFC6570Reserved (a <<< 4 ||| b) then some (37 :: h :: l :: d) else some ((a <<< 4 ||| b) :: d)
    | _, _, _ => none := by
  rw [decodeOnce_cons]; simp

theorem hexVal_eq (c : UInt8) : hexVal c = if ishex c then some (unhex c) else none := by
  unfold hexVal ishex unhex
  by_cases h1 : 48 ≤ c ∧ c ≤ 57
  · simp [h1]
  · by_cases h2 : 65 ≤ c ∧ c ≤ 70
    · have h3 : ¬ (97 ≤ c ∧ c ≤ 102) := by
        intro h; have := h.1; have := h2.2; simp [UInt8.le_iff_toNat_le] at *; omega
      have e : c - 65 + 10 = c - 55 := by grind
      simp [h1, h2, h3, e]
    · by_cases h3 : 97 ≤ c ∧ c ≤ 102
      · have e : c - 97 + 10 = c - 87 := by grind
        simp [h1, h2, h3, e]
      · simp [h1, h2, h3]

/-- the gateway's validate-then-build `unescape` computes exactly the one-pass decoder of the spec -/
theorem unescape_eq_decodeOnce (m : Bool) (s : Bytes) : unescape m s = decodeOnce m s := by
  induction s using escapesOk.induct with
  | case1 => simp [unescape, escapesOk, unescapeBuild, decodeOnce]
  | case2 h l r ih =>
    unfold unescape at ih ⊢
    rw [escapesOk_pct3, unescapeBuild_pct3, decodeOnce_pct3, ← ih]
    simp only [hexVal_eq]
    by_cases hh : ishex h = true <;> by_cases hl : ishex l = true <;> by_cases ho : escapesOk r = true <;>
      simp [hh, hl, ho]
    split <;> simp_all
  | case3 rest hne =>
    unfold unescape
    rw [escapesOk_pct_short hne, decodeOnce_pct_short m hne]; simp
  | case4 c rest hc ih =>
    unfold unescape at ih ⊢
    rw [escapesOk_cons_ne hc, unescapeBuild_cons_ne m hc, decodeOnce_cons_ne m hc, ← ih]
    by_cases ho : escapesOk rest = true <;> simp [ho]

theorem wellEscaped_iff (s : Bytes) : WellEscaped s ↔ escapesOk s = true := by
  unfold WellEscaped
  rw [← unescape_eq_decodeOnce]
  unfold unescape
  by_cases h : escapesOk s = true <;> simp [h]

/-- whether decoding fails does not depend on the mode -/
theorem decodeOnce_isSome (m : Bool) (s : Bytes) : (decodeOnce m s).isSome = escapesOk s := by
  rw [← unescape_eq_decodeOnce]
  unfold unescape
  by_cases h : escapesOk s = true <;> simp [h]

theorem decodeOnce_none_iff (m : Bool) (s : Bytes) : decodeOnce m s = none ↔ ¬ WellEscaped s := by
  rw [wellEscaped_iff, ← decodeOnce_isSome m]
  cases decodeOnce m s <;> simp

theorem decodeOnce_some_wellEscaped {m : Bool} {s v : Bytes} (h : decodeOnce m s = some v) : WellEscaped s := by
  rw [wellEscaped_iff, ← decodeOnce_isSome m, h]; rfl

theorem escapesOk_append {a b : Bytes} (ha : escapesOk a = true) (hb : escapesOk b = true) :
    escapesOk (a ++ b) = true := by
  induction a using escapesOk.induct with
  | case1 => simpa using hb
  | case2 h l r ih =>
    rw [escapesOk_pct3] at ha
    simp only [Bool.and_eq_true] at ha
    simp only [List.cons_append, escapesOk_pct3, Bool.and_eq_true]
    exact ⟨ha.1, ih ha.2⟩
  | case3 rest hne => rw [escapesOk_pct_short hne] at ha; simp at ha
  | case4 c rest hc ih =>
    rw [escapesOk_cons_ne hc] at ha
    simp only [List.cons_append, escapesOk_cons_ne hc]
    exact ih ha

/-- a separator that is neither `%` nor a hex digit cuts a well-escaped string into well-escaped halves -/
theorem escapesOk_split {a b : Bytes} {sep : UInt8} (hs : ishex sep = false) (hp : sep ≠ 37)
    (h : escapesOk (a ++ sep :: b) = true) : escapesOk a = true ∧ escapesOk b = true := by
  induction a using escapesOk.induct with
  | case1 => simpa [escapesOk_cons_ne hp, escapesOk] using h
  | case2 h' l r ih =>
    simp only [List.cons_append, escapesOk_pct3, Bool.and_eq_true] at h
    simp only [escapesOk_pct3, Bool.and_eq_true]
    have := ih h.2
    exact ⟨⟨h.1, this.1⟩, this.2⟩
  | case3 rest hne =>
    -- `rest` has fewer than two bytes, so the separator would have to be a hex digit
    exfalso
    match rest, hne with
    | [], _ =>
      cases b with
      | nil => simp [escapesOk_cons] at h
      | cons x xs => simp [escapesOk_pct3, hs] at h
    | [x], _ => simp [escapesOk_pct3, hs] at h
    | x :: y :: zs, hne => exact hne x y zs rfl
  | case4 c rest hc ih =>
    simp only [List.cons_append, escapesOk_cons_ne hc] at h
    simp only [escapesOk_cons_ne hc]
    exact ih h

theorem wellEscaped_append {a b : Bytes} (ha : WellEscaped a) (hb : WellEscaped b) : WellEscaped (a ++ b) := by
  rw [wellEscaped_iff] at *; exact escapesOk_append ha hb

theorem wellEscaped_colon_split {a b : Bytes} (h : WellEscaped (a ++ 58 :: b)) : WellEscaped a ∧ WellEscaped b := by
  simp only [wellEscaped_iff] at *
  exact escapesOk_split (sep := 58) (by decide) (by decide) h

theorem wellEscaped_colon_join {a b : Bytes} (ha : WellEscaped a) (hb : WellEscaped b) : WellEscaped (a ++ 58 :: b) := by
  apply wellEscaped_append ha
  simp only [wellEscaped_iff] at *
  rw [escapesOk_cons_ne (by decide)]; exact hb

theorem wellEscaped_nil : WellEscaped [] := by
  rw [wellEscaped_iff]; rfl

/-- joining well-escaped segments with `/` stays well-escaped, and conversely -/
theorem wellEscaped_joinSlash {ss : List Bytes} : WellEscaped (joinSlash ss) ↔ ∀ s ∈ ss, WellEscaped s := by
  induction ss with
  | nil => simp [joinSlash, wellEscaped_nil]
  | cons x xs ih =>
    cases xs with
    | nil => simp [joinSlash]
    | cons y ys =>
      simp only [joinSlash, List.mem_cons, forall_eq_or_imp]
      constructor
      · intro h
        have := escapesOk_split (sep := 47) (by decide) (by decide) ((wellEscaped_iff _).1 h)
        refine ⟨(wellEscaped_iff _).2 this.1, ?_⟩
        have h2 := ih.1 ((wellEscaped_iff _).2 this.2)
        simpa [List.mem_cons, forall_eq_or_imp] using h2
      · intro h
        have h2 : WellEscaped (joinSlash (y :: ys)) := ih.2 (by simpa [List.mem_cons, forall_eq_or_imp] using h.2)
        apply wellEscaped_append h.1
        simp only [wellEscaped_iff] at *
        rw [escapesOk_cons_ne (by decide)]; exact h2

end GB.C03
