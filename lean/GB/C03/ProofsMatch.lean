import GB.C03.ProofsDecode
/- C03 helper lemmas: the structural matcher `matchSegs` decides the declarative relation `SegsMatch`. -/
namespace GB.C03
set_option linter.unusedSimpArgs false
set_option linter.unusedVariables false

@[simp] theorem bind_ok {α β : Type} (a : α) (f : α → MatchRes β) : (MatchRes.ok a).bind f = f a := rfl
@[simp] theorem bind_notMatch {α β : Type} (f : α → MatchRes β) : (MatchRes.notMatch).bind f = .notMatch := rfl
@[simp] theorem bind_malformed {α β : Type} (f : α → MatchRes β) : (MatchRes.malformed).bind f = .malformed := rfl
@[simp] theorem bind_fault {α β : Type} (f : α → MatchRes β) : (MatchRes.fault).bind f = .fault := rfl

theorem bind_eq_ok {α β : Type} {x : MatchRes α} {f : α → MatchRes β} {b : β} (h : x.bind f = .ok b) :
    ∃ a, x = .ok a ∧ f a = .ok b := by
  cases x with
  | ok a => exact ⟨a, rfl, h⟩
  | notMatch => simp at h
  | malformed => simp at h
  | fault => simp at h

/-! ### soundness -/

theorem matchPart_sound {n : Nat} {p : VSeg} {cs : List Bytes} {v : Bytes} {cs' : List Bytes}
    (h : matchPart n p cs = .ok (v, cs')) : ∃ used, cs = used ++ cs' ∧ PartMatch p used v := by
  cases p with
  | lit l =>
    cases cs with
    | nil => simp [matchPart] at h
    | cons c rest =>
      simp only [matchPart] at h
      split at h
      · rename_i hc
        simp only [MatchRes.ok.injEq, Prod.mk.injEq] at h
        obtain ⟨rfl, rfl⟩ := h
        subst hc
        exact ⟨[litText l], by simp, PartMatch.lit⟩
      · simp at h
  | star =>
    cases cs with
    | nil => simp [matchPart] at h
    | cons c rest =>
      simp only [matchPart] at h
      cases hu : unescape false c with
      | none => simp [hu] at h
      | some w =>
        simp only [hu, MatchRes.ok.injEq, Prod.mk.injEq] at h
        obtain ⟨rfl, rfl⟩ := h
        rw [unescape_eq_decodeOnce] at hu
        exact ⟨[c], by simp, PartMatch.star hu⟩
  | deep =>
    simp only [matchPart] at h
    split at h
    · simp at h
    · cases hu : unescape true (joinSlash (cs.take (cs.length - n))) with
      | none => simp [hu] at h
      | some w =>
        simp only [hu, MatchRes.ok.injEq, Prod.mk.injEq] at h
        obtain ⟨rfl, rfl⟩ := h
        rw [unescape_eq_decodeOnce] at hu
        exact ⟨cs.take (cs.length - n), (List.take_append_drop _ _).symm, PartMatch.deep hu⟩

theorem matchParts_sound {ps : List VSeg} : ∀ {after : Nat} {cs vs cs' : List Bytes},
    matchParts ps after cs = .ok (vs, cs') → ∃ used, cs = used ++ cs' ∧ PartsMatch ps used vs := by
  induction ps with
  | nil =>
    intro after cs vs cs' h
    simp only [matchParts, MatchRes.ok.injEq, Prod.mk.injEq] at h
    obtain ⟨rfl, rfl⟩ := h
    exact ⟨[], by simp, PartsMatch.nil⟩
  | cons p ps ih =>
    intro after cs vs cs' h
    simp only [matchParts] at h
    obtain ⟨⟨v, c1⟩, h1, h⟩ := bind_eq_ok h
    obtain ⟨⟨vs', c2⟩, h2, h⟩ := bind_eq_ok h
    simp only [MatchRes.ok.injEq, Prod.mk.injEq] at h
    obtain ⟨rfl, rfl⟩ := h
    obtain ⟨u1, e1, m1⟩ := matchPart_sound h1
    obtain ⟨u2, e2, m2⟩ := ih h2
    simp only at e2
    exact ⟨u1 ++ u2, by rw [e1, e2, List.append_assoc], PartsMatch.cons m1 m2⟩

theorem matchSegs_sound {ss : List Seg} : ∀ {cs : List Bytes} {b : Captures},
    matchSegs ss cs = .ok b → SegsMatch ss cs b := by
  induction ss with
  | nil =>
    intro cs b h
    simp only [matchSegs] at h
    split at h
    · rename_i he
      simp only [MatchRes.ok.injEq] at h
      subst h
      rw [List.isEmpty_iff] at he; subst he
      exact SegsMatch.nil
    · simp at h
  | cons s ss ih =>
    intro cs b h
    cases s with
    | plain p =>
      simp only [matchSegs] at h
      obtain ⟨⟨v, c1⟩, h1, h⟩ := bind_eq_ok h
      obtain ⟨u1, e1, m1⟩ := matchPart_sound h1
      rw [e1]
      exact SegsMatch.plain m1 (ih h)
    | var x ps =>
      simp only [matchSegs] at h
      obtain ⟨⟨vs, c1⟩, h1, h⟩ := bind_eq_ok h
      obtain ⟨b', h2, h⟩ := bind_eq_ok h
      simp only [MatchRes.ok.injEq] at h
      subst h
      obtain ⟨u1, e1, m1⟩ := matchParts_sound h1
      rw [e1]
      exact SegsMatch.var m1 (ih h2)

/-! ### completeness -/

theorem partMatch_len {p : VSeg} {used : List Bytes} {v : Bytes} (h : PartMatch p used v)
    (hd : p.isDeep = false) : used.length = 1 := by
  cases h with
  | lit => rfl
  | star _ => rfl
  | deep _ => simp [VSeg.isDeep] at hd

theorem partsMatch_len {ps : List VSeg} {used vs : List Bytes} (h : PartsMatch ps used vs)
    (hd : ps.countP VSeg.isDeep = 0) : used.length = ps.length := by
  induction h with
  | nil => rfl
  | cons hp _ ih =>
    rw [List.countP_cons] at hd
    have h1 := partMatch_len hp (by
      cases hh : VSeg.isDeep _ with
      | false => rfl
      | true => simp [hh] at hd)
    simp only [List.length_append, List.length_cons]
    rw [h1, ih (by omega)]; omega

theorem deepCount_cons (s : Seg) (ss : List Seg) :
    deepCount (s :: ss) = s.atoms.countP VSeg.isDeep + deepCount ss := by
  simp [deepCount, atomsOf, List.countP_append]

theorem atomsOf_cons (s : Seg) (ss : List Seg) : atomsOf (s :: ss) = s.atoms ++ atomsOf ss := by
  simp [atomsOf]

theorem segsMatch_len {ss : List Seg} {cs : List Bytes} {b : Captures} (h : SegsMatch ss cs b)
    (hd : deepCount ss = 0) : cs.length = (atomsOf ss).length := by
  induction h with
  | nil => rfl
  | plain hp _ ih =>
    rw [deepCount_cons] at hd
    simp only [Seg.atoms, List.countP_cons, List.countP_nil] at hd
    have h1 := partMatch_len hp (by
      cases hh : VSeg.isDeep _ with
      | false => rfl
      | true => simp [hh] at hd)
    rw [atomsOf_cons]
    simp only [List.length_append, Seg.atoms, List.length_cons, List.length_nil]
    rw [h1, ih (by omega)]
  | var hp _ ih =>
    rw [deepCount_cons] at hd
    simp only [Seg.atoms] at hd
    rw [atomsOf_cons]
    simp only [List.length_append, Seg.atoms]
    rw [partsMatch_len hp (by omega), ih (by omega)]

theorem matchPart_complete {p : VSeg} {used : List Bytes} {v : Bytes} (hm : PartMatch p used v)
    (rest : List Bytes) (n : Nat) (hn : p.isDeep = true → rest.length = n) :
    matchPart n p (used ++ rest) = .ok (v, rest) := by
  cases hm with
  | lit => simp [matchPart]
  | star hd => simp [matchPart, unescape_eq_decodeOnce, hd]
  | deep hd =>
    have hl := hn rfl
    have e : (used ++ rest).length - n = used.length := by simp [List.length_append]; omega
    simp only [matchPart, e, List.take_left', List.drop_left', unescape_eq_decodeOnce, hd]
    have : ¬ (used ++ rest).length < n := by simp [List.length_append]; omega
    simp [this, List.take_left', List.drop_left']
    omega

theorem matchParts_complete {ps : List VSeg} {used vs : List Bytes} (h : PartsMatch ps used vs) :
    ∀ (rest : List Bytes) (after : Nat), ps.countP VSeg.isDeep ≤ 1 →
      (ps.countP VSeg.isDeep = 1 → rest.length = after) →
      matchParts ps after (used ++ rest) = .ok (vs, rest) := by
  induction h with
  | nil => intro rest after _ _; simp [matchParts]
  | @cons p ps cs cs' v vs hp hps ih =>
    intro rest after h1 h2
    rw [List.countP_cons] at h1 h2
    simp only [matchParts, List.append_assoc]
    have hpart : matchPart (ps.length + after) p (cs ++ (cs' ++ rest)) = .ok (v, cs' ++ rest) := by
      apply matchPart_complete hp
      intro hd
      simp only [hd, ↓reduceIte] at h1 h2
      have h0 : ps.countP VSeg.isDeep = 0 := by omega
      simp only [List.length_append]
      rw [partsMatch_len hps h0, h2 (by omega)]
    rw [hpart]
    simp only [bind_ok]
    rw [ih rest after (by omega) (by
      intro h; apply h2
      cases hd : VSeg.isDeep p with
      | false => simp [h]
      | true => simp only [hd, ↓reduceIte] at h1; omega)]
    simp

theorem matchSegs_complete {ss : List Seg} {cs : List Bytes} {b : Captures} (h : SegsMatch ss cs b) :
    deepCount ss ≤ 1 → matchSegs ss cs = .ok b := by
  induction h with
  | nil => intro _; simp [matchSegs]
  | @plain p ss cs cs' v b hp hs ih =>
    intro hd
    rw [deepCount_cons] at hd
    simp only [Seg.atoms, List.countP_cons, List.countP_nil] at hd
    simp only [matchSegs]
    rw [matchPart_complete hp cs' _ (by
      intro hdeep
      simp only [hdeep, ↓reduceIte] at hd
      exact segsMatch_len hs (by omega))]
    simp only [bind_ok]
    exact ih (by omega)
  | @var x ps ss cs cs' vs b hp hs ih =>
    intro hd
    rw [deepCount_cons] at hd
    simp only [Seg.atoms] at hd
    simp only [matchSegs]
    rw [matchParts_complete hp cs' _ (by omega) (by
      intro h1
      exact segsMatch_len hs (by omega))]
    simp only [bind_ok]
    rw [ih (by omega)]
    simp

/-- the structural matcher decides the declarative relation (at most one `**`) -/
theorem matchSegs_iff {ss : List Seg} (hd : deepCount ss ≤ 1) (cs : List Bytes) (b : Captures) :
    matchSegs ss cs = .ok b ↔ SegsMatch ss cs b :=
  ⟨matchSegs_sound, fun h => matchSegs_complete h hd⟩

/-! ### never a fault; malformed only for a malformed component -/

theorem matchPart_ne_fault (n : Nat) (p : VSeg) (cs : List Bytes) : matchPart n p cs ≠ .fault := by
  cases p <;> cases cs <;> simp [matchPart] <;> (try split) <;> (try split) <;> simp

theorem matchPart_suffix {n : Nat} {p : VSeg} {cs : List Bytes} {v : Bytes} {cs' : List Bytes}
    (h : matchPart n p cs = .ok (v, cs')) : ∀ c ∈ cs', c ∈ cs := by
  obtain ⟨u, e, _⟩ := matchPart_sound h
  intro c hc; rw [e]; exact List.mem_append_right _ hc

theorem matchPart_malformed {n : Nat} {p : VSeg} {cs : List Bytes}
    (h : matchPart n p cs = .malformed) : ∃ c ∈ cs, ¬ WellEscaped c := by
  cases p with
  | lit l =>
    cases cs with
    | nil => simp [matchPart] at h
    | cons c rest => simp only [matchPart] at h; split at h <;> simp at h
  | star =>
    cases cs with
    | nil => simp [matchPart] at h
    | cons c rest =>
      simp only [matchPart] at h
      cases hu : unescape false c with
      | some w => simp [hu] at h
      | none =>
        rw [unescape_eq_decodeOnce, decodeOnce_none_iff] at hu
        exact ⟨c, by simp, hu⟩
  | deep =>
    simp only [matchPart] at h
    split at h
    · simp at h
    · cases hu : unescape true (joinSlash (cs.take (cs.length - n))) with
      | some w => simp [hu] at h
      | none =>
        rw [unescape_eq_decodeOnce, decodeOnce_none_iff, wellEscaped_joinSlash] at hu
        apply Classical.byContradiction
        intro hno
        apply hu
        intro c hc
        apply Classical.byContradiction
        intro hw
        exact hno ⟨c, List.mem_of_mem_take hc, hw⟩

theorem matchParts_malformed {ps : List VSeg} : ∀ {after : Nat} {cs : List Bytes},
    matchParts ps after cs = .malformed → ∃ c ∈ cs, ¬ WellEscaped c := by
  induction ps with
  | nil => intro after cs h; simp [matchParts] at h
  | cons p ps ih =>
    intro after cs h
    simp only [matchParts] at h
    cases h1 : matchPart (ps.length + after) p cs with
    | ok r =>
      rw [h1] at h
      simp only [bind_ok] at h
      cases h2 : matchParts ps after r.2 with
      | ok r' => rw [h2] at h; simp at h
      | notMatch => rw [h2] at h; simp at h
      | fault => rw [h2] at h; simp at h
      | malformed =>
        obtain ⟨c, hc, hw⟩ := ih h2
        exact ⟨c, matchPart_suffix (v := r.1) (cs' := r.2) h1 c hc, hw⟩
    | notMatch => rw [h1] at h; simp at h
    | fault => rw [h1] at h; simp at h
    | malformed => exact matchPart_malformed h1

theorem matchParts_suffix {ps : List VSeg} {after : Nat} {cs vs cs' : List Bytes}
    (h : matchParts ps after cs = .ok (vs, cs')) : ∀ c ∈ cs', c ∈ cs := by
  obtain ⟨u, e, _⟩ := matchParts_sound h
  intro c hc; rw [e]; exact List.mem_append_right _ hc

theorem matchSegs_malformed {ss : List Seg} : ∀ {cs : List Bytes},
    matchSegs ss cs = .malformed → ∃ c ∈ cs, ¬ WellEscaped c := by
  induction ss with
  | nil => intro cs h; simp only [matchSegs] at h; split at h <;> simp at h
  | cons s ss ih =>
    intro cs h
    cases s with
    | plain p =>
      simp only [matchSegs] at h
      cases h1 : matchPart (atomsOf ss).length p cs with
      | ok r =>
        rw [h1] at h
        simp only [bind_ok] at h
        obtain ⟨c, hc, hw⟩ := ih h
        exact ⟨c, matchPart_suffix (v := r.1) (cs' := r.2) h1 c hc, hw⟩
      | notMatch => rw [h1] at h; simp at h
      | fault => rw [h1] at h; simp at h
      | malformed => exact matchPart_malformed h1
    | var x ps =>
      simp only [matchSegs] at h
      cases h1 : matchParts ps (atomsOf ss).length cs with
      | ok r =>
        rw [h1] at h
        simp only [bind_ok] at h
        cases h2 : matchSegs ss r.2 with
        | ok b => rw [h2] at h; simp at h
        | notMatch => rw [h2] at h; simp at h
        | fault => rw [h2] at h; simp at h
        | malformed =>
          obtain ⟨c, hc, hw⟩ := ih h2
          exact ⟨c, matchParts_suffix (vs := r.1) (cs' := r.2) h1 c hc, hw⟩
      | notMatch => rw [h1] at h; simp at h
      | fault => rw [h1] at h; simp at h
      | malformed => exact matchParts_malformed h1

theorem matchParts_ne_fault {ps : List VSeg} : ∀ (after : Nat) (cs : List Bytes), matchParts ps after cs ≠ .fault := by
  induction ps with
  | nil => intro after cs; simp [matchParts]
  | cons p ps ih =>
    intro after cs h
    simp only [matchParts] at h
    cases h1 : matchPart (ps.length + after) p cs with
    | ok r =>
      rw [h1] at h
      simp only [bind_ok] at h
      cases h2 : matchParts ps after r.2 with
      | ok r' => rw [h2] at h; simp at h
      | notMatch => rw [h2] at h; simp at h
      | malformed => rw [h2] at h; simp at h
      | fault => exact ih _ _ h2
    | notMatch => rw [h1] at h; simp at h
    | malformed => rw [h1] at h; simp at h
    | fault => exact matchPart_ne_fault _ _ _ h1

theorem matchSegs_ne_fault {ss : List Seg} : ∀ (cs : List Bytes), matchSegs ss cs ≠ .fault := by
  induction ss with
  | nil => intro cs h; simp only [matchSegs] at h; split at h <;> simp at h
  | cons s ss ih =>
    intro cs h
    cases s with
    | plain p =>
      simp only [matchSegs] at h
      cases h1 : matchPart (atomsOf ss).length p cs with
      | ok r => rw [h1] at h; simp only [bind_ok] at h; exact ih _ h
      | notMatch => rw [h1] at h; simp at h
      | malformed => rw [h1] at h; simp at h
      | fault => exact matchPart_ne_fault _ _ _ h1
    | var x ps =>
      simp only [matchSegs] at h
      cases h1 : matchParts ps (atomsOf ss).length cs with
      | ok r =>
        rw [h1] at h
        simp only [bind_ok] at h
        cases h2 : matchSegs ss r.2 with
        | ok b => rw [h2] at h; simp at h
        | notMatch => rw [h2] at h; simp at h
        | malformed => rw [h2] at h; simp at h
        | fault => exact ih _ h2
      | notMatch => rw [h1] at h; simp at h
      | malformed => rw [h1] at h; simp at h
      | fault => exact matchParts_ne_fault _ _ h1

/-- when a template matches, every component it consumed is well-escaped (literals are, by `WF`) -/
theorem partMatch_wellEscaped {p : VSeg} {used : List Bytes} {v : Bytes} (h : PartMatch p used v)
    (hl : p.litsOk) : ∀ c ∈ used, WellEscaped c := by
  cases h with
  | lit => simpa [VSeg.litsOk] using hl
  | star hd => simpa using decodeOnce_some_wellEscaped hd
  | deep hd => exact wellEscaped_joinSlash.1 (decodeOnce_some_wellEscaped hd)

theorem partsMatch_wellEscaped {ps : List VSeg} {used vs : List Bytes} (h : PartsMatch ps used vs)
    (hl : ∀ p ∈ ps, p.litsOk) : ∀ c ∈ used, WellEscaped c := by
  induction h with
  | nil => simp
  | cons hp _ ih =>
    intro c hc
    rcases List.mem_append.1 hc with hc | hc
    · exact partMatch_wellEscaped hp (hl _ (by simp)) c hc
    · exact ih (fun p hp => hl p (by simp [hp])) c hc

theorem segsMatch_wellEscaped {ss : List Seg} {cs : List Bytes} {b : Captures} (h : SegsMatch ss cs b)
    (hl : ∀ p ∈ atomsOf ss, p.litsOk) : ∀ c ∈ cs, WellEscaped c := by
  induction h with
  | nil => simp
  | plain hp _ ih =>
    intro c hc
    rw [atomsOf_cons] at hl
    rcases List.mem_append.1 hc with hc | hc
    · exact partMatch_wellEscaped hp (hl _ (by simp [Seg.atoms])) c hc
    · exact ih (fun p hp => hl p (by simp [hp])) c hc
  | var hp _ ih =>
    intro c hc
    rw [atomsOf_cons] at hl
    rcases List.mem_append.1 hc with hc | hc
    · exact partsMatch_wellEscaped hp (fun p hp => hl p (by simp [Seg.atoms, hp])) c hc
    · exact ih (fun p hp => hl p (by simp [hp])) c hc

end GB.C03
