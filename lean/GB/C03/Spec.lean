import GB.C03.Model
/-
  C03 — specification: which request paths a google.api.http template matches and what it captures.
  Stated on the *raw* (still percent-encoded) path segments of the request target, with a one-pass
  percent decoder that is defined independently of the gateway's two-loop `unescape`.

    literal        matches the raw segment equal to its text (no decoding on either side)
    *              matches exactly one segment (possibly empty); its value is the segment decoded once, every escape
    **             matches any number of segments (the split is existential: whatever the rest of the template
                   leaves over); its value is their `/`-join decoded once except RFC 6570 reserved bytes
    {x=p1/…/pn}    binds x to the `/`-join of the values of its parts (a literal part contributes its text)
    :verb          the last segment is `s:verb` with `s` non-empty and the template matches with `s` in its place
-/
namespace GB.C03

def hexVal (c : UInt8) : Option UInt8 :=
  if 48 ≤ c ∧ c ≤ 57 then some (c - 48)
  else if 65 ≤ c ∧ c ≤ 70 then some (c - 55)
  else if 97 ≤ c ∧ c ≤ 102 then some (c - 87)
  else none

/-- One left-to-right pass: `%XY` becomes the byte `0xXY` — unless `keepReserved` and that byte is RFC 6570
    reserved, then the three characters stay — and any other byte is copied. A `%` without two hex digits is an
    error. Nothing that was produced is ever looked at again: this is "decoded exactly once". -/
def decodeOnce (keepReserved : Bool) : Bytes → Option Bytes
  | [] => some []
  | c :: rest =>
    if c = 37 then
      match rest with
      | h :: l :: r =>
        match hexVal h, hexVal l, decodeOnce keepReserved r with
        | some a, some b, some d =>
          if keepReserved && isRFC6570Reserved (a <<< 4 ||| b) then some (37 :: h :: l :: d) else some ((a <<< 4 ||| b) :: d)
        | _, _, _ => none
      | _ => none
    else (decodeOnce keepReserved rest).map (c :: ·)

/-- every `%` is followed by two hex digits -/
def WellEscaped (s : Bytes) : Prop := (decodeOnce false s).isSome

/-- part `p` consumes the raw segments `cs` and yields value `v` -/
inductive PartMatch : VSeg → List Bytes → Bytes → Prop where
  | lit {l} : PartMatch (.lit l) [litText l] (litText l)
  | star {s v} : decodeOnce false s = some v → PartMatch .star [s] v
  | deep {ss v} : decodeOnce true (joinSlash ss) = some v → PartMatch .deep ss v

inductive PartsMatch : List VSeg → List Bytes → List Bytes → Prop where
  | nil : PartsMatch [] [] []
  | cons {p ps cs cs' v vs} : PartMatch p cs v → PartsMatch ps cs' vs → PartsMatch (p :: ps) (cs ++ cs') (v :: vs)

/-- the template segments consume all of `cs` and capture `b` (in template order) -/
inductive SegsMatch : List Seg → List Bytes → Captures → Prop where
  | nil : SegsMatch [] [] []
  | plain {p ss cs cs' v b} : PartMatch p cs v → SegsMatch ss cs' b → SegsMatch (.plain p :: ss) (cs ++ cs') b
  | var {x ps ss cs cs' vs b} : PartsMatch ps cs vs → SegsMatch ss cs' b →
      SegsMatch (.var x ps :: ss) (cs ++ cs') ((x, joinSlash vs) :: b)

/-- `t` matches the already verb-stripped components -/
def Matches (t : Tmpl) (comps : List Bytes) (verb : Bytes) (b : Captures) : Prop :=
  t.verb = verb ∧ SegsMatch t.segs comps b

/-- `t` matches the raw segments of a request path (everything after the leading `/`, split at `/`). -/
def PathMatches (t : Tmpl) (segs : List Bytes) (b : Captures) : Prop :=
  if t.verb = [] then SegsMatch t.segs segs b
  else ∃ init s, segs = init ++ [s ++ 58 :: t.verb] ∧ s ≠ [] ∧ SegsMatch t.segs (init ++ [s]) b

/-- what the routing table is, abstractly: (id, HTTP method, template) in table order -/
abbrev Table (ι : Type) := List (ι × Bytes × Tmpl)

/-- entry `e` is the first entry of `tbl` with HTTP method `m` whose template matches `segs`, capturing `b` -/
def FirstMatch {ι} (tbl : Table ι) (m : Bytes) (segs : List Bytes) (i : ι) (b : Captures) : Prop :=
  ∃ pre t post, tbl = pre ++ (i, m, t) :: post ∧ PathMatches t segs b ∧
    ∀ e ∈ pre, e.2.1 = m → ¬ ∃ b', PathMatches e.2.2 segs b'

/-- template well-formedness needed for routing: at most one `**` (anything else is rejected by `NewPattern`),
    literals and verb carry only complete percent-escapes (the parser guarantees it for literals) -/
def VSeg.litsOk : VSeg → Prop
  | .lit l => WellEscaped (litText l)
  | _ => True

structure WF (t : Tmpl) : Prop where
  oneDeep : deepCount t.segs ≤ 1
  lits : ∀ p ∈ atomsOf t.segs, p.litsOk
  verb : WellEscaped t.verb

end GB.C03
