import GB.C03.ProofsMatch
/- C03 helper lemmas: one route step decides `PathMatches`; `iterate` returns the first match. -/
namespace GB.C03
set_option linter.unusedSimpArgs false
set_option linter.unusedVariables false

/-- the table entry as a `Route` over the AST matcher -/
def mkR {ι : Type} (e : ι × Bytes × Tmpl) : Route ι :=
  { id := e.1, httpMethod := e.2.1, verb := e.2.2.verb, run := matchTmpl e.2.2 }

def routesOf {ι : Type} (tbl : Table ι) : List (Route ι) := tbl.map mkR

theorem hasSuffix_append (s suf : Bytes) : hasSuffix (s ++ suf) suf = true := by
  simp [hasSuffix, List.length_append]

theorem hasSuffix_elim {l suf : Bytes} (h : hasSuffix l suf = true) :
    l = l.take (l.length - suf.length) ++ suf := by
  simp only [hasSuffix, Bool.and_eq_true, decide_eq_true_eq, beq_iff_eq] at h
  have := List.take_append_drop (l.length - suf.length) l
  rw [h.2] at this
  exact this.symm

theorem matchTmpl_own_verb (t : Tmpl) (cs : List Bytes) : matchTmpl t cs t.verb = matchSegs t.segs cs := by
  simp [matchTmpl]

theorem matchTmpl_no_verb (t : Tmpl) (cs : List Bytes) :
    matchTmpl t cs [] = if t.verb = [] then matchSegs t.segs cs else .notMatch := by
  by_cases h : t.verb = []
  · simp [matchTmpl, h]
  · simp [matchTmpl, h]

theorem getLast?_append_singleton {α} (xs : List α) (x : α) : (xs ++ [x]).getLast? = some x := by
  simp

theorem dropLast_append_getLast? {α} {xs : List α} {x : α} (h : xs.getLast? = some x) :
    xs = xs.dropLast ++ [x] := by
  cases xs with
  | nil => simp at h
  | cons y ys =>
    have hne : y :: ys ≠ [] := by simp
    have := List.getLast?_eq_some_getLast hne
    rw [h] at this
    have e : x = (y :: ys).getLast hne := Option.some.inj this
    rw [e]; exact (List.dropLast_concat_getLast hne).symm

/-- what one route step computes for a table entry, in terms of the structural matcher -/
theorem stepRoute_mkR {ι : Type} (e : ι × Bytes × Tmpl) (segs : List Bytes) (last : Bytes) :
    stepRoute segs last (mkR e) =
      if e.2.2.verb = [] then matchSegs e.2.2.segs segs
      else if hasSuffix last (58 :: e.2.2.verb) = true then
        (if last.length - e.2.2.verb.length - 1 = 0 then .notMatch
         else matchSegs e.2.2.segs (segs.dropLast ++ [last.take (last.length - e.2.2.verb.length - 1)]))
      else .notMatch := by
  unfold stepRoute mkR
  simp only
  by_cases hv : e.2.2.verb = []
  · simp [hv, matchTmpl_no_verb]
  · by_cases hs : hasSuffix last (58 :: e.2.2.verb) = true
    · simp only [hv, hs, ne_eq, not_false_eq_true, and_self, ↓reduceIte]
      by_cases hz : last.length - e.2.2.verb.length - 1 = 0
      · simp [hz]
      · simp only [hz, ↓reduceIte]
        have hl := hasSuffix_elim hs
        obtain ⟨s, hl⟩ : ∃ s, last = s ++ 58 :: e.2.2.verb := ⟨_, hl⟩
        have hd : last.drop (last.length - e.2.2.verb.length - 1 + 1) = e.2.2.verb := by
          have h2 : last.length - e.2.2.verb.length - 1 + 1 = s.length + 1 := by
            rw [hl]; simp only [List.length_append, List.length_cons]; omega
          rw [h2, hl]
          simp
        rw [hd, matchTmpl_own_verb]
    · simp [hv, hs, matchTmpl_no_verb]

theorem stepRoute_iff {ι : Type} (e : ι × Bytes × Tmpl) (hd : deepCount e.2.2.segs ≤ 1)
    {segs : List Bytes} {last : Bytes} (hlast : segs.getLast? = some last) (b : Captures) :
    stepRoute segs last (mkR e) = .ok b ↔ PathMatches e.2.2 segs b := by
  rw [stepRoute_mkR]
  unfold PathMatches
  by_cases hv : e.2.2.verb = []
  · simp only [hv, ↓reduceIte]
    exact matchSegs_iff hd _ _
  · simp only [hv, ↓reduceIte]
    constructor
    · intro h
      split at h
      · rename_i hs
        split at h
        · simp at h
        · rename_i hz
          have hl := hasSuffix_elim hs
          have h1 : last.length - (58 :: e.2.2.verb).length = last.length - e.2.2.verb.length - 1 := by
            simp only [List.length_cons]; omega
          rw [h1] at hl
          refine ⟨segs.dropLast, last.take (last.length - e.2.2.verb.length - 1), ?_, ?_, (matchSegs_iff hd _ _).1 h⟩
          · rw [← hl]; exact dropLast_append_getLast? hlast
          · intro he
            have : (last.take (last.length - e.2.2.verb.length - 1)).length = 0 := by rw [he]; rfl
            simp only [List.length_take] at this
            omega
      · simp at h
    · rintro ⟨init, s, hsegs, hs, hm⟩
      have hl : last = s ++ 58 :: e.2.2.verb := by
        rw [hsegs, getLast?_append_singleton] at hlast
        exact (Option.some.inj hlast).symm
      have hsuf : hasSuffix last (58 :: e.2.2.verb) = true := by rw [hl]; exact hasSuffix_append _ _
      have hlen : last.length - e.2.2.verb.length - 1 = s.length := by
        rw [hl]; simp only [List.length_append, List.length_cons]; omega
      have hspos : s.length ≠ 0 := by
        intro h0; exact hs (List.eq_nil_of_length_eq_zero h0)
      simp only [hsuf, ↓reduceIte, hlen, hspos]
      have hdl : segs.dropLast = init := by rw [hsegs]; simp
      have htk : last.take s.length = s := by rw [hl]; simp
      rw [hdl, htk]
      exact (matchSegs_iff hd _ _).2 hm

/-- a matching well-formed template forces every raw segment of the path to be well-escaped -/
theorem pathMatches_wellEscaped {t : Tmpl} (hwf : WF t) {segs : List Bytes} {b : Captures}
    (h : PathMatches t segs b) : ∀ c ∈ segs, WellEscaped c := by
  unfold PathMatches at h
  by_cases hv : t.verb = []
  · simp only [hv, ↓reduceIte] at h
    exact segsMatch_wellEscaped h hwf.lits
  · simp only [hv, ↓reduceIte] at h
    obtain ⟨init, s, hsegs, hs, hm⟩ := h
    have hall := segsMatch_wellEscaped hm hwf.lits
    intro c hc
    rw [hsegs] at hc
    rcases List.mem_append.1 hc with hc | hc
    · exact hall c (List.mem_append_left _ hc)
    · simp only [List.mem_singleton] at hc
      subst hc
      exact wellEscaped_colon_join (hall s (by simp)) hwf.verb

/-- a route step reports a malformed escape only when some raw segment of the path has one -/
theorem stepRoute_malformed {ι : Type} (e : ι × Bytes × Tmpl) {segs : List Bytes} {last : Bytes}
    (hlast : segs.getLast? = some last) (h : stepRoute segs last (mkR e) = .malformed) :
    ∃ c ∈ segs, ¬ WellEscaped c := by
  rw [stepRoute_mkR] at h
  split at h
  · exact matchSegs_malformed h
  · split at h
    · rename_i hs
      split at h
      · simp at h
      · obtain ⟨c, hc, hw⟩ := matchSegs_malformed h
        have hsegs := dropLast_append_getLast? hlast
        rcases List.mem_append.1 hc with hc | hc
        · exact ⟨c, by rw [hsegs]; exact List.mem_append_left _ hc, hw⟩
        · simp only [List.mem_singleton] at hc
          refine ⟨last, by rw [hsegs]; simp, ?_⟩
          intro hwl
          have hl := hasSuffix_elim hs
          have h1 : last.length - (58 :: e.2.2.verb).length = last.length - e.2.2.verb.length - 1 := by
            simp only [List.length_cons]; omega
          rw [h1] at hl
          rw [hl] at hwl
          exact hw (hc ▸ (wellEscaped_colon_split hwl).1)
    · simp at h

theorem stepRoute_ne_fault {ι : Type} (e : ι × Bytes × Tmpl) (segs : List Bytes) (last : Bytes) :
    stepRoute segs last (mkR e) ≠ .fault := by
  rw [stepRoute_mkR]
  split
  · exact matchSegs_ne_fault _
  · split
    · split
      · simp
      · exact matchSegs_ne_fault _
    · simp

theorem splitSlash_ne_nil (p : Bytes) : splitSlash p ≠ [] := by
  induction p with
  | nil => simp [splitSlash]
  | cons c rest ih =>
    simp only [splitSlash]
    split
    · simp
    · split
      · simp
      · simp

/-- the iteration over the table, as a function of the table (method filter inside) -/
def iterTbl {ι : Type} (tbl : Table ι) (m : Bytes) (segs : List Bytes) (last : Bytes) : RouteResult ι :=
  iterate segs last ((routesOf tbl).filter fun r => r.httpMethod == m)

theorem iterTbl_nil {ι : Type} (m : Bytes) (segs : List Bytes) (last : Bytes) :
    iterTbl ([] : Table ι) m segs last = .error .notFound := rfl

theorem iterTbl_cons_ne {ι : Type} (e : ι × Bytes × Tmpl) (tbl : Table ι) {m : Bytes} (segs : List Bytes)
    (last : Bytes) (h : e.2.1 ≠ m) : iterTbl (e :: tbl) m segs last = iterTbl tbl m segs last := by
  simp [iterTbl, routesOf, mkR, List.filter_cons, h]

theorem iterTbl_cons_eq {ι : Type} (e : ι × Bytes × Tmpl) (tbl : Table ι) {m : Bytes} (segs : List Bytes)
    (last : Bytes) (h : e.2.1 = m) : iterTbl (e :: tbl) m segs last =
      match stepRoute segs last (mkR e) with
      | .ok params => .found e.1 params
      | .malformed => .error .invalidArgument
      | .notMatch => iterTbl tbl m segs last
      | .fault => iterTbl tbl m segs last := by
  simp only [iterTbl, routesOf, List.map_cons, List.filter_cons]
  have : ((mkR e).httpMethod == m) = true := by simp [mkR, h]
  simp only [this, ↓reduceIte, iterate]
  cases stepRoute segs last (mkR e) <;> rfl

theorem firstMatch_cons_skip {ι : Type} {e : ι × Bytes × Tmpl} {tbl : Table ι} {m : Bytes} {segs : List Bytes}
    (hno : e.2.1 = m → ¬ ∃ b', PathMatches e.2.2 segs b') (i : ι) (b : Captures) :
    FirstMatch (e :: tbl) m segs i b ↔ FirstMatch tbl m segs i b := by
  constructor
  · rintro ⟨pre, t, post, htbl, hm, hpre⟩
    cases pre with
    | nil =>
      simp only [List.nil_append, List.cons.injEq] at htbl
      obtain ⟨rfl, rfl⟩ := htbl
      exact absurd ⟨b, hm⟩ (hno rfl)
    | cons x pre' =>
      simp only [List.cons_append, List.cons.injEq] at htbl
      obtain ⟨rfl, rfl⟩ := htbl
      exact ⟨pre', t, post, rfl, hm, fun e' he' => hpre e' (List.mem_cons_of_mem _ he')⟩
  · rintro ⟨pre, t, post, htbl, hm, hpre⟩
    refine ⟨e :: pre, t, post, by rw [htbl]; rfl, hm, ?_⟩
    intro e' he'
    rcases List.mem_cons.1 he' with rfl | he'
    · exact hno
    · exact hpre e' he'

theorem firstMatch_wellEscaped {ι : Type} {tbl : Table ι} (hwf : ∀ e ∈ tbl, WF e.2.2) {m : Bytes}
    {segs : List Bytes} {i : ι} {b : Captures} (h : FirstMatch tbl m segs i b) : ∀ c ∈ segs, WellEscaped c := by
  obtain ⟨pre, t, post, htbl, hm, _⟩ := h
  exact pathMatches_wellEscaped (hwf (i, m, t) (by rw [htbl]; simp)) hm

/-- `iterate` over a well-formed table finds exactly the first matching entry of the request's HTTP method -/
theorem iterTbl_found_iff {ι : Type} (tbl : Table ι) (hwf : ∀ e ∈ tbl, WF e.2.2) (m : Bytes)
    {segs : List Bytes} {last : Bytes} (hlast : segs.getLast? = some last) (i : ι) (b : Captures) :
    iterTbl tbl m segs last = .found i b ↔ FirstMatch tbl m segs i b := by
  induction tbl with
  | nil =>
    rw [iterTbl_nil]
    constructor
    · intro h; cases h
    · rintro ⟨pre, t, post, htbl, _⟩
      cases pre <;> simp at htbl
  | cons e tbl ih =>
    have hwf' : ∀ e' ∈ tbl, WF e'.2.2 := fun e' he' => hwf e' (List.mem_cons_of_mem _ he')
    have hwe := hwf e (by simp)
    by_cases hm : e.2.1 = m
    · rw [iterTbl_cons_eq e tbl segs last hm]
      cases hs : stepRoute segs last (mkR e) with
      | ok params =>
        simp only
        have hpm := (stepRoute_iff e hwe.oneDeep hlast params).1 hs
        constructor
        · intro h
          cases h
          exact ⟨[], e.2.2, tbl, by rw [← hm]; rfl, hpm, by simp⟩
        · rintro ⟨pre, t, post, htbl, hmt, hpre⟩
          cases pre with
          | nil =>
            simp only [List.nil_append, List.cons.injEq] at htbl
            obtain ⟨rfl, rfl⟩ := htbl
            have := (stepRoute_iff (i, m, t) hwe.oneDeep hlast b).2 hmt
            rw [hs] at this
            cases this; rfl
          | cons x pre' =>
            simp only [List.cons_append, List.cons.injEq] at htbl
            obtain ⟨rfl, rfl⟩ := htbl
            exact absurd ⟨params, hpm⟩ (hpre e (by simp) hm)
      | malformed =>
        simp only
        constructor
        · intro h; cases h
        · intro h
          obtain ⟨c, hc, hw⟩ := stepRoute_malformed e hlast hs
          exact absurd (firstMatch_wellEscaped hwf h c hc) hw
      | notMatch =>
        simp only
        rw [ih hwf']
        exact (firstMatch_cons_skip (fun _ ⟨b', hb'⟩ => by
          have := (stepRoute_iff e hwe.oneDeep hlast b').2 hb'
          rw [hs] at this; cases this) i b).symm
      | fault => exact absurd hs (stepRoute_ne_fault e segs last)
    · rw [iterTbl_cons_ne e tbl segs last hm, ih hwf']
      exact (firstMatch_cons_skip (fun h => absurd h hm) i b).symm

/-- `InvalidArgument` from the iteration means some raw segment has a malformed escape -/
theorem iterTbl_invalid {ι : Type} (tbl : Table ι) (m : Bytes) {segs : List Bytes} {last : Bytes}
    (hlast : segs.getLast? = some last) (h : iterTbl tbl m segs last = .error .invalidArgument) :
    ∃ c ∈ segs, ¬ WellEscaped c := by
  induction tbl with
  | nil => rw [iterTbl_nil] at h; cases h
  | cons e tbl ih =>
    by_cases hm : e.2.1 = m
    · rw [iterTbl_cons_eq e tbl segs last hm] at h
      cases hs : stepRoute segs last (mkR e) with
      | ok params => rw [hs] at h; cases h
      | malformed => exact stepRoute_malformed e hlast hs
      | notMatch => rw [hs] at h; exact ih h
      | fault => rw [hs] at h; exact ih h
    · rw [iterTbl_cons_ne e tbl segs last hm] at h
      exact ih h

end GB.C03
