import GB.Base.LTS
/-
  LTS model of `grpcadapter.ProxyForwarder.Forward` (grpcadapter/forwarder.go), shared by C01, C02
  (and the C18(a) single-owner / C12 enforcement corollaries).

  Three goroutines: the main goroutine of `Forward`, the incoming→outgoing pump
  (`forwardIncomingToOutgoing`, only for client-streaming methods) and the outgoing→incoming pump
  (`forwardOutgoingToIncoming` / `forwardUnaryResponse`), the two 1-buffered channels
  `i2oErrCh` / `o2iErrCh`, the forwarding context and the outgoing stream.

  Labels are the observable interface events: a call into and the return from every method of
  `ServerStream` (Incoming), `ClientConn.Stream` and `ClientStream` (outgoing), cancellation of the
  context from outside, the return of `Forward`; plus four internal labels (the three `select` cases
  of the main loop and the deferred `cancel()`).  `Header/Trailer/SetHeader/SetTrailer/CloseSend/Close`
  are modelled as atomic (non-blocking) calls.  The peers are unconstrained: every pending call may
  return any result at any time, so a statement over all runs quantifies over all client and target
  behaviours and all interleavings.

  `M` = message values, `E` = error values handed to Forward by its peers; both abstract: the model
  can only move them around (parametricity = "nothing altered").

  Atomicity abstractions (no observable event in between, so no observable trace is lost):
  goroutine spawn is merged into the step that precedes it; "the pump function returns → the result is
  sent into the 1-buffered channel → wg.Done()" is merged into the pump's last step.
  The state also carries ghost history (message sequences, flags) that no step ever reads.
-/
namespace GB.Fwd

/-- RPC kind and whether each adapter's blocked Recv/Send observes the context. -/
structure Params where
  cs : Bool        -- Method.ClientStreaming
  ss : Bool        -- Method.ServerStreaming
  incAware : Bool  -- Incoming.Recv/Send return once ctx is done
  outAware : Bool  -- Outgoing.Stream / ClientStream.Recv/Send return once ctx is done
  deriving DecidableEq, Repr

inductive Why | canceled | deadline
  deriving DecidableEq, Repr

/-- Result of a `Recv` (Incoming.Recv or outgoing.Recv). `eof` = any error with `errors.Is(err, io.EOF)`. -/
inductive RecvRes (M E : Type) | msg (m : M) | eof | err (e : E)
  deriving DecidableEq, Repr
/-- Result of outgoing.Send. -/
inductive SendRes (E : Type) | ok | eof | err (e : E)
  deriving DecidableEq, Repr
/-- Result of Incoming.Send and of Outgoing.Stream. -/
inductive OkRes (E : Type) | ok | err (e : E)
  deriving DecidableEq, Repr

/-- Errors `Forward` can return (`none` = nil). -/
inductive Err (E : Type)
  | peer (e : E)       -- an error value a peer call returned, passed through unchanged
  | ctx (w : Why)      -- rpcutil.ContextError(ctx.Err()) produced by the main select
  | clientEOF          -- status Unavailable "unexpected EOF from client for unary request"
  | serverEOF          -- status Unavailable "unexpected EOF from server for unary response"
  deriving DecidableEq, Repr

/-- What the i2o pump leaves in `i2oErrCh`: EOF (from incoming.Recv or outgoing.Send) or an error. -/
inductive IRes (E : Type) | eof | err (e : E)
  deriving DecidableEq, Repr

inductive Label (M E : Type)
  | incRecvCall | incRecvRet (r : RecvRes M E)
  | incSendCall (m : M) | incSendRet (r : OkRes E)
  | incSetHeader | incSetTrailer
  | outStreamCall | outStreamRet (r : OkRes E)
  | outSendCall (m : M) | outSendRet (r : SendRes E)
  | outRecvCall | outRecvRet (r : RecvRes M E)
  | outHeader | outTrailer | outCloseSend | outClose
  | ctxDone (w : Why)              -- parent context cancelled / deadline fired (environment)
  | ret (e : Option (Err E))       -- Forward returns
  | tauSelCtx | tauSelI2O | tauSelO2I   -- the three cases of the main select
  | tauCancel                            -- deferred cancel()
  deriving DecidableEq, Repr

/-- Main goroutine. -/
inductive MPc (M E : Type)
  | start
  | uRecvPending                 -- forwardUnaryRequest: Incoming.Recv pending
  | streamCall (m : M)           -- forwardUnaryRequest: about to call Outgoing.Stream, m = the request
  | streamPending (um : Option M) -- Outgoing.Stream pending (um = the unary request, if any)
  | uSendCall (m : M) | uSendPending
  | uCloseErr (e : E)            -- unary Send failed: outgoing.Close() then return e
  | uCloseSend                   -- about to call outgoing.CloseSend(), then spawn o2i
  | loop
  | loopCloseSend                -- i2o reported EOF: about to call outgoing.CloseSend()
  | deferClose (e : Option (Err E))   -- deferred outgoing.Close()
  | deferCancel (e : Option (Err E))  -- deferred cancel()
  | deferWait (e : Option (Err E))    -- deferred wg.Wait()
  | done (e : Option (Err E))
  deriving DecidableEq, Repr

/-- incoming→outgoing pump. -/
inductive IPc (M : Type)
  | absent | recvCall | recvPending | sendCall (m : M) | sendPending | exited
  deriving DecidableEq, Repr

/-- What the o2i pump does after the header/trailer bookkeeping. -/
inductive After (M E : Type)
  | send (m : M) (last : Bool)         -- Incoming.Send m; `last` = unary response (deliver nil afterwards)
  | finish (e : Option (Err E))        -- deliver e (what Forward will return) and exit
  deriving DecidableEq, Repr

/-- outgoing→incoming pump. -/
inductive OPc (M E : Type)
  | absent
  | recvCall (first : Bool) | recvPending (first : Bool)
  | recv2Call (m : M) | recv2Pending (m : M)            -- forwardUnaryResponse: second Recv
  | header (trl : Bool) (k : After M E)                  -- about to call outgoing.Header()
  | setHeader (trl : Bool) (k : After M E)               -- about to call Incoming.SetHeader
  | trailer (k : After M E) | setTrailer (k : After M E)
  | sendCall (m : M) (last : Bool) | sendPending (last : Bool)
  | exited
  deriving DecidableEq, Repr

inductive OutSt | none | opened | closed
  deriving DecidableEq, Repr

structure State (M E : Type) where
  main : MPc M E
  i2o : IPc M
  o2i : OPc M E
  i2oCh : Option (IRes E)
  o2iCh : Option (Option (Err E))
  ctx : Option Why
  out : OutSt
  -- ghost history (never read by `step`)
  gIncRecv : List M      -- messages returned by Incoming.Recv, in order
  gOutSent : List M      -- messages handed to outgoing.Send, in call order
  gOutRecv : List M      -- messages returned by outgoing.Recv
  gIncSent : List M      -- messages handed to Incoming.Send
  gDropped : List M      -- responses of a unary-response method that are not forwarded: the second message of a
                         -- misbehaving target, or the message that is superseded by a non-OK status
  gLost : List M         -- the unary request that is abandoned because Outgoing.Stream failed
  gCloseSend : Bool      -- outgoing.CloseSend() was called
  gHalf : Bool           -- the i2o pump saw EOF (client half-close / target stopped reading)
  gFinals : List (Option E)   -- terminal results of outgoing.Recv, in order: none = EOF, some e = status e
  gFault : Bool          -- an event outside "fault-free" happened (see `faultLabel`)
  gErrs : List E         -- every error value a stream operation has returned so far (see `peerErr?`)
  gCtxs : List Why       -- external cancellations / deadline expiries so far (`ctxDone`), in order
  gClientEOF : Bool      -- Incoming.Recv has returned EOF
  deriving DecidableEq, Repr

def init (M E : Type) : State M E :=
  { main := .start, i2o := .absent, o2i := .absent, i2oCh := none, o2iCh := none, ctx := none, out := .none,
    gIncRecv := [], gOutSent := [], gOutRecv := [], gIncSent := [], gDropped := [], gLost := [],
    gCloseSend := false, gHalf := false, gFinals := [], gFault := false,
    gErrs := [], gCtxs := [], gClientEOF := false }

variable {M E : Type}

/-- o2i pump enters the continuation `k` (after SetHeader/SetTrailer). -/
def enterAfter (s : State M E) : After M E → State M E
  | .send m last => { s with o2i := .sendCall m last }
  | .finish e => { s with o2i := .exited, o2iCh := some e }

/-- o2i pump: what follows a Recv result. `hdr` = the header has to be forwarded first. -/
def afterRecv (s : State M E) (hdr trl : Bool) (k : After M E) : State M E :=
  if hdr then { s with o2i := .header trl k }
  else if trl then { s with o2i := .trailer k }
  else enterAfter s k

/-- main begins to return `e`: deferred outgoing.Close() only if it was registered (`closeDeferred`). -/
def beginReturn (s : State M E) (closeDeferred : Bool) (e : Option (Err E)) : State M E :=
  { s with main := if closeDeferred then .deferClose e else .deferCancel e }

/-- Events that take a run out of the "fault-free" class of C01: cancellation, and every error other than
    the target's own final status (which arrives as the result of outgoing.Recv). -/
def faultLabel : Label M E → Bool
  | .incRecvRet (.err _) => true
  | .incSendRet (.err _) => true
  | .outStreamRet (.err _) => true
  | .outSendRet (.err _) => true
  | .ctxDone _ => true
  | _ => false

/-- the error value a stream operation returned, if the label is such a return -/
def peerErr? : Label M E → Option E
  | .incRecvRet (.err e) => some e
  | .incSendRet (.err e) => some e
  | .outStreamRet (.err e) => some e
  | .outSendRet (.err e) => some e
  | .outRecvRet (.err e) => some e
  | _ => none

def ctxWhy? : Label M E → Option Why
  | .ctxDone w => some w
  | _ => none

def isClientEOF : Label M E → Bool
  | .incRecvRet .eof => true
  | _ => false

def IPc.gone : IPc M → Bool
  | .absent => true | .exited => true
  | .recvCall => false | .recvPending => false | .sendCall _ => false | .sendPending => false
def OPc.gone : OPc M E → Bool
  | .absent => true | .exited => true
  | .recvCall _ => false | .recvPending _ => false | .recv2Call _ => false | .recv2Pending _ => false
  | .header _ _ => false | .setHeader _ _ => false | .trailer _ => false | .setTrailer _ => false
  | .sendCall _ _ => false | .sendPending _ => false

/-- `wg.Wait()` can return: every pump that was started has exited. -/
def pumpsGone (s : State M E) : Bool := s.i2o.gone && s.o2i.gone

/-- One step of the functional part (no ghost fault flag). -/
def stepCore [DecidableEq M] [DecidableEq E] (p : Params) (s : State M E) : Label M E → Option (State M E)
  -- ───────── Incoming.Recv: forwardUnaryRequest (main) or the i2o pump
  | .incRecvCall =>
    if s.main = .start ∧ p.cs = false then some { s with main := .uRecvPending }
    else if s.i2o = .recvCall then some { s with i2o := .recvPending }
    else none
  | .incRecvRet r =>
    if s.main = .uRecvPending then
      match r with
      | .msg m => some { s with main := .streamCall m, gIncRecv := s.gIncRecv ++ [m] }
      | .eof => some (beginReturn s false (some .clientEOF))
      | .err e => some (beginReturn s false (some (.peer e)))
    else if s.i2o = .recvPending then
      match r with
      | .msg m => some { s with i2o := .sendCall m, gIncRecv := s.gIncRecv ++ [m] }
      | .eof => some { s with i2o := .exited, i2oCh := some .eof, gHalf := true }
      | .err e => some { s with i2o := .exited, i2oCh := some (.err e) }
    else none
  -- ───────── Outgoing.Stream
  | .outStreamCall =>
    match s.main with
    | .start => if p.cs then some { s with main := .streamPending none } else none
    | .streamCall m => some { s with main := .streamPending (some m) }
    | _ => none
  | .outStreamRet r =>
    match s.main with
    | .streamPending um =>
      match r with
      | .err e => some (beginReturn { s with gLost := um.toList } false (some (.peer e)))
      | .ok =>
        match um with
        | none => -- client-streaming: spawn both pumps, enter the loop
          some { s with main := .loop, out := .opened, i2o := .recvCall, o2i := .recvCall true }
        | some m => some { s with main := .uSendCall m, out := .opened }
    | _ => none
  -- ───────── outgoing.Send: forwardUnaryRequest (main) or the i2o pump
  | .outSendCall m =>
    if s.main = .uSendCall m then some { s with main := .uSendPending, gOutSent := s.gOutSent ++ [m] }
    else if s.i2o = .sendCall m then some { s with i2o := .sendPending, gOutSent := s.gOutSent ++ [m] }
    else none
  | .outSendRet r =>
    if s.main = .uSendPending then
      match r with
      | .ok => some { s with main := .uCloseSend }
      | .eof => some { s with main := .uCloseSend }
      | .err e => some { s with main := .uCloseErr e }
    else if s.i2o = .sendPending then
      match r with
      | .ok => some { s with i2o := .recvCall }
      | .eof => some { s with i2o := .exited, i2oCh := some .eof, gHalf := true }
      | .err e => some { s with i2o := .exited, i2oCh := some (.err e) }
    else none
  -- ───────── outgoing.CloseSend / Close (main only)
  | .outCloseSend =>
    match s.main with
    | .uCloseSend => some { s with main := .loop, o2i := .recvCall true, gCloseSend := true }
    | .loopCloseSend => some { s with main := .loop, gCloseSend := true }
    | _ => none
  | .outClose =>
    match s.main with
    | .uCloseErr e => some { s with main := .deferCancel (some (.peer e)), out := .closed }
    | .deferClose e => some { s with main := .deferCancel e, out := .closed }
    | _ => none
  -- ───────── outgoing.Recv (o2i pump)
  | .outRecvCall =>
    match s.o2i with
    | .recvCall f => some { s with o2i := .recvPending f }
    | .recv2Call m => some { s with o2i := .recv2Pending m }
    | _ => none
  | .outRecvRet r =>
    match s.o2i with
    | .recvPending first =>
      if p.ss then
        match r with
        | .msg m => some (afterRecv { s with gOutRecv := s.gOutRecv ++ [m] } first false (.send m false))
        | .eof => some (afterRecv { s with gFinals := s.gFinals ++ [none] } first true (.finish none))
        | .err e => some (afterRecv { s with gFinals := s.gFinals ++ [some e] } first true (.finish (some (.peer e))))
      else
        match r with
        | .msg m => some { s with o2i := .recv2Call m, gOutRecv := s.gOutRecv ++ [m] }
        | .eof => some { s with o2i := .header true (.finish (some .serverEOF)), gFinals := s.gFinals ++ [none] }
        | .err e => some { s with o2i := .header true (.finish (some (.peer e))), gFinals := s.gFinals ++ [some e] }
    | .recv2Pending m =>
      match r with
      | .msg m2 => some { s with o2i := .header false (.send m true), gOutRecv := s.gOutRecv ++ [m2],
                                 gDropped := s.gDropped ++ [m2] }
      | .eof => some { s with o2i := .header true (.send m true), gFinals := s.gFinals ++ [none] }
      | .err e => some { s with o2i := .header true (.finish (some (.peer e))), gFinals := s.gFinals ++ [some e],
                                gDropped := s.gDropped ++ [m] }
    | _ => none
  | .outHeader =>
    match s.o2i with
    | .header trl k => some { s with o2i := .setHeader trl k }
    | _ => none
  | .incSetHeader =>
    match s.o2i with
    | .setHeader trl k => some (afterRecv s false trl k)
    | _ => none
  | .outTrailer =>
    match s.o2i with
    | .trailer k => some { s with o2i := .setTrailer k }
    | _ => none
  | .incSetTrailer =>
    match s.o2i with
    | .setTrailer k => some (enterAfter s k)
    | _ => none
  -- ───────── Incoming.Send (o2i pump)
  | .incSendCall m =>
    match s.o2i with
    | .sendCall m' last => if m = m' then some { s with o2i := .sendPending last, gIncSent := s.gIncSent ++ [m] } else none
    | _ => none
  | .incSendRet r =>
    match s.o2i with
    | .sendPending last =>
      match r with
      | .ok => if last then some { s with o2i := .exited, o2iCh := some none }
               else some { s with o2i := .recvCall false }
      | .err e => some { s with o2i := .exited, o2iCh := some (some (.peer e)) }
    | _ => none
  -- ───────── context
  | .ctxDone w => some { s with ctx := match s.ctx with | none => some w | some w' => some w' }
  -- ───────── main select loop
  | .tauSelCtx =>
    match s.main, s.ctx with
    | .loop, some w => some (beginReturn s true (some (.ctx w)))
    | _, _ => none
  | .tauSelI2O =>
    match s.main, s.i2oCh with
    | .loop, some .eof => some { s with main := .loopCloseSend, i2oCh := none }
    | .loop, some (.err e) => some (beginReturn { s with i2oCh := none } true (some (.peer e)))
    | _, _ => none
  | .tauSelO2I =>
    match s.main, s.o2iCh with
    | .loop, some e => some (beginReturn { s with o2iCh := none } true e)
    | _, _ => none
  -- ───────── deferred cancel(), wg.Wait(), return
  | .tauCancel =>
    match s.main with
    | .deferCancel e => some { s with main := .deferWait e,
                                      ctx := match s.ctx with | none => some .canceled | some w => some w }
    | _ => none
  | .ret e =>
    match s.main with
    | .deferWait e' => if e = e' ∧ pumpsGone s = true then some { s with main := .done e } else none
    | _ => none

/-- The LTS step: `stepCore` plus the ghost fields that depend on the label only. -/
def step [DecidableEq M] [DecidableEq E] (p : Params) (s : State M E) (l : Label M E) : Option (State M E) :=
  match stepCore p s l with
  | some s' => some { s' with gFault := s'.gFault || faultLabel l,
                              gErrs := s'.gErrs ++ (peerErr? l).toList,
                              gCtxs := s'.gCtxs ++ (ctxWhy? l).toList,
                              gClientEOF := s'.gClientEOF || isClientEOF l }
  | none => none

abbrev Reachable [DecidableEq M] [DecidableEq E] (p : Params) (s : State M E) : Prop :=
  GB.LTS.Reachable (step p) (init M E) s

def isDone (s : State M E) : Bool := match s.main with | .done _ => true | _ => false

def returned (s : State M E) : Option (Option (Err E)) := match s.main with | .done e => some e | _ => none

end GB.Fwd
