import GB.C01.Ghost
import GB.C01.Spec
/-
  The ghost history of a state reached by a run equals the projection of the run's labels: this turns
  the state invariants into statements about traces (what the client and the target observed).
-/
set_option linter.unusedSimpArgs false
set_option linter.unusedVariables false
set_option linter.unusedSectionVars false
namespace GB.Fwd
open GB.LTS
variable {M E : Type} [DecidableEq M] [DecidableEq E]

/-- The ghost fields agree with the projections of the labels consumed so far. -/
structure Tracks (s : State M E) (tr : List (Label M E)) : Prop where
  incRecv : s.gIncRecv = incReceived tr
  outSent : s.gOutSent = outSent tr
  outRecv : s.gOutRecv = outReceived tr
  incSent : s.gIncSent = incSent tr
  finals : s.gFinals = outFinals tr
  fault : s.gFault = hasFault tr
  closeSend : s.gCloseSend = closeSendCalled tr
  errs : s.gErrs = peerErrors tr
  ctxs : s.gCtxs = ctxDones tr
  clientEOF : s.gClientEOF = clientClosed tr

set_option maxHeartbeats 4000000 in
theorem step_ghost (p : Params) (s s' : State M E) (l : Label M E) (hs : step p s l = some s') :
    s'.gIncRecv = s.gIncRecv ++ (incRecvMsg? l).toList ∧
    s'.gOutSent = s.gOutSent ++ (outSendMsg? l).toList ∧
    s'.gOutRecv = s.gOutRecv ++ (outRecvMsg? l).toList ∧
    s'.gIncSent = s.gIncSent ++ (incSendMsg? l).toList ∧
    s'.gFinals = s.gFinals ++ (outFinal? l).toList ∧
    s'.gFault = (s.gFault || faultLabel l) ∧
    s'.gCloseSend = (s.gCloseSend || isCloseSend l) ∧
    s'.gErrs = s.gErrs ++ (peerErr? l).toList ∧
    s'.gCtxs = s.gCtxs ++ (ctxWhy? l).toList ∧
    s'.gClientEOF = (s.gClientEOF || isClientEOF l) := by
  obtain ⟨s1, hc, rfl⟩ := step_core hs
  clear hs
  cases l <;> simp only [stepCore] at hc <;> (repeat' split at hc) <;> (try cases hc) <;>
    simp_all [incRecvMsg?, outSendMsg?, outRecvMsg?, incSendMsg?, outFinal?, isCloseSend]

/-- for client-streaming methods the ghost flag `gHalf` is "an EOF ended the request direction" -/
theorem step_half (p : Params) (s s' : State M E) (l : Label M E) (hS : SInv p s) (hcs : p.cs = true)
    (hs : step p s l = some s') : s'.gHalf = (s.gHalf || isHalf l) := by
  obtain ⟨s1, hc, rfl⟩ := step_core hs
  clear hs
  have h7 := hS.cs_u hcs
  cases l <;> simp only [stepCore] at hc <;> (repeat' split at hc) <;> (try cases hc) <;>
    simp_all [isHalf]

theorem filterMap_snoc {α β : Type} (f : α → Option β) (xs : List α) (x : α) :
    (xs ++ [x]).filterMap f = xs.filterMap f ++ (f x).toList := by
  rw [List.filterMap_append]
  cases h : f x <;> simp [List.filterMap, h]

theorem tracks_step (p : Params) (s s' : State M E) (tr : List (Label M E)) (l : Label M E)
    (h : Tracks s tr) (hs : step p s l = some s') : Tracks s' (tr ++ [l]) := by
  obtain ⟨h1, h2, h3, h4, h5, h6, h7, h8, h9, h10⟩ := step_ghost p s s' l hs
  obtain ⟨t1, t2, t3, t4, t5, t6, t7, t8, t9, t10⟩ := h
  constructor
  · rw [h1, t1]; exact (filterMap_snoc _ _ _).symm
  · rw [h2, t2]; exact (filterMap_snoc _ _ _).symm
  · rw [h3, t3]; exact (filterMap_snoc _ _ _).symm
  · rw [h4, t4]; exact (filterMap_snoc _ _ _).symm
  · rw [h5, t5]; exact (filterMap_snoc _ _ _).symm
  · simp [hasFault, h6, t6]
  · simp [closeSendCalled, h7, t7]
  · rw [h8, t8]; exact (filterMap_snoc _ _ _).symm
  · rw [h9, t9]; exact (filterMap_snoc _ _ _).symm
  · simp [clientClosed, h10, t10]

/-- runs, as a relation that remembers the trace (left-to-right) -/
inductive Run (p : Params) : List (Label M E) → State M E → Prop
  | init : Run p [] (init M E)
  | step {tr s l s'} : Run p tr s → step p s l = some s' → Run p (tr ++ [l]) s'

theorem Run.reachable {p : Params} {tr : List (Label M E)} {s : State M E} (h : Run p tr s) : Reachable p s := by
  induction h with
  | init => exact Reachable.init
  | step _ hs ih => exact Reachable.step ih hs

theorem Run.tracks {p : Params} {tr : List (Label M E)} {s : State M E} (h : Run p tr s) : Tracks s tr := by
  induction h with
  | init => constructor <;> rfl
  | step _ hs ih => exact tracks_step p _ _ _ _ ih hs

theorem Run.sinv {p : Params} {tr : List (Label M E)} {s : State M E} (h : Run p tr s) : SInv p s :=
  sinv_reach p s h.reachable

theorem Run.ginv {p : Params} {tr : List (Label M E)} {s : State M E} (h : Run p tr s) : GInv p s :=
  ginv_reach p s h.reachable

theorem Run.half {p : Params} {tr : List (Label M E)} {s : State M E} (h : Run p tr s) (hcs : p.cs = true) :
    s.gHalf = halfClosed tr := by
  induction h with
  | init => rfl
  | @step tr s l s' hr hs ih => rw [step_half p s s' l hr.sinv hcs hs, ih]; simp [halfClosed]

/-- `GB.LTS.run` (the executable replay used by the driver) produces a `Run`. -/
theorem run_Run (p : Params) (tr : List (Label M E)) (s : State M E)
    (h : GB.LTS.run (step p) (init M E) tr = some s) : Run p tr s := by
  suffices H : ∀ (tr2 tr1 : List (Label M E)) (s1 : State M E), Run p tr1 s1 →
      GB.LTS.run (step p) s1 tr2 = some s → Run p (tr1 ++ tr2) s by
    simpa using H tr [] (init M E) Run.init h
  intro tr2
  induction tr2 with
  | nil => intro tr1 s1 h1 h2; simp [GB.LTS.run] at h2; subst h2; simpa using h1
  | cons l t ih =>
    intro tr1 s1 h1 h2
    simp only [GB.LTS.run] at h2
    cases hs : step p s1 l with
    | none => simp [hs] at h2
    | some s2 =>
      rw [hs] at h2
      have := ih (tr1 ++ [l]) s2 (Run.step h1 hs) h2
      simpa using this

end GB.Fwd
