import GB.Base.Proto
import GB.C01.Spec
/-
  Driver of the areas c01 / c02.

  `fwd …  => <event log>`  (L1): the log of one real execution of ProxyForwarder.Forward is
    (1) judged against the trace-level specification of C01/C02 (independently of the model) → VIOL,
    (2) replayed through the LTS `GB.Fwd.step` with a subset construction over the internal labels
        (ACCEPT, or DIFF REJECT@k), and where the harness observed a hang the model must contain a
        stuck state at that point.
  `e2e …  => <observations>` (L2): observed byte sequences / status / timing of a real gRPC call through
    GRPCProxy are compared with what was sent.
-/
namespace GB.C01
open GB GB.Proto GB.Fwd

abbrev Msg := String   -- the hex payload token
abbrev Lbl := Label Msg Nat
abbrev St := State Msg Nat

def parseErrId (s : String) : Option Nat :=
  match s.toList with
  | 'e' :: r => (String.ofList r).toNat?
  | _ => none

def parseRecvRes (s : String) : Option (RecvRes Msg Nat) :=
  if s = "E" then some .eof
  else if s.startsWith "m:" then some (.msg (s.drop 2).toString)
  else (parseErrId s).map .err

def parseSendRes (s : String) : Option (SendRes Nat) :=
  if s = "k" then some .ok else if s = "E" then some .eof else (parseErrId s).map .err

def parseOkRes (s : String) : Option (OkRes Nat) :=
  if s = "k" then some .ok else (parseErrId s).map .err

def parseRet (s : String) : Option (Option (Err Nat)) :=
  if s = "nil" then some none
  else if s = "cc" then some (some (.ctx .canceled))
  else if s = "cd" then some (some (.ctx .deadline))
  else if s = "ue" then some (some .clientEOF)
  else if s = "us" then some (some .serverEOF)
  else if s.startsWith "other" then some (some (.peer 1000000))  -- an error value no peer ever returned
  else match s.toList with
    | 'p' :: r => (String.ofList r).toNat?.map (fun n => some (.peer n))
    | _ => none

/-- one log token → label -/
def parseTok (t : String) : Option Lbl :=
  let (k, v) := match t.splitOn ":" with
    | [] => ("", "")
    | k :: rest => (k, ":".intercalate rest)
  match k with
  | "irc" => some .incRecvCall
  | "irr" => (parseRecvRes v).map .incRecvRet
  | "isc" => some (.incSendCall v)
  | "isr" => (parseOkRes v).map .incSendRet
  | "ish" => some .incSetHeader
  | "ist" => some .incSetTrailer
  | "osc" => some .outStreamCall
  | "osr" => (parseOkRes v).map .outStreamRet
  | "owc" => some (.outSendCall v)
  | "owr" => (parseSendRes v).map .outSendRet
  | "orc" => some .outRecvCall
  | "orr" => (parseRecvRes v).map .outRecvRet
  | "ohd" => some .outHeader
  | "otr" => some .outTrailer
  | "ocs" => some .outCloseSend
  | "ocl" => some .outClose
  | "cx" => if v = "c" then some (.ctxDone .canceled) else if v = "d" then some (.ctxDone .deadline) else none
  | "ret" => (parseRet v).map .ret
  | _ => none

def taus : List Lbl := [.tauSelCtx, .tauSelI2O, .tauSelO2I, .tauCancel]

def addNew (acc : List St) (xs : List St) : List St :=
  xs.foldl (fun a x => if a.contains x then a else a ++ [x]) acc

/-- closure under internal steps (fuel = longest τ chain is 2; 6 is generous) -/
def tauClosure (p : Params) : Nat → List St → List St
  | 0, S => S
  | n + 1, S =>
    let S' := addNew S (S.flatMap (fun s => taus.filterMap (step p s)))
    if S'.length = S.length then S else tauClosure p n S'

def stepSet (p : Params) (S : List St) (l : Lbl) : List St :=
  addNew [] ((tauClosure p 6 S).filterMap (fun s => step p s l))

/-- the model says Forward cannot move on its own in `s` and has not returned -/
def stuck (p : Params) (s : St) : Bool := !isDone s && (forced 0 p s).isNone

structure Obs where
  labels : List Lbl := []         -- events before the return of Forward (inclusive)
  afterRet : Nat := 0             -- events logged after Forward returned
  hang : Bool := false
  noret : Bool := false
  pend : Nat := 0
  gor : Nat := 0
  kept : Bool := true
  dup : Bool := false
  bad : Option String := none

/-- Replays the log; returns the reject position or the final state set. `hangOK` = at every `hang`
    marker the model had a stuck state. -/
def replay (p : Params) : List String → List St → Nat → Bool → Except Nat (List St × Bool)
  | [], S, _, hangOK => .ok (tauClosure p 6 S, hangOK)
  | t :: ts, S, k, hangOK =>
    if t = "hang" then
      replay p ts S (k + 1) (hangOK && (tauClosure p 6 S).any (stuck p))
    else match parseTok t with
      | none => replay p ts S (k + 1) hangOK     -- trailer tokens (pend:, gor:, …)
      | some l =>
        match stepSet p S l with
        | [] => .error k
        | S' => replay p ts S' (k + 1) hangOK

def mpcName : MPc Msg Nat → String
  | .start => "start" | .uRecvPending => "uRecvPending" | .streamCall _ => "streamCall"
  | .streamPending _ => "streamPending" | .uSendCall _ => "uSendCall" | .uSendPending => "uSendPending"
  | .uCloseErr _ => "uCloseErr" | .uCloseSend => "uCloseSend" | .loop => "loop" | .loopCloseSend => "loopCloseSend"
  | .deferClose _ => "deferClose" | .deferCancel _ => "deferCancel" | .deferWait _ => "deferWait" | .done _ => "done"

/-- Program point of Forward's main goroutine (model pc) at which the FIRST external cancellation / deadline of
    the observed run struck: the τ-quiescent states of the model after the events logged before `cx:` (the harness
    cancels only when the real goroutines have settled, so main has taken every internal step it could).
    Only used for the coverage histogram (`b=…@<pc>`): fault injection is enumerated over program points. -/
def ctxPoint (p : Params) : List String → List St → String
  | [], _ => ""
  | t :: ts, S =>
    if t.startsWith "cx:" then
      let q := (tauClosure p 6 S).filter (fun s => taus.all (fun l => (step p s l).isNone))
      "@" ++ "|".intercalate ((q.map (fun s => mpcName s.main)).eraseDups)
    else match parseTok t with
      | none => ctxPoint p ts S
      | some l =>
        match stepSet p S l with
        | [] => ""
        | S' => ctxPoint p ts S'

def flag (kv : String) (k : String) : Option Bool :=
  if kv = k ++ "=1" then some true else if kv = k ++ "=0" then some false else none

def getFlag (fs : List String) (k : String) : Bool :=
  (fs.filterMap (flag · k)).head?.getD false

def collect (toks : List String) : Obs := Id.run do
  let mut o : Obs := {}
  let mut returned := false
  for t in toks do
    if t = "hang" then o := { o with hang := true }
    else if t = "noret" then o := { o with noret := true }
    else if t = "dup" then o := { o with dup := true }
    else if t.startsWith "pend:" then o := { o with pend := ((t.drop 5).toString.toNat?).getD 99 }
    else if t.startsWith "gor:" then o := { o with gor := ((t.drop 4).toString.toNat?).getD 99 }
    else if t.startsWith "kept:" then o := { o with kept := t = "kept:ok" }
    else if t.startsWith "late:" then o := { o with afterRet := o.afterRet + 1 }
    else match parseTok t with
      | none => o := { o with bad := some t }
      | some l =>
        if returned then o := { o with afterRet := o.afterRet + 1 }
        else
          o := { o with labels := o.labels ++ [l] }
          match l with
          | .ret _ => returned := true
          | _ => pure ()
  return o

/-- trace-level specification of C01 on the observed events; `none` = satisfied -/
def specC01 (p : Params) (o : Obs) : Option String :=
  let tr := o.labels
  if !(outSent tr).isPrefixOf (incReceived tr) then some "requests-not-prefix"
  else if !(incSent tr).isPrefixOf (outReceived tr) then some "responses-not-prefix"
  else if !p.cs && (outSent tr).length > 1 then some "unary-request-multi"
  else if !p.ss && (incSent tr).length > 1 then some "unary-response-multi"
  else if !o.kept then some "message-mutated-after-send"
  else if clientClosed tr && outSent tr ≠ incReceived tr then some "request-dropped-before-halfclose"
  -- C01_halfclose_unary applied to the observed trace: a unary-request method is half-closed by Forward itself,
  -- before it starts to read responses (the outgoing stream is a client stream: gRPC never does it on its own)
  else if !p.cs && readsResponses tr && !closeSendCalled tr then some "half-close-not-propagated"
  else match returnedOf tr with
    | none => none
    | some e =>
      if hasFault tr then none
      else if expectedReturn p tr ≠ some e then some "wrong-final-status"
      else if e = none && p.ss && incSent tr ≠ outReceived tr then some "response-dropped"
      else if e = none && !p.ss && incSent tr ≠ (outReceived tr).take 1 then some "response-dropped"
      else if (match e with | some (.peer _) => true | _ => false) && p.ss && incSent tr ≠ outReceived tr then some "response-dropped"
      else none

/-- trace-level specification of C02 on the observed events -/
def specC02 (p : Params) (o : Obs) : Option String :=
  let tr := o.labels
  if o.dup then some "concurrent-call-on-one-stream"
  else if o.hang && p.incAware && p.outAware then some "hang-with-ctx-aware-adapters"
  else if o.noret then some "forward-never-returned"
  else if o.afterRet > 0 then some "events-after-return"
  else if o.pend > 0 then some "call-pending-after-return"
  else if o.gor > 0 then some "goroutine-left-after-return"
  else match returnedOf tr with
    | none => some "no-return-event"
    | some e =>
      if streamOpened tr && !closeCalled tr then some "outgoing-not-closed"
      else if !originOK p tr e then some "returned-error-origin"
      else none

def retBranch : Option (Option (Err Nat)) → String
  | none => "noret"
  | some none => "nil"
  | some (some (.peer _)) => "peer"
  | some (some (.ctx .canceled)) => "canceled"
  | some (some (.ctx .deadline)) => "deadline"
  | some (some .clientEOF) => "clientEOF"
  | some (some .serverEOF) => "serverEOF"

def kindName (p : Params) : String :=
  (if p.cs then "S" else "U") ++ (if p.ss then "S" else "U")

/-- judge one L1 case -/
def judgeFwd (fs : List String) (out : List String) : String :=
  let p : Params := { cs := getFlag fs "cs", ss := getFlag fs "ss", incAware := getFlag fs "ia", outAware := getFlag fs "oa" }
  let o := collect out
  match o.bad with
  | some t => s!"BAD token {t}"
  | none =>
    match specC01 p o with
    | some why => s!"VIOL C01 {why}"
    | none =>
      match specC02 p o with
      | some why => s!"VIOL C02 {why}"
      | none =>
        match replay p out [init Msg Nat] 0 true with
        | .error k => s!"DIFF model=REJECT@{k} token={out.getD k "?"}"
        | .ok (S, hangOK) =>
          if !hangOK then "DIFF model=no-stuck-state-at-hang"
          else if !(S.all isDone) then "DIFF model=not-done-at-end"
          else
            let tr := o.labels
            let nt := if tr.length ≥ 8 then " nt" else ""
            let h := if o.hang then "-hang" else ""
            s!"OK{nt} b={kindName p}-{retBranch (returnedOf tr)}{h}{ctxPoint p out [init Msg Nat]}"

def splitKV (s : String) : String × String :=
  match s.splitOn "=" with
  | [] => ("", "")
  | k :: rest => (k, "=".intercalate rest)

/-- judge one L2 case: `e2e … want.<k>=<v> … => got.<k>=<v> …`: the scenario line states what client and
    target must observe (what was sent, the target's status, promptness, no goroutine left; `*` = any),
    the harness prints what they did observe on the real code; every wanted field must be matched. -/
def judgeE2E (op : String) (fs : List String) (out : List String) : String :=
  let want := (fs.filter (·.startsWith "want.")).map (fun s => splitKV (s.drop 5).toString)
  let got := (out.filter (·.startsWith "got.")).map (fun s => splitKV (s.drop 4).toString)
  if out.any (·.startsWith "HARNESS") || out.any (·.startsWith "PANIC") || got.any (fun (k, _) => k.endsWith "HARNESS") then
    s!"BAD {out}"
  else if want.isEmpty then "BAD e2e-no-expectation"
  else
    -- a case (or one call of a multi-call case) that did not finish within its watchdog
    match got.find? (fun (k, v) => k.endsWith "hang" && v = "1") with
    | some (k, _) => s!"VIOL {op} hang {k}=1"
    | none =>
      let mism := fun (kv : String × String) => kv.2 ≠ "*" && got.lookup kv.1 ≠ some kv.2
      match want.find? mism with
      | some (k, v) =>
        let g := ((got.lookup k).getD "<missing>").take 40
        -- the target must see exactly ONE call per bridged call, with each request once, and ITS status must arrive
        let dupCalls := want.any (fun kv => kv.1.endsWith "tcalls" && mism kv)
        let why :=
          if k.endsWith "tcalls" then "request-duplicated target-saw-one-call"
          else if k.endsWith "treq" && dupCalls then "request-duplicated"
          else if k.endsWith "status" && dupCalls then "status-replaced"
          else if k.endsWith "gor" then "goroutine-left"
          -- the target received the request(s) but never the end of the request stream (so it never answered)
          else if got.any (fun kv => kv.1.endsWith "half" && kv.2 = "0") && want.any (fun kv => kv.1.endsWith "half" && kv.2 = "1")
                  && want.all (fun kv => !kv.1.endsWith "treq" || !mism kv) then "half-close-not-propagated"
          else ""
        s!"VIOL {op} {why} {k} want={v.take 40} got={g}"
      | none =>
        let sc := (fs.find? (fun f => f.startsWith "sc=" || f.startsWith "a=")).getD "sc=?"
        let en := match fs.find? (·.startsWith "en=") with
          | some e => (e.drop 3).toString ++ "-"
          | none => ""
        s!"OK nt b={op}-{en}{(splitKV sc).2}"

def judge : Handler
  | "fwd" :: fs, out => judgeFwd fs out
  | "e2e" :: fs, out => judgeE2E "e2e" fs out
  | "web" :: fs, out => judgeE2E "web" fs out
  | "real" :: fs, out => judgeE2E "real" fs out
  | "multi" :: fs, out => judgeE2E "multi" fs out
  | _, _ => "BAD c01 line"

def handle : Handler := judge

end GB.C01
