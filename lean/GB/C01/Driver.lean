import GB.Base.Proto
namespace GB.C01
open GB GB.Proto

/-- stub: replaced when the C01 slice is built -/
def handle : Handler := fun _ _ => "BAD c01 unimplemented"

end GB.C01
