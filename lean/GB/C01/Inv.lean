import GB.C01.Lemmas
/-
  Inductive invariants of the Forward LTS. Each `*_step` lemma shows preservation by every step, the
  `*_reach` corollaries lift them to all reachable states with `GB.LTS.invariant`.
-/
set_option linter.unusedSimpArgs false
set_option linter.unusedVariables false
namespace GB.Fwd
open GB.LTS
variable {M E : Type}

/-- main is still in the part of Forward that runs before the pumps are started -/
def MPc.pre : MPc M E → Bool
  | .start => true | .uRecvPending => true | .streamCall _ => true | .streamPending _ => true
  | .uSendCall _ => true | .uSendPending => true | .uCloseErr _ => true | .uCloseSend => true
  | .loop => false | .loopCloseSend => false | .deferClose _ => false | .deferCancel _ => false
  | .deferWait _ => false | .done _ => false

attribute [simp] MPc.pre.eq_1 MPc.pre.eq_2 MPc.pre.eq_3 MPc.pre.eq_4 MPc.pre.eq_5 MPc.pre.eq_6 MPc.pre.eq_7 MPc.pre.eq_8 MPc.pre.eq_9 MPc.pre.eq_10 MPc.pre.eq_11 MPc.pre.eq_12 MPc.pre.eq_13 MPc.pre.eq_14

/-- pcs of forwardUnaryRequest -/
def MPc.unary : MPc M E → Bool
  | .uRecvPending => true | .streamCall _ => true | .streamPending um => um.isSome
  | .uSendCall _ => true | .uSendPending => true | .uCloseErr _ => true | .uCloseSend => true
  | .start => false
  | .loop => false | .loopCloseSend => false | .deferClose _ => false | .deferCancel _ => false
  | .deferWait _ => false | .done _ => false

attribute [simp] MPc.unary.eq_1 MPc.unary.eq_2 MPc.unary.eq_3 MPc.unary.eq_4 MPc.unary.eq_5 MPc.unary.eq_6 MPc.unary.eq_7 MPc.unary.eq_8 MPc.unary.eq_9 MPc.unary.eq_10 MPc.unary.eq_11 MPc.unary.eq_12 MPc.unary.eq_13 MPc.unary.eq_14

/-- pcs only reachable for client-streaming methods -/
def MPc.csOnly : MPc M E → Bool
  | .streamPending um => um.isNone | .loopCloseSend => true
  | .start => false | .uRecvPending => false | .streamCall _ => false
  | .uSendCall _ => false | .uSendPending => false | .uCloseErr _ => false | .uCloseSend => false
  | .loop => false | .deferClose _ => false | .deferCancel _ => false
  | .deferWait _ => false | .done _ => false

attribute [simp] MPc.csOnly.eq_1 MPc.csOnly.eq_2 MPc.csOnly.eq_3 MPc.csOnly.eq_4 MPc.csOnly.eq_5 MPc.csOnly.eq_6 MPc.csOnly.eq_7 MPc.csOnly.eq_8 MPc.csOnly.eq_9 MPc.csOnly.eq_10 MPc.csOnly.eq_11 MPc.csOnly.eq_12 MPc.csOnly.eq_13 MPc.csOnly.eq_14

/-- before Outgoing.Stream returned -/
def MPc.preStream : MPc M E → Bool
  | .start => true | .uRecvPending => true | .streamCall _ => true | .streamPending _ => true
  | .uSendCall _ => false | .uSendPending => false | .uCloseErr _ => false | .uCloseSend => false
  | .loop => false | .loopCloseSend => false | .deferClose _ => false | .deferCancel _ => false
  | .deferWait _ => false | .done _ => false

attribute [simp] MPc.preStream.eq_1 MPc.preStream.eq_2 MPc.preStream.eq_3 MPc.preStream.eq_4 MPc.preStream.eq_5 MPc.preStream.eq_6 MPc.preStream.eq_7 MPc.preStream.eq_8 MPc.preStream.eq_9 MPc.preStream.eq_10 MPc.preStream.eq_11 MPc.preStream.eq_12 MPc.preStream.eq_13 MPc.preStream.eq_14

/-- after the deferred outgoing.Close() (or with no stream to close) -/
def MPc.closedPhase : MPc M E → Bool
  | .deferCancel _ => true | .deferWait _ => true | .done _ => true
  | .start => false | .uRecvPending => false | .streamCall _ => false | .streamPending _ => false
  | .uSendCall _ => false | .uSendPending => false | .uCloseErr _ => false | .uCloseSend => false
  | .loop => false | .loopCloseSend => false | .deferClose _ => false

attribute [simp] MPc.closedPhase.eq_1 MPc.closedPhase.eq_2 MPc.closedPhase.eq_3 MPc.closedPhase.eq_4 MPc.closedPhase.eq_5 MPc.closedPhase.eq_6 MPc.closedPhase.eq_7 MPc.closedPhase.eq_8 MPc.closedPhase.eq_9 MPc.closedPhase.eq_10 MPc.closedPhase.eq_11 MPc.closedPhase.eq_12 MPc.closedPhase.eq_13 MPc.closedPhase.eq_14

/-- after the deferred cancel() -/
def MPc.cancelled : MPc M E → Bool
  | .deferWait _ => true | .done _ => true
  | .deferCancel _ => false
  | .start => false | .uRecvPending => false | .streamCall _ => false | .streamPending _ => false
  | .uSendCall _ => false | .uSendPending => false | .uCloseErr _ => false | .uCloseSend => false
  | .loop => false | .loopCloseSend => false | .deferClose _ => false

attribute [simp] MPc.cancelled.eq_1 MPc.cancelled.eq_2 MPc.cancelled.eq_3 MPc.cancelled.eq_4 MPc.cancelled.eq_5 MPc.cancelled.eq_6 MPc.cancelled.eq_7 MPc.cancelled.eq_8 MPc.cancelled.eq_9 MPc.cancelled.eq_10 MPc.cancelled.eq_11 MPc.cancelled.eq_12 MPc.cancelled.eq_13 MPc.cancelled.eq_14

def MPc.isDone : MPc M E → Bool
  | .done _ => true
  | .deferWait _ => false | .deferCancel _ => false
  | .start => false | .uRecvPending => false | .streamCall _ => false | .streamPending _ => false
  | .uSendCall _ => false | .uSendPending => false | .uCloseErr _ => false | .uCloseSend => false
  | .loop => false | .loopCloseSend => false | .deferClose _ => false

attribute [simp] MPc.isDone.eq_1 MPc.isDone.eq_2 MPc.isDone.eq_3 MPc.isDone.eq_4 MPc.isDone.eq_5 MPc.isDone.eq_6 MPc.isDone.eq_7 MPc.isDone.eq_8 MPc.isDone.eq_9 MPc.isDone.eq_10 MPc.isDone.eq_11 MPc.isDone.eq_12 MPc.isDone.eq_13 MPc.isDone.eq_14

/-- the request message main holds between Incoming.Recv and outgoing.Send (unary request) -/
def MPc.carry : MPc M E → List M
  | .streamCall m => [m] | .streamPending (some m) => [m] | .uSendCall m => [m]
  | .streamPending none => []
  | .start => [] | .uRecvPending => [] | .uSendPending => [] | .uCloseErr _ => [] | .uCloseSend => []
  | .loop => [] | .loopCloseSend => [] | .deferClose _ => [] | .deferCancel _ => []
  | .deferWait _ => [] | .done _ => []

attribute [simp] MPc.carry.eq_1 MPc.carry.eq_2 MPc.carry.eq_3 MPc.carry.eq_4 MPc.carry.eq_5 MPc.carry.eq_6 MPc.carry.eq_7 MPc.carry.eq_8 MPc.carry.eq_9 MPc.carry.eq_10 MPc.carry.eq_11 MPc.carry.eq_12 MPc.carry.eq_13 MPc.carry.eq_14 MPc.carry.eq_15

/-- the unary request has been handed to outgoing.Send -/
def MPc.sentPhase : MPc M E → Bool
  | .start => false | .uRecvPending => false | .streamCall _ => false | .streamPending _ => false
  | .uSendCall _ => false
  | .uSendPending => true | .uCloseErr _ => true | .uCloseSend => true
  | .loop => true | .loopCloseSend => true | .deferClose _ => true | .deferCancel _ => true
  | .deferWait _ => true | .done _ => true

attribute [simp] MPc.sentPhase.eq_1 MPc.sentPhase.eq_2 MPc.sentPhase.eq_3 MPc.sentPhase.eq_4 MPc.sentPhase.eq_5 MPc.sentPhase.eq_6 MPc.sentPhase.eq_7 MPc.sentPhase.eq_8 MPc.sentPhase.eq_9 MPc.sentPhase.eq_10 MPc.sentPhase.eq_11 MPc.sentPhase.eq_12 MPc.sentPhase.eq_13 MPc.sentPhase.eq_14

def IPc.carry : IPc M → List M
  | .sendCall m => [m]
  | .absent => [] | .recvCall => [] | .recvPending => [] | .sendPending => [] | .exited => []

attribute [simp] IPc.carry.eq_1 IPc.carry.eq_2 IPc.carry.eq_3 IPc.carry.eq_4 IPc.carry.eq_5 IPc.carry.eq_6

def After.carry : After M E → List M
  | .send m _ => [m] | .finish _ => []

attribute [simp] After.carry.eq_1 After.carry.eq_2

/-- the response message the o2i pump holds between outgoing.Recv and Incoming.Send -/
def OPc.carry : OPc M E → List M
  | .recv2Call m => [m] | .recv2Pending m => [m]
  | .header _ k => k.carry | .setHeader _ k => k.carry | .trailer k => k.carry | .setTrailer k => k.carry
  | .sendCall m _ => [m]
  | .absent => [] | .recvCall _ => [] | .recvPending _ => [] | .sendPending _ => [] | .exited => []

attribute [simp] OPc.carry.eq_1 OPc.carry.eq_2 OPc.carry.eq_3 OPc.carry.eq_4 OPc.carry.eq_5 OPc.carry.eq_6 OPc.carry.eq_7 OPc.carry.eq_8 OPc.carry.eq_9 OPc.carry.eq_10 OPc.carry.eq_11 OPc.carry.eq_12

def After.okFor (ss : Bool) : After M E → Bool
  | .send _ last => last == !ss | .finish _ => true

attribute [simp] After.okFor.eq_1 After.okFor.eq_2

/-- the pc is consistent with the RPC kind (`last` flags, second Recv only for unary responses) -/
def OPc.okFor (ss : Bool) : OPc M E → Bool
  | .recv2Call _ => !ss | .recv2Pending _ => !ss
  | .header _ k => k.okFor ss | .setHeader _ k => k.okFor ss | .trailer k => k.okFor ss | .setTrailer k => k.okFor ss
  | .sendCall _ last => last == !ss | .sendPending last => last == !ss
  | .absent => true | .recvCall _ => true | .recvPending _ => true | .exited => true

attribute [simp] OPc.okFor.eq_1 OPc.okFor.eq_2 OPc.okFor.eq_3 OPc.okFor.eq_4 OPc.okFor.eq_5 OPc.okFor.eq_6 OPc.okFor.eq_7 OPc.okFor.eq_8 OPc.okFor.eq_9 OPc.okFor.eq_10 OPc.okFor.eq_11 OPc.okFor.eq_12

/-- the pump has not received a complete response yet -/
def OPc.early : OPc M E → Bool
  | .absent => true | .recvCall _ => true | .recvPending _ => true | .recv2Call _ => true | .recv2Pending _ => true
  | .header _ _ => false | .setHeader _ _ => false | .trailer _ => false | .setTrailer _ => false
  | .sendCall _ _ => false | .sendPending _ => false | .exited => false

attribute [simp] OPc.early.eq_1 OPc.early.eq_2 OPc.early.eq_3 OPc.early.eq_4 OPc.early.eq_5 OPc.early.eq_6 OPc.early.eq_7 OPc.early.eq_8 OPc.early.eq_9 OPc.early.eq_10 OPc.early.eq_11 OPc.early.eq_12

/-- Incoming.Send has been called -/
def OPc.sentPhase : OPc M E → Bool
  | .sendPending _ => true | .exited => true
  | .absent => false | .recvCall _ => false | .recvPending _ => false | .recv2Call _ => false | .recv2Pending _ => false
  | .header _ _ => false | .setHeader _ _ => false | .trailer _ => false | .setTrailer _ => false
  | .sendCall _ _ => false

attribute [simp] OPc.sentPhase.eq_1 OPc.sentPhase.eq_2 OPc.sentPhase.eq_3 OPc.sentPhase.eq_4 OPc.sentPhase.eq_5 OPc.sentPhase.eq_6 OPc.sentPhase.eq_7 OPc.sentPhase.eq_8 OPc.sentPhase.eq_9 OPc.sentPhase.eq_10 OPc.sentPhase.eq_11 OPc.sentPhase.eq_12

@[simp] theorem After.pc_carry (k : After M E) : k.pc.carry = k.carry := by cases k <;> rfl
@[simp] theorem After.pc_okFor (k : After M E) (ss : Bool) : k.pc.okFor ss = k.okFor ss := by cases k <;> rfl
@[simp] theorem After.pc_early (k : After M E) : k.pc.early = false := by cases k <;> rfl
@[simp] theorem After.pc_ne_absent (k : After M E) : k.pc ≠ OPc.absent := by cases k <;> simp [After.pc]
def After.isFinish : After M E → Bool
  | .finish _ => true | .send _ _ => false

attribute [simp] After.isFinish.eq_1 After.isFinish.eq_2

@[simp] theorem After.pc_gone (k : After M E) : k.pc.gone = k.isFinish := by cases k <;> rfl
@[simp] theorem After.ch_isSome (k : After M E) (old : Option (Option (Err E))) :
    (k.ch old).isSome = (old.isSome || k.isFinish) := by cases k <;> simp
@[simp] theorem After.pc_eq_exited (k : After M E) : (k.pc = OPc.exited) ↔ k.isFinish = true := by cases k <;> simp
@[simp] theorem After.pc_sentPhase (k : After M E) : k.pc.sentPhase = k.isFinish := by cases k <;> rfl

@[simp] theorem MPc.carry_streamPending (um : Option M) : (MPc.streamPending um : MPc M E).carry = um.toList := by
  cases um <;> rfl
theorem MPc.carry_of_not_pre (m : MPc M E) (h : m.pre = false) : m.carry = [] := by
  cases m <;> simp_all
theorem MPc.sentPhase_of_not_pre (m : MPc M E) (h : m.pre = false) : m.sentPhase = true := by
  cases m <;> simp_all

/-- Structural invariant: who can be where. -/
structure SInv (p : Params) (s : State M E) : Prop where
  pre_i : s.main.pre = true → s.i2o = .absent
  pre_o : s.main.pre = true → s.o2i = .absent
  pre_ic : s.main.pre = true → s.i2oCh = none
  pre_oc : s.main.pre = true → s.o2iCh = none
  ncs_i : p.cs = false → s.i2o = .absent
  ncs_ic : p.cs = false → s.i2oCh = none
  cs_u : p.cs = true → s.main.unary = false
  ncs_m : p.cs = false → s.main.csOnly = false
  lcs : s.main = .loopCloseSend → s.i2o = .exited
  ich : s.i2oCh.isSome = true → s.i2o = .exited
  och : s.o2iCh.isSome = true → s.o2i = .exited
  canc : s.main.cancelled = true → s.ctx.isSome = true
  out_pre : s.main.preStream = true → s.out = .none
  out_closed : s.main.closedPhase = true → s.out ≠ .opened
  done_gone : s.main.isDone = true → pumpsGone s = true
  okFor : s.o2i.okFor p.ss = true

variable [DecidableEq M] [DecidableEq E]

theorem sinv_init (p : Params) : SInv p (init M E) := by
  constructor <;> simp [init, pumpsGone]

set_option maxHeartbeats 4000000 in
theorem sinv_step (p : Params) (s : State M E) (l : Label M E) (s' : State M E) (h : SInv p s)
    (hs : step p s l = some s') : SInv p s' := by
  obtain ⟨s1, hc, rfl⟩ := step_core hs
  clear hs
  obtain ⟨h1, h2, h3, h4, h5, h6, h7, h8, h9, h10, h11, h12, h13, h14, h15, h16⟩ := h
  cases l <;> simp only [stepCore] at hc <;> (repeat' split at hc) <;> (try cases hc) <;>
    (constructor <;> simp_all [pumpsGone]) <;> (try (split <;> simp_all)) <;> (try (split <;> simp_all))

theorem sinv_reach (p : Params) (s : State M E) (h : Reachable p s) : SInv p s :=
  invariant (step p) (init M E) (SInv p) (sinv_init p) (sinv_step p) s h

end GB.Fwd
