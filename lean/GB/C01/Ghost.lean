import GB.C01.Inv
/-
  Ghost-history invariants of the Forward LTS: the message sequences seen at the four interface points
  are related through the message each goroutine currently holds.
-/
set_option linter.unusedSimpArgs false
set_option linter.unusedVariables false
set_option linter.unusedSectionVars false
namespace GB.Fwd
open GB.LTS
variable {M E : Type}

structure GInv (p : Params) (s : State M E) : Prop where
  req : s.gIncRecv = s.gOutSent ++ (s.main.carry ++ s.i2o.carry) ++ s.gLost
  lost_cs : p.cs = true → s.gLost = []
  lost_open : s.main.closedPhase = false → s.gLost = []
  req_u0 : p.cs = false → s.main.sentPhase = false → s.gOutSent = []
  req_u1 : p.cs = false → s.gOutSent.length ≤ 1
  resp : s.gOutRecv = s.gIncSent ++ s.o2i.carry ++ s.gDropped
  drop_ss : p.ss = true → s.gDropped = []
  drop_early : s.o2i.early = true → s.gDropped = []
  resp_u0 : p.ss = false → s.o2i.sentPhase = false → s.gIncSent = []
  resp_u1 : p.ss = false → s.gIncSent.length ≤ 1
  half : s.gHalf = true → s.gCloseSend = true ∨ s.i2oCh = some .eof ∨ s.main = .loopCloseSend

variable [DecidableEq M] [DecidableEq E]

theorem ginv_init (p : Params) : GInv p (init M E) := by
  constructor <;> simp [init]

set_option maxHeartbeats 4000000 in
theorem ginv_step (p : Params) (s : State M E) (l : Label M E) (s' : State M E) (hS : SInv p s) (h : GInv p s)
    (hs : step p s l = some s') : GInv p s' := by
  obtain ⟨s1, hc, rfl⟩ := step_core hs
  clear hs
  obtain ⟨h1, h2, h3, h4, h5, h6, h7, h8, h9, h10, h11, h12, h13, h14, h15, h16⟩ := hS
  obtain ⟨g1, g10, g11, g2, g3, g4, g5, g6, g7, g8, g9⟩ := h
  cases l <;> simp only [stepCore] at hc <;> (repeat' split at hc) <;> (try cases hc) <;>
    (constructor <;> simp_all [MPc.carry_of_not_pre, MPc.sentPhase_of_not_pre]) <;> (try (split <;> simp_all)) <;> (try (split <;> simp_all))

theorem ginv_reach (p : Params) (s : State M E) (h : Reachable p s) : GInv p s := by
  have : SInv p s ∧ GInv p s := by
    refine invariant (step p) (init M E) (fun s => SInv p s ∧ GInv p s) ⟨sinv_init p, ginv_init p⟩ ?_ s h
    intro s l s' ⟨h1, h2⟩ hs
    exact ⟨sinv_step p s l s' h1 hs, ginv_step p s l s' h1 h2 hs⟩
  exact this.2

end GB.Fwd
