import GB.C01.Forward
/-
  Specification vocabulary for C01/C02, stated on *traces* (lists of observable labels) — this is what
  the property text talks about and what the harness can observe on the real code — plus the notions
  used by the C02 theorems (`unilateral`, `terminating`, `forced`, `rank`).
-/
namespace GB.Fwd

variable {M E : Type}

/-! ### projections of a trace (what the peers saw) -/

def incRecvMsg? : Label M E → Option M
  | .incRecvRet (.msg m) => some m
  | _ => none
def outSendMsg? : Label M E → Option M
  | .outSendCall m => some m
  | _ => none
def outRecvMsg? : Label M E → Option M
  | .outRecvRet (.msg m) => some m
  | _ => none
def incSendMsg? : Label M E → Option M
  | .incSendCall m => some m
  | _ => none
/-- a terminal result of outgoing.Recv: `none` = EOF (status OK), `some e` = the status error e -/
def outFinal? : Label M E → Option (Option E)
  | .outRecvRet .eof => some none
  | .outRecvRet (.err e) => some (some e)
  | _ => none

/-- messages the client side handed to Forward (results of Incoming.Recv), in order -/
def incReceived (tr : List (Label M E)) : List M := tr.filterMap incRecvMsg?
/-- messages Forward handed to the target (arguments of outgoing.Send), in call order -/
def outSent (tr : List (Label M E)) : List M := tr.filterMap outSendMsg?
/-- messages the target produced (results of outgoing.Recv) -/
def outReceived (tr : List (Label M E)) : List M := tr.filterMap outRecvMsg?
/-- messages Forward handed to the client (arguments of Incoming.Send) -/
def incSent (tr : List (Label M E)) : List M := tr.filterMap incSendMsg?
/-- terminal results the target produced -/
def outFinals (tr : List (Label M E)) : List (Option E) := tr.filterMap outFinal?

/-- the value Forward returned, if it returned -/
def returnedOf : List (Label M E) → Option (Option (Err E))
  | [] => none
  | .ret e :: _ => some e
  | _ :: t => returnedOf t

/-- terminal result of the target: first non-message result of outgoing.Recv (`some none` = EOF/OK) -/
def targetFinal (tr : List (Label M E)) : Option (Option E) := (outFinals tr).head?

def hasFault (tr : List (Label M E)) : Bool := tr.any faultLabel

/-- the request direction ended with EOF: Incoming.Recv returned EOF (client half-close) or
    outgoing.Send returned EOF (the target ended the stream) -/
def isHalf : Label M E → Bool
  | .incRecvRet .eof => true
  | .outSendRet .eof => true
  | _ => false
def halfClosed (tr : List (Label M E)) : Bool := tr.any isHalf
def isCloseSend : Label M E → Bool
  | .outCloseSend => true
  | _ => false

/-- the client half-closed (Incoming.Recv returned EOF) -/
def clientClosed (tr : List (Label M E)) : Bool := tr.any isClientEOF

def closeSendCalled (tr : List (Label M E)) : Bool := tr.any isCloseSend

def isOutRecvCall : Label M E → Bool
  | .outRecvCall => true
  | _ => false

/-- Forward has started to read responses from the target -/
def readsResponses (tr : List (Label M E)) : Bool := tr.any isOutRecvCall

def closeCalled (tr : List (Label M E)) : Bool :=
  tr.any (fun l => match l with | .outClose => true | _ => false)

def streamOpened (tr : List (Label M E)) : Bool :=
  tr.any (fun l => match l with | .outStreamRet .ok => true | _ => false)

/-- external cancellations / deadline expiries, in order -/
def ctxDones (tr : List (Label M E)) : List Why := tr.filterMap ctxWhy?
/-- first external cancellation -/
def firstCtxDone (tr : List (Label M E)) : Option Why := (ctxDones tr).head?

/-- error values the stream operations returned anywhere in the trace -/
def peerErrors (tr : List (Label M E)) : List E := tr.filterMap peerErr?

/-- What a completed fault-free call must return, as a function of the target's terminal results `fin`,
    the responses it produced `recv` and `ueof` = the client of a unary-request method sent EOF instead of a request (C01 "followed by the target's
    final status"): the target's status if it sent one; nil on EOF — except the two unary protocol
    violations, and the misbehaving unary target whose second response is dropped (EOF simulated). -/
def expect (p : Params) (fin : List (Option E)) (recv : List M) (ueof : Bool) : Option (Option (Err E)) :=
  if p.ss = false ∧ 2 ≤ recv.length then some none
  else match fin.head? with
  | some (some e) => some (some (.peer e))
  | some none => if p.ss = false ∧ recv.isEmpty = true then some (some .serverEOF) else some none
  | none => if ueof = true then some (some .clientEOF) else none

def expectedReturn (p : Params) (tr : List (Label M E)) : Option (Option (Err E)) :=
  expect p (outFinals tr) (outReceived tr) (!p.cs && clientClosed tr)

/-- Where may a returned value come from (C02 "reports the target's status if the target ended it,
    otherwise the error of the side that failed"): nil only after the target's EOF (or the dropped second
    unary response), an error value only if some stream operation returned it, the context error only
    after an external cancellation of that kind came first, the synthesized Unavailable errors only in
    their situations. -/
def origin [DecidableEq E] (p : Params) (fin : List (Option E)) (recv : List M) (errs : List E)
    (cxs : List Why) (ceof : Bool) : Option (Err E) → Bool
  | none => fin.head? == some none || (!p.ss && decide (2 ≤ recv.length))
  | some (.peer e) => errs.contains e
  | some (.ctx w) => cxs.head? == some w
  | some .clientEOF => !p.cs && ceof
  | some .serverEOF => !p.ss && fin.head? == some none && recv.isEmpty

def originOK [DecidableEq E] (p : Params) (tr : List (Label M E)) (e : Option (Err E)) : Bool :=
  origin p (outFinals tr) (outReceived tr) (peerErrors tr) (ctxDones tr) (clientClosed tr) e

/-! ### C02 vocabulary -/

/-- Steps Forward can take without cooperation of client or target: its own calls and internal steps,
    and — once the context is done — the return of a blocked call of a ctx-aware adapter.
    Every other return (and `ctxDone`) is the peer's / the environment's choice. -/
def unilateral (p : Params) (s : State M E) : Label M E → Bool
  | .incRecvRet (.err _) => p.incAware && s.ctx.isSome
  | .incSendRet (.err _) => p.incAware && s.ctx.isSome
  | .outStreamRet (.err _) => p.outAware && s.ctx.isSome
  | .outSendRet (.err _) => p.outAware && s.ctx.isSome
  | .outRecvRet (.err _) => p.outAware && s.ctx.isSome
  | .incRecvRet _ => false
  | .incSendRet _ => false
  | .outStreamRet _ => false
  | .outSendRet _ => false
  | .outRecvRet _ => false
  | .ctxDone _ => false
  | _ => true

def MPc.returning : MPc M E → Bool
  | .uCloseErr _ => true | .deferClose _ => true | .deferCancel _ => true | .deferWait _ => true | .done _ => true
  | .start => false | .uRecvPending => false | .streamCall _ => false | .streamPending _ => false
  | .uSendCall _ => false | .uSendPending => false | .uCloseSend => false | .loop => false | .loopCloseSend => false

def IRes.isErr : IRes E → Bool
  | .err _ => true | .eof => false

/-- Termination of the call has been triggered: ctx cancelled, the o2i pump delivered its result, a
    non-EOF error was delivered by the i2o pump, or main is already on its way out. -/
def chErr : Option (IRes E) → Bool
  | some (.err _) => true
  | some .eof => false
  | none => false

def terminating (s : State M E) : Bool :=
  s.ctx.isSome || s.o2iCh.isSome || chErr s.i2oCh || s.main.returning

def forcedMain (e0 : E) (p : Params) (s : State M E) : Option (Label M E) :=
  let cx := s.ctx.isSome
  match s.main with
  | .start => some (if p.cs then .outStreamCall else .incRecvCall)
  | .uRecvPending => if p.incAware && cx then some (.incRecvRet (.err e0)) else none
  | .streamCall _ => some .outStreamCall
  | .streamPending _ => if p.outAware && cx then some (.outStreamRet (.err e0)) else none
  | .uSendCall m => some (.outSendCall m)
  | .uSendPending => if p.outAware && cx then some (.outSendRet (.err e0)) else none
  | .uCloseErr _ => some .outClose
  | .uCloseSend => some .outCloseSend
  | .loop =>
    if s.o2iCh.isSome then some .tauSelO2I
    else if cx then some .tauSelCtx
    else if s.i2oCh.isSome then some .tauSelI2O
    else none
  | .loopCloseSend => some .outCloseSend
  | .deferClose _ => some .outClose
  | .deferCancel _ => some .tauCancel
  | .deferWait e => if pumpsGone s then some (.ret e) else none
  | .done _ => none

def forcedI (e0 : E) (p : Params) (s : State M E) : Option (Label M E) :=
  let cx := s.ctx.isSome
  match s.i2o with
  | .recvCall => some .incRecvCall
  | .recvPending => if p.incAware && cx then some (.incRecvRet (.err e0)) else none
  | .sendCall m => some (.outSendCall m)
  | .sendPending => if p.outAware && cx then some (.outSendRet (.err e0)) else none
  | _ => none

def forcedO (e0 : E) (p : Params) (s : State M E) : Option (Label M E) :=
  let cx := s.ctx.isSome
  match s.o2i with
  | .recvCall _ => some .outRecvCall
  | .recv2Call _ => some .outRecvCall
  | .recvPending _ => if p.outAware && cx then some (.outRecvRet (.err e0)) else none
  | .recv2Pending _ => if p.outAware && cx then some (.outRecvRet (.err e0)) else none
  | .header _ _ => some .outHeader
  | .setHeader _ _ => some .incSetHeader
  | .trailer _ => some .outTrailer
  | .setTrailer _ => some .incSetTrailer
  | .sendCall m _ => some (.incSendCall m)
  | .sendPending _ => if p.incAware && cx then some (.incSendRet (.err e0)) else none
  | _ => none

/-- A step Forward can take on its own in `s` (main first, then the pumps); `none` = Forward is stuck
    until a peer acts. `e0` is the error a ctx-aware blocked call returns. -/
def forced (e0 : E) (p : Params) (s : State M E) : Option (Label M E) :=
  match forcedMain e0 p s with
  | some l => some l
  | none =>
    match forcedI e0 p s with
    | some l => some l
    | none => forcedO e0 p s

def rankAfter : After M E → Nat
  | .send _ _ => 2
  | .finish _ => 0

def rankO : OPc M E → Nat
  | .absent => 0 | .exited => 0
  | .sendPending _ => 1
  | .sendCall _ _ => 2
  | .setTrailer k => 1 + rankAfter k
  | .trailer k => 2 + rankAfter k
  | .setHeader trl k => 1 + (if trl then 2 + rankAfter k else rankAfter k)
  | .header trl k => 2 + (if trl then 2 + rankAfter k else rankAfter k)
  | .recvPending _ => 5 | .recv2Pending _ => 5
  | .recvCall _ => 6 | .recv2Call _ => 6

def rankI : IPc M → Nat
  | .absent => 0 | .exited => 0
  | .sendPending => 1 | .recvPending => 1
  | .sendCall _ => 2 | .recvCall => 2

def rankM : MPc M E → Nat
  | .done _ => 0
  | .deferWait _ => 1
  | .deferCancel _ => 2
  | .deferClose _ => 3 | .uCloseErr _ => 3
  | .loop => 4
  | .loopCloseSend => 5
  | .uSendPending => 4
  | .uSendCall _ => 5
  | .uRecvPending => 3 | .streamPending _ => 3
  | .streamCall _ => 4
  | .start => 4
  | .uCloseSend => 11

/-- Upper bound on the number of Forward's own steps until it has returned, in a terminating state. -/
def rank (s : State M E) : Nat := rankM s.main + rankI s.i2o + rankO s.o2i

end GB.Fwd
