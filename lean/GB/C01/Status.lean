import GB.C01.Trace
/-
  The value Forward returns. Two invariants over the places a return value can sit in (the continuation
  of the o2i pump, `o2iErrCh`, the returning pcs of main):
  `VInv` — always: the value has a legitimate origin (`origin`);
  `FInv` — as long as no fault happened: the value is exactly `expect` (the target's final status).
-/
set_option linter.unusedSimpArgs false
set_option linter.unusedVariables false
set_option linter.unusedSectionVars false
namespace GB.Fwd
open GB.LTS
variable {M E : Type}

/-- the value the pump will deliver once its header/trailer bookkeeping is done -/
def After.val : After M E → Option (Option (Err E))
  | .finish e => some e
  | .send _ _ => none

attribute [simp] After.val.eq_1 After.val.eq_2

/-- the nil the pump will deliver if its last Incoming.Send succeeds (unary response) -/
def After.okVal : After M E → Option (Option (Err E))
  | .send _ true => some none
  | .send _ false => none
  | .finish _ => none

attribute [simp] After.okVal.eq_1 After.okVal.eq_2 After.okVal.eq_3

def OPc.val : OPc M E → Option (Option (Err E))
  | .header _ k => k.val | .setHeader _ k => k.val | .trailer k => k.val | .setTrailer k => k.val
  | .absent => none | .recvCall _ => none | .recvPending _ => none | .recv2Call _ => none | .recv2Pending _ => none
  | .sendCall _ _ => none | .sendPending _ => none | .exited => none

attribute [simp] OPc.val.eq_1 OPc.val.eq_2 OPc.val.eq_3 OPc.val.eq_4 OPc.val.eq_5 OPc.val.eq_6 OPc.val.eq_7
  OPc.val.eq_8 OPc.val.eq_9 OPc.val.eq_10 OPc.val.eq_11 OPc.val.eq_12

def OPc.okVal : OPc M E → Option (Option (Err E))
  | .header _ k => k.okVal | .setHeader _ k => k.okVal | .trailer k => k.okVal | .setTrailer k => k.okVal
  | .sendCall _ true => some none | .sendCall _ false => none
  | .sendPending true => some none | .sendPending false => none
  | .absent => none | .recvCall _ => none | .recvPending _ => none | .recv2Call _ => none | .recv2Pending _ => none
  | .exited => none

attribute [simp] OPc.okVal.eq_1 OPc.okVal.eq_2 OPc.okVal.eq_3 OPc.okVal.eq_4 OPc.okVal.eq_5 OPc.okVal.eq_6
  OPc.okVal.eq_7 OPc.okVal.eq_8 OPc.okVal.eq_9 OPc.okVal.eq_10 OPc.okVal.eq_11 OPc.okVal.eq_12 OPc.okVal.eq_13
  OPc.okVal.eq_14

/-- the value main is about to return -/
def MPc.val : MPc M E → Option (Option (Err E))
  | .uCloseErr e => some (some (.peer e))
  | .deferClose e => some e | .deferCancel e => some e | .deferWait e => some e | .done e => some e
  | .start => none | .uRecvPending => none | .streamCall _ => none | .streamPending _ => none
  | .uSendCall _ => none | .uSendPending => none | .uCloseSend => none | .loop => none | .loopCloseSend => none

attribute [simp] MPc.val.eq_1 MPc.val.eq_2 MPc.val.eq_3 MPc.val.eq_4 MPc.val.eq_5 MPc.val.eq_6 MPc.val.eq_7
  MPc.val.eq_8 MPc.val.eq_9 MPc.val.eq_10 MPc.val.eq_11 MPc.val.eq_12 MPc.val.eq_13 MPc.val.eq_14

/-- the pump may still call outgoing.Recv -/
def OPc.recving : OPc M E → Bool
  | .recvCall _ => true | .recvPending _ => true | .recv2Call _ => true | .recv2Pending _ => true
  | .absent => false | .header _ _ => false | .setHeader _ _ => false | .trailer _ => false | .setTrailer _ => false
  | .sendCall _ _ => false | .sendPending _ => false | .exited => false

attribute [simp] OPc.recving.eq_1 OPc.recving.eq_2 OPc.recving.eq_3 OPc.recving.eq_4 OPc.recving.eq_5
  OPc.recving.eq_6 OPc.recving.eq_7 OPc.recving.eq_8 OPc.recving.eq_9 OPc.recving.eq_10 OPc.recving.eq_11
  OPc.recving.eq_12

@[simp] theorem After.pc_val (k : After M E) : k.pc.val = none := by cases k <;> rfl
@[simp] theorem After.pc_okVal (k : After M E) : k.pc.okVal = k.okVal := by
  cases k with
  | send m l => cases l <;> rfl
  | finish e => rfl
@[simp] theorem After.ch_eq (k : After M E) (old : Option (Option (Err E))) :
    k.ch old = if k.isFinish = true then k.val else old := by cases k <;> rfl
@[simp] theorem After.pc_recving (k : After M E) : k.pc.recving = false := by cases k <;> rfl

section origin
variable [DecidableEq E]

def originO (p : Params) (fin : List (Option E)) (recv : List M) (errs : List E) (cxs : List Why) (ceof : Bool) :
    Option (Option (Err E)) → Bool
  | none => true
  | some e => origin p fin recv errs cxs ceof e

attribute [simp] originO.eq_1 originO.eq_2

/-- an error sitting in `i2oErrCh` was returned by some stream operation -/
def chOrigin (errs : List E) : Option (IRes E) → Bool
  | some (.err e) => errs.contains e
  | some .eof => true
  | none => true

attribute [simp] chOrigin.eq_1 chOrigin.eq_2 chOrigin.eq_3

theorem origin_mono {p : Params} {f f' : List (Option E)} {r r' : List M} {e e' : List E} {c c' : List Why}
    {b b' : Bool} {v : Option (Err E)}
    (hf : f = [] ∨ f' = f ∨ ∃ t, f' = f ++ t) (hr : r' = r ∨ (f = [] ∧ ∃ t, r' = r ++ t))
    (he : ∃ t, e' = e ++ t) (hc : ∃ t, c' = c ++ t) (hb : b = true → b' = true)
    (h : origin p f r e c b v = true) : origin p f' r' e' c' b' v = true := by
  obtain ⟨te, rfl⟩ := he
  obtain ⟨tc, rfl⟩ := hc
  have hhead : ∀ x, f.head? = some x → f'.head? = some x := by
    intro x hx
    rcases hf with h0 | h1 | ⟨t, h2⟩
    · subst h0; simp at hx
    · subst h1; exact hx
    · subst h2; cases f with
      | nil => simp at hx
      | cons a t' => simpa using hx
  have hrecv2 : 2 ≤ r.length → 2 ≤ r'.length := by
    intro h2
    rcases hr with h0 | ⟨_, t, h1⟩
    · subst h0; exact h2
    · subst h1; simp; omega
  cases v with
  | none =>
    simp only [origin, Bool.or_eq_true, beq_iff_eq, Bool.and_eq_true, Bool.not_eq_eq_eq_not, Bool.not_true,
      decide_eq_true_eq] at h ⊢
    rcases h with h | ⟨h1, h2⟩
    · exact Or.inl (hhead _ h)
    · exact Or.inr ⟨h1, hrecv2 h2⟩
  | some err =>
    cases err with
    | peer x => simp only [origin, List.contains_eq_mem, List.mem_append, decide_eq_true_eq] at h ⊢; exact Or.inl h
    | ctx w =>
      simp only [origin, beq_iff_eq] at h ⊢
      cases c with
      | nil => simp at h
      | cons a t => simpa using h
    | clientEOF =>
      simp only [origin, Bool.and_eq_true] at h ⊢
      exact ⟨h.1, hb h.2⟩
    | serverEOF =>
      simp only [origin, Bool.and_eq_true, beq_iff_eq] at h ⊢
      obtain ⟨⟨h1, h2⟩, h3⟩ := h
      refine ⟨⟨h1, hhead _ h2⟩, ?_⟩
      rcases hr with h0 | ⟨hnil, _⟩
      · subst h0; exact h3
      · subst hnil; simp at h2

theorem originO_mono {p : Params} {f f' : List (Option E)} {r r' : List M} {e e' : List E} {c c' : List Why}
    {b b' : Bool} {v : Option (Option (Err E))}
    (hf : f = [] ∨ f' = f ∨ ∃ t, f' = f ++ t) (hr : r' = r ∨ (f = [] ∧ ∃ t, r' = r ++ t))
    (he : ∃ t, e' = e ++ t) (hc : ∃ t, c' = c ++ t) (hb : b = true → b' = true)
    (h : originO p f r e c b v = true) : originO p f' r' e' c' b' v = true := by
  cases v with
  | none => rfl
  | some x => exact origin_mono hf hr he hc hb h

theorem chOrigin_mono {e : List E} (t : List E) {v : Option (IRes E)} (h : chOrigin e v = true) :
    chOrigin (e ++ t) v = true := by
  cases v with
  | none => rfl
  | some r => cases r with
    | eof => rfl
    | err x => simp only [chOrigin, List.contains_eq_mem, List.mem_append, decide_eq_true_eq] at h ⊢; exact Or.inl h

end origin

/-- the value is either absent or exactly what a fault-free call must return -/
def fok (p : Params) (fin : List (Option E)) (recv : List M) (ueof : Bool) (v : Option (Option (Err E))) : Prop :=
  v = none ∨ expect p fin recv ueof = v

/-- no terminal result of outgoing.Recv has been seen yet -/
def After.preFinal : After M E → Bool
  | .send _ false => true
  | .send _ true => false
  | .finish _ => false

attribute [simp] After.preFinal.eq_1 After.preFinal.eq_2 After.preFinal.eq_3

def OPc.preFinal : OPc M E → Bool
  | .recvCall _ => true | .recvPending _ => true | .recv2Call _ => true | .recv2Pending _ => true
  | .header _ k => k.preFinal | .setHeader _ k => k.preFinal | .trailer k => k.preFinal | .setTrailer k => k.preFinal
  | .sendCall _ false => true | .sendCall _ true => false
  | .sendPending false => true | .sendPending true => false
  | .absent => true | .exited => false

attribute [simp] OPc.preFinal.eq_1 OPc.preFinal.eq_2 OPc.preFinal.eq_3 OPc.preFinal.eq_4 OPc.preFinal.eq_5
  OPc.preFinal.eq_6 OPc.preFinal.eq_7 OPc.preFinal.eq_8 OPc.preFinal.eq_9 OPc.preFinal.eq_10 OPc.preFinal.eq_11
  OPc.preFinal.eq_12 OPc.preFinal.eq_13 OPc.preFinal.eq_14

@[simp] theorem After.pc_preFinal (k : After M E) : k.pc.preFinal = k.preFinal := by
  cases k with
  | send m l => cases l <;> rfl
  | finish e => rfl

/-- History facts the value invariants rest on. -/
structure HInv (p : Params) (s : State M E) : Prop where
  fz : s.o2i.preFinal = true → s.gFinals = []
  cx : s.main.cancelled = false → s.ctx = s.gCtxs.head?
  pre_r : s.main.pre = true → s.gOutRecv = []
  pre_f : s.main.pre = true → s.gFinals = []

variable [DecidableEq M] [DecidableEq E]

theorem hinv_init (p : Params) : HInv p (init M E) := by
  constructor <;> simp [init]

macro "closer" : tactic => `(tactic|
  ((try (split <;> simp_all)) <;> (try (split <;> simp_all)) <;>
   (try (rename_i k; cases k <;> simp_all)) <;> (try (rename_i l; cases l <;> simp_all)) <;>
   (try (cases hss : (‹Params›).ss <;> simp_all))))

set_option maxHeartbeats 4000000 in
theorem hinv_step (p : Params) (s : State M E) (l : Label M E) (s' : State M E) (hS : SInv p s) (h : HInv p s)
    (hs : step p s l = some s') : HInv p s' := by
  obtain ⟨s1, hc, rfl⟩ := step_core hs
  clear hs
  have h16 := hS.okFor
  have h2 := hS.pre_o
  clear hS
  obtain ⟨z1, z2, z3, z4⟩ := h
  cases l <;> simp only [stepCore] at hc <;> (repeat' split at hc) <;> (try cases hc) <;>
    (constructor <;> simp_all [ctxWhy?]) <;> closer <;>
    (try (intro hcan; cases hg : s.gCtxs <;> simp_all))

/-- Always: every value that can become the return value of Forward has a legitimate origin. -/
structure VInv (p : Params) (s : State M E) : Prop where
  v_o : originO p s.gFinals s.gOutRecv s.gErrs s.gCtxs s.gClientEOF s.o2i.val = true
  v_ok : originO p s.gFinals s.gOutRecv s.gErrs s.gCtxs s.gClientEOF s.o2i.okVal = true
  v_oc : originO p s.gFinals s.gOutRecv s.gErrs s.gCtxs s.gClientEOF s.o2iCh = true
  v_m : originO p s.gFinals s.gOutRecv s.gErrs s.gCtxs s.gClientEOF s.main.val = true
  v_ic : chOrigin s.gErrs s.i2oCh = true

theorem vinv_init (p : Params) : VInv p (init M E) := by
  constructor <;> simp [init]

macro "vcloser" : tactic => `(tactic|
  ((try (split <;> simp_all [origin, peerErr?, ctxWhy?, isClientEOF])) <;>
   (try (split <;> simp_all [origin, peerErr?, ctxWhy?, isClientEOF])) <;>
   (try (rename_i k; cases k <;> simp_all [origin, peerErr?, ctxWhy?, isClientEOF])) <;>
   (try (cases hss : (‹Params›).ss <;> simp_all [origin, peerErr?, ctxWhy?, isClientEOF]))))

set_option maxHeartbeats 4000000 in
/-- Where the values of the next state come from: an old place, or they are new and legitimate. -/
theorem vflow (p : Params) (s : State M E) (l : Label M E) (s' : State M E) (hS : SInv p s) (hG : GInv p s)
    (hH : HInv p s) (hic : chOrigin s.gErrs s.i2oCh = true) (hs : step p s l = some s') :
    (s'.o2i.val = s.o2i.val ∨ originO p s'.gFinals s'.gOutRecv s'.gErrs s'.gCtxs s'.gClientEOF s'.o2i.val = true) ∧
    (s'.o2i.okVal = s.o2i.okVal ∨
      originO p s'.gFinals s'.gOutRecv s'.gErrs s'.gCtxs s'.gClientEOF s'.o2i.okVal = true) ∧
    (s'.o2iCh = s.o2iCh ∨ s'.o2iCh = s.o2i.val ∨ s'.o2iCh = s.o2i.okVal ∨
      originO p s'.gFinals s'.gOutRecv s'.gErrs s'.gCtxs s'.gClientEOF s'.o2iCh = true) ∧
    (s'.main.val = s.main.val ∨ s'.main.val = s.o2iCh ∨
      originO p s'.gFinals s'.gOutRecv s'.gErrs s'.gCtxs s'.gClientEOF s'.main.val = true) ∧
    (s'.i2oCh = s.i2oCh ∨ chOrigin s'.gErrs s'.i2oCh = true) := by
  obtain ⟨s1, hc, rfl⟩ := step_core hs
  clear hs
  have h2 := hS.pre_o
  have h4 := hS.pre_oc
  have h7 := hS.cs_u
  have h11 := hS.och
  have h16 := hS.okFor
  clear hS
  have g4 := hG.resp
  have g6 := hG.drop_early
  have g7 := hG.resp_u0
  clear hG
  obtain ⟨z1, z2, z3, z4⟩ := hH
  cases l <;> simp only [stepCore] at hc <;> (repeat' split at hc) <;> (try cases hc) <;>
    (refine ⟨?_, ?_, ?_, ?_, ?_⟩ <;> simp_all [origin, peerErr?, ctxWhy?, isClientEOF]) <;> vcloser

theorem hist_mono (p : Params) (s : State M E) (l : Label M E) (s' : State M E) (hH : HInv p s)
    (hs : step p s l = some s') (v : Option (Option (Err E)))
    (h : originO p s.gFinals s.gOutRecv s.gErrs s.gCtxs s.gClientEOF v = true) :
    originO p s'.gFinals s'.gOutRecv s'.gErrs s'.gCtxs s'.gClientEOF v = true := by
  obtain ⟨-, -, h3, -, h5, -, -, h8, h9, h10⟩ := step_ghost p s s' l hs
  refine originO_mono (Or.inr (Or.inr ⟨_, h5⟩)) ?_ ⟨_, h8⟩ ⟨_, h9⟩ (by rw [h10]; intro hb; simp [hb]) h
  cases hm : outRecvMsg? l with
  | none => left; rw [h3, hm]; simp
  | some m =>
    right
    refine ⟨?_, _, h3⟩
    -- a message can only be received while the pump is receiving, i.e. before any terminal result
    apply hH.fz
    obtain ⟨s1, hc, -⟩ := step_core hs
    cases l <;> simp [outRecvMsg?] at hm
    rename_i r
    cases r <;> simp [outRecvMsg?] at hm
    simp only [stepCore] at hc
    split at hc <;> simp_all

theorem vinv_step (p : Params) (s : State M E) (l : Label M E) (s' : State M E) (hS : SInv p s) (hG : GInv p s)
    (hH : HInv p s) (h : VInv p s) (hs : step p s l = some s') : VInv p s' := by
  obtain ⟨f1, f2, f3, f4, f5⟩ := vflow p s l s' hS hG hH h.v_ic hs
  have mono := hist_mono p s l s' hH hs
  constructor
  · rcases f1 with e | o
    · rw [e]; exact mono _ h.v_o
    · exact o
  · rcases f2 with e | o
    · rw [e]; exact mono _ h.v_ok
    · exact o
  · rcases f3 with e | e | e | o
    · rw [e]; exact mono _ h.v_oc
    · rw [e]; exact mono _ h.v_o
    · rw [e]; exact mono _ h.v_ok
    · exact o
  · rcases f4 with e | e | o
    · rw [e]; exact mono _ h.v_m
    · rw [e]; exact mono _ h.v_oc
    · exact o
  · rcases f5 with e | o
    · rw [e]
      obtain ⟨-, -, -, -, -, -, -, h8, -, -⟩ := step_ghost p s s' l hs
      rw [h8]; exact chOrigin_mono _ h.v_ic
    · exact o

attribute [local simp] chErr.eq_1 chErr.eq_2 chErr.eq_3

/-- As long as no fault happened: no cancellation before the deferred cancel(), no error in `i2oErrCh`,
    and every value that can become the return value is exactly `expect` — the target's final status. -/
structure FInv (p : Params) (s : State M E) : Prop where
  f_ctx : s.gFault = false → s.ctx.isSome = true → s.main.cancelled = true
  f_ic : s.gFault = false → chErr s.i2oCh = false
  f_mo : s.gFault = false → s.main.val.isSome = true → s.o2i.gone = true
  f_o : s.gFault = false → fok p s.gFinals s.gOutRecv (!p.cs && s.gClientEOF) s.o2i.val
  f_ok : s.gFault = false → fok p s.gFinals s.gOutRecv (!p.cs && s.gClientEOF) s.o2i.okVal
  f_oc : s.gFault = false → fok p s.gFinals s.gOutRecv (!p.cs && s.gClientEOF) s.o2iCh
  f_m : s.gFault = false → fok p s.gFinals s.gOutRecv (!p.cs && s.gClientEOF) s.main.val
  f_lost : s.gFault = false → s.gLost = []

@[simp] theorem fok_none (p : Params) (f : List (Option E)) (r : List M) (u : Bool) : fok p f r u none := Or.inl rfl
@[simp] theorem fok_ite (p : Params) (f : List (Option E)) (r : List M) (u : Bool) (c : Prop) [Decidable c]
    (a b : Option (Option (Err E))) : fok p f r u (if c then a else b) ↔ (c → fok p f r u a) ∧ (¬c → fok p f r u b) := by
  split <;> simp_all

theorem finv_init (p : Params) : FInv p (init M E) := by
  constructor <;> simp [init, fok]

macro "fcloser" : tactic => `(tactic|
  ((try (split <;> simp_all [fok, expect, faultLabel, isClientEOF])) <;>
   (try (split <;> simp_all [fok, expect, faultLabel, isClientEOF])) <;>
   (try (rename_i k; cases k <;> simp_all [fok, expect, faultLabel, isClientEOF])) <;>
   (try (cases hss : (‹Params›).ss <;> simp_all [fok, expect, faultLabel, isClientEOF]))))

set_option maxHeartbeats 8000000 in
theorem finv_step (p : Params) (s : State M E) (l : Label M E) (s' : State M E) (hS : SInv p s) (hG : GInv p s)
    (hH : HInv p s) (h : FInv p s) (hs : step p s l = some s') : FInv p s' := by
  obtain ⟨s1, hc, rfl⟩ := step_core hs
  clear hs
  have h1 := hS.pre_i
  have h2 := hS.pre_o
  have h4 := hS.pre_oc
  have h5 := hS.ncs_i
  have h7 := hS.cs_u
  have h10 := hS.ich
  have h11 := hS.och
  have h16 := hS.okFor
  clear hS
  have g4 := hG.resp
  have g6 := hG.drop_early
  have g7 := hG.resp_u0
  clear hG
  obtain ⟨z1, z2, z3, z4⟩ := hH
  obtain ⟨f1, f2, f3, f4, f5, f6, f7, f8⟩ := h
  cases l <;> simp only [stepCore] at hc <;> (repeat' split at hc) <;> (try cases hc) <;>
    (constructor <;> simp_all [faultLabel, isClientEOF]) <;> (try intro hf) <;> (try intro hf2) <;>
    (try (simp_all [fok]; done)) <;> fcloser

/-- all invariants of the Forward LTS, in every reachable state -/
theorem all_reach (p : Params) (s : State M E) (h : Reachable p s) :
    SInv p s ∧ GInv p s ∧ HInv p s ∧ VInv p s ∧ FInv p s := by
  refine invariant (step p) (init M E) (fun s => SInv p s ∧ GInv p s ∧ HInv p s ∧ VInv p s ∧ FInv p s)
    ⟨sinv_init p, ginv_init p, hinv_init p, vinv_init p, finv_init p⟩ ?_ s h
  intro s l s' ⟨h1, h2, h3, h4, h5⟩ hs
  exact ⟨sinv_step p s l s' h1 hs, ginv_step p s l s' h1 h2 hs, hinv_step p s l s' h1 h3 hs,
    vinv_step p s l s' h1 h2 h3 h4 hs, finv_step p s l s' h1 h2 h3 h5 hs⟩

theorem Run.vinv {p : Params} {tr : List (Label M E)} {s : State M E} (h : Run p tr s) : VInv p s :=
  (all_reach p s h.reachable).2.2.2.1

theorem Run.finv {p : Params} {tr : List (Label M E)} {s : State M E} (h : Run p tr s) : FInv p s :=
  (all_reach p s h.reachable).2.2.2.2

/-- The returned value always has a legitimate origin (trace-level `originOK`). -/
theorem returned_origin (p : Params) (tr : List (Label M E)) (s : State M E) (h : Run p tr s)
    (e : Option (Err E)) (hd : s.main = .done e) : originOK p tr e = true := by
  have v := h.vinv.v_m
  have t := h.tracks
  rw [hd, t.finals, t.outRecv, t.errs, t.ctxs, t.clientEOF] at v
  simpa [originOK] using v

/-- In a fault-free run the returned value is exactly `expectedReturn`: the target's final status. -/
theorem returned_expected (p : Params) (tr : List (Label M E)) (s : State M E) (h : Run p tr s)
    (e : Option (Err E)) (hd : s.main = .done e) (hf : hasFault tr = false) : expectedReturn p tr = some e := by
  have t := h.tracks
  have v := h.finv.f_m (by rw [t.fault]; exact hf)
  rw [hd, t.finals, t.outRecv, t.clientEOF] at v
  rcases v with v | v
  · simp at v
  · simpa [expectedReturn] using v

end GB.Fwd
