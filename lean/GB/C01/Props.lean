import GB.C01.Adapter
import GB.C01.Unary
import GB.Generated.Facts
/-
  C01 — forwarded calls deliver exactly the messages and final status exchanged.

  All theorems quantify over every RPC kind `p`, every message type `M` and error type `E`, and every
  run `Run p tr s` of the Forward LTS (GB/C01/Forward.lean): every behaviour of the client and of the
  target (any result may be returned to any pending call) and every interleaving of the three
  goroutines. The projections `incReceived/outSent/outReceived/incSent` of the trace are what the
  client and the target observe at the four interface points. `M` is abstract, so the equalities are
  on the message values themselves (nothing altered).
-/
set_option linter.unusedSectionVars false
set_option linter.unusedVariables false
open GB.Fwd

variable {M E : Type} [DecidableEq M] [DecidableEq E]

/-- Requests: what Forward hands to the target is, in order, a prefix of what the client handed to
    Forward (nothing duplicated, reordered, invented; at most the message in flight is missing). -/
theorem C01_req_prefix (p : Params) (tr : List (Label M E)) (s : State M E) (h : Run p tr s) :
    outSent tr <+: incReceived tr := by
  have g := h.ginv.req
  rw [h.tracks.incRecv, h.tracks.outSent] at g
  rw [g, List.append_assoc]
  exact List.prefix_append _ _

/-- Responses: what Forward hands to the client is a prefix of what the target produced. -/
theorem C01_resp_prefix (p : Params) (tr : List (Label M E)) (s : State M E) (h : Run p tr s) :
    incSent tr <+: outReceived tr := by
  have g := h.ginv.resp
  rw [h.tracks.outRecv, h.tracks.incSent] at g
  rw [g, List.append_assoc]
  exact List.prefix_append _ _

/-- A non-client-streaming method never carries more than one request to the target. -/
theorem C01_req_unary (p : Params) (tr : List (Label M E)) (s : State M E) (h : Run p tr s)
    (hu : p.cs = false) : (outSent tr).length ≤ 1 := by
  have g := h.ginv.req_u1 hu
  rwa [h.tracks.outSent] at g

/-- A non-server-streaming method never carries more than one response to the client. -/
theorem C01_resp_unary (p : Params) (tr : List (Label M E)) (s : State M E) (h : Run p tr s)
    (hu : p.ss = false) : (incSent tr).length ≤ 1 := by
  have g := h.ginv.resp_u1 hu
  rwa [h.tracks.incSent] at g

/-- Once the request pump has ended (client half-closed, or a failure) — or was never started because the
    call failed before — every message the client handed over has been handed to the target: nothing is
    dropped at the end of the request stream. -/
theorem C01_req_complete (p : Params) (tr : List (Label M E)) (s : State M E) (h : Run p tr s)
    (hcs : p.cs = true) (hx : s.i2o.gone = true) : outSent tr = incReceived tr := by
  have g := h.ginv.req
  have hl := h.ginv.lost_cs hcs
  have hu := h.sinv.cs_u hcs
  have hc : s.main.carry = [] := by cases hm : s.main <;> simp_all
  have hi : s.i2o.carry = [] := by cases hi : s.i2o <;> simp_all
  rw [h.tracks.incRecv, h.tracks.outSent, hl, hc, hi] at g
  simpa using g.symm

/-- Once the response pump has ended, every response of a server-streaming target has been handed to the
    client, in order: nothing is dropped before the final status. -/
theorem C01_resp_complete (p : Params) (tr : List (Label M E)) (s : State M E) (h : Run p tr s)
    (hss : p.ss = true) (hx : s.o2i.gone = true) : incSent tr = outReceived tr := by
  have g := h.ginv.resp
  have hd := h.ginv.drop_ss hss
  have hc : s.o2i.carry = [] := by
    cases ho : s.o2i <;> simp_all
  rw [h.tracks.outRecv, h.tracks.incSent, hd, hc] at g
  simpa using g.symm

/-- When Forward has returned, both directions are complete (for the streaming directions; the unary
    directions are covered by `C01_unary_response` below). -/
theorem C01_done_delivered (p : Params) (tr : List (Label M E)) (s : State M E) (h : Run p tr s)
    (hd : isDone s = true) :
    (p.ss = true → incSent tr = outReceived tr) ∧
    (p.cs = true → outSent tr = incReceived tr) := by
  have hg : pumpsGone s = true := by
    apply h.sinv.done_gone
    unfold isDone at hd
    cases hm : s.main <;> simp_all
  simp only [pumpsGone, Bool.and_eq_true] at hg
  exact ⟨fun hss => C01_resp_complete p tr s h hss hg.2, fun hcs => C01_req_complete p tr s h hcs hg.1⟩

/-- Unary response: the single response the client gets is the FIRST message the target produced; what
    is not forwarded is only a second message of a misbehaving target or a message superseded by a
    non-OK status (`gDropped`). -/
theorem C01_unary_response (p : Params) (tr : List (Label M E)) (s : State M E) (h : Run p tr s)
    (hx : s.o2i = .exited) : outReceived tr = incSent tr ++ s.gDropped := by
  have g := h.ginv.resp
  rw [h.tracks.outRecv, h.tracks.incSent, hx] at g
  simpa using g

/-- A half-close is never lost (client-streaming): once EOF ended the request direction
    (Incoming.Recv or outgoing.Send returned EOF), CloseSend has been called on the outgoing stream, or
    calling it is the very next action of the main goroutine, or the EOF still waits in `i2oErrCh`
    (where the main loop can take it at any time, see `C01_halfclose_enabled`). -/
theorem C01_halfclose (p : Params) (tr : List (Label M E)) (s : State M E) (h : Run p tr s)
    (hcs : p.cs = true) (hh : halfClosed tr = true) :
    closeSendCalled tr = true ∨ s.i2oCh = some .eof ∨ s.main = .loopCloseSend := by
  have g := h.ginv.half
  rw [h.half hcs, h.tracks.closeSend] at g
  exact g hh

/-- Half-close of a unary-request method (unary and server-streaming calls): Forward itself calls
    outgoing.CloseSend() after the one request and BEFORE it starts to read responses — in every run in which
    outgoing.Recv has been called, CloseSend has been called. (The outgoing stream is always opened as a client
    stream, so the target would otherwise never see the end of the request.) The driver applies exactly this
    statement to every observed trace (`half-close-not-propagated`). -/
theorem C01_halfclose_unary (p : Params) (tr : List (Label M E)) (s : State M E) (h : Run p tr s)
    (hcs : p.cs = false) (hr : readsResponses tr = true) : closeSendCalled tr = true :=
  unary_halfclose p tr s h hcs hr

/-- …and the main loop can always take a waiting EOF and then calls CloseSend. -/
theorem C01_halfclose_enabled (p : Params) (s : State M E) (hm : s.main = .loop) (hc : s.i2oCh = some .eof) :
    ∃ s1 s2, step p s .tauSelI2O = some s1 ∧ s1.main = .loopCloseSend ∧
      step p s1 .outCloseSend = some s2 ∧ s2.gCloseSend = true := by
  have h1 : ∃ s1, step p s .tauSelI2O = some s1 ∧ s1.main = .loopCloseSend := by
    simp [step, stepCore, hm, hc]
  obtain ⟨s1, e1, m1⟩ := h1
  have h2 : ∃ s2, step p s1 .outCloseSend = some s2 ∧ s2.gCloseSend = true := by
    simp [step, stepCore, m1]
  obtain ⟨s2, e2, c2⟩ := h2
  exact ⟨s1, s2, e1, m1, e2, c2⟩

/-! ### Final status

  `hasFault tr = false`: no cancellation / deadline and no error from Incoming.Recv, Incoming.Send,
  Outgoing.Stream or outgoing.Send anywhere in the run — the only error allowed is the target's own final
  result, which arrives as the result of outgoing.Recv. `expectedReturn p tr` (GB/C01/Spec.lean) is the
  target's final status read off the trace: the status error the target ended with, nil when it ended with
  EOF after its responses, and the synthesized Unavailable errors for the two unary protocol violations. -/

/-- In every run that returned with value `e` and in which no fault occurred, `e` is the target's final
    status. -/
theorem C01_status (p : Params) (tr : List (Label M E)) (s : State M E) (h : Run p tr s)
    (e : Option (Err E)) (hd : s.main = .done e) (hf : hasFault tr = false) : expectedReturn p tr = some e :=
  returned_expected p tr s h e hd hf

/-- …read out for a target that ended with a status error `x` (server-streaming, or a well-behaved unary
    target): Forward returns exactly `x` (the value itself: code, message and details travel with it). -/
theorem C01_status_error (p : Params) (tr : List (Label M E)) (s : State M E) (h : Run p tr s)
    (e : Option (Err E)) (hd : s.main = .done e) (hf : hasFault tr = false) (x : E)
    (ht : targetFinal tr = some (some x)) (hk : p.ss = true ∨ (outReceived tr).length < 2) :
    e = some (.peer x) := by
  have := C01_status p tr s h e hd hf
  unfold expectedReturn expect at this
  unfold targetFinal at ht
  rw [ht] at this
  have hn : ¬(p.ss = false ∧ 2 ≤ (outReceived tr).length) := by
    rcases hk with hk | hk
    · simp [hk]
    · omega
  simp only [hn, if_false] at this
  simpa using this.symm

/-- …and for a server-streaming target that ended with EOF after its responses: Forward returns nil (OK). -/
theorem C01_status_ok (p : Params) (tr : List (Label M E)) (s : State M E) (h : Run p tr s)
    (e : Option (Err E)) (hd : s.main = .done e) (hf : hasFault tr = false) (hss : p.ss = true)
    (ht : targetFinal tr = some none) : e = none := by
  have := C01_status p tr s h e hd hf
  unfold expectedReturn expect at this
  unfold targetFinal at ht
  rw [ht] at this
  simp [hss] at this
  exact this.symm

/-- C01, completed call: fault-free run that returned ⇒ the returned value is the target's final status,
    every request the client handed over was handed to the target, and every response the target produced
    was handed to the client (for a unary-response method: all but `gDropped`, see `C01_unary_response`). -/
theorem C01_complete (p : Params) (tr : List (Label M E)) (s : State M E) (h : Run p tr s)
    (e : Option (Err E)) (hd : s.main = .done e) (hf : hasFault tr = false) :
    expectedReturn p tr = some e ∧ outSent tr = incReceived tr ∧
    (p.ss = true → incSent tr = outReceived tr) ∧ outReceived tr = incSent tr ++ s.gDropped := by
  have hdone : isDone s = true := by simp [isDone, hd]
  have hg : pumpsGone s = true := h.sinv.done_gone (by simp [hd])
  simp only [pumpsGone, Bool.and_eq_true] at hg
  have ho : s.o2i.carry = [] := by cases ho : s.o2i <;> simp_all
  have hresp : outReceived tr = incSent tr ++ s.gDropped := by
    have g := h.ginv.resp
    rw [h.tracks.outRecv, h.tracks.incSent, ho] at g
    simpa using g
  refine ⟨C01_status p tr s h e hd hf, ?_, (C01_done_delivered p tr s h hdone).1, hresp⟩
  cases hcs : p.cs with
  | true => exact C01_req_complete p tr s h hcs hg.1
  | false =>
    have g := h.ginv.req
    have hl := h.finv.f_lost (by rw [h.tracks.fault]; exact hf)
    have hi := h.sinv.ncs_i hcs
    rw [h.tracks.incRecv, h.tracks.outSent, hl, hi, hd] at g
    simpa using g.symm

/-! ### The real adapters: what the LTS assumes of them, what follows, and what pins the glue

  The LTS's labels live at the adapter interface (`ServerStream`, `ClientConn`, `ClientStream`). What the
  CLIENT and the TARGET see is related to them by the adapters. `AdapterView` (GB/C01/Adapter.lean) states
  these environment assumptions one by one, with the harness judgement that validates each on the REAL
  `AdaptedClientPool.New → AdaptedClientConn → AdaptedClientStream` over grpc-go and on the proxy's
  `grpcServerStream` (`real`, `e2e`, `multi` lines of area c01). -/

/-- Forward calls Outgoing.Stream at most once per bridged call. -/
theorem C01_one_stream_call (p : Params) (tr : List (Label M E)) (s : State M E) (h : Run p tr s) :
    streamCalls tr ≤ 1 := by
  rcases streamCalls_le_one p tr s h with h0 | ⟨h1, _⟩ <;> omega

/-- Under the adapter assumptions the peers' views satisfy C01: the target sees at most ONE call, what it
    received is a prefix of what the client handed over (no duplicate, no replay), what the client received
    is a prefix of what the target produced, and in a fault-free completed call of a server-streaming
    method the value Forward returns is the target's own final status. -/
theorem C01_real_adapter_assumptions (p : Params) (tr : List (Label M E)) (s : State M E) (h : Run p tr s)
    (tcalls : Nat) (tsaw csaw : List M) (tstatus : Option (Option E))
    (hv : AdapterView tr tcalls tsaw tstatus csaw) :
    tcalls ≤ 1 ∧ tsaw <+: incReceived tr ∧ csaw <+: outReceived tr ∧
    (∀ e, s.main = .done e → hasFault tr = false → p.ss = true →
      (∀ x, tstatus = some (some x) → e = some (.peer x)) ∧ (tstatus = some none → e = none)) := by
  refine ⟨by rw [hv.one_call]; exact C01_one_stream_call p tr s h,
    hv.at_most_once.trans (C01_req_prefix p tr s h), hv.incoming.trans (C01_resp_prefix p tr s h), ?_⟩
  intro e hd hf hss
  refine ⟨fun x hx => ?_, fun hx => ?_⟩
  · exact C01_status_error p tr s h e hd hf x (by rw [← hv.terminal]; exact hx) (Or.inl hss)
  · exact C01_status_ok p tr s h e hd hf hss (by rw [← hv.terminal]; exact hx)

/-- Facts tie (regenerated from grpcadapter/pool.go and conn.go on every run): the pool's defaults only set
    the constructor function; neither the pool nor the connection adapter mentions any dial option, call
    option, service config, retry / hedging policy or interceptor; the options handed to grpc.NewClient are
    exactly the caller's (`DefaultOpts ++ opts`), and NewStream gets no CallOption. A changed default breaks
    this `decide` even if no generated case happens to hit the affected status code. -/
theorem C01_facts_pool_default_opts :
    GB.Generated.c01PoolWithDefaultsAssigns = ["o.NewClientFunc"]
    ∧ GB.Generated.c01PoolGrpcOptionCalls = []
    ∧ GB.Generated.c01PoolNewClientArgs = ["dialTarget", "slices.Concat(p.opts.DefaultOpts, opts)..."]
    ∧ GB.Generated.c01NewStreamArgs =
        ["streamCtx", "&grpc.StreamDesc{ClientStreams: true, ServerStreams: true}", "method"] := by
  decide

/-- Calls are independent in the model: the state of a call is a function of THAT call's own events — every
    call starts from the constant `init`, nothing is carried over from a previous call. -/
theorem C01_calls_independent (p : Params) (tr : List (Label M E)) (s s' : State M E)
    (h : Run p tr s) (h' : Run p tr s') : s = s' := by
  have e := h.run_eq
  rw [h'.run_eq] at e
  exact (Option.some.inj e).symm

/-- …and the fact that makes this the shape of the code (regenerated by the C07 extractor over the root
    package — proxy.go, forwarder.go, bridge.go — and grpcadapter): no package-level mutable variable and no
    sync.Pool / sync.Once through which one call could reach another call's state. -/
theorem C01_facts_no_package_state :
    GB.Generated.c07MutablePackageVars = [] ∧ GB.Generated.c07SharedSyncTypes = [] := by
  decide

/-! ### Non-vacuity: a concrete bidirectional run — 3 requests, 2 responses, status error 42 -/

def C01_example_trace : List (Label Nat Nat) :=
  [.outStreamCall, .outStreamRet .ok, .outRecvCall, .incRecvCall, .incRecvRet (.msg 1), .outSendCall 1,
   .outRecvRet (.msg 7), .outHeader, .outSendRet .ok, .incRecvCall, .incSetHeader, .incSendCall 7,
   .incRecvRet (.msg 2), .outSendCall 2, .incSendRet .ok, .outRecvCall, .outSendRet .ok, .incRecvCall,
   .incRecvRet (.msg 3), .outSendCall 3, .outSendRet .ok, .outRecvRet (.msg 8), .incSendCall 8, .incSendRet .ok,
   .incRecvCall, .incRecvRet .eof, .tauSelI2O, .outCloseSend, .outRecvCall, .outRecvRet (.err 42),
   .outTrailer, .incSetTrailer, .tauSelO2I, .outClose, .tauCancel, .ret (some (.peer 42))]

def C01_bidi : Params := { cs := true, ss := true, incAware := true, outAware := true }

theorem C01_example_run :
    (GB.LTS.run (step C01_bidi) (init Nat Nat) C01_example_trace).map
      (fun s => (returned s, s.gOutSent, s.gIncSent)) = some (some (some (.peer 42)), [1, 2, 3], [7, 8]) := by
  decide

example : ∃ s, Run C01_bidi C01_example_trace s ∧ isDone s = true := by
  cases h : GB.LTS.run (step C01_bidi) (init Nat Nat) C01_example_trace with
  | none => have := C01_example_run; rw [h] at this; cases this
  | some s =>
    refine ⟨s, run_Run _ _ _ h, ?_⟩
    have := C01_example_run; rw [h] at this
    simp only [Option.map_some, Option.some.injEq, Prod.mk.injEq] at this
    unfold isDone; unfold returned at this
    cases hm : s.main <;> simp_all
