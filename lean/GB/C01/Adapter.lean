import GB.C01.Status
/-
  The environment assumptions of the Forward LTS about the REAL adapters, made explicit, plus two
  structural facts of the model: Forward calls Outgoing.Stream at most once per call, and the state of a
  call is a function of that call's own events (nothing is carried from one call to the next).
-/
set_option linter.unusedSimpArgs false
set_option linter.unusedVariables false
set_option linter.unusedSectionVars false
namespace GB.Fwd
open GB.LTS
variable {M E : Type}

def isStreamCall : Label M E → Bool
  | .outStreamCall => true
  | _ => false

/-- number of Outgoing.Stream calls Forward made -/
def streamCalls (tr : List (Label M E)) : Nat := tr.countP isStreamCall

/-- main can still call Outgoing.Stream -/
def MPc.mayStream : MPc M E → Bool
  | .start => true | .uRecvPending => true | .streamCall _ => true
  | .streamPending _ => false | .uSendCall _ => false | .uSendPending => false | .uCloseErr _ => false
  | .uCloseSend => false | .loop => false | .loopCloseSend => false | .deferClose _ => false
  | .deferCancel _ => false | .deferWait _ => false | .done _ => false

attribute [simp] MPc.mayStream.eq_1 MPc.mayStream.eq_2 MPc.mayStream.eq_3 MPc.mayStream.eq_4 MPc.mayStream.eq_5
  MPc.mayStream.eq_6 MPc.mayStream.eq_7 MPc.mayStream.eq_8 MPc.mayStream.eq_9 MPc.mayStream.eq_10
  MPc.mayStream.eq_11 MPc.mayStream.eq_12 MPc.mayStream.eq_13 MPc.mayStream.eq_14

/--
  What the Forward LTS assumes of the real adapters, as a relation between the trace at the adapter
  interface `tr` and what the peers actually see. `tcalls` = calls the target saw for this bridged call,
  `tsaw` = request messages the target received (all calls, arrival order), `tstatus` = the status the target
  ended with (`some none` = OK), `csaw` = response messages the client received.
  * `one_call` (Outgoing.Stream): one successful-or-not Stream call is ONE call at the target — no retry, no
    hedging, no transparent re-issue. Validated on the real AdaptedClientPool/Conn/Stream by the judgement
    `tcalls = 1` (`request-duplicated target-saw-one-call`) of the `real` / `e2e` / `multi` lines, and pinned
    statically by `C01_facts_pool_default_opts`.
  * `at_most_once` (outgoing.Send / CloseSend / Close): every message handed to Send is delivered at most
    once, in order; nothing is replayed. Validated by `treq` (byte-for-byte, merged over all calls).
  * `terminal` (outgoing.Recv): the terminal result of Recv is the target's own final status — the value
    with code, message and details; EOF iff OK. Validated by `status` (marshalled google.rpc.Status, with the
    target's call number in the message: `status-replaced`), for all 17 codes, trailers-only and after
    responses, and by `code=14` when the target dies.
  * `incoming` (Incoming.Send/Recv, the proxy's grpcServerStream): at most once, in order. Validated by
    `cresp` / `treq` through the GRPCProxy entry (real gRPC client in front).
-/
structure AdapterView (tr : List (Label M E)) (tcalls : Nat) (tsaw : List M) (tstatus : Option (Option E))
    (csaw : List M) : Prop where
  one_call : tcalls = streamCalls tr
  at_most_once : tsaw <+: outSent tr
  terminal : tstatus = targetFinal tr
  incoming : csaw <+: incSent tr

variable [DecidableEq M] [DecidableEq E]

set_option maxHeartbeats 4000000 in
theorem mayStream_step (p : Params) (s s' : State M E) (l : Label M E) (hs : step p s l = some s') :
    (isStreamCall l = true → s.main.mayStream = true ∧ s'.main.mayStream = false) ∧
    (s.main.mayStream = false → s'.main.mayStream = false) := by
  obtain ⟨s1, hc, rfl⟩ := step_core hs
  clear hs
  cases l <;> simp only [stepCore] at hc <;> (repeat' split at hc) <;> (try cases hc) <;>
    simp_all [isStreamCall] <;> (try (split <;> simp_all))

/-- Forward calls Outgoing.Stream at most once per call. -/
theorem streamCalls_le_one (p : Params) (tr : List (Label M E)) (s : State M E) (h : Run p tr s) :
    streamCalls tr = 0 ∨ (streamCalls tr = 1 ∧ s.main.mayStream = false) := by
  induction h with
  | init => left; rfl
  | @step tr s l s' _ hs ih =>
    obtain ⟨h1, h2⟩ := mayStream_step p s s' l hs
    have hc : streamCalls (tr ++ [l]) = streamCalls tr + (if isStreamCall l = true then 1 else 0) := by
      simp [streamCalls, List.countP_append, List.countP_cons]
    cases hl : isStreamCall l with
    | false =>
      rw [hc, hl]
      rcases ih with ih | ⟨ih, hm⟩
      · left; simpa using ih
      · right; exact ⟨by simpa using ih, h2 hm⟩
    | true =>
      obtain ⟨hm, hm'⟩ := h1 hl
      rw [hc, hl]
      rcases ih with ih | ⟨_, hm2⟩
      · right; exact ⟨by simp [ih], hm'⟩
      · rw [hm] at hm2; cases hm2

theorem run_snoc (p : Params) (a : State M E) (xs : List (Label M E)) (l : Label M E) :
    GB.LTS.run (step p) a (xs ++ [l]) = (GB.LTS.run (step p) a xs).bind (fun s => step p s l) := by
  induction xs generalizing a with
  | nil => simp [GB.LTS.run]; cases step p a l <;> rfl
  | cons x xs ih =>
    simp only [List.cons_append, GB.LTS.run]
    cases step p a x with
    | none => rfl
    | some a' => exact ih a'

/-- A `Run` is the executable replay: the state is a function of the call's own labels. -/
theorem Run.run_eq {p : Params} {tr : List (Label M E)} {s : State M E} (h : Run p tr s) :
    GB.LTS.run (GB.Fwd.step p) (GB.Fwd.init M E) tr = some s := by
  induction h with
  | init => rfl
  | step _ hs ih => rw [run_snoc, ih]; exact hs

end GB.Fwd
