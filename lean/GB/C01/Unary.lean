import GB.C01.Adapter
/-
  Half-close of a unary-request method: Forward itself calls outgoing.CloseSend() right after the one request
  (forwardUnaryRequest) — before the response pump starts, i.e. before the first outgoing.Recv.
-/
set_option linter.unusedSimpArgs false
set_option linter.unusedVariables false
set_option linter.unusedSectionVars false
namespace GB.Fwd
open GB.LTS
variable {M E : Type}

variable [DecidableEq M] [DecidableEq E]

/-- unary request: once the response pump exists, CloseSend has been called -/
def UInv (p : Params) (s : State M E) : Prop := p.cs = false → s.o2i ≠ .absent → s.gCloseSend = true

theorem uinv_init (p : Params) : UInv p (init M E) := by simp [UInv, init]

set_option maxHeartbeats 4000000 in
theorem uinv_step (p : Params) (s : State M E) (l : Label M E) (s' : State M E) (hS : SInv p s) (h : UInv p s)
    (hs : step p s l = some s') : UInv p s' := by
  obtain ⟨s1, hc, rfl⟩ := step_core hs
  clear hs
  have h8 := hS.ncs_m
  have h2 := hS.pre_o
  clear hS
  unfold UInv at h ⊢
  cases l <;> simp only [stepCore] at hc <;> (repeat' split at hc) <;> (try cases hc) <;>
    simp_all <;> (try (split <;> simp_all))

theorem uinv_reach (p : Params) (s : State M E) (h : Reachable p s) : UInv p s := by
  have : SInv p s ∧ UInv p s := by
    refine invariant (step p) (init M E) (fun s => SInv p s ∧ UInv p s) ⟨sinv_init p, uinv_init p⟩ ?_ s h
    intro s l s' ⟨h1, h2⟩ hs
    exact ⟨sinv_step p s l s' h1 hs, uinv_step p s l s' h1 h2 hs⟩
  exact this.2

/-- outgoing.Recv is only ever called by an existing response pump -/
theorem outRecvCall_pump (p : Params) (s s' : State M E) (l : Label M E) (hl : isOutRecvCall l = true)
    (hs : step p s l = some s') : s.o2i ≠ .absent := by
  obtain ⟨s1, hc, -⟩ := step_core hs
  cases l <;> simp [isOutRecvCall] at hl
  simp only [stepCore] at hc
  split at hc <;> simp_all

theorem closeSendCalled_snoc (tr : List (Label M E)) (l : Label M E) (h : closeSendCalled tr = true) :
    closeSendCalled (tr ++ [l]) = true := by
  simp [closeSendCalled] at h ⊢; exact Or.inl h

/-- Trace level: for a unary-request method every run in which Forward has started to read responses contains the
    CloseSend call (it precedes the first outgoing.Recv). -/
theorem unary_halfclose (p : Params) (tr : List (Label M E)) (s : State M E) (h : Run p tr s)
    (hcs : p.cs = false) (hr : readsResponses tr = true) : closeSendCalled tr = true := by
  induction h with
  | init => simp [readsResponses] at hr
  | @step tr s l s' hrun hs ih =>
    simp only [readsResponses, List.any_append, List.any_cons, List.any_nil, Bool.or_false, Bool.or_eq_true] at hr
    rcases hr with hr | hr
    · exact closeSendCalled_snoc tr l (ih hr)
    · have hp := outRecvCall_pump p s s' l hr hs
      have hu := uinv_reach p s hrun.reachable hcs hp
      rw [hrun.tracks.closeSend] at hu
      exact closeSendCalled_snoc tr l hu

end GB.Fwd
