import GB.C01.Forward
/-
  Projection lemmas for the helper functions of the Forward LTS (so that `simp` never has to unfold a
  whole state record), and the generic "one step = stepCore + fault flag" lemma.
-/
namespace GB.Fwd
variable {M E : Type}

def After.pc : After M E → OPc M E
  | .send m last => .sendCall m last
  | .finish _ => .exited

def After.ch (old : Option (Option (Err E))) : After M E → Option (Option (Err E))
  | .send _ _ => old
  | .finish e => some e

@[simp] theorem enterAfter_main (s : State M E) (k : After M E) : (enterAfter s k).main = s.main := by cases k <;> rfl
@[simp] theorem afterRecv_main (s : State M E) (h t : Bool) (k : After M E) : (afterRecv s h t k).main = s.main := by cases h <;> cases t <;> cases k <;> rfl
@[simp] theorem enterAfter_i2o (s : State M E) (k : After M E) : (enterAfter s k).i2o = s.i2o := by cases k <;> rfl
@[simp] theorem afterRecv_i2o (s : State M E) (h t : Bool) (k : After M E) : (afterRecv s h t k).i2o = s.i2o := by cases h <;> cases t <;> cases k <;> rfl
@[simp] theorem enterAfter_i2oCh (s : State M E) (k : After M E) : (enterAfter s k).i2oCh = s.i2oCh := by cases k <;> rfl
@[simp] theorem afterRecv_i2oCh (s : State M E) (h t : Bool) (k : After M E) : (afterRecv s h t k).i2oCh = s.i2oCh := by cases h <;> cases t <;> cases k <;> rfl
@[simp] theorem enterAfter_ctx (s : State M E) (k : After M E) : (enterAfter s k).ctx = s.ctx := by cases k <;> rfl
@[simp] theorem afterRecv_ctx (s : State M E) (h t : Bool) (k : After M E) : (afterRecv s h t k).ctx = s.ctx := by cases h <;> cases t <;> cases k <;> rfl
@[simp] theorem enterAfter_out (s : State M E) (k : After M E) : (enterAfter s k).out = s.out := by cases k <;> rfl
@[simp] theorem afterRecv_out (s : State M E) (h t : Bool) (k : After M E) : (afterRecv s h t k).out = s.out := by cases h <;> cases t <;> cases k <;> rfl
@[simp] theorem enterAfter_gIncRecv (s : State M E) (k : After M E) : (enterAfter s k).gIncRecv = s.gIncRecv := by cases k <;> rfl
@[simp] theorem afterRecv_gIncRecv (s : State M E) (h t : Bool) (k : After M E) : (afterRecv s h t k).gIncRecv = s.gIncRecv := by cases h <;> cases t <;> cases k <;> rfl
@[simp] theorem enterAfter_gOutSent (s : State M E) (k : After M E) : (enterAfter s k).gOutSent = s.gOutSent := by cases k <;> rfl
@[simp] theorem afterRecv_gOutSent (s : State M E) (h t : Bool) (k : After M E) : (afterRecv s h t k).gOutSent = s.gOutSent := by cases h <;> cases t <;> cases k <;> rfl
@[simp] theorem enterAfter_gOutRecv (s : State M E) (k : After M E) : (enterAfter s k).gOutRecv = s.gOutRecv := by cases k <;> rfl
@[simp] theorem afterRecv_gOutRecv (s : State M E) (h t : Bool) (k : After M E) : (afterRecv s h t k).gOutRecv = s.gOutRecv := by cases h <;> cases t <;> cases k <;> rfl
@[simp] theorem enterAfter_gIncSent (s : State M E) (k : After M E) : (enterAfter s k).gIncSent = s.gIncSent := by cases k <;> rfl
@[simp] theorem afterRecv_gIncSent (s : State M E) (h t : Bool) (k : After M E) : (afterRecv s h t k).gIncSent = s.gIncSent := by cases h <;> cases t <;> cases k <;> rfl
@[simp] theorem enterAfter_gDropped (s : State M E) (k : After M E) : (enterAfter s k).gDropped = s.gDropped := by cases k <;> rfl
@[simp] theorem afterRecv_gDropped (s : State M E) (h t : Bool) (k : After M E) : (afterRecv s h t k).gDropped = s.gDropped := by cases h <;> cases t <;> cases k <;> rfl
@[simp] theorem enterAfter_gCloseSend (s : State M E) (k : After M E) : (enterAfter s k).gCloseSend = s.gCloseSend := by cases k <;> rfl
@[simp] theorem afterRecv_gCloseSend (s : State M E) (h t : Bool) (k : After M E) : (afterRecv s h t k).gCloseSend = s.gCloseSend := by cases h <;> cases t <;> cases k <;> rfl
@[simp] theorem enterAfter_gHalf (s : State M E) (k : After M E) : (enterAfter s k).gHalf = s.gHalf := by cases k <;> rfl
@[simp] theorem afterRecv_gHalf (s : State M E) (h t : Bool) (k : After M E) : (afterRecv s h t k).gHalf = s.gHalf := by cases h <;> cases t <;> cases k <;> rfl
@[simp] theorem enterAfter_gFinals (s : State M E) (k : After M E) : (enterAfter s k).gFinals = s.gFinals := by cases k <;> rfl
@[simp] theorem afterRecv_gFinals (s : State M E) (h t : Bool) (k : After M E) : (afterRecv s h t k).gFinals = s.gFinals := by cases h <;> cases t <;> cases k <;> rfl
@[simp] theorem enterAfter_gFault (s : State M E) (k : After M E) : (enterAfter s k).gFault = s.gFault := by cases k <;> rfl
@[simp] theorem afterRecv_gFault (s : State M E) (h t : Bool) (k : After M E) : (afterRecv s h t k).gFault = s.gFault := by cases h <;> cases t <;> cases k <;> rfl
@[simp] theorem enterAfter_o2i (s : State M E) (k : After M E) : (enterAfter s k).o2i = k.pc := by cases k <;> rfl
@[simp] theorem enterAfter_o2iCh (s : State M E) (k : After M E) : (enterAfter s k).o2iCh = k.ch s.o2iCh := by cases k <;> rfl
@[simp] theorem afterRecv_o2i (s : State M E) (h t : Bool) (k : After M E) :
    (afterRecv s h t k).o2i = if h then .header t k else if t then .trailer k else k.pc := by
  cases h <;> cases t <;> cases k <;> rfl
@[simp] theorem afterRecv_o2iCh (s : State M E) (h t : Bool) (k : After M E) :
    (afterRecv s h t k).o2iCh = if h then s.o2iCh else if t then s.o2iCh else k.ch s.o2iCh := by
  cases h <;> cases t <;> cases k <;> rfl
@[simp] theorem beginReturn_i2o (s : State M E) (c : Bool) (e : Option (Err E)) : (beginReturn s c e).i2o = s.i2o := rfl
@[simp] theorem beginReturn_o2i (s : State M E) (c : Bool) (e : Option (Err E)) : (beginReturn s c e).o2i = s.o2i := rfl
@[simp] theorem beginReturn_i2oCh (s : State M E) (c : Bool) (e : Option (Err E)) : (beginReturn s c e).i2oCh = s.i2oCh := rfl
@[simp] theorem beginReturn_o2iCh (s : State M E) (c : Bool) (e : Option (Err E)) : (beginReturn s c e).o2iCh = s.o2iCh := rfl
@[simp] theorem beginReturn_ctx (s : State M E) (c : Bool) (e : Option (Err E)) : (beginReturn s c e).ctx = s.ctx := rfl
@[simp] theorem beginReturn_out (s : State M E) (c : Bool) (e : Option (Err E)) : (beginReturn s c e).out = s.out := rfl
@[simp] theorem beginReturn_gIncRecv (s : State M E) (c : Bool) (e : Option (Err E)) : (beginReturn s c e).gIncRecv = s.gIncRecv := rfl
@[simp] theorem beginReturn_gOutSent (s : State M E) (c : Bool) (e : Option (Err E)) : (beginReturn s c e).gOutSent = s.gOutSent := rfl
@[simp] theorem beginReturn_gOutRecv (s : State M E) (c : Bool) (e : Option (Err E)) : (beginReturn s c e).gOutRecv = s.gOutRecv := rfl
@[simp] theorem beginReturn_gIncSent (s : State M E) (c : Bool) (e : Option (Err E)) : (beginReturn s c e).gIncSent = s.gIncSent := rfl
@[simp] theorem beginReturn_gDropped (s : State M E) (c : Bool) (e : Option (Err E)) : (beginReturn s c e).gDropped = s.gDropped := rfl
@[simp] theorem beginReturn_gCloseSend (s : State M E) (c : Bool) (e : Option (Err E)) : (beginReturn s c e).gCloseSend = s.gCloseSend := rfl
@[simp] theorem beginReturn_gHalf (s : State M E) (c : Bool) (e : Option (Err E)) : (beginReturn s c e).gHalf = s.gHalf := rfl
@[simp] theorem beginReturn_gFinals (s : State M E) (c : Bool) (e : Option (Err E)) : (beginReturn s c e).gFinals = s.gFinals := rfl
@[simp] theorem beginReturn_gFault (s : State M E) (c : Bool) (e : Option (Err E)) : (beginReturn s c e).gFault = s.gFault := rfl
@[simp] theorem enterAfter_gLost (s : State M E) (k : After M E) : (enterAfter s k).gLost = s.gLost := by cases k <;> rfl
@[simp] theorem afterRecv_gLost (s : State M E) (h t : Bool) (k : After M E) : (afterRecv s h t k).gLost = s.gLost := by cases h <;> cases t <;> cases k <;> rfl
@[simp] theorem beginReturn_gLost (s : State M E) (c : Bool) (e : Option (Err E)) : (beginReturn s c e).gLost = s.gLost := rfl
@[simp] theorem enterAfter_gErrs (s : State M E) (k : After M E) : (enterAfter s k).gErrs = s.gErrs := by cases k <;> rfl
@[simp] theorem afterRecv_gErrs (s : State M E) (h t : Bool) (k : After M E) : (afterRecv s h t k).gErrs = s.gErrs := by cases h <;> cases t <;> cases k <;> rfl
@[simp] theorem beginReturn_gErrs (s : State M E) (c : Bool) (e : Option (Err E)) : (beginReturn s c e).gErrs = s.gErrs := rfl
@[simp] theorem enterAfter_gCtxs (s : State M E) (k : After M E) : (enterAfter s k).gCtxs = s.gCtxs := by cases k <;> rfl
@[simp] theorem afterRecv_gCtxs (s : State M E) (h t : Bool) (k : After M E) : (afterRecv s h t k).gCtxs = s.gCtxs := by cases h <;> cases t <;> cases k <;> rfl
@[simp] theorem beginReturn_gCtxs (s : State M E) (c : Bool) (e : Option (Err E)) : (beginReturn s c e).gCtxs = s.gCtxs := rfl
@[simp] theorem enterAfter_gClientEOF (s : State M E) (k : After M E) : (enterAfter s k).gClientEOF = s.gClientEOF := by cases k <;> rfl
@[simp] theorem afterRecv_gClientEOF (s : State M E) (h t : Bool) (k : After M E) : (afterRecv s h t k).gClientEOF = s.gClientEOF := by cases h <;> cases t <;> cases k <;> rfl
@[simp] theorem beginReturn_gClientEOF (s : State M E) (c : Bool) (e : Option (Err E)) : (beginReturn s c e).gClientEOF = s.gClientEOF := rfl
@[simp] theorem beginReturn_main (s : State M E) (c : Bool) (e : Option (Err E)) :
    (beginReturn s c e).main = if c then .deferClose e else .deferCancel e := rfl

attribute [simp] IPc.gone.eq_1 IPc.gone.eq_2 IPc.gone.eq_3 IPc.gone.eq_4 IPc.gone.eq_5 IPc.gone.eq_6 OPc.gone.eq_1 OPc.gone.eq_2 OPc.gone.eq_3 OPc.gone.eq_4 OPc.gone.eq_5 OPc.gone.eq_6 OPc.gone.eq_7 OPc.gone.eq_8 OPc.gone.eq_9 OPc.gone.eq_10 OPc.gone.eq_11 OPc.gone.eq_12 After.pc.eq_1 After.pc.eq_2 After.ch.eq_1 After.ch.eq_2

variable [DecidableEq M] [DecidableEq E]

theorem step_core {p : Params} {s s' : State M E} {l : Label M E} (hs : step p s l = some s') :
    ∃ s1, stepCore p s l = some s1 ∧ s' = { s1 with
      gFault := s1.gFault || faultLabel l
      gErrs := s1.gErrs ++ (peerErr? l).toList
      gCtxs := s1.gCtxs ++ (ctxWhy? l).toList
      gClientEOF := s1.gClientEOF || isClientEOF l } := by
  unfold step at hs
  cases hc : stepCore p s l with
  | none => simp [hc] at hs
  | some s1 => simp [hc] at hs; exact ⟨s1, rfl, hs.symm⟩

end GB.Fwd
