import GB.C01.Trace
set_option linter.unusedSimpArgs false
set_option linter.unusedVariables false
set_option linter.unusedSectionVars false
namespace GB.Fwd
open GB.LTS
variable {M E : Type} [DecidableEq M] [DecidableEq E]

attribute [local simp] MPc.returning.eq_1 MPc.returning.eq_2 MPc.returning.eq_3 MPc.returning.eq_4 MPc.returning.eq_5
  MPc.returning.eq_6 MPc.returning.eq_7 MPc.returning.eq_8 MPc.returning.eq_9 MPc.returning.eq_10 MPc.returning.eq_11
  MPc.returning.eq_12 MPc.returning.eq_13 MPc.returning.eq_14 chErr.eq_1 chErr.eq_2 chErr.eq_3

set_option maxHeartbeats 4000000 in
/-- Once termination has been triggered it stays triggered, whatever anybody does. -/
theorem terminating_stable (p : Params) (s s' : State M E) (l : Label M E) (hS : SInv p s)
    (ht : terminating s = true) (hs : step p s l = some s') : terminating s' = true := by
  obtain ⟨s1, hc, rfl⟩ := step_core hs
  clear hs
  have h10 := hS.ich
  have h11 := hS.och
  clear hS
  unfold terminating at ht ⊢
  cases l <;> simp only [stepCore] at hc <;> (repeat' split at hc) <;> (try cases hc) <;>
    simp_all <;> (try (split <;> simp_all)) <;> (try (split <;> simp_all)) <;>
    (try (rcases ht with (h | h) | h <;> simp [h]))

theorem rank_le (s : State M E) : rank s ≤ 19 := by
  have h1 : rankM s.main ≤ 11 := by cases s.main <;> simp [rankM]
  have h2 : rankI s.i2o ≤ 2 := by cases s.i2o <;> simp [rankI]
  have h3 : rankO s.o2i ≤ 6 := by
    cases s.o2i with
    | header t k => cases t <;> cases k <;> simp [rankO, rankAfter]
    | setHeader t k => cases t <;> cases k <;> simp [rankO, rankAfter]
    | trailer k => cases k <;> simp [rankO, rankAfter]
    | setTrailer k => cases k <;> simp [rankO, rankAfter]
    | _ => simp [rankO]
  unfold rank; omega


end GB.Fwd
