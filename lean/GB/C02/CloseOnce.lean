import GB.C01.Trace
/-
  C02 — the outgoing stream is closed exactly once (Forward LTS, trace level), and the helper discipline of the
  withCtx model: after a stream operation has returned an error, Forward never calls that operation again.
-/
set_option linter.unusedSimpArgs false
set_option linter.unusedVariables false
set_option linter.unusedSectionVars false
namespace GB.Fwd
open GB.LTS
variable {M E : Type} [DecidableEq M] [DecidableEq E]

def isClose : Label M E → Bool
  | .outClose => true
  | _ => false

def isStreamOk : Label M E → Bool
  | .outStreamRet .ok => true
  | _ => false

/-- number of `outgoing.Close()` calls in a trace -/
def closeCount (tr : List (Label M E)) : Nat := (tr.filter isClose).length

/-- main is between the successful return of Outgoing.Stream and the (deferred or explicit) outgoing.Close() -/
def MPc.openPhase : MPc M E → Bool
  | .uSendCall _ => true | .uSendPending => true | .uCloseErr _ => true | .uCloseSend => true
  | .loop => true | .loopCloseSend => true | .deferClose _ => true
  | .start => false | .uRecvPending => false | .streamCall _ => false | .streamPending _ => false
  | .deferCancel _ => false | .deferWait _ => false | .done _ => false

attribute [simp] MPc.openPhase.eq_1 MPc.openPhase.eq_2 MPc.openPhase.eq_3 MPc.openPhase.eq_4 MPc.openPhase.eq_5 MPc.openPhase.eq_6 MPc.openPhase.eq_7 MPc.openPhase.eq_8 MPc.openPhase.eq_9 MPc.openPhase.eq_10 MPc.openPhase.eq_11 MPc.openPhase.eq_12 MPc.openPhase.eq_13 MPc.openPhase.eq_14

structure CInv (s : State M E) (tr : List (Label M E)) : Prop where
  opn : s.main.openPhase = true → s.out = .opened
  cnt : closeCount tr = if s.out = .closed then 1 else 0
  opened : (tr.any isStreamOk) = (s.out != .none)

theorem closeCount_snoc (tr : List (Label M E)) (l : Label M E) :
    closeCount (tr ++ [l]) = closeCount tr + (if isClose l = true then 1 else 0) := by
  simp only [closeCount, List.filter_append, List.length_append]
  cases h : isClose l <;> simp [List.filter, h]

set_option maxHeartbeats 4000000 in
theorem cinv_step (p : Params) (s s' : State M E) (tr : List (Label M E)) (l : Label M E) (hS : SInv p s)
    (hC : CInv s tr) (hs : step p s l = some s') : CInv s' (tr ++ [l]) := by
  obtain ⟨s1, hc, rfl⟩ := step_core hs
  clear hs
  obtain ⟨c1, c2, c3⟩ := hC
  have h13 := hS.out_pre
  have h14 := hS.out_closed
  clear hS
  constructor
  · cases l <;> simp only [stepCore] at hc <;> (repeat' split at hc) <;> (try cases hc) <;>
      simp_all [] <;> (try (split <;> simp_all))
  · rw [closeCount_snoc, c2]
    cases l <;> simp only [stepCore] at hc <;> (repeat' split at hc) <;> (try cases hc) <;>
      simp_all [isClose] <;> (try (split <;> simp_all))
  · rw [List.any_append, c3]
    cases l <;> simp only [stepCore] at hc <;> (repeat' split at hc) <;> (try cases hc) <;>
      simp_all [isStreamOk] <;> (try (split <;> simp_all)) <;> (try decide)

theorem cinv_run {p : Params} {tr : List (Label M E)} {s : State M E} (h : Run p tr s) : CInv s tr := by
  induction h with
  | init => constructor <;> simp [init, closeCount]
  | step hr hs ih => exact cinv_step p _ _ _ _ hr.sinv ih hs

theorem streamOpened_eq (tr : List (Label M E)) : streamOpened tr = tr.any isStreamOk := by
  induction tr with
  | nil => rfl
  | cons l t ih =>
    simp only [streamOpened, List.any_cons] at ih ⊢
    rw [ih]
    cases l <;> first | rfl | (rename_i r; cases r <;> rfl)

theorem closeCalled_eq (tr : List (Label M E)) : closeCalled tr = decide (0 < closeCount tr) := by
  induction tr with
  | nil => simp [closeCalled, closeCount]
  | cons l t ih =>
    simp only [closeCalled, List.any_cons] at ih ⊢
    rw [ih]
    cases l <;> simp [closeCount, List.filter, isClose]

end GB.Fwd

/-! ### Forward's discipline towards the adapters: no call of a stream operation after that operation failed

  This is the `stopAfterCtx` parameter of the withCtx helper model (GB/C02/WithCtx.lean): a Recv/Send that was
  abandoned because the context is done returns an error, and Forward never calls the same operation of the same
  stream again — so at most one helper per direction can be outstanding. -/
namespace GB.Fwd
open GB.LTS
variable {M E : Type} [DecidableEq M] [DecidableEq E]

inductive Op | incRecv | incSend | outStream | outSend | outRecv
  deriving DecidableEq, Repr

def callOf : Label M E → Option Op
  | .incRecvCall => some .incRecv
  | .incSendCall _ => some .incSend
  | .outStreamCall => some .outStream
  | .outSendCall _ => some .outSend
  | .outRecvCall => some .outRecv
  | _ => none

def errRetOf : Label M E → Option Op
  | .incRecvRet (.err _) => some .incRecv
  | .incSendRet (.err _) => some .incSend
  | .outStreamRet (.err _) => some .outStream
  | .outSendRet (.err _) => some .outSend
  | .outRecvRet (.err _) => some .outRecv
  | _ => none

/-- the response pump is on its way out (it will not call outgoing.Recv again) -/
def OPc.finishing : OPc M E → Bool
  | .header _ k => k.isFinish | .setHeader _ k => k.isFinish | .trailer k => k.isFinish | .setTrailer k => k.isFinish
  | .exited => true
  | .absent => false | .recvCall _ => false | .recvPending _ => false | .recv2Call _ => false | .recv2Pending _ => false
  | .sendCall _ _ => false | .sendPending _ => false

/-- states in which operation `o` will never be called again -/
def dead (o : Op) (s : State M E) : Bool :=
  match o with
  | .incRecv => decide (s.i2o = .exited) || (decide (s.i2o = .absent) && s.main.returning)
  | .outSend => decide (s.i2o = .exited) || (decide (s.i2o = .absent) && s.main.returning)
  | .incSend => decide (s.o2i = .exited)
  | .outRecv => s.o2i.finishing
  | .outStream => !s.main.preStream

def errSeen (o : Op) (tr : List (Label M E)) : Bool := tr.any (fun l => decide (errRetOf l = some o))

attribute [local simp] MPc.returning
attribute [simp] OPc.finishing.eq_1 OPc.finishing.eq_2 OPc.finishing.eq_3 OPc.finishing.eq_4 OPc.finishing.eq_5 OPc.finishing.eq_6 OPc.finishing.eq_7 OPc.finishing.eq_8 OPc.finishing.eq_9 OPc.finishing.eq_10 OPc.finishing.eq_11 OPc.finishing.eq_12

@[simp] theorem After.pc_finishing (k : After M E) : k.pc.finishing = k.isFinish := by cases k <;> rfl

set_option maxHeartbeats 8000000 in
theorem dead_step (p : Params) (o : Op) (s s' : State M E) (l : Label M E) (hS : SInv p s)
    (hs : step p s l = some s') (h : dead o s = true ∨ errRetOf l = some o) : dead o s' = true := by
  obtain ⟨s1, hc, rfl⟩ := step_core hs
  clear hs
  have h1 := hS.pre_i
  have h2 := hS.pre_o
  clear hS
  cases o <;> simp only [dead] at h ⊢ <;>
    (cases l <;> simp only [stepCore] at hc <;> (repeat' split at hc) <;> (try cases hc) <;>
      simp_all [errRetOf] <;> (try (split <;> simp_all)) <;> (try (split <;> simp_all)))

set_option maxHeartbeats 8000000 in
theorem dead_no_call (p : Params) (o : Op) (s s' : State M E) (l : Label M E) (hS : SInv p s)
    (hd : dead o s = true) (hs : step p s l = some s') : callOf l ≠ some o := by
  obtain ⟨s1, hc, rfl⟩ := step_core hs
  clear hs
  have h1 := hS.pre_i
  have h2 := hS.pre_o
  clear hS
  cases o <;> simp only [dead] at hd <;>
    (cases l <;> simp only [stepCore] at hc <;> (repeat' split at hc) <;> (try cases hc) <;>
      simp_all [callOf])

theorem errSeen_dead {p : Params} {tr : List (Label M E)} {s : State M E} (h : Run p tr s) (o : Op)
    (he : errSeen o tr = true) : dead o s = true := by
  induction h with
  | init => simp [errSeen] at he
  | @step tr s l s' hr hs ih =>
    simp only [errSeen, List.any_append, List.any_cons, List.any_nil, Bool.or_false, Bool.or_eq_true,
      decide_eq_true_eq] at he
    rcases he with he | he
    · exact dead_step p o s s' l hr.sinv hs (Or.inl (ih he))
    · exact dead_step p o s s' l hr.sinv hs (Or.inr he)

end GB.Fwd
