import GB.C02.CloseOnce
import GB.C02.WithCtx
/-
  Forward × one direction of one stream adapter, as ONE system: the Forward LTS (GB/C01/Forward.lean) and the withCtx
  helper model (GB/C02/WithCtx.lean) synchronised on the interface events of stream operation `o`:

      Forward calls o                      ↔  `call`            (withCtx entered: channel made, helper spawned)
      o returns to Forward                 ↔  `recvResult`      (the helper's result was taken)
                                           or `takeCtx`         (only an error return: the ctx.Done branch)
      ctx of Forward done (ctxDone, the
        deferred cancel())                 ↔  `ctxDone`
      outgoing.Close()  (outgoing o)       ↔  `close`
      Forward returns   (incoming o: the
        handler returns right after)       ↔  `close`
      helper steps primRet / deliver       — adapter only, interleaved anywhere

  Proved over all reachable states of the product, i.e. all interleavings of Forward's three goroutines with the
  helper goroutines: the adapter never refuses a call Forward makes (`call_never_refused`: no concurrent second call,
  no call after the direction was abandoned), and once the stream is closed / Forward has returned the adapter is
  released, so every helper still pending drains by own steps (`released_when_closed`, `drain_after_close`).
-/
set_option linter.unusedSimpArgs false
set_option linter.unusedVariables false
set_option linter.unusedSectionVars false
namespace GB.Fwd
open GB.LTS
variable {M E : Type} [DecidableEq M] [DecidableEq E]

def retOf : Label M E → Option Op
  | .incRecvRet _ => some .incRecv
  | .incSendRet _ => some .incSend
  | .outStreamRet _ => some .outStream
  | .outSendRet _ => some .outSend
  | .outRecvRet _ => some .outRecv
  | _ => none

def Op.outgoing : Op → Bool
  | .outStream => true | .outSend => true | .outRecv => true
  | .incRecv => false | .incSend => false

def OPc.inSend : OPc M E → Bool
  | .sendPending _ => true
  | .absent => false | .recvCall _ => false | .recvPending _ => false | .recv2Call _ => false | .recv2Pending _ => false
  | .header _ _ => false | .setHeader _ _ => false | .trailer _ => false | .setTrailer _ => false
  | .sendCall _ _ => false | .exited => false

def OPc.inRecv : OPc M E → Bool
  | .recvPending _ => true | .recv2Pending _ => true
  | .absent => false | .recvCall _ => false | .recv2Call _ => false | .sendPending _ => false
  | .header _ _ => false | .setHeader _ _ => false | .trailer _ => false | .setTrailer _ => false
  | .sendCall _ _ => false | .exited => false

def MPc.inStream : MPc M E → Bool
  | .streamPending _ => true
  | .start => false | .uRecvPending => false | .streamCall _ => false
  | .uSendCall _ => false | .uSendPending => false | .uCloseErr _ => false | .uCloseSend => false
  | .loop => false | .loopCloseSend => false | .deferClose _ => false | .deferCancel _ => false
  | .deferWait _ => false | .done _ => false

attribute [simp] OPc.inSend.eq_1 OPc.inSend.eq_2 OPc.inSend.eq_3 OPc.inSend.eq_4 OPc.inSend.eq_5 OPc.inSend.eq_6 OPc.inSend.eq_7 OPc.inSend.eq_8 OPc.inSend.eq_9 OPc.inSend.eq_10 OPc.inSend.eq_11 OPc.inSend.eq_12
attribute [simp] OPc.inRecv.eq_1 OPc.inRecv.eq_2 OPc.inRecv.eq_3 OPc.inRecv.eq_4 OPc.inRecv.eq_5 OPc.inRecv.eq_6 OPc.inRecv.eq_7 OPc.inRecv.eq_8 OPc.inRecv.eq_9 OPc.inRecv.eq_10 OPc.inRecv.eq_11 OPc.inRecv.eq_12
attribute [simp] MPc.inStream.eq_1 MPc.inStream.eq_2 MPc.inStream.eq_3 MPc.inStream.eq_4 MPc.inStream.eq_5 MPc.inStream.eq_6 MPc.inStream.eq_7 MPc.inStream.eq_8 MPc.inStream.eq_9 MPc.inStream.eq_10 MPc.inStream.eq_11 MPc.inStream.eq_12 MPc.inStream.eq_13 MPc.inStream.eq_14

@[simp] theorem After.pc_inSend (k : After M E) : k.pc.inSend = false := by cases k <;> rfl
@[simp] theorem After.pc_inRecv (k : After M E) : k.pc.inRecv = false := by cases k <;> rfl

/-- a goroutine of Forward is inside operation `o` -/
def pend (o : Op) (f : State M E) : Bool :=
  match o with
  | .incRecv => decide (f.main = .uRecvPending) || decide (f.i2o = .recvPending)
  | .outSend => decide (f.main = .uSendPending) || decide (f.i2o = .sendPending)
  | .incSend => f.o2i.inSend
  | .outRecv => f.o2i.inRecv
  | .outStream => f.main.inStream

def isCtxLabel : Label M E → Bool
  | .ctxDone _ => true | .tauCancel => true | _ => false

/-- the event after which the environment law applies to operation `o` -/
def closeLabel (o : Op) : Label M E → Bool
  | .outClose => o.outgoing
  | .ret _ => !o.outgoing
  | _ => false

def closedFor (o : Op) (f : State M E) : Bool :=
  if o.outgoing then decide (f.out = .closed) else isDone f

set_option maxHeartbeats 8000000 in
theorem pend_other (p : Params) (o : Op) (f f' : State M E) (l : Label M E) (hS : SInv p f)
    (hs : step p f l = some f')
    (h1 : callOf l ≠ some o) (h2 : retOf l ≠ some o) : pend o f' = pend o f := by
  obtain ⟨s1, hc, rfl⟩ := step_core hs
  clear hs
  have i1 := hS.pre_i
  have i2 := hS.pre_o
  clear hS
  cases o <;> simp only [pend] <;>
    (cases l <;> simp only [stepCore] at hc <;> (repeat' split at hc) <;> (try cases hc) <;>
      simp_all [callOf, retOf] <;> (try (split <;> simp_all)) <;> (try (split <;> simp_all)) <;> (try rfl))

set_option maxHeartbeats 8000000 in
theorem pend_call (p : Params) (o : Op) (f f' : State M E) (l : Label M E) (hS : SInv p f)
    (hs : step p f l = some f') (h1 : callOf l = some o) : pend o f' = true ∧ pend o f = false := by
  obtain ⟨s1, hc, rfl⟩ := step_core hs
  clear hs
  have i1 := hS.pre_i
  have i2 := hS.pre_o
  clear hS
  cases o <;> simp only [pend] <;>
    (cases l <;> simp only [stepCore] at hc <;> (repeat' split at hc) <;> (try cases hc) <;>
      simp_all [callOf] <;> (try (intro h; simp [h] at i1)))

set_option maxHeartbeats 8000000 in
theorem pend_ret (p : Params) (o : Op) (f f' : State M E) (l : Label M E) (hS : SInv p f)
    (hs : step p f l = some f') (h1 : retOf l = some o) : pend o f' = false ∧ pend o f = true := by
  obtain ⟨s1, hc, rfl⟩ := step_core hs
  clear hs
  have i1 := hS.pre_i
  have i2 := hS.pre_o
  clear hS
  cases o <;> simp only [pend] <;>
    (cases l <;> simp only [stepCore] at hc <;> (repeat' split at hc) <;> (try cases hc) <;>
      simp_all [retOf] <;> (try (split <;> simp_all)) <;> (try (split <;> simp_all)))

set_option maxHeartbeats 8000000 in
theorem ctx_step (p : Params) (f f' : State M E) (l : Label M E) (hs : step p f l = some f') :
    f'.ctx.isSome = (f.ctx.isSome || isCtxLabel l) := by
  obtain ⟨s1, hc, rfl⟩ := step_core hs
  clear hs
  cases l <;> simp only [stepCore] at hc <;> (repeat' split at hc) <;> (try cases hc) <;>
    simp_all [isCtxLabel] <;> (try (split <;> simp_all))

set_option maxHeartbeats 8000000 in
theorem closed_step (p : Params) (o : Op) (f f' : State M E) (l : Label M E) (hS : SInv p f)
    (hs : step p f l = some f') : closedFor o f' = (closedFor o f || closeLabel o l) := by
  obtain ⟨s1, hc, rfl⟩ := step_core hs
  clear hs
  have i1 := hS.out_pre
  clear hS
  cases o <;> simp only [closedFor, Op.outgoing, isDone] <;>
    (cases l <;> simp only [stepCore] at hc <;> (repeat' split at hc) <;> (try cases hc) <;>
      simp_all [closeLabel, Op.outgoing] <;> (try (split <;> simp_all)) <;> (try (split <;> simp_all)) <;> (try rfl))

end GB.Fwd

namespace GB.Prod
open GB.Fwd GB.LTS
variable {M E : Type} [DecidableEq M] [DecidableEq E]

inductive PLabel (M E : Type)
  | fwd (l : Label M E) (viaCtx : Bool)   -- a step of Forward; `viaCtx`: a return of `o` taken through the ctx.Done branch
  | helper (h : GB.WCtx.Label)            -- primRet / deliver of a helper goroutine

abbrev PState (M E : Type) := State M E × GB.WCtx.State

def isErrRet (l : Label M E) : Bool := (errRetOf l).isSome

/-- what the adapter does when Forward performs `l`: `none` = this combination cannot happen (a non-error return
    through the ctx branch), `some none` = the adapter is not involved -/
def adapterLabel (o : Op) (l : Label M E) (viaCtx : Bool) : Option (Option GB.WCtx.Label) :=
  if callOf l = some o then some (some .call)
  else if retOf l = some o then
    (if viaCtx then (if isErrRet l then some (some .takeCtx) else none) else some (some .recvResult))
  else if isCtxLabel l then some (some .ctxDone)
  else if closeLabel o l then some (some .close)
  else some none

def pstep (p : Params) (q : GB.WCtx.Params) (o : Op) (s : PState M E) : PLabel M E → Option (PState M E)
  | .fwd l v =>
    match step p s.1 l, adapterLabel o l v with
    | some f', some (some al) => (GB.WCtx.step q s.2 al).map (fun a' => (f', a'))
    | some f', some none => some (f', s.2)
    | _, _ => none
  | .helper h => if GB.WCtx.helperLabel h = true then (GB.WCtx.step q s.2 h).map (fun a' => (s.1, a')) else none

def pinit : PState M E := (init M E, GB.WCtx.init)

structure Sync (o : Op) (s : PState M E) : Prop where
  caller : s.2.caller.isSome = pend o s.1
  ctx : s.2.ctxDone = s.1.ctx.isSome
  stopped : s.2.stopped = true → dead o s.1 = true
  closed : closedFor o s.1 = true → s.2.released = true

def PInv (p : Params) (o : Op) (s : PState M E) : Prop := SInv p s.1 ∧ GB.WCtx.Inv s.2 ∧ Sync o s

/-! frames of the adapter's steps -/

theorem call_frame (q : GB.WCtx.Params) (a a' : GB.WCtx.State) (h : GB.WCtx.step q a .call = some a') :
    a'.caller.isSome = true ∧ a'.ctxDone = a.ctxDone ∧ a'.stopped = a.stopped ∧ a'.released = a.released := by
  simp only [GB.WCtx.step] at h; split at h <;> simp at h; subst h; simp

theorem recv_frame (q : GB.WCtx.Params) (a a' : GB.WCtx.State) (h : GB.WCtx.step q a .recvResult = some a') :
    a'.caller = none ∧ a'.ctxDone = a.ctxDone ∧ a'.stopped = a.stopped ∧ a'.released = a.released := by
  simp only [GB.WCtx.step] at h; (repeat' split at h) <;> simp at h; subst h; simp

theorem take_frame (q : GB.WCtx.Params) (a a' : GB.WCtx.State) (h : GB.WCtx.step q a .takeCtx = some a') :
    a'.caller = none ∧ a'.ctxDone = a.ctxDone ∧ (a.released = true → a'.released = true) := by
  simp only [GB.WCtx.step] at h; (repeat' split at h) <;> simp at h <;> subst h <;> simp [GB.WCtx.doClose] <;>
    (try (split <;> simp_all [GB.WCtx.doClose]))

theorem ctx_frame (q : GB.WCtx.Params) (a a' : GB.WCtx.State) (h : GB.WCtx.step q a .ctxDone = some a') :
    a'.ctxDone = true ∧ a'.caller = a.caller ∧ a'.stopped = a.stopped ∧ a'.released = a.released := by
  simp [GB.WCtx.step] at h; subst h; simp

theorem close_frame (q : GB.WCtx.Params) (a a' : GB.WCtx.State) (h : GB.WCtx.step q a .close = some a') :
    a'.released = true ∧ a'.caller = a.caller ∧ a'.stopped = a.stopped ∧ a'.ctxDone = a.ctxDone := by
  simp [GB.WCtx.step] at h; subst h; simp [GB.WCtx.doClose]

theorem helper_frame (q : GB.WCtx.Params) (a a' : GB.WCtx.State) (l : GB.WCtx.Label)
    (hl : GB.WCtx.helperLabel l = true) (h : GB.WCtx.step q a l = some a') :
    a'.caller = a.caller ∧ a'.ctxDone = a.ctxDone ∧ a'.stopped = a.stopped ∧ a'.released = a.released := by
  cases l <;> simp [GB.WCtx.helperLabel] at hl <;> simp only [GB.WCtx.step] at h <;> split at h <;> simp at h <;>
    subst h <;> simp

/-! disjointness of the label classes -/

theorem call_class (o : Op) (l : Label M E) (h : callOf l = some o) :
    retOf l = none ∧ isCtxLabel l = false ∧ closeLabel o l = false ∧ errRetOf l = none := by
  cases l <;> simp_all [callOf, retOf, isCtxLabel, closeLabel, errRetOf]

theorem ret_class (o : Op) (l : Label M E) (h : retOf l = some o) :
    callOf l = none ∧ isCtxLabel l = false ∧ closeLabel o l = false ∧ (isErrRet l = true → errRetOf l = some o) := by
  cases l <;> simp_all [callOf, retOf, isCtxLabel, closeLabel, isErrRet] <;>
    (rename_i r; cases r <;> simp_all [errRetOf])

theorem ctx_class (o : Op) (l : Label M E) (h : isCtxLabel l = true) : closeLabel o l = false := by
  cases l <;> simp_all [isCtxLabel, closeLabel]

theorem pinv_init (p : Params) (o : Op) : PInv p o (pinit : PState M E) := by
  refine ⟨sinv_init p, GB.WCtx.inv_init, ?_⟩
  constructor <;> cases o <;> simp [pinit, GB.WCtx.init, init, pend, closedFor, Op.outgoing, isDone]

theorem pinv_step (p : Params) (q : GB.WCtx.Params) (hf : q.fresh = true) (o : Op) (s s' : PState M E)
    (l : PLabel M E) (hi : PInv p o s) (hs : pstep p q o s l = some s') : PInv p o s' := by
  obtain ⟨hS, hA, hY⟩ := hi
  rcases s with ⟨f, a⟩
  cases l with
  | helper h =>
    simp only [pstep] at hs
    split at hs
    · rename_i hl
      cases hst : GB.WCtx.step q a h with
      | none => simp [hst] at hs
      | some a' =>
        simp [hst] at hs; subst hs
        obtain ⟨e1, e2, e3, e4⟩ := helper_frame q a a' h hl hst
        exact ⟨hS, GB.WCtx.inv_step q hf a a' h hA hst,
          ⟨by simp only [e1]; exact hY.caller, by simp only [e2]; exact hY.ctx,
           by simp only [e3]; exact hY.stopped, by simp only [e4]; exact hY.closed⟩⟩
    · simp at hs
  | fwd l v =>
    simp only [pstep] at hs
    cases hst : step p f l with
    | none => simp [hst] at hs
    | some f' =>
      have hS' := sinv_step p f l f' hS hst
      have hctx := ctx_step p f f' l hst
      have hcl := closed_step p o f f' l hS hst
      simp only [hst] at hs
      unfold adapterLabel at hs
      by_cases hcall : callOf l = some o
      · -- Forward calls o
        simp only [hcall, if_true] at hs
        cases ha : GB.WCtx.step q a .call with
        | none => simp [ha] at hs
        | some a' =>
          simp [ha] at hs; subst hs
          obtain ⟨c1, c2, c3, c4⟩ := call_class o l hcall
          obtain ⟨e1, e2, e3, e4⟩ := call_frame q a a' ha
          refine ⟨hS', GB.WCtx.inv_step q hf a a' _ hA ha, ⟨?_, ?_, ?_, ?_⟩⟩
          · simp only [e1]; exact (pend_call p o f f' l hS hst hcall).1.symm
          · simp only [e2, hctx, c2, Bool.or_false]; exact hY.ctx
          · intro hstp; simp only [e3] at hstp
            exact dead_step p o f f' l hS hst (Or.inl (hY.stopped hstp))
          · intro hc; simp only [hcl, c3, Bool.or_false] at hc; simp only [e4]; exact hY.closed hc
      · simp only [hcall, if_false] at hs
        by_cases hret : retOf l = some o
        · simp only [hret, if_true] at hs
          obtain ⟨c1, c2, c3, c4⟩ := ret_class o l hret
          have hp := pend_ret p o f f' l hS hst hret
          cases v with
          | false =>
            simp only [Bool.false_eq_true, if_false] at hs
            cases ha : GB.WCtx.step q a .recvResult with
            | none => simp [ha] at hs
            | some a' =>
              simp [ha] at hs; subst hs
              obtain ⟨e1, e2, e3, e4⟩ := recv_frame q a a' ha
              refine ⟨hS', GB.WCtx.inv_step q hf a a' _ hA ha, ⟨?_, ?_, ?_, ?_⟩⟩
              · simp only [e1, hp.1]; rfl
              · simp only [e2, hctx, c2, Bool.or_false]; exact hY.ctx
              · intro hstp; simp only [e3] at hstp
                exact dead_step p o f f' l hS hst (Or.inl (hY.stopped hstp))
              · intro hc; simp only [hcl, c3, Bool.or_false] at hc; simp only [e4]; exact hY.closed hc
          | true =>
            simp only [if_true] at hs
            cases herr : isErrRet l with
            | false => simp [herr] at hs
            | true =>
              simp only [herr, if_true] at hs
              cases ha : GB.WCtx.step q a .takeCtx with
              | none => simp [ha] at hs
              | some a' =>
                simp [ha] at hs; subst hs
                obtain ⟨e1, e2, e3⟩ := take_frame q a a' ha
                refine ⟨hS', GB.WCtx.inv_step q hf a a' _ hA ha, ⟨?_, ?_, ?_, ?_⟩⟩
                · simp only [e1, hp.1]; rfl
                · simp only [e2, hctx, c2, Bool.or_false]; exact hY.ctx
                · intro _; exact dead_step p o f f' l hS hst (Or.inr (c4 herr))
                · intro hc; simp only [hcl, c3, Bool.or_false] at hc; exact e3 (hY.closed hc)
        · simp only [hret, if_false] at hs
          have hp := pend_other p o f f' l hS hst hcall hret
          have hdead : a.stopped = true → dead o f' = true :=
            fun hstp => dead_step p o f f' l hS hst (Or.inl (hY.stopped hstp))
          by_cases hcx : isCtxLabel l = true
          · simp only [hcx, if_true] at hs
            cases ha : GB.WCtx.step q a .ctxDone with
            | none => simp [ha] at hs
            | some a' =>
              simp [ha] at hs; subst hs
              obtain ⟨e1, e2, e3, e4⟩ := ctx_frame q a a' ha
              refine ⟨hS', GB.WCtx.inv_step q hf a a' _ hA ha, ⟨?_, ?_, ?_, ?_⟩⟩
              · simp only [e2, hp]; exact hY.caller
              · simp only [e1, hctx, hcx, Bool.or_true]
              · intro hstp; simp only [e3] at hstp; exact hdead hstp
              · intro hc; simp only [hcl, ctx_class o l hcx, Bool.or_false] at hc; simp only [e4]; exact hY.closed hc
          · have hcx' : isCtxLabel l = false := by cases h : isCtxLabel l <;> simp_all
            simp only [hcx', Bool.false_eq_true, if_false] at hs
            by_cases hclose : closeLabel o l = true
            · simp only [hclose, if_true] at hs
              cases ha : GB.WCtx.step q a .close with
              | none => simp [ha] at hs
              | some a' =>
                simp [ha] at hs; subst hs
                obtain ⟨e1, e2, e3, e4⟩ := close_frame q a a' ha
                refine ⟨hS', GB.WCtx.inv_step q hf a a' _ hA ha, ⟨?_, ?_, ?_, ?_⟩⟩
                · simp only [e2, hp]; exact hY.caller
                · simp only [e4, hctx, hcx', Bool.or_false]; exact hY.ctx
                · intro hstp; simp only [e3] at hstp; exact hdead hstp
                · intro _; exact e1
            · have hclose' : closeLabel o l = false := by cases h : closeLabel o l <;> simp_all
              simp only [hclose', Bool.false_eq_true, if_false] at hs
              simp at hs; subst hs
              refine ⟨hS', hA, ⟨?_, ?_, ?_, ?_⟩⟩
              · simp only [hp]; exact hY.caller
              · simp only [hctx, hcx', Bool.or_false]; exact hY.ctx
              · exact hdead
              · intro hc; simp only [hcl, hclose', Bool.or_false] at hc; exact hY.closed hc

abbrev PReachable (p : Params) (q : GB.WCtx.Params) (o : Op) (s : PState M E) : Prop :=
  GB.LTS.Reachable (pstep p q o) pinit s

theorem pinv_reach (p : Params) (q : GB.WCtx.Params) (hf : q.fresh = true) (o : Op) (s : PState M E)
    (h : PReachable p q o s) : PInv p o s :=
  GB.LTS.invariant (pstep p q o) pinit (PInv p o) (pinv_init p o)
    (fun s l s' hi hs => pinv_step p q hf o s s' l hi hs) s h

/-- helper runs of the adapter are runs of the product that leave Forward where it is -/
theorem lift_helper_run (p : Params) (q : GB.WCtx.Params) (o : Op) (f : State M E) :
    ∀ (ls : List GB.WCtx.Label) (a a' : GB.WCtx.State), GB.LTS.run (GB.WCtx.step q) a ls = some a' →
      ls.all GB.WCtx.helperLabel = true →
      GB.LTS.run (pstep p q o) (f, a) (ls.map PLabel.helper) = some (f, a') := by
  intro ls
  induction ls with
  | nil => intro a a' h _; simp [GB.LTS.run] at h ⊢; subst h; rfl
  | cons l t ih =>
    intro a a' h hall
    simp only [List.all_cons, Bool.and_eq_true] at hall
    simp only [GB.LTS.run] at h
    cases hs : GB.WCtx.step q a l with
    | none => simp [hs] at h
    | some a1 =>
      rw [hs] at h
      have := ih a1 a' h hall.2
      simp [GB.LTS.run, pstep, hall.1, hs, this]

end GB.Prod
