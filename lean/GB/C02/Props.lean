import GB.C02.Progress
import GB.C01.Status
import GB.Generated.Facts
import GB.C02.WsEpilogue
import GB.C02.Stable
import GB.C02.WithCtx
import GB.C02.CloseOnce
import GB.C02.Paths
import GB.C02.WsStall
import GB.C02.HttpEpilogue
import GB.C02.Product
import GB.C02.Discipline
/-
  C02 — every bridged call terminates promptly and releases its resources.

  Same LTS as C01 (GB/C01/Forward.lean). Faults are already in it: any pending call may return an error
  or EOF at any time and `ctxDone` may fire anywhere. `unilateral p s l` marks the steps Forward takes
  without cooperation of client or target: its own calls and internal steps and — once the context is
  done — the return of a blocked call of a ctx-AWARE adapter (`p.incAware` / `p.outAware`).
  `terminating s` = ctx cancelled ∨ the o2i pump delivered its result ∨ a non-EOF error was delivered by
  the i2o pump ∨ main is already on its way out.
-/
set_option linter.unusedSectionVars false
set_option linter.unusedVariables false
open GB.Fwd GB.LTS

variable {M E : Type} [DecidableEq M] [DecidableEq E]

/-- Progress: from every reachable state in which termination was triggered and Forward has not
    returned, a step exists that needs nobody's cooperation and strictly decreases `rank` — provided the
    blocked calls of both adapters observe the context. -/
theorem C02_progress (e0 : E) (p : Params) (s : State M E) (hr : Reachable p s)
    (ht : terminating s = true) (hd : isDone s = false) (hi : p.incAware = true) (ho : p.outAware = true) :
    ∃ l s', forced e0 p s = some l ∧ step p s l = some s' ∧ unilateral p s l = true ∧ rank s' < rank s :=
  progress e0 p s (sinv_reach p s hr) ht hd hi ho

/-- The rank is bounded by a constant: at most 19 own steps remain. -/
theorem C02_rank_bound (s : State M E) : rank s ≤ 19 := rank_le s

/-- Termination, once triggered, cannot be un-triggered by any step of anybody. -/
theorem C02_terminating_stable (p : Params) (s s' : State M E) (l : Label M E) (hr : Reachable p s)
    (ht : terminating s = true) (hs : step p s l = some s') : terminating s' = true :=
  terminating_stable p s s' l (sinv_reach p s hr) ht hs

/-- Bounded termination: from every reachable terminating state Forward reaches its return by a
    sequence of at most `rank s` (≤ 19) of its own steps, none of which needs the client or the target. -/
theorem C02_returns_within_rank (e0 : E) (p : Params) (hi : p.incAware = true) (ho : p.outAware = true) :
    ∀ (n : Nat) (s : State M E), Reachable p s → terminating s = true → rank s ≤ n →
      ∃ ls s', GB.LTS.run (step p) s ls = some s' ∧ isDone s' = true ∧ ls.length ≤ n := by
  intro n
  induction n with
  | zero =>
    intro s hr ht hn
    cases hd : isDone s with
    | true => exact ⟨[], s, rfl, hd, Nat.le_refl _⟩
    | false =>
      obtain ⟨l, s', _, _, _, hlt⟩ := C02_progress e0 p s hr ht hd hi ho
      omega
  | succ n ih =>
    intro s hr ht hn
    cases hd : isDone s with
    | true => exact ⟨[], s, rfl, hd, Nat.zero_le _⟩
    | false =>
      obtain ⟨l, s', _, hs, _, hlt⟩ := C02_progress e0 p s hr ht hd hi ho
      obtain ⟨ls, s2, hrun, hdone, hlen⟩ :=
        ih s' (Reachable.step hr hs) (C02_terminating_stable p s s' l hr ht hs) (by omega)
      refine ⟨l :: ls, s2, ?_, hdone, ?_⟩
      · simp [GB.LTS.run, hs, hrun]
      · simp; omega

/-- "A client idle on an open stream learns of the target's termination without having to send or close
    anything": the target's result has been delivered, the request pump is parked in Incoming.Recv and
    the client stays silent — Forward still returns on its own (ctx-aware incoming adapter). -/
theorem C02_idle_client (e0 : E) (p : Params) (s : State M E) (hr : Reachable p s)
    (hres : s.o2iCh.isSome = true) (hpark : s.i2o = .recvPending)
    (hi : p.incAware = true) (ho : p.outAware = true) :
    ∃ ls s', GB.LTS.run (step p) s ls = some s' ∧ isDone s' = true ∧ ls.length ≤ 19 := by
  have ht : terminating s = true := by simp [terminating, hres]
  exact C02_returns_within_rank e0 p hi ho 19 s hr ht (C02_rank_bound s)

/-- Cleanup at return: the outgoing stream is not left open (it was closed, or never created), both
    pumps have exited (or were never started), and the forwarding context is cancelled. -/
theorem C02_cleanup (p : Params) (s : State M E) (hr : Reachable p s) (hd : isDone s = true) :
    s.out ≠ .opened ∧ pumpsGone s = true ∧ s.ctx.isSome = true := by
  have S := sinv_reach p s hr
  unfold isDone at hd
  cases hm : s.main <;> simp [hm] at hd
  refine ⟨S.out_closed (by simp [hm]), S.done_gone (by simp [hm]), S.canc (by simp [hm])⟩

/-- While a pump is still running, Forward has not returned (wg.Wait). -/
theorem C02_no_return_before_pumps (p : Params) (s : State M E) (hr : Reachable p s)
    (h : pumpsGone s = false) : isDone s = false := by
  cases hd : isDone s with
  | false => rfl
  | true => have := (C02_cleanup p s hr hd).2.1; rw [h] at this; cases this

/-- Origin of the returned value, in every run (any faults, any schedule): nil only after the target's EOF
    (or the dropped second response of a misbehaving unary target); an error value only if some stream
    operation actually returned it; the context error only if an external cancellation / deadline of that
    kind came first; the two synthesized Unavailable errors only for a unary request answered by EOF /
    a unary response missing at EOF (`originOK`, GB/C01/Spec.lean — the same function the driver applies
    to every observed trace). -/
theorem C02_status (p : Params) (tr : List (Label M E)) (s : State M E) (h : Run p tr s)
    (e : Option (Err E)) (hd : s.main = .done e) : originOK p tr e = true :=
  returned_origin p tr s h e hd

/-- …and if only the target ended the call (no cancellation, no other error), the returned value is the
    target's status (`expectedReturn`, see C01_status / C01_status_error / C01_status_ok). -/
theorem C02_status_target (p : Params) (tr : List (Label M E)) (s : State M E) (h : Run p tr s)
    (e : Option (Err E)) (hd : s.main = .done e) (hf : hasFault tr = false) : expectedReturn p tr = some e :=
  returned_expected p tr s h e hd hf

/-! ### The adapter hypotheses of `C02_progress`, discharged by a regenerated fact

  `GB.Generated.ctxAwareIncoming / ctxAwareOutgoing` are re-extracted from the sources on every run
  (extract/c02.go): for Recv/Send of every ServerStream adapter (grpcServerStream in proxy.go, httpStream,
  gwsStream, gRPCWebStream, gRPCWebSocketStream) and for AdaptedClientStream.Recv/Send and
  AdaptedClientConn.Stream: does the operation select on its ctx parameter's Done channel, or hand it to
  a withCtx helper that does? -/

/-- Facts tie: every blocking stream operation in the repository observes its context. -/
theorem C02_facts_ctx_aware :
    GB.Generated.ctxAware.all (·.2) = true ∧ GB.Generated.ctxAwareIncoming.length = 10 ∧
    GB.Generated.ctxAwareOutgoing.length = 3 := by decide

/-- The adapters as they are in the repository now. -/
def C02_repoParams (cs ss : Bool) : Params :=
  { cs := cs, ss := ss, incAware := GB.Generated.ctxAwareIncoming.all (·.2),
    outAware := GB.Generated.ctxAwareOutgoing.all (·.2) }

/-- `C02_progress` / bounded termination for the repository's adapters, with no awareness hypothesis left. -/
theorem C02_progress_repo (e0 : E) (cs ss : Bool) (s : State M E) (hr : Reachable (C02_repoParams cs ss) s)
    (ht : terminating s = true) :
    ∃ ls s', GB.LTS.run (step (C02_repoParams cs ss)) s ls = some s' ∧ isDone s' = true ∧ ls.length ≤ 19 :=
  C02_returns_within_rank e0 (C02_repoParams cs ss)
    (show GB.Generated.ctxAwareIncoming.all (·.2) = true by decide)
    (show GB.Generated.ctxAwareOutgoing.all (·.2) = true by decide) 19 s hr ht (C02_rank_bound s)

/-- C12 enforcement on the whole call (instance of bounded termination): once the deadline (or any
    cancellation) has fired, Forward returns within ≤ 19 of its own steps wherever in the call it strikes —
    before stream creation, while waiting for the target, mid-stream, both sides idle. -/
theorem C02_deadline_enforced (e0 : E) (p : Params) (s : State M E) (hr : Reachable p s) (w : Why)
    (hc : s.ctx = some w) (hi : p.incAware = true) (ho : p.outAware = true) :
    ∃ ls s', GB.LTS.run (step p) s ls = some s' ∧ isDone s' = true ∧ ls.length ≤ 19 := by
  have ht : terminating s = true := by simp [terminating, hc]
  exact C02_returns_within_rank e0 p hi ho 19 s hr ht (C02_rank_bound s)

/-- C18(a) single owner: no stream operation ever has two goroutines of Forward inside it. Incoming.Recv and
    outgoing.Send are called by main only in forwardUnaryRequest, when the request pump does not exist;
    outgoing.CloseSend is called only when the request pump does not exist or has exited (so never
    concurrently with outgoing.Send). Incoming.Send/SetHeader/SetTrailer and outgoing.Recv/Header/Trailer are
    only ever called by the response pump (by construction of `stepCore`). Hence the
    `sendActive/recvActive` guards of the stream adapters cannot fire from Forward. -/
theorem C02_single_owner (p : Params) (s : State M E) (hr : Reachable p s) :
    (s.main = .uRecvPending → s.i2o = .absent) ∧ (s.main = .uSendPending → s.i2o = .absent) ∧
    (s.main = .uCloseSend → s.i2o = .absent) ∧ (s.main = .loopCloseSend → s.i2o = .exited) := by
  have S := sinv_reach p s hr
  refine ⟨fun h => S.pre_i (by simp [h]), fun h => S.pre_i (by simp [h]), fun h => S.pre_i (by simp [h]), S.lcs⟩

/-! ### The epilogue of the WebSocket handlers (GB/C02/WsEpilogue.lean)

  After Forward has returned, the handler sends the close frame (arming the connection deadline), closes
  `stream.done`, waits for ReadLoop (`wg.Wait()`), closes the connection and returns. A client message that
  arrives late puts ReadLoop into OnMessage, where it can only get out through `done` — nobody receives from
  `events` any more. -/

/-- Real order (`close(stream.done)` before `wg.Wait()`), for ANY number of late client messages and any
    interleaving: every step of every run decreases `rank` (so every run is at most `5 + 2·late` steps long),
    and in every reachable state in which the handler has not returned a step is enabled that needs nothing from
    the client (ReadLoop's OnMessage always has its `done` branch, ReadLoop itself ends with the client's answer or
    the connection deadline) — hence the handler returns, having closed the connection. -/
theorem C02_ws_epilogue_terminates (late : Nat) (s : GB.WsEp.State)
    (hr : GB.LTS.Reachable (GB.WsEp.step true) (GB.WsEp.init late) s) :
    GB.WsEp.rank s ≤ 5 + 2 * late ∧
    (∀ l s', GB.WsEp.step true s l = some s' → GB.WsEp.rank s' < GB.WsEp.rank s) ∧
    (s.h ≠ .returned → ∃ l, GB.WsEp.own l = true ∧ (GB.WsEp.step true s l).isSome = true) ∧
    (s.h = .returned → s.loop = .exited ∧ s.done = true) := by
  have hinv : GB.WsEp.Inv s ∧ GB.WsEp.rank s ≤ 5 + 2 * late := by
    refine GB.LTS.invariant (GB.WsEp.step true) (GB.WsEp.init late)
      (fun s => GB.WsEp.Inv s ∧ GB.WsEp.rank s ≤ 5 + 2 * late) ⟨GB.WsEp.inv_init late, ?_⟩ ?_ s hr
    · simp [GB.WsEp.rank, GB.WsEp.init, GB.WsEp.hRank, GB.WsEp.lRank]
    · intro s l s' ⟨hi, hk⟩ hs
      exact ⟨GB.WsEp.inv_step s s' l hi hs, Nat.le_trans (Nat.le_of_lt (GB.WsEp.rank_decreases true s s' l hs)) hk⟩
  refine ⟨hinv.2, fun l s' hs => GB.WsEp.rank_decreases true s s' l hs, GB.WsEp.progress s hinv.1, ?_⟩
  intro hret
  obtain ⟨h1, _, h3⟩ := hinv.1
  exact ⟨h3 (Or.inr hret), h1 (Or.inr (Or.inr hret))⟩

/-- Swapped defers (`wg.Wait()` before `close(stream.done)`), kernel-checked negative witness: ONE late client
    message suffices — the handler sits in wg.Wait(), ReadLoop sits in OnMessage, `done` is still open, and NO step
    at all is enabled any more: handler, ReadLoop and connection are stuck for ever (seeded change C02-m5). -/
theorem C02_ws_epilogue_swapped_deadlocks :
    ∃ s : GB.WsEp.State, GB.LTS.run (GB.WsEp.step false) (GB.WsEp.init 1) [.sendClose, .msgArrives] = some s ∧
      s.h = .first ∧ s.loop = .onMessage ∧ s.done = false ∧
      ∀ l : GB.WsEp.Label, GB.WsEp.step false s l = none := by
  refine ⟨{ h := .first, loop := .onMessage, done := false, armed := true, late := 0 }, by decide, rfl, rfl, rfl, ?_⟩
  intro l
  cases l <;> decide

/-- Facts tie (regenerated from webbridge/websocket.go and grpcweb.go on every run): on the way out of BOTH
    WebSocket handlers `close(stream.done)` is executed before `wg.Wait()` (plain statements in source order,
    deferred ones in reverse registration order), and no return statement bypasses a non-deferred epilogue. -/
theorem C02_facts_ws_epilogue_order :
    GB.Generated.wsEpilogueOrder =
      [("TranscodedWebSocketBridge.ServeHTTP", ["closeDone", "wgWait"]),
       ("GRPCWebSocketBridge.ServeHTTP", ["closeDone", "wgWait"])]
    ∧ GB.Generated.wsEpilogueSkips = [] := by
  decide

/-- The order parameter of the epilogue model, taken from the regenerated fact. -/
def C02_wsDoneFirst : Bool := GB.Generated.wsEpilogueOrder.all (fun x => x.2 == ["closeDone", "wgWait"])

/-- …so the termination theorem applies to the handlers as they are in the repository now. -/
theorem C02_ws_epilogue_repo (late : Nat) (s : GB.WsEp.State)
    (hr : GB.LTS.Reachable (GB.WsEp.step C02_wsDoneFirst) (GB.WsEp.init late) s) (hn : s.h ≠ .returned) :
    ∃ l, GB.WsEp.own l = true ∧ (GB.WsEp.step C02_wsDoneFirst s l).isSome = true := by
  have e : C02_wsDoneFirst = true := by decide
  rw [e] at hr ⊢
  exact (C02_ws_epilogue_terminates late s hr).2.2.1 hn

/-! ### D1: a ctx-IGNORING incoming adapter deadlocks (negative witness, kernel-checked)

  Bidirectional call, the target ends it (EOF) while the client is silent: the request pump stays
  parked in Incoming.Recv, the main goroutine runs Close, cancel and then blocks in wg.Wait forever.
  This is exactly proxy.go's `grpcServerStream.Recv/Send` before the fix (they ignored ctx). -/

def C02_d1 : Params := { cs := true, ss := true, incAware := false, outAware := true }

def C02_d1_trace : List (Label Nat Nat) :=
  [.outStreamCall, .outStreamRet .ok, .incRecvCall, .outRecvCall, .outRecvRet .eof, .outHeader, .incSetHeader,
   .outTrailer, .incSetTrailer, .tauSelO2I, .outClose, .tauCancel]

theorem C02_nonaware_hangs :
    ∃ s : State Nat Nat, Reachable C02_d1 s ∧ terminating s = true ∧ isDone s = false ∧
      s.i2o = .recvPending ∧ s.main = .deferWait none ∧
      ∀ l, unilateral C02_d1 s l = true → step C02_d1 s l = none := by
  have hrun : (GB.LTS.run (step C02_d1) (init Nat Nat) C02_d1_trace).isSome = true := by decide
  cases h : GB.LTS.run (step C02_d1) (init Nat Nat) C02_d1_trace with
  | none => rw [h] at hrun; cases hrun
  | some s =>
    have hm : (GB.LTS.run (step C02_d1) (init Nat Nat) C02_d1_trace).map
        (fun s => (s.main, s.i2o, s.o2i, s.ctx)) = some (.deferWait none, .recvPending, .exited, some .canceled) := by
      decide
    rw [h] at hm
    simp only [Option.map_some, Option.some.injEq, Prod.mk.injEq] at hm
    obtain ⟨m1, m2, m3, m4⟩ := hm
    refine ⟨s, run_reachable _ _ _ _ Reachable.init h, ?_, ?_, m2, m1, ?_⟩
    · simp [terminating, m4]
    · simp [isDone, m1]
    · intro l hl
      cases l <;> simp_all [unilateral, step, stepCore, C02_d1, pumpsGone] <;>
        (try (rename_i r; cases r <;> simp_all [unilateral]))

/-- …whereas with a ctx-aware adapter the very same schedule goes on to the return (the fixed proxy). -/
theorem C02_aware_returns :
    (GB.LTS.run (step { cs := true, ss := true, incAware := true, outAware := true }) (init Nat Nat)
      (C02_d1_trace ++ [.incRecvRet (.err 1), .ret none])).map isDone = some true := by
  decide

/-! ### Round 5 (a): the `withCtx` helper goroutines are inside the model (GB/C02/WithCtx.lean)

  One direction (Recv or Send) of one stream adapter: caller, helper goroutines, result channels, the context, and
  `released` (handler returned / stream context cancelled / connection closed). ENVIRONMENT LAW, explicit in
  `GB.WCtx.own`: the blocked library primitive returns once `released` holds. Everything below is over ALL runs:
  any caller (any number of calls and abandoned helpers), any interleaving. -/

/-- No helper ever blocks on its result channel: capacity ≥ 1 and one channel per call ⇒ whenever a helper's
    primitive has returned, its send `errChan <- f()` is enabled (so the goroutine exits: no leak once the
    primitive returns). -/
theorem C02_withctx_never_blocks (p : GB.WCtx.Params) (hf : p.fresh = true) (hc : 1 ≤ p.cap) (s : GB.WCtx.State)
    (hr : GB.WCtx.Reachable p s) (i : Nat) (hm : (i, true) ∈ s.helpers) :
    (GB.WCtx.step p s (.deliver i)).isSome = true :=
  GB.WCtx.deliver_enabled p hf hc s (GB.WCtx.inv_reach p hf s hr) i hm

/-- No cross-talk: every call that returned a result returned the result of the primitive invocation IT started
    (`got` = (call, tag of the invocation that produced the value)); a result abandoned by an earlier call can never
    be delivered into a later one. Buffered results belong to calls that are over and whose helper has exited. -/
theorem C02_withctx_no_crosstalk (p : GB.WCtx.Params) (hf : p.fresh = true) (s : GB.WCtx.State)
    (hr : GB.WCtx.Reachable p s) :
    (∀ g ∈ s.got, g.1 = g.2) ∧ (∀ b ∈ s.bufs, b.1 = b.2 ∧ ∀ h ∈ s.helpers, h.1 ≠ b.1) := by
  have hi := GB.WCtx.inv_reach p hf s hr
  exact ⟨hi.got, fun b hb => ⟨(hi.buf b hb).1, (hi.buf b hb).2.2⟩⟩

/-- At most one helper per direction is outstanding, given Forward's discipline (`stopAfterCtx`: no further call in
    a direction after a ctx error there — `C02_no_call_after_error`): while a call is in progress the only helper
    is its own, and between calls there is none unless the direction has been abandoned. -/
theorem C02_withctx_one_outstanding (p : GB.WCtx.Params) (hf : p.fresh = true) (hst : p.stopAfterCtx = true)
    (s : GB.WCtx.State) (hr : GB.WCtx.Reachable p s) :
    s.helpers.length ≤ 1 ∧ (∀ k, s.caller = some k → ∀ h ∈ s.helpers, h.1 = k) ∧
    (s.caller = none → s.stopped = false → s.helpers = []) := by
  have hd := GB.WCtx.dinv_reach p hf hst s hr
  exact ⟨hd.le1, hd.cur, hd.idle⟩

/-- Release: once the handler has returned / the stream was closed, the helpers drain — a schedule of at most
    2·(outstanding helpers) helper steps, each one an OWN step (environment law for `primRet`, `never_blocks` for
    the send), leads to a state without helper goroutines. -/
theorem C02_withctx_drains (p : GB.WCtx.Params) (hf : p.fresh = true) (hc : 1 ≤ p.cap) (s : GB.WCtx.State)
    (hr : GB.WCtx.Reachable p s) (hrel : s.released = true) :
    ∃ ls s', GB.LTS.run (GB.WCtx.step p) s ls = some s' ∧ s'.helpers = [] ∧ ls.length ≤ 2 * s.helpers.length ∧
      ls.all GB.WCtx.helperLabel = true :=
  GB.WCtx.drain p hf hc (2 * s.helpers.length) s (GB.WCtx.inv_reach p hf s hr) hrel (GB.WCtx.hrank_le s)

/-- …and in EVERY interleaving without a new call: helper steps taken + work left ≤ work there was, and while a
    helper is left in a released state an own helper step is enabled (rank argument, all schedules). -/
theorem C02_withctx_release_all_schedules (p : GB.WCtx.Params) (hf : p.fresh = true) (hc : 1 ≤ p.cap)
    (s : GB.WCtx.State) (hr : GB.WCtx.Reachable p s) (hrel : s.released = true) :
    (∀ ls s', GB.LTS.run (GB.WCtx.step p) s ls = some s' → ls.all (· != .call) = true →
        (ls.filter GB.WCtx.helperLabel).length + GB.WCtx.hrank s' ≤ GB.WCtx.hrank s) ∧
    (s.helpers ≠ [] → ∃ l s', GB.WCtx.helperLabel l = true ∧ GB.WCtx.own s l = true ∧
        GB.WCtx.step p s l = some s' ∧ GB.WCtx.hrank s' < GB.WCtx.hrank s) := by
  refine ⟨fun ls s' h ha => GB.WCtx.bounded_any_schedule p ls s s' h ha, fun hne => ?_⟩
  obtain ⟨l, s', h1, h2, h3⟩ := GB.WCtx.helper_progress p hf hc s (GB.WCtx.inv_reach p hf s hr) hrel hne
  exact ⟨l, s', h1, h2, h3, GB.WCtx.helper_step_decreases p s s' l h1 h3⟩

/-- `Close` = `closeFunc` = sync.OnceFunc(cancel): however often Close is called (Forward's deferred Close, the
    ctx.Done branch of every abandoned Recv/Send), the stream's cancel func runs at most once, and it has run iff
    the stream is released. -/
theorem C02_withctx_cancel_once (p : GB.WCtx.Params) (hf : p.fresh = true) (s : GB.WCtx.State)
    (hr : GB.WCtx.Reachable p s) : s.cancels ≤ 1 ∧ (s.released = true ↔ s.cancels = 1) :=
  (GB.WCtx.inv_reach p hf s hr).once

/-- AdaptedClientStream: a Recv/Send that is abandoned because the context is done closes the stream itself. -/
theorem C02_withctx_close_on_done (p : GB.WCtx.Params) (hc : p.closeOnDone = true) (s s' : GB.WCtx.State)
    (hs : GB.WCtx.step p s .takeCtx = some s') : s'.released = true := by
  simp only [GB.WCtx.step] at hs
  split at hs
  · split at hs <;> simp at hs
    subst hs; simp [hc, GB.WCtx.doClose]
  · simp at hs

/-- Negative witness (seeded change C02-m3, kernel-checked): with an UNBUFFERED result channel the helper of an
    abandoned call is reachable in the state "primitive returned, handler returned", and from there on — whatever
    anybody does, for ever — it is still blocked in `errChan <- f()`. -/
theorem C02_withctx_unbuffered_leaks :
    GB.LTS.run (GB.WCtx.step GB.WCtx.unbuffered) GB.WCtx.init [.call, .ctxDone, .takeCtx, .close, .primRet 0]
      = some GB.WCtx.leaked ∧
    ∀ ls s, GB.LTS.run (GB.WCtx.step GB.WCtx.unbuffered) GB.WCtx.leaked ls = some s →
      s.helpers = [(0, true)] ∧ GB.WCtx.step GB.WCtx.unbuffered s (.deliver 0) = none :=
  ⟨GB.WCtx.leaked_reached, GB.WCtx.leaked_forever⟩

/-- Negative witness (kernel-checked): with ONE channel shared by the calls of a stream, the result of an abandoned
    call 0 is returned by the later call 1. -/
theorem C02_withctx_shared_crosstalk :
    (GB.LTS.run (GB.WCtx.step GB.WCtx.shared) GB.WCtx.init
      [.call, .ctxDone, .takeCtx, .primRet 0, .deliver 0, .call, .recvResult]).map (·.got) = some [(1, 0)] := by
  decide

/-- Facts tie (regenerated from proxy.go, webbridge/http.go, grpcadapter/stream.go, grpcadapter/conn.go): every
    withCtx helper makes its result channel inside the call with capacity 1, its goroutine is exactly
    `errChan <- f()`, its select has exactly the two cases ctx.Done / receive from that channel; only the
    AdaptedClientStream one calls `s.Close()` in the ctx.Done branch; Close is `s.closeFunc()` and closeFunc is
    `sync.OnceFunc(cancel)` of a `context.WithCancel`. -/
theorem C02_facts_withctx_shape :
    GB.Generated.withCtxCap =
      [("grpcServerStream.withCtx", 1), ("webbridge.withCtx", 1), ("AdaptedClientStream.withCtx", 1)] ∧
    GB.Generated.withCtxLocalChan.all (·.2) = true ∧ GB.Generated.withCtxLocalChan.length = 3 ∧
    GB.Generated.withCtxOneSend.all (·.2) = true ∧ GB.Generated.withCtxOneSend.length = 3 ∧
    GB.Generated.withCtxSelect.all (fun x => decide (x.2 = ["ctxDone", "recvErrChan"])) = true ∧
    GB.Generated.withCtxSelect.length = 3 ∧
    GB.Generated.withCtxDoneCalls =
      [("grpcServerStream.withCtx", ["rpcutil.ContextError", "ctx.Err"]),
       ("webbridge.withCtx", ["rpcutil.ContextError", "ctx.Err"]),
       ("AdaptedClientStream.withCtx", ["s.Close", "rpcutil.ContextError", "ctx.Err"])] ∧
    GB.Generated.clientStreamClose =
      ["Close: s.closeFunc()", "cancel: context.WithCancel", "closeFunc: sync.OnceFunc(cancel)"] := by
  decide

/-- The parameters of the helper model, taken from the regenerated facts (`i` = index of the wrapper in the fact
    lists: 0 proxy grpcServerStream, 1 webbridge, 2 AdaptedClientStream). -/
def C02_withCtxParams (i : Nat) (stop : Bool) : GB.WCtx.Params :=
  { cap := ((GB.Generated.withCtxCap.map (·.2))[i]?).getD 0,
    fresh := ((GB.Generated.withCtxLocalChan.map (·.2))[i]?).getD false &&
             ((GB.Generated.withCtxOneSend.map (·.2))[i]?).getD false,
    closeOnDone := ((GB.Generated.withCtxDoneCalls.map (fun x => x.2.contains "s.Close"))[i]?).getD false,
    stopAfterCtx := stop }

/-- …so the theorems above apply to the three wrappers as they are in the repository now (no hypothesis left
    except the environment law): never blocked on the result channel, no cross-talk, and — the outgoing stream —
    an abandoned Recv/Send closes the stream. -/
theorem C02_withctx_repo (i : Nat) (hi : i < 3) (stop : Bool) (s : GB.WCtx.State)
    (hr : GB.WCtx.Reachable (C02_withCtxParams i stop) s) :
    (∀ k, (k, true) ∈ s.helpers → (GB.WCtx.step (C02_withCtxParams i stop) s (.deliver k)).isSome = true) ∧
    (∀ g ∈ s.got, g.1 = g.2) ∧
    (s.released = true → ∃ ls s', GB.LTS.run (GB.WCtx.step (C02_withCtxParams i stop)) s ls = some s' ∧
        s'.helpers = [] ∧ ls.length ≤ 2 * s.helpers.length) ∧
    (C02_withCtxParams 2 stop).closeOnDone = true := by
  have hf : (C02_withCtxParams i stop).fresh = true := by
    have : ∀ j, j < 3 → (C02_withCtxParams j stop).fresh = true := by cases stop <;> decide
    exact this i hi
  have hc : 1 ≤ (C02_withCtxParams i stop).cap := by
    have : ∀ j, j < 3 → 1 ≤ (C02_withCtxParams j stop).cap := by cases stop <;> decide
    exact this i hi
  refine ⟨fun k hk => C02_withctx_never_blocks _ hf hc s hr k hk, (C02_withctx_no_crosstalk _ hf s hr).1, ?_, by cases stop <;> decide⟩
  intro hrel
  obtain ⟨ls, s', h1, h2, h3, _⟩ := C02_withctx_drains _ hf hc s hr hrel
  exact ⟨ls, s', h1, h2, h3⟩

/-! ### Round 5 (b): `Close` of the outgoing stream — exactly once, and it releases what is still pending -/

/-- In every run of Forward (all kinds, peers, faults, interleavings) outgoing.Close() is called at most once, never
    without a stream; and once Forward has returned it has been called EXACTLY once iff the stream was created. -/
theorem C02_close_exactly_once (p : Params) (tr : List (Label M E)) (s : State M E) (h : Run p tr s) :
    closeCount tr ≤ 1 ∧ (closeCount tr = 1 → streamOpened tr = true) ∧
    (isDone s = true → closeCount tr = if streamOpened tr = true then 1 else 0) := by
  have C := cinv_run h
  have S := h.sinv
  have ho := streamOpened_eq tr
  refine ⟨?_, ?_, ?_⟩
  · rw [C.cnt]; split <;> omega
  · intro h1
    rw [ho, C.opened]
    rw [C.cnt] at h1
    cases hout : s.out <;> simp [hout] at h1 ⊢
  · intro hd
    have hnc : s.out ≠ .opened := by
      unfold isDone at hd
      cases hm : s.main <;> simp [hm] at hd
      exact S.out_closed (by simp [hm])
    rw [ho, C.opened, C.cnt]
    cases hout : s.out <;> simp [hout] at hnc ⊢

/-- After Forward has returned every outgoing operation still pending is released: Forward called Close exactly
    once (`C02_close_exactly_once`; Close = label `close` of the helper model with the AdaptedClientStream
    parameters), the stream's cancel func has run exactly once, and from ANY state of the outgoing stream's helper
    model in which that has happened the helpers of abandoned Recv/Send calls drain by own steps (rank ≤ 2 per
    helper) — in every interleaving, see `C02_withctx_release_all_schedules`. -/
theorem C02_close_releases_outgoing (p : Params) (tr : List (Label M E)) (s : State M E) (h : Run p tr s)
    (hd : isDone s = true) (ho : streamOpened tr = true) (stop : Bool) :
    closeCount tr = 1 ∧
    ∀ a : GB.WCtx.State, GB.WCtx.Reachable (C02_withCtxParams 2 stop) a → a.cancels = 1 →
      a.released = true ∧
      ∃ ls a', GB.LTS.run (GB.WCtx.step (C02_withCtxParams 2 stop)) a ls = some a' ∧ a'.helpers = [] ∧
        ls.length ≤ 2 * a.helpers.length ∧ ls.all GB.WCtx.helperLabel = true := by
  refine ⟨by rw [(C02_close_exactly_once p tr s h).2.2 hd, ho]; rfl, ?_⟩
  intro a ha hc1
  have hf : (C02_withCtxParams 2 stop).fresh = true := by cases stop <;> decide
  have hc : 1 ≤ (C02_withCtxParams 2 stop).cap := by cases stop <;> decide
  have hrel := (C02_withctx_cancel_once _ hf a ha).2.2 hc1
  exact ⟨hrel, C02_withctx_drains _ hf hc a ha hrel⟩

/-! ### Round 5 (c): every way out of the four web handlers and of Forward (GB/C02/Paths.lean) -/

/-- Facts tie: the programs (top-level statements as defer / ret / do tokens) regenerated from the sources. A moved
    defer, a new early return, a dropped finish()/close(done)/wg.Wait() changes this list. -/
theorem C02_facts_programs :
    GB.Generated.c02Programs =
      [("TranscodedHTTPBridge.ServeHTTP",
          [("ret", []), ("ret", ["respond"]), ("ret", ["respond", "respond"]), ("do", ["forward"]), ("do", ["finish"]),
           ("do", ["respond"])]),
       ("GRPCWebBridge.ServeHTTP", [("ret", ["respond"]), ("do", ["forward"]), ("do", ["finish"]), ("do", ["respond"])]),
       ("TranscodedWebSocketBridge.ServeHTTP",
          [("ret", []), ("do", ["upgrade"]), ("ret", ["respond"]), ("defer", ["netClose"]), ("do", ["goReadLoop"]),
           ("do", ["forward"]), ("do", ["sendClose"]), ("do", ["closeDone"]), ("do", ["wgWait"])]),
       ("GRPCWebSocketBridge.ServeHTTP",
          [("do", ["upgrade"]), ("ret", ["respond"]), ("defer", ["netClose"]), ("do", ["goReadLoop"]),
           ("defer", ["closeDone", "wgWait"]), ("ret", []), ("ret", ["sendTrailer"]), ("do", ["forward"]),
           ("do", ["sendTrailer"])]),
       ("ProxyForwarder.Forward",
          [("defer", ["wgWait"]), ("defer", ["cancel"]), ("ret", []), ("defer", ["outClose"]), ("do", ["goPump"]),
           ("ret", [])])] ∧
    GB.Generated.c02StreamSites = ["grpcadapter/forwarder.go:stream"] := by
  decide

/-- The resource-release clause on EVERY way out of the four web entry points (normal end, forwarding error,
    client gone — these three leave through the end of the function —, and each early return before or after the
    resources exist), computed from the regenerated programs:
    * WebSocket handlers: a way out that started ReadLoop executes close(stream.done) exactly once, then wg.Wait()
      exactly once, then closes the connection as its last action; Forward runs at most once, after `go ReadLoop` and
      before close(done); a way out that did not start ReadLoop has no Forward, no close(done), no wg.Wait();
      inside the ReadLoop goroutine cancel() precedes wg.Done(), so after wg.Wait() the handler's ctx is cancelled.
    * HTTP handlers: Forward at most once; after it finish() exactly once and before the handler writes anything;
      the early returns come before Forward (no outgoing stream exists: `c02StreamSites` — streams are created in
      forwarder.go only, and closed there exactly once: `C02_close_exactly_once`).
    * Forward: every way out ends with cancel() then wg.Wait(); after the stream exists outgoing.Close() comes first.
    The order close(done) → wg.Wait() is what `C02_ws_epilogue_terminates` needs; `C02_cleanup` gives the
    ctx-cancelled / pumps-gone part inside Forward. -/
theorem C02_release_on_every_path :
    (GB.Paths.paths (GB.Paths.lookup "TranscodedHTTPBridge.ServeHTTP" GB.Generated.c02Programs)).all GB.Paths.httpPathOK = true ∧
    (GB.Paths.paths (GB.Paths.lookup "GRPCWebBridge.ServeHTTP" GB.Generated.c02Programs)).all GB.Paths.httpPathOK = true ∧
    (GB.Paths.paths (GB.Paths.lookup "TranscodedWebSocketBridge.ServeHTTP" GB.Generated.c02Programs)).all GB.Paths.wsPathOK = true ∧
    (GB.Paths.paths (GB.Paths.lookup "GRPCWebSocketBridge.ServeHTTP" GB.Generated.c02Programs)).all GB.Paths.wsPathOK = true ∧
    (GB.Paths.paths (GB.Paths.lookup "ProxyForwarder.Forward" GB.Generated.c02Programs)).all GB.Paths.fwdPathOK = true ∧
    ((GB.Generated.c02GoBodies.filter (fun x => decide (x.1 = "TranscodedWebSocketBridge.ServeHTTP") ||
        decide (x.1 = "GRPCWebSocketBridge.ServeHTTP"))).all
      (fun x => decide (x.2.length = 1) && x.2.all GB.Paths.goBodyOK)) = true ∧
    (GB.Paths.paths (GB.Paths.lookup "TranscodedHTTPBridge.ServeHTTP" GB.Generated.c02Programs)).length = 4 ∧
    (GB.Paths.paths (GB.Paths.lookup "GRPCWebBridge.ServeHTTP" GB.Generated.c02Programs)).length = 2 ∧
    (GB.Paths.paths (GB.Paths.lookup "TranscodedWebSocketBridge.ServeHTTP" GB.Generated.c02Programs)).length = 3 ∧
    (GB.Paths.paths (GB.Paths.lookup "GRPCWebSocketBridge.ServeHTTP" GB.Generated.c02Programs)).length = 4 := by
  decide

/-- Non-vacuity / what the computed ways out look like (normal way out of each handler). -/
theorem C02_paths_examples :
    (GB.Paths.paths (GB.Paths.lookup "TranscodedWebSocketBridge.ServeHTTP" GB.Generated.c02Programs)).getLast? =
      some ["upgrade", "goReadLoop", "forward", "sendClose", "closeDone", "wgWait", "netClose"] ∧
    (GB.Paths.paths (GB.Paths.lookup "GRPCWebSocketBridge.ServeHTTP" GB.Generated.c02Programs)) =
      [["upgrade", "respond"], ["upgrade", "goReadLoop", "closeDone", "wgWait", "netClose"],
       ["upgrade", "goReadLoop", "sendTrailer", "closeDone", "wgWait", "netClose"],
       ["upgrade", "goReadLoop", "forward", "sendTrailer", "closeDone", "wgWait", "netClose"]] ∧
    (GB.Paths.paths (GB.Paths.lookup "ProxyForwarder.Forward" GB.Generated.c02Programs)) =
      [["cancel", "wgWait"], ["goPump", "outClose", "cancel", "wgWait"], ["goPump", "outClose", "cancel", "wgWait"]] ∧
    -- a handler with the defers swapped is rejected
    GB.Paths.wsPathOK ["upgrade", "goReadLoop", "forward", "wgWait", "closeDone", "netClose"] = false ∧
    GB.Paths.httpPathOK ["forward", "respond", "finish"] = false := by
  decide

/-! ### Round 5 (d): Forward's discipline towards the adapters (`stopAfterCtx` of the helper model) -/

/-- In every run of Forward: once a stream operation (Incoming.Recv / Incoming.Send / Outgoing.Stream /
    outgoing.Send / outgoing.Recv) has returned an error — in particular the ctx error of an abandoned withCtx call —
    Forward never calls that operation again: no later step of the run is a call of it. Hence per direction at most
    one abandoned helper exists (`C02_withctx_one_outstanding`). -/
theorem C02_no_call_after_error (p : Params) (tr : List (Label M E)) (s : State M E) (h : Run p tr s) (o : Op)
    (he : errSeen o tr = true) : ∀ l s', step p s l = some s' → callOf l ≠ some o :=
  fun l s' hs => dead_no_call p o s s' l h.sinv (errSeen_dead h o he) hs

/-- non-vacuity: a run in which outgoing.Send failed; the request pump has exited and a further Send is refused -/
example : (GB.LTS.run (step (M := Nat) (E := Nat) { cs := true, ss := true, incAware := true, outAware := true }) (init Nat Nat)
    [.outStreamCall, .outStreamRet .ok, .incRecvCall, .incRecvRet (.msg 1), .outSendCall 1, .outSendRet (.err 7),
     .outSendCall 1]).isNone = true := by decide

/-! ### Round 5 (e): a WebSocket client that has stopped reading (seeded change C02-m9; twin of D35)

  GB/C02/WsStall.lean: the start of the epilogue when a response write abandoned by withCtx is still blocked inside
  gws WriteMessage (holding gws's write mutex) because the client does not read. -/

/-- Real order (deadline armed BEFORE the close frame is written): for a reading or a stalled client, with or without
    a blocked writer, every step decreases `rank` (≤ 7) and some step of the bridge is enabled until the handler has
    returned — the blocked write and ReadLoop end by the connection deadline, nothing waits for the client. -/
theorem C02_ws_stall_terminates (stalled writer : Bool) (s : GB.WsStall.State)
    (hr : GB.LTS.Reachable (GB.WsStall.step true stalled) (GB.WsStall.init true writer) s) :
    GB.WsStall.rank s ≤ 7 ∧
    (∀ l s', GB.WsStall.step true stalled s l = some s' → GB.WsStall.rank s' < GB.WsStall.rank s) ∧
    (s.h ≠ .returned → ∃ l, (GB.WsStall.step true stalled s l).isSome = true) := by
  have hinv : GB.WsStall.Inv s ∧ GB.WsStall.rank s ≤ 7 := by
    refine GB.LTS.invariant (GB.WsStall.step true stalled) (GB.WsStall.init true writer)
      (fun s => GB.WsStall.Inv s ∧ GB.WsStall.rank s ≤ 7) ⟨GB.WsStall.inv_init writer, ?_⟩ ?_ s hr
    · cases writer <;> simp [GB.WsStall.rank, GB.WsStall.init, GB.WsStall.hRank]
    · intro s l s' ⟨hi, hk⟩ hs
      exact ⟨GB.WsStall.inv_step stalled s s' l hi hs,
        Nat.le_trans (Nat.le_of_lt (GB.WsStall.rank_decreases stalled s s' l hi hs)) hk⟩
  exact ⟨hinv.2, fun l s' hs => GB.WsStall.rank_decreases stalled s s' l hinv.1 hs,
    GB.WsStall.progress stalled s hinv.1⟩

/-- Swapped statements (close frame written BEFORE the deadline is armed), kernel-checked negative witness: stalled
    client + blocked writer ⇒ in the very first state NO step is enabled — the handler waits for the write mutex, the
    writer and ReadLoop wait for a deadline nobody will set: handler, ReadLoop and helper stay until the client's TCP
    connection goes away (seeded change C02-m9; harness case `web en=ws sc=stall`). -/
theorem C02_ws_stall_swapped_deadlocks :
    ∀ l : GB.WsStall.Label, GB.WsStall.step false true (GB.WsStall.init false true) l = none := by
  intro l; cases l <;> decide

/-- Facts tie (regenerated from webbridge/websocket.go and grpcweb.go): closeGracefully arms the connection deadline
    before its write; sendTrailer arms it before it takes the send mutex and again before its writes (D35). -/
theorem C02_facts_ws_close_order :
    GB.Generated.wsCloseOrder =
      [("closeGracefully", ["SetDeadline", "WriteMessage"]),
       ("gRPCWebSocketStream.sendTrailer", ["SetDeadline", "Lock", "SetDeadline", "WriteMessage", "closeGracefully"])] := by
  decide

/-- the order parameter of the stall model, from the fact: in both functions the first operation is SetDeadline -/
def C02_wsDeadlineFirst : Bool := GB.Generated.wsCloseOrder.all (fun x => decide (x.2.head? = some "SetDeadline"))

theorem C02_ws_stall_repo (stalled writer : Bool) (s : GB.WsStall.State)
    (hr : GB.LTS.Reachable (GB.WsStall.step C02_wsDeadlineFirst stalled) (GB.WsStall.init C02_wsDeadlineFirst writer) s)
    (hn : s.h ≠ .returned) : ∃ l, (GB.WsStall.step C02_wsDeadlineFirst stalled s l).isSome = true := by
  have e : C02_wsDeadlineFirst = true := by decide
  rw [e] at hr ⊢
  exact (C02_ws_stall_terminates stalled writer s hr).2.2 hn

/-! ### Round 5 (f): the epilogue of the two HTTP handlers (GB/C02/HttpEpilogue.lean)

  After Forward returned at most one Send helper abandoned by withCtx can still be inside `send` (by
  `C02_withctx_one_outstanding`); the handler takes the response over with finish() and only then writes. -/

/-- For every state the abandoned helper can be in when Forward returns (none / before the mutex / writing / exited),
    in every interleaving: every step decreases `rank` (≤ 4); once the handler has taken the response over the helper
    is not writing and never starts a write (`lateWrites = 0`: nothing is written behind the handler's back or after
    ServeHTTP returned); and — under the environment law that a blocked response Write returns (client reads, server
    WriteTimeout, connection gone) — an own step is enabled until the handler has returned. -/
theorem C02_http_epilogue_terminates (w : GB.HttpEp.WPc) (s : GB.HttpEp.State)
    (hr : GB.LTS.Reachable (GB.HttpEp.step true) (GB.HttpEp.init w) s) :
    GB.HttpEp.rank s ≤ 4 ∧
    (∀ l s', GB.HttpEp.step true s l = some s' → GB.HttpEp.rank s' < GB.HttpEp.rank s) ∧
    (s.h ≠ .finish → s.w ≠ .writing) ∧ s.lateWrites = 0 ∧
    (s.h ≠ .returned → ∃ l, GB.HttpEp.own true l = true ∧ (GB.HttpEp.step true s l).isSome = true) := by
  have hinv : GB.HttpEp.Inv s ∧ GB.HttpEp.rank s ≤ 4 := by
    refine GB.LTS.invariant (GB.HttpEp.step true) (GB.HttpEp.init w)
      (fun s => GB.HttpEp.Inv s ∧ GB.HttpEp.rank s ≤ 4) ⟨GB.HttpEp.inv_init w, ?_⟩ ?_ s hr
    · cases w <;> simp [GB.HttpEp.rank, GB.HttpEp.init, GB.HttpEp.hRank, GB.HttpEp.wRank]
    · intro s l s' ⟨hi, hk⟩ hs
      exact ⟨GB.HttpEp.inv_step s s' l hi hs,
        Nat.le_trans (Nat.le_of_lt (GB.HttpEp.rank_decreases true s s' l hs)) hk⟩
  obtain ⟨⟨h1, h2, h3⟩, hk⟩ := hinv
  exact ⟨hk, fun l s' hs => GB.HttpEp.rank_decreases true s s' l hs, fun hne => h2 (h1 hne), h3,
    GB.HttpEp.progress s⟩

/-- Negative witnesses (kernel-checked). (1) A send that does not look at `finished` under the mutex writes after the
    handler has taken the response over. (2) What is NOT guaranteed: while the helper's Write is blocked (client not
    reading) the handler waits in finish(); without the environment law no own step exists — the HTTP entry points are
    bounded only by the server's WriteTimeout / the client going away (assumption in props/C02.json, cf. D35). -/
theorem C02_http_epilogue_negative :
    ((GB.LTS.run (GB.HttpEp.step false) (GB.HttpEp.init .beforeLock) [.hFinish, .wLock]).map (·.lateWrites) = some 1) ∧
    (∀ l, GB.HttpEp.own false l = true → GB.HttpEp.step true (GB.HttpEp.init .writing) l = none) := by
  refine ⟨by decide, ?_⟩
  intro l; cases l <;> decide

/-- Facts tie (regenerated from webbridge/http.go and grpcweb.go): in both `send` functions the first response write
    comes after `mu.Lock()` and after the `if s.finished { return }` check; both `finish` are Lock, finished = true,
    Unlock; and in both handlers finish() comes between Forward and the handler's own write (`C02_release_on_every_path`). -/
theorem C02_facts_http_send_order :
    GB.Generated.httpSendOrder =
      [("httpStream.send", ["waitRead", "Lock", "deferUnlock", "ifFinishedReturn", "Write", "Write", "Write"]),
       ("gRPCWebStream.send", ["Lock", "deferUnlock", "ifFinishedReturn", "Write"]),
       ("httpStream.finish", ["Lock", "setFinished", "Unlock"]),
       ("gRPCWebStream.finish", ["Lock", "setFinished", "Unlock"])] := by
  decide

/-- the `checked` parameter of the HTTP epilogue model, from the fact -/
def C02_httpSendChecked : Bool :=
  (GB.Generated.httpSendOrder.filter (fun x => decide (x.1 = "httpStream.send") || decide (x.1 = "gRPCWebStream.send"))).all
    (fun x => decide ((x.2.filter (fun t => decide (t = "Lock") || decide (t = "ifFinishedReturn") || decide (t = "Write"))).take 3
      = ["Lock", "ifFinishedReturn", "Write"]))

theorem C02_http_epilogue_repo (w : GB.HttpEp.WPc) (s : GB.HttpEp.State)
    (hr : GB.LTS.Reachable (GB.HttpEp.step C02_httpSendChecked) (GB.HttpEp.init w) s) :
    s.lateWrites = 0 ∧ (s.h ≠ .finish → s.w ≠ .writing) := by
  have e : C02_httpSendChecked = true := by decide
  rw [e] at hr
  have := C02_http_epilogue_terminates w s hr
  exact ⟨this.2.2.2.1, this.2.2.1⟩

/-! ### Round 5 (g): Forward × adapter as ONE system (GB/C02/Product.lean)

  The Forward LTS and the withCtx helper model of one stream operation `o` (Incoming.Recv / Incoming.Send /
  Outgoing.Stream / outgoing.Send / outgoing.Recv), synchronised on the calls and returns of `o`, on the context
  becoming done (external cancellation or the deferred cancel()), and on `close` (outgoing.Close() for the outgoing
  operations, the return of Forward for the incoming ones); helper steps interleave freely. All statements are over
  every reachable state of the product: all RPC kinds, peers, faults and interleavings of Forward's goroutines WITH the
  helper goroutines. -/

/-- The adapter never refuses a call Forward makes: whenever Forward can call `o`, no other call of `o` is in
    progress (the `sendActive/recvActive` guard cannot fire) and the direction has not been abandoned. -/
theorem C02_product_call_never_refused (p : Params) (q : GB.WCtx.Params) (hf : q.fresh = true) (o : Op)
    (s : GB.Prod.PState M E) (hr : GB.Prod.PReachable p q o s) (l : Label M E) (f' : State M E)
    (hs : step p s.1 l = some f') (hc : callOf l = some o) : (GB.WCtx.step q s.2 .call).isSome = true := by
  obtain ⟨hS, _, hY⟩ := GB.Prod.pinv_reach p q hf o s hr
  have hp := (pend_call p o s.1 f' l hS hs hc).2
  have h1 : s.2.caller = none := by
    have := hY.caller; rw [hp] at this
    cases hcl : s.2.caller <;> simp_all
  have h2 : s.2.stopped = false := by
    cases hst : s.2.stopped with
    | false => rfl
    | true => exact absurd hc (dead_no_call p o s.1 f' l hS (hY.stopped hst) hs)
  simp [GB.WCtx.step, h1, h2]

/-- ctx-awareness of the adapter is a THEOREM of the helper model (it was the hypothesis `incAware/outAware` of
    `C02_progress`): whenever a goroutine of Forward is inside `o` and the forwarding context is done, the adapter's
    ctx.Done branch is enabled — the call returns without the peer. -/
theorem C02_product_ctx_return_enabled (p : Params) (q : GB.WCtx.Params) (hf : q.fresh = true) (o : Op)
    (s : GB.Prod.PState M E) (hr : GB.Prod.PReachable p q o s) (hp : pend o s.1 = true)
    (hc : s.1.ctx.isSome = true) : (GB.WCtx.step q s.2 .takeCtx).isSome = true := by
  obtain ⟨_, _, hY⟩ := GB.Prod.pinv_reach p q hf o s hr
  have h1 := hY.caller; rw [hp] at h1
  have h2 := hY.ctx; rw [hc] at h2
  cases hcl : s.2.caller with
  | none => simp [hcl] at h1
  | some k => simp [GB.WCtx.step, hcl, h2]

/-- After outgoing.Close() (outgoing operations) / after Forward has returned (incoming operations) the adapter is
    released — in particular at the return of Forward whenever the stream existed — … -/
theorem C02_product_released_when_closed (p : Params) (q : GB.WCtx.Params) (hf : q.fresh = true) (o : Op)
    (s : GB.Prod.PState M E) (hr : GB.Prod.PReachable p q o s) (hc : closedFor o s.1 = true) :
    s.2.released = true :=
  (GB.Prod.pinv_reach p q hf o s hr).2.2.closed hc

/-- …and every operation of the stream still pending then (the helpers of abandoned calls) is released: the product
    has a run of at most 2·(outstanding helpers) helper steps, each an own step under the environment law, that leaves
    Forward where it is and ends with no helper goroutine. (All schedules: `C02_withctx_release_all_schedules`.) -/
theorem C02_product_drain_after_close (p : Params) (q : GB.WCtx.Params) (hf : q.fresh = true) (hcap : 1 ≤ q.cap)
    (o : Op) (s : GB.Prod.PState M E) (hr : GB.Prod.PReachable p q o s) (hc : closedFor o s.1 = true) :
    ∃ (ls : List GB.WCtx.Label) (s' : GB.Prod.PState M E),
      GB.LTS.run (GB.Prod.pstep p q o) s (ls.map GB.Prod.PLabel.helper) = some s' ∧ s'.1 = s.1 ∧
      s'.2.helpers = [] ∧ ls.length ≤ 2 * s.2.helpers.length := by
  obtain ⟨_, hA, hY⟩ := GB.Prod.pinv_reach p q hf o s hr
  obtain ⟨ls, a', h1, h2, h3, h4⟩ :=
    GB.WCtx.drain q hf hcap (2 * s.2.helpers.length) s.2 hA (hY.closed hc) (GB.WCtx.hrank_le s.2)
  exact ⟨ls, (s.1, a'), GB.Prod.lift_helper_run p q o s.1 ls s.2 a' h1 h4, rfl, h2, h3⟩

/-- At the return of Forward: if the stream was created, every outgoing operation is released (instance of the two
    theorems above with `C02_cleanup`: at return the stream is not left open). -/
theorem C02_product_return_releases_outgoing (p : Params) (q : GB.WCtx.Params) (hf : q.fresh = true) (o : Op)
    (ho : o.outgoing = true) (s : GB.Prod.PState M E) (hr : GB.Prod.PReachable p q o s) (hd : isDone s.1 = true)
    (hex : s.1.out ≠ .none) : s.2.released = true := by
  obtain ⟨hS, _, hY⟩ := GB.Prod.pinv_reach p q hf o s hr
  apply hY.closed
  have hno : s.1.out ≠ .opened := by
    unfold isDone at hd
    cases hm : s.1.main <;> simp [hm] at hd
    exact hS.out_closed (by simp [hm])
  simp only [closedFor, ho, if_true]
  cases hout : s.1.out <;> simp_all

/-- …for the three wrappers as they are in the repository (parameters from the regenerated facts): every call Forward
    makes is accepted, a done context always releases a call in progress, and a closed stream / returned Forward leaves
    only helpers that drain. -/
theorem C02_product_repo (p : Params) (i : Nat) (hi : i < 3) (stop : Bool) (o : Op)
    (s : GB.Prod.PState M E) (hr : GB.Prod.PReachable p (C02_withCtxParams i stop) o s) :
    (∀ l f', step p s.1 l = some f' → callOf l = some o →
        (GB.WCtx.step (C02_withCtxParams i stop) s.2 .call).isSome = true) ∧
    (pend o s.1 = true → s.1.ctx.isSome = true →
        (GB.WCtx.step (C02_withCtxParams i stop) s.2 .takeCtx).isSome = true) ∧
    (closedFor o s.1 = true → s.2.released = true) := by
  have hf : (C02_withCtxParams i stop).fresh = true := by
    have : ∀ j, j < 3 → (C02_withCtxParams j stop).fresh = true := by cases stop <;> decide
    exact this i hi
  exact ⟨fun l f' hs hc => C02_product_call_never_refused p _ hf o s hr l f' hs hc,
    fun hp hc => C02_product_ctx_return_enabled p _ hf o s hr hp hc,
    fun hc => C02_product_released_when_closed p _ hf o s hr hc⟩

/-- non-vacuity: a product run — bidi call, the request pump's outgoing.Send is abandoned through the ctx branch after
    a cancellation (the AdaptedClientStream closes itself), its helper is still inside SendMsg when Forward's deferred
    Close runs; afterwards the helper's primitive returns and it delivers into its own buffered channel and exits. -/
example :
    ((GB.LTS.run (GB.Prod.pstep (M := Nat) (E := Nat) { cs := true, ss := true, incAware := true, outAware := true }
        (GB.WCtx.repo true true) .outSend) GB.Prod.pinit
      [.fwd .outStreamCall false, .fwd (.outStreamRet .ok) false, .fwd .incRecvCall false, .fwd (.incRecvRet (.msg 1)) false,
       .fwd (.outSendCall 1) false, .fwd (.ctxDone .canceled) false, .fwd (.outSendRet (.err 9)) true,
       .fwd .tauSelCtx false, .fwd .outClose false, .helper (.primRet 0), .helper (.deliver 0)]).map
      (fun s => (s.2.released, s.2.helpers, s.2.cancels, s.2.bufs))) = some (true, [], 1, [(0, 0)]) := by
  decide

/-- The unilateral return steps that `C02_progress` relies on are REAL steps of the product: whenever Forward's model
    may take the error return of `o` on its own (ctx done, aware adapter — `unilateral`), the adapter of `o` can take its
    ctx.Done branch, so the synchronised product step exists. Together with `C02_progress` (which picks such a step
    whenever a goroutine is parked in a call and the context is done) the awareness hypothesis is discharged per
    operation by the helper model instead of being assumed. -/
theorem C02_product_unilateral_return_enabled (p : Params) (q : GB.WCtx.Params) (hf : q.fresh = true) (o : Op)
    (s : GB.Prod.PState M E) (hr : GB.Prod.PReachable p q o s) (l : Label M E) (f' : State M E)
    (hs : step p s.1 l = some f') (hu : unilateral p s.1 l = true) (hro : retOf l = some o) :
    (GB.Prod.pstep p q o s (.fwd l true)).isSome = true := by
  obtain ⟨hS, _, _⟩ := GB.Prod.pinv_reach p q hf o s hr
  have hp := (pend_ret p o s.1 f' l hS hs hro).2
  have hce : s.1.ctx.isSome = true ∧ GB.Prod.isErrRet l = true := by
    cases l <;> simp [retOf] at hro <;> (rename_i r; cases r <;> simp_all [unilateral, GB.Prod.isErrRet, errRetOf])
  have hen := C02_product_ctx_return_enabled p q hf o s hr hp hce.1
  have hnc : callOf l ≠ some o := by
    have := (GB.Prod.ret_class o l hro).1; rw [this]; simp
  cases hst : GB.WCtx.step q s.2 .takeCtx with
  | none => rw [hst] at hen; cases hen
  | some a' => simp [GB.Prod.pstep, hs, GB.Prod.adapterLabel, hnc, hro, hce.2, hst]

/-! ### Round 6: Forward's call discipline towards the OUTGOING stream (GB/C02/Discipline.lean)

  gRPC-Go: SendMsg ∥ SendMsg, RecvMsg ∥ RecvMsg and CloseSend ∥ SendMsg on one `grpc.ClientStream` are forbidden; only
  cancelling the stream's context may overlap anything. `GB.Fwd.monRun` is a contract checker over the LABELS of a run
  (what a contract-checking fake ClientStream does). -/

/-- Over ALL runs of Forward (every RPC kind, peers, faults, cancellations, interleavings): the contract checker never
    fires — no Send while a Send Forward issued is in progress, no CloseSend while a Send is in progress, no
    Recv/Header/Trailer while a Recv is in progress; its counters ARE the state's in-flight counts, and those never
    exceed one per direction. -/
theorem C02_out_call_discipline (p : Params) (tr : List (Label M E)) (s : State M E) (h : Run p tr s) :
    (monRun false tr).bad = false ∧ (monRun false tr).sends = sendsInFlight s ∧
    (monRun false tr).recvs = recvsInFlight s ∧ sendsInFlight s ≤ 1 ∧ recvsInFlight s ≤ 1 :=
  ⟨(dinv_run h).ok, (dinv_run h).snd, (dinv_run h).rcv, sends_le_one p s h.sinv, recvs_le_one s⟩

/-- Forward never issues `outgoing.CloseSend()` while an `outgoing.Send` it issued is still in progress (neither the
    unary-request one of main nor the request pump's): both call sites, any reachable state. -/
theorem C02_closesend_never_during_send (p : Params) (s s' : State M E) (hr : Reachable p s)
    (hs : step p s .outCloseSend = some s') : sendsInFlight s = 0 ∧ sendsInFlight s' = 0 := by
  have h0 := (same_side_sequential p s s' _ (sinv_reach p s hr) hs).1 rfl
  refine ⟨h0, ?_⟩
  have S' := sinv_step p s _ s' (sinv_reach p s hr) hs
  obtain ⟨s1, hc, rfl⟩ := step_core hs
  simp only [stepCore] at hc
  split at hc <;> (try cases hc) <;> simp_all [sendsInFlight]

/-- Single owner per direction, extended to CloseSend, Header, Trailer and Close: a send-side call (Send, CloseSend) is
    issued only with no Send in flight, a receive-side call (Recv, Header, Trailer) only with no Recv in flight — so
    `outgoing.Close()` is the ONLY call on the outgoing stream that can overlap an operation of its own direction. -/
theorem C02_single_owner_out (p : Params) (s s' : State M E) (l : Label M E) (hr : Reachable p s)
    (hs : step p s l = some s') :
    (sendSide l = true → sendsInFlight s = 0) ∧ (recvSide l = true → recvsInFlight s = 0) ∧
    (outCall l = true → 0 < sendsInFlight s → 0 < recvsInFlight s → l = .outClose) := by
  have h := same_side_sequential p s s' l (sinv_reach p s hr) hs
  refine ⟨h.1, h.2, ?_⟩
  intro hc h1 h2
  cases l <;> simp_all [outCall, sendSide, recvSide]

def C02_overlap_trace : List (Label Nat Nat) :=
  [.outStreamCall, .outStreamRet .ok, .incRecvCall, .incRecvRet (.msg 7), .outSendCall 7, .outRecvCall,
   .ctxDone .deadline, .tauSelCtx]

/-- …and it really does (non-vacuity, kernel-checked): the deadline fires while the request pump is inside
    outgoing.Send and the response pump inside outgoing.Recv; the next step of main is the deferred
    `outgoing.Close()` with one Send and one Recv in flight — before `wg.Wait()`. -/
theorem C02_close_overlaps_send_and_recv :
    (GB.LTS.run (step { cs := true, ss := true, incAware := true, outAware := true }) (init Nat Nat)
      C02_overlap_trace).map (fun s => (sendsInFlight s, recvsInFlight s,
        (step { cs := true, ss := true, incAware := true, outAware := true } s .outClose).isSome)) =
      some (1, 1, true) := by
  decide

/-- Negative witness for seeded change C18-m12 (`Close()` also calls `stream.CloseSend()`): on that very run the
    contract checker fires at the deferred Close — CloseSend concurrent with SendMsg — whereas with the repository's
    Close (cancel only) it does not. -/
theorem C02_halfclosing_close_races :
    (GB.LTS.run (step { cs := true, ss := true, incAware := true, outAware := true }) (init Nat Nat)
      (C02_overlap_trace ++ [.outClose])).isSome = true ∧
    (monRun true (C02_overlap_trace ++ [.outClose])).bad = true ∧
    (monRun false (C02_overlap_trace ++ [.outClose])).bad = false := by
  decide

/-- Facts tie (regenerated from grpcadapter/stream.go on every run): the ONLY call expression anywhere inside
    `AdaptedClientStream.Close` is `s.closeFunc` — no CloseSend, no method of the gRPC stream, no other receiver field
    touched — and closeFunc is `sync.OnceFunc(cancel)` of a `context.WithCancel` (so Close is a context cancellation,
    the one thing gRPC-Go allows concurrently with SendMsg/RecvMsg). -/
theorem C02_facts_close_only_cancels :
    GB.Generated.clientStreamCloseCalls = ["s.closeFunc"] ∧ GB.Generated.clientStreamCloseFieldUses = [] ∧
    GB.Generated.clientStreamClose =
      ["Close: s.closeFunc()", "cancel: context.WithCancel", "closeFunc: sync.OnceFunc(cancel)"] := by
  decide

/-- does Close do anything to the gRPC stream besides cancelling it (from the facts) -/
def C02_closeTouchesStream : Bool :=
  GB.Generated.clientStreamCloseCalls.any (· != "s.closeFunc") || !GB.Generated.clientStreamCloseFieldUses.isEmpty

/-- The discipline for the repository's adapter, no parameter left: with Close as it is in grpcadapter/stream.go the
    contract checker never fires on any run of Forward. -/
theorem C02_out_call_discipline_repo (p : Params) (tr : List (Label M E)) (s : State M E) (h : Run p tr s) :
    (monRun C02_closeTouchesStream tr).bad = false := by
  have : C02_closeTouchesStream = false := by decide
  rw [this]
  exact (dinv_run h).ok
