import GB.C02.Progress
import GB.C01.Status
import GB.Generated.Facts
import GB.C02.WsEpilogue
import GB.C02.Stable
/-
  C02 — every bridged call terminates promptly and releases its resources.

  Same LTS as C01 (GB/C01/Forward.lean). Faults are already in it: any pending call may return an error
  or EOF at any time and `ctxDone` may fire anywhere. `unilateral p s l` marks the steps Forward takes
  without cooperation of client or target: its own calls and internal steps and — once the context is
  done — the return of a blocked call of a ctx-AWARE adapter (`p.incAware` / `p.outAware`).
  `terminating s` = ctx cancelled ∨ the o2i pump delivered its result ∨ a non-EOF error was delivered by
  the i2o pump ∨ main is already on its way out.
-/
set_option linter.unusedSectionVars false
set_option linter.unusedVariables false
open GB.Fwd GB.LTS

variable {M E : Type} [DecidableEq M] [DecidableEq E]

/-- Progress: from every reachable state in which termination was triggered and Forward has not
    returned, a step exists that needs nobody's cooperation and strictly decreases `rank` — provided the
    blocked calls of both adapters observe the context. -/
theorem C02_progress (e0 : E) (p : Params) (s : State M E) (hr : Reachable p s)
    (ht : terminating s = true) (hd : isDone s = false) (hi : p.incAware = true) (ho : p.outAware = true) :
    ∃ l s', forced e0 p s = some l ∧ step p s l = some s' ∧ unilateral p s l = true ∧ rank s' < rank s :=
  progress e0 p s (sinv_reach p s hr) ht hd hi ho

/-- The rank is bounded by a constant: at most 19 own steps remain. -/
theorem C02_rank_bound (s : State M E) : rank s ≤ 19 := rank_le s

/-- Termination, once triggered, cannot be un-triggered by any step of anybody. -/
theorem C02_terminating_stable (p : Params) (s s' : State M E) (l : Label M E) (hr : Reachable p s)
    (ht : terminating s = true) (hs : step p s l = some s') : terminating s' = true :=
  terminating_stable p s s' l (sinv_reach p s hr) ht hs

/-- Bounded termination: from every reachable terminating state Forward reaches its return by a
    sequence of at most `rank s` (≤ 19) of its own steps, none of which needs the client or the target. -/
theorem C02_returns_within_rank (e0 : E) (p : Params) (hi : p.incAware = true) (ho : p.outAware = true) :
    ∀ (n : Nat) (s : State M E), Reachable p s → terminating s = true → rank s ≤ n →
      ∃ ls s', GB.LTS.run (step p) s ls = some s' ∧ isDone s' = true ∧ ls.length ≤ n := by
  intro n
  induction n with
  | zero =>
    intro s hr ht hn
    cases hd : isDone s with
    | true => exact ⟨[], s, rfl, hd, Nat.le_refl _⟩
    | false =>
      obtain ⟨l, s', _, _, _, hlt⟩ := C02_progress e0 p s hr ht hd hi ho
      omega
  | succ n ih =>
    intro s hr ht hn
    cases hd : isDone s with
    | true => exact ⟨[], s, rfl, hd, Nat.zero_le _⟩
    | false =>
      obtain ⟨l, s', _, hs, _, hlt⟩ := C02_progress e0 p s hr ht hd hi ho
      obtain ⟨ls, s2, hrun, hdone, hlen⟩ :=
        ih s' (Reachable.step hr hs) (C02_terminating_stable p s s' l hr ht hs) (by omega)
      refine ⟨l :: ls, s2, ?_, hdone, ?_⟩
      · simp [GB.LTS.run, hs, hrun]
      · simp; omega

/-- "A client idle on an open stream learns of the target's termination without having to send or close
    anything": the target's result has been delivered, the request pump is parked in Incoming.Recv and
    the client stays silent — Forward still returns on its own (ctx-aware incoming adapter). -/
theorem C02_idle_client (e0 : E) (p : Params) (s : State M E) (hr : Reachable p s)
    (hres : s.o2iCh.isSome = true) (hpark : s.i2o = .recvPending)
    (hi : p.incAware = true) (ho : p.outAware = true) :
    ∃ ls s', GB.LTS.run (step p) s ls = some s' ∧ isDone s' = true ∧ ls.length ≤ 19 := by
  have ht : terminating s = true := by simp [terminating, hres]
  exact C02_returns_within_rank e0 p hi ho 19 s hr ht (C02_rank_bound s)

/-- Cleanup at return: the outgoing stream is not left open (it was closed, or never created), both
    pumps have exited (or were never started), and the forwarding context is cancelled. -/
theorem C02_cleanup (p : Params) (s : State M E) (hr : Reachable p s) (hd : isDone s = true) :
    s.out ≠ .opened ∧ pumpsGone s = true ∧ s.ctx.isSome = true := by
  have S := sinv_reach p s hr
  unfold isDone at hd
  cases hm : s.main <;> simp [hm] at hd
  refine ⟨S.out_closed (by simp [hm]), S.done_gone (by simp [hm]), S.canc (by simp [hm])⟩

/-- While a pump is still running, Forward has not returned (wg.Wait). -/
theorem C02_no_return_before_pumps (p : Params) (s : State M E) (hr : Reachable p s)
    (h : pumpsGone s = false) : isDone s = false := by
  cases hd : isDone s with
  | false => rfl
  | true => have := (C02_cleanup p s hr hd).2.1; rw [h] at this; cases this

/-- Origin of the returned value, in every run (any faults, any schedule): nil only after the target's EOF
    (or the dropped second response of a misbehaving unary target); an error value only if some stream
    operation actually returned it; the context error only if an external cancellation / deadline of that
    kind came first; the two synthesized Unavailable errors only for a unary request answered by EOF /
    a unary response missing at EOF (`originOK`, GB/C01/Spec.lean — the same function the driver applies
    to every observed trace). -/
theorem C02_status (p : Params) (tr : List (Label M E)) (s : State M E) (h : Run p tr s)
    (e : Option (Err E)) (hd : s.main = .done e) : originOK p tr e = true :=
  returned_origin p tr s h e hd

/-- …and if only the target ended the call (no cancellation, no other error), the returned value is the
    target's status (`expectedReturn`, see C01_status / C01_status_error / C01_status_ok). -/
theorem C02_status_target (p : Params) (tr : List (Label M E)) (s : State M E) (h : Run p tr s)
    (e : Option (Err E)) (hd : s.main = .done e) (hf : hasFault tr = false) : expectedReturn p tr = some e :=
  returned_expected p tr s h e hd hf

/-! ### The adapter hypotheses of `C02_progress`, discharged by a regenerated fact

  `GB.Generated.ctxAwareIncoming / ctxAwareOutgoing` are re-extracted from the sources on every run
  (extract/c02.go): for Recv/Send of every ServerStream adapter (grpcServerStream in proxy.go, httpStream,
  gwsStream, gRPCWebStream, gRPCWebSocketStream) and for AdaptedClientStream.Recv/Send and
  AdaptedClientConn.Stream: does the operation select on its ctx parameter's Done channel, or hand it to
  a withCtx helper that does? -/

/-- Facts tie: every blocking stream operation in the repository observes its context. -/
theorem C02_facts_ctx_aware :
    GB.Generated.ctxAware.all (·.2) = true ∧ GB.Generated.ctxAwareIncoming.length = 10 ∧
    GB.Generated.ctxAwareOutgoing.length = 3 := by decide

/-- The adapters as they are in the repository now. -/
def C02_repoParams (cs ss : Bool) : Params :=
  { cs := cs, ss := ss, incAware := GB.Generated.ctxAwareIncoming.all (·.2),
    outAware := GB.Generated.ctxAwareOutgoing.all (·.2) }

/-- `C02_progress` / bounded termination for the repository's adapters, with no awareness hypothesis left. -/
theorem C02_progress_repo (e0 : E) (cs ss : Bool) (s : State M E) (hr : Reachable (C02_repoParams cs ss) s)
    (ht : terminating s = true) :
    ∃ ls s', GB.LTS.run (step (C02_repoParams cs ss)) s ls = some s' ∧ isDone s' = true ∧ ls.length ≤ 19 :=
  C02_returns_within_rank e0 (C02_repoParams cs ss)
    (show GB.Generated.ctxAwareIncoming.all (·.2) = true by decide)
    (show GB.Generated.ctxAwareOutgoing.all (·.2) = true by decide) 19 s hr ht (C02_rank_bound s)

/-- C12 enforcement on the whole call (instance of bounded termination): once the deadline (or any
    cancellation) has fired, Forward returns within ≤ 19 of its own steps wherever in the call it strikes —
    before stream creation, while waiting for the target, mid-stream, both sides idle. -/
theorem C02_deadline_enforced (e0 : E) (p : Params) (s : State M E) (hr : Reachable p s) (w : Why)
    (hc : s.ctx = some w) (hi : p.incAware = true) (ho : p.outAware = true) :
    ∃ ls s', GB.LTS.run (step p) s ls = some s' ∧ isDone s' = true ∧ ls.length ≤ 19 := by
  have ht : terminating s = true := by simp [terminating, hc]
  exact C02_returns_within_rank e0 p hi ho 19 s hr ht (C02_rank_bound s)

/-- C18(a) single owner: no stream operation ever has two goroutines of Forward inside it. Incoming.Recv and
    outgoing.Send are called by main only in forwardUnaryRequest, when the request pump does not exist;
    outgoing.CloseSend is called only when the request pump does not exist or has exited (so never
    concurrently with outgoing.Send). Incoming.Send/SetHeader/SetTrailer and outgoing.Recv/Header/Trailer are
    only ever called by the response pump (by construction of `stepCore`). Hence the
    `sendActive/recvActive` guards of the stream adapters cannot fire from Forward. -/
theorem C02_single_owner (p : Params) (s : State M E) (hr : Reachable p s) :
    (s.main = .uRecvPending → s.i2o = .absent) ∧ (s.main = .uSendPending → s.i2o = .absent) ∧
    (s.main = .uCloseSend → s.i2o = .absent) ∧ (s.main = .loopCloseSend → s.i2o = .exited) := by
  have S := sinv_reach p s hr
  refine ⟨fun h => S.pre_i (by simp [h]), fun h => S.pre_i (by simp [h]), fun h => S.pre_i (by simp [h]), S.lcs⟩

/-! ### The epilogue of the WebSocket handlers (GB/C02/WsEpilogue.lean)

  After Forward has returned, the handler sends the close frame (arming the connection deadline), closes
  `stream.done`, waits for ReadLoop (`wg.Wait()`), closes the connection and returns. A client message that
  arrives late puts ReadLoop into OnMessage, where it can only get out through `done` — nobody receives from
  `events` any more. -/

/-- Real order (`close(stream.done)` before `wg.Wait()`), for ANY number of late client messages and any
    interleaving: every step of every run decreases `rank` (so every run is at most `5 + 2·late` steps long),
    and in every reachable state in which the handler has not returned a step is enabled that needs nothing from
    the client (ReadLoop's OnMessage always has its `done` branch, ReadLoop itself ends with the client's answer or
    the connection deadline) — hence the handler returns, having closed the connection. -/
theorem C02_ws_epilogue_terminates (late : Nat) (s : GB.WsEp.State)
    (hr : GB.LTS.Reachable (GB.WsEp.step true) (GB.WsEp.init late) s) :
    GB.WsEp.rank s ≤ 5 + 2 * late ∧
    (∀ l s', GB.WsEp.step true s l = some s' → GB.WsEp.rank s' < GB.WsEp.rank s) ∧
    (s.h ≠ .returned → ∃ l, GB.WsEp.own l = true ∧ (GB.WsEp.step true s l).isSome = true) ∧
    (s.h = .returned → s.loop = .exited ∧ s.done = true) := by
  have hinv : GB.WsEp.Inv s ∧ GB.WsEp.rank s ≤ 5 + 2 * late := by
    refine GB.LTS.invariant (GB.WsEp.step true) (GB.WsEp.init late)
      (fun s => GB.WsEp.Inv s ∧ GB.WsEp.rank s ≤ 5 + 2 * late) ⟨GB.WsEp.inv_init late, ?_⟩ ?_ s hr
    · simp [GB.WsEp.rank, GB.WsEp.init, GB.WsEp.hRank, GB.WsEp.lRank]
    · intro s l s' ⟨hi, hk⟩ hs
      exact ⟨GB.WsEp.inv_step s s' l hi hs, Nat.le_trans (Nat.le_of_lt (GB.WsEp.rank_decreases true s s' l hs)) hk⟩
  refine ⟨hinv.2, fun l s' hs => GB.WsEp.rank_decreases true s s' l hs, GB.WsEp.progress s hinv.1, ?_⟩
  intro hret
  obtain ⟨h1, _, h3⟩ := hinv.1
  exact ⟨h3 (Or.inr hret), h1 (Or.inr (Or.inr hret))⟩

/-- Swapped defers (`wg.Wait()` before `close(stream.done)`), kernel-checked negative witness: ONE late client
    message suffices — the handler sits in wg.Wait(), ReadLoop sits in OnMessage, `done` is still open, and NO step
    at all is enabled any more: handler, ReadLoop and connection are stuck for ever (seeded change C02-m5). -/
theorem C02_ws_epilogue_swapped_deadlocks :
    ∃ s : GB.WsEp.State, GB.LTS.run (GB.WsEp.step false) (GB.WsEp.init 1) [.sendClose, .msgArrives] = some s ∧
      s.h = .first ∧ s.loop = .onMessage ∧ s.done = false ∧
      ∀ l : GB.WsEp.Label, GB.WsEp.step false s l = none := by
  refine ⟨{ h := .first, loop := .onMessage, done := false, armed := true, late := 0 }, by decide, rfl, rfl, rfl, ?_⟩
  intro l
  cases l <;> decide

/-- Facts tie (regenerated from webbridge/websocket.go and grpcweb.go on every run): on the way out of BOTH
    WebSocket handlers `close(stream.done)` is executed before `wg.Wait()` (plain statements in source order,
    deferred ones in reverse registration order), and no return statement bypasses a non-deferred epilogue. -/
theorem C02_facts_ws_epilogue_order :
    GB.Generated.wsEpilogueOrder =
      [("TranscodedWebSocketBridge.ServeHTTP", ["closeDone", "wgWait"]),
       ("GRPCWebSocketBridge.ServeHTTP", ["closeDone", "wgWait"])]
    ∧ GB.Generated.wsEpilogueSkips = [] := by
  decide

/-- The order parameter of the epilogue model, taken from the regenerated fact. -/
def C02_wsDoneFirst : Bool := GB.Generated.wsEpilogueOrder.all (fun x => x.2 == ["closeDone", "wgWait"])

/-- …so the termination theorem applies to the handlers as they are in the repository now. -/
theorem C02_ws_epilogue_repo (late : Nat) (s : GB.WsEp.State)
    (hr : GB.LTS.Reachable (GB.WsEp.step C02_wsDoneFirst) (GB.WsEp.init late) s) (hn : s.h ≠ .returned) :
    ∃ l, GB.WsEp.own l = true ∧ (GB.WsEp.step C02_wsDoneFirst s l).isSome = true := by
  have e : C02_wsDoneFirst = true := by decide
  rw [e] at hr ⊢
  exact (C02_ws_epilogue_terminates late s hr).2.2.1 hn

/-! ### D1: a ctx-IGNORING incoming adapter deadlocks (negative witness, kernel-checked)

  Bidirectional call, the target ends it (EOF) while the client is silent: the request pump stays
  parked in Incoming.Recv, the main goroutine runs Close, cancel and then blocks in wg.Wait forever.
  This is exactly proxy.go's `grpcServerStream.Recv/Send` before the fix (they ignored ctx). -/

def C02_d1 : Params := { cs := true, ss := true, incAware := false, outAware := true }

def C02_d1_trace : List (Label Nat Nat) :=
  [.outStreamCall, .outStreamRet .ok, .incRecvCall, .outRecvCall, .outRecvRet .eof, .outHeader, .incSetHeader,
   .outTrailer, .incSetTrailer, .tauSelO2I, .outClose, .tauCancel]

theorem C02_nonaware_hangs :
    ∃ s : State Nat Nat, Reachable C02_d1 s ∧ terminating s = true ∧ isDone s = false ∧
      s.i2o = .recvPending ∧ s.main = .deferWait none ∧
      ∀ l, unilateral C02_d1 s l = true → step C02_d1 s l = none := by
  have hrun : (GB.LTS.run (step C02_d1) (init Nat Nat) C02_d1_trace).isSome = true := by decide
  cases h : GB.LTS.run (step C02_d1) (init Nat Nat) C02_d1_trace with
  | none => rw [h] at hrun; cases hrun
  | some s =>
    have hm : (GB.LTS.run (step C02_d1) (init Nat Nat) C02_d1_trace).map
        (fun s => (s.main, s.i2o, s.o2i, s.ctx)) = some (.deferWait none, .recvPending, .exited, some .canceled) := by
      decide
    rw [h] at hm
    simp only [Option.map_some, Option.some.injEq, Prod.mk.injEq] at hm
    obtain ⟨m1, m2, m3, m4⟩ := hm
    refine ⟨s, run_reachable _ _ _ _ Reachable.init h, ?_, ?_, m2, m1, ?_⟩
    · simp [terminating, m4]
    · simp [isDone, m1]
    · intro l hl
      cases l <;> simp_all [unilateral, step, stepCore, C02_d1, pumpsGone] <;>
        (try (rename_i r; cases r <;> simp_all [unilateral]))

/-- …whereas with a ctx-aware adapter the very same schedule goes on to the return (the fixed proxy). -/
theorem C02_aware_returns :
    (GB.LTS.run (step { cs := true, ss := true, incAware := true, outAware := true }) (init Nat Nat)
      (C02_d1_trace ++ [.incRecvRet (.err 1), .ret none])).map isDone = some true := by
  decide
