import GB.Base.LTS
/-
  The epilogue of the two HTTP handlers (`TranscodedHTTPBridge.ServeHTTP`, `GRPCWebBridge.ServeHTTP`) as a tiny LTS.
  It starts when Forward has returned. By `C02_withctx_one_outstanding` at most one Send helper abandoned by withCtx
  can still be running `send(msg)`:

      send:    [<-s.readCh]  mu.Lock()  if finished { unlock; return }  …Write/Flush…  mu.Unlock()
      handler: incoming.finish() = mu.Lock(); finished = true; mu.Unlock()      — `hFinish` (needs the mutex)
               writeError / writeTrailerWithStatus                               — `hRespond`
               return                                                            (then net/http ends the response)

  `wWriteDone` (the helper's Write returns) is the ENVIRONMENT's step: it returns when the client reads, when the
  server's WriteTimeout expires or when the connection goes away; `writeReturns = true` states that law.
-/
namespace GB.HttpEp

inductive HPc | finish | respond | returned
  deriving DecidableEq, Repr

inductive WPc | none | beforeLock | writing | exited
  deriving DecidableEq, Repr

structure State where
  h : HPc
  w : WPc
  finished : Bool
  lateWrites : Nat      -- ghost: response writes of the helper that BEGAN after the handler took the response over
  deriving DecidableEq, Repr

inductive Label | wLock | wWriteDone | hFinish | hRespond
  deriving DecidableEq, Repr

def init (w : WPc) : State := { h := .finish, w := w, finished := false, lateWrites := 0 }

/-- `checked = true`: send looks at `finished` under the mutex before it writes (the code as it is) -/
def step (checked : Bool) (s : State) : Label → Option State
  | .wLock =>
    -- the mutex is free unless the helper itself is writing (finish() holds it only for an instant)
    if s.w = .beforeLock then
      if checked = true ∧ s.finished = true then some { s with w := .exited }
      else some { s with w := .writing, lateWrites := s.lateWrites + (if s.finished then 1 else 0) }
    else none
  | .wWriteDone => if s.w = .writing then some { s with w := .exited } else none
  | .hFinish => if s.h = .finish ∧ s.w ≠ .writing then some { s with h := .respond, finished := true } else none
  | .hRespond => if s.h = .respond then some { s with h := .returned } else none

/-- own steps of the bridge; the return of a blocked Write is one only under the environment law -/
def own (writeReturns : Bool) : Label → Bool
  | .wWriteDone => writeReturns
  | _ => true

def hRank : HPc → Nat
  | .finish => 2 | .respond => 1 | .returned => 0
def wRank : WPc → Nat
  | .beforeLock => 2 | .writing => 1 | .none => 0 | .exited => 0
def rank (s : State) : Nat := hRank s.h + wRank s.w

/-- once the handler has taken the response over, the helper is not writing and never starts to -/
def Inv (s : State) : Prop :=
  (s.h ≠ .finish → s.finished = true) ∧ (s.finished = true → s.w ≠ .writing) ∧ s.lateWrites = 0

theorem inv_init (w : WPc) : Inv (init w) := by simp [Inv, init]

theorem inv_step (s s' : State) (l : Label) (hi : Inv s) (hs : step true s l = some s') : Inv s' := by
  obtain ⟨h1, h2, h3⟩ := hi
  cases l <;> simp only [step] at hs <;> (repeat' split at hs) <;> (try cases hs) <;> simp_all [Inv]

theorem rank_decreases (c : Bool) (s s' : State) (l : Label) (hs : step c s l = some s') : rank s' < rank s := by
  cases l <;> simp only [step] at hs <;> (repeat' split at hs) <;> (try cases hs) <;>
    simp_all [rank, hRank, wRank]

/-- with the environment law, some own step is enabled until the handler has returned -/
theorem progress (s : State) (hn : s.h ≠ .returned) : ∃ l, own true l = true ∧ (step true s l).isSome = true := by
  rcases s with ⟨h, w, f, n⟩
  cases h <;> simp at hn
  · cases w
    · exact ⟨.hFinish, rfl, by simp [step]⟩
    · exact ⟨.hFinish, rfl, by simp [step]⟩
    · exact ⟨.wWriteDone, rfl, by simp [step]⟩
    · exact ⟨.hFinish, rfl, by simp [step]⟩
  · exact ⟨.hRespond, rfl, by simp [step]⟩

end GB.HttpEp
