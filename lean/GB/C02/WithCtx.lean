import GB.Base.LTS
/-
  The `withCtx` helper goroutines of the stream adapters as an LTS (one direction — Recv or Send — of one stream
  adapter object; the two directions have separate guards, channels and helpers and share only the monotone
  `released` flag).

      func (s …) withCtx(ctx, f) error {
          errChan := make(chan error, 1)          -- `cap`, `fresh` (a new channel per call)
          go func() { errChan <- f() }()          -- helper: primitive (`f`) … then ONE send
          select {
          case <-ctx.Done(): [s.Close();] return ContextError     -- `takeCtx` (`closeOnDone`: AdaptedClientStream only)
          case err := <-errChan: return err                       -- `recvResult`
          }
      }

  proxy.go grpcServerStream.withCtx, webbridge/http.go withCtx (httpStream, gwsStream.Send, gRPCWebStream,
  gRPCWebSocketStream.Send), grpcadapter/stream.go AdaptedClientStream.withCtx (+ `s.Close()` in the ctx branch;
  `Close` = `closeFunc` = `sync.OnceFunc(cancel)` of the stream's context).

  Helper k: in the primitive (`(k,false)`) → primitive returned, about to send (`(k,true)`) → sent and exited
  (removed). `bufs` = the buffered results, `(channel, tag)` where the tag is the id of the call whose primitive
  produced the value. `chanOf` = which channel call k uses: its own one (`fresh`) or one shared by all calls of
  the stream (a seeded mistake: `errChan` hoisted into the struct).

  ENVIRONMENT LAW (assumption, explicit): `primRet` is the peer's choice in general; it is an OWN step once
  `released` holds — the blocked library primitive (grpc ServerStream.RecvMsg/SendMsg, ClientStream.RecvMsg/
  SendMsg, http body Read / ResponseWriter.Write, gws WriteMessage) returns after the handler has returned /
  the stream's context was cancelled / the connection was closed. `close` is that event: for the outgoing stream
  it is Forward's `outgoing.Close()` (label `outClose` of the Forward LTS; C02_close_exactly_once), for the
  incoming adapters the return of the handler.
-/
namespace GB.WCtx

structure Params where
  cap : Nat              -- capacity of errChan
  fresh : Bool           -- errChan is made inside withCtx (one channel per call)
  closeOnDone : Bool     -- the ctx.Done branch calls s.Close() (AdaptedClientStream)
  stopAfterCtx : Bool    -- the caller makes no further call in this direction after a ctx error (Forward: C02_no_call_after_error)
  deriving DecidableEq, Repr

/-- the code as it is (facts `withCtxShape`): capacity 1, channel local to the call -/
def repo (closeOnDone : Bool) (stop : Bool) : Params :=
  { cap := 1, fresh := true, closeOnDone := closeOnDone, stopAfterCtx := stop }

def chanOf (p : Params) (k : Nat) : Nat := if p.fresh then k else 0

structure State where
  next : Nat                    -- id of the next call
  caller : Option Nat           -- the call blocked in the select of withCtx
  helpers : List (Nat × Bool)   -- outstanding helper goroutines: (call id, primitive already returned)
  bufs : List (Nat × Nat)       -- buffered results (channel, tag)
  ctxDone : Bool
  released : Bool
  stopped : Bool
  cancels : Nat                 -- how often the cancel func behind closeFunc actually ran
  got : List (Nat × Nat)        -- ghost: (call, tag of the value the call returned)
  deriving DecidableEq, Repr

inductive Label
  | call                 -- Recv/Send called: channel made, helper spawned, caller enters the select
  | primRet (i : Nat)    -- helper i: the primitive returns
  | deliver (i : Nat)    -- helper i: `errChan <- result`, then the goroutine exits
  | recvResult           -- caller: `case err := <-errChan`
  | takeCtx              -- caller: `case <-ctx.Done()`
  | ctxDone              -- environment: the forwarding context is done
  | close                -- Close() of the stream / the handler returns
  deriving DecidableEq, Repr

def init : State :=
  { next := 0, caller := none, helpers := [], bufs := [], ctxDone := false, released := false, stopped := false,
    cancels := 0, got := [] }

/-- occupancy of a channel -/
def occ (bufs : List (Nat × Nat)) (c : Nat) : Nat := bufs.countP (fun b => b.1 == c)

/-- `closeFunc()` = sync.OnceFunc(cancel): the cancel func runs the first time only -/
def doClose (s : State) : State :=
  { s with released := true, cancels := if s.released then s.cancels else s.cancels + 1 }

def step (p : Params) (s : State) : Label → Option State
  | .call =>
    if s.caller = none ∧ s.stopped = false then
      some { s with caller := some s.next, helpers := s.helpers ++ [(s.next, false)], next := s.next + 1 }
    else none
  | .primRet i =>
    if s.helpers.any (fun h => h.1 == i && !h.2) = true then
      some { s with helpers := s.helpers.map (fun h => if h.1 == i then (h.1, true) else h) }
    else none
  | .deliver i =>
    if s.helpers.any (fun h => h.1 == i && h.2) = true ∧ occ s.bufs (chanOf p i) < p.cap then
      some { s with helpers := s.helpers.filter (fun h => h.1 != i), bufs := s.bufs ++ [(chanOf p i, i)] }
    else none
  | .recvResult =>
    match s.caller with
    | some k =>
      match s.bufs.find? (fun b => b.1 == chanOf p k) with
      | some b => some { s with caller := none, bufs := s.bufs.erase b, got := s.got ++ [(k, b.2)] }
      | none => none
    | none => none
  | .takeCtx =>
    match s.caller with
    | some _ =>
      if s.ctxDone = true then
        let s1 := { s with caller := none, stopped := s.stopped || p.stopAfterCtx }
        some (if p.closeOnDone then doClose s1 else s1)
      else none
    | none => none
  | .ctxDone => some { s with ctxDone := true }
  | .close => some (doClose s)

/-- steps of the helper goroutines -/
def helperLabel : Label → Bool
  | .primRet _ => true | .deliver _ => true | _ => false

/-- steps that need nobody's cooperation — the environment law is the `primRet` line -/
def own (s : State) : Label → Bool
  | .primRet _ => s.released
  | .deliver _ => true
  | .recvResult => true
  | .takeCtx => true
  | .call => false | .ctxDone => false | .close => false

def hr (h : Nat × Bool) : Nat := if h.2 then 1 else 2

/-- number of steps the outstanding helpers still have to take -/
def hrank (s : State) : Nat := (s.helpers.map hr).sum

/-! ### invariant for capacity ≥ 1 and a channel per call — any caller, any number of abandoned helpers -/

structure Inv (s : State) : Prop where
  hlt : ∀ h ∈ s.helpers, h.1 < s.next
  buf : ∀ b ∈ s.bufs, b.1 = b.2 ∧ b.1 < s.next ∧ ∀ h ∈ s.helpers, h.1 ≠ b.1
  got : ∀ g ∈ s.got, g.1 = g.2
  clt : ∀ k, s.caller = some k → k < s.next
  once : s.cancels ≤ 1 ∧ (s.released = true ↔ s.cancels = 1)

theorem inv_init : Inv init := by
  constructor <;> simp [init]

theorem inv_step (p : Params) (hf : p.fresh = true) (s s' : State) (l : Label) (hi : Inv s)
    (hs : step p s l = some s') : Inv s' := by
  obtain ⟨h1, h2, h3, h4, h5⟩ := hi
  have hdc : ∀ t : State, (∀ h ∈ t.helpers, h.1 < t.next) →
      (∀ b ∈ t.bufs, b.1 = b.2 ∧ b.1 < t.next ∧ ∀ h ∈ t.helpers, h.1 ≠ b.1) → (∀ g ∈ t.got, g.1 = g.2) →
      (∀ k, t.caller = some k → k < t.next) → (t.cancels ≤ 1 ∧ (t.released = true ↔ t.cancels = 1)) →
      Inv (doClose t) := by
    intro t a b c d e
    refine ⟨a, b, c, d, ?_⟩
    simp only [doClose]
    cases hr : t.released <;> simp_all <;> omega
  cases l <;> simp only [step] at hs
  case call =>
    split at hs <;> simp at hs
    subst hs
    refine ⟨?_, ?_, h3, ?_, h5⟩
    · intro h hm
      simp at hm
      rcases hm with hm | hm
      · have := h1 h hm; simp; omega
      · subst hm; simp
    · intro b hb
      obtain ⟨e1, e2, e3⟩ := h2 b hb
      refine ⟨e1, by simp; omega, ?_⟩
      intro h hm
      simp at hm
      rcases hm with hm | hm
      · exact e3 h hm
      · subst hm; simp; omega
    · intro k hk; simp at hk; subst hk; simp
  case primRet i =>
    split at hs <;> simp at hs
    subst hs
    refine ⟨?_, ?_, h3, h4, h5⟩
    · intro h hm
      obtain ⟨h0, hab, rfl⟩ := List.mem_map.1 hm
      have := h1 _ hab
      split <;> simpa using this
    · intro b hb
      obtain ⟨e1, e2, e3⟩ := h2 b hb
      refine ⟨e1, e2, ?_⟩
      intro h hm
      obtain ⟨h0, hab, rfl⟩ := List.mem_map.1 hm
      have := e3 _ hab
      split <;> simpa using this
  case deliver i =>
    split at hs <;> simp at hs
    subst hs
    rename_i hc
    obtain ⟨hc1, hc2⟩ := hc
    have hb0 : (i, true) ∈ s.helpers := by simpa using hc1
    refine ⟨?_, ?_, h3, h4, h5⟩
    · intro h hm
      exact h1 h (List.mem_filter.1 hm).1
    · intro b hb
      rcases List.mem_append.1 hb with hb | hb
      · obtain ⟨e1, e2, e3⟩ := h2 b hb
        refine ⟨e1, e2, ?_⟩
        intro h hm
        exact e3 h (List.mem_filter.1 hm).1
      · have hb : b = (chanOf p i, i) := by simpa using hb
        subst hb
        have := h1 _ hb0
        simp only [chanOf, hf, if_true] at this ⊢
        refine ⟨trivial, this, ?_⟩
        intro h hm
        have := (List.mem_filter.1 hm).2
        simpa using this
  case recvResult =>
    split at hs
    · rename_i k hk
      split at hs <;> simp at hs
      subst hs
      rename_i b hb
      have hbm := List.mem_of_find?_eq_some hb
      have hbp := List.find?_some hb
      simp [chanOf, hf] at hbp
      refine ⟨h1, ?_, ?_, by simp, h5⟩
      · intro b' hb'
        exact h2 b' (List.mem_of_mem_erase hb')
      · intro g hg
        simp at hg
        rcases hg with hg | hg
        · exact h3 g hg
        · subst hg
          have := (h2 b hbm).1
          simp; omega
    · simp at hs
  case takeCtx =>
    split at hs
    · split at hs <;> simp at hs
      subst hs
      split
      · exact hdc _ h1 h2 h3 (by simp) h5
      · exact ⟨h1, h2, h3, by simp, h5⟩
    · simp at hs
  case ctxDone =>
    simp at hs; subst hs
    exact ⟨h1, h2, h3, h4, h5⟩
  case close =>
    simp at hs; subst hs
    exact hdc _ h1 h2 h3 h4 h5

abbrev Reachable (p : Params) (s : State) : Prop := GB.LTS.Reachable (step p) init s

theorem inv_reach (p : Params) (hf : p.fresh = true) (s : State) (h : Reachable p s) : Inv s :=
  GB.LTS.invariant (step p) init Inv inv_init (fun s l s' hi hs => inv_step p hf s s' l hi hs) s h

/-- no helper ever blocks on its result channel: whenever a helper's primitive has returned, its send is enabled -/
theorem deliver_enabled (p : Params) (hf : p.fresh = true) (hc : 1 ≤ p.cap) (s : State) (hi : Inv s) (i : Nat)
    (hm : (i, true) ∈ s.helpers) : (step p s (.deliver i)).isSome = true := by
  have hocc : occ s.bufs (chanOf p i) = 0 := by
    simp only [occ, List.countP_eq_zero]
    intro b hb hbe
    have := (hi.buf b hb).2.2 _ hm
    simp [chanOf, hf] at hbe
    exact this hbe.symm
  have hany : s.helpers.any (fun h => h.1 == i && h.2) = true := by
    simpa using hm
  simp [step, hany, hocc]
  omega

/-! ### rank: the helpers drain once the primitives return -/

theorem sum_map_le {α : Type} (r : α → Nat) (f : α → α) (l : List α) (hle : ∀ x, r (f x) ≤ r x) :
    ((l.map f).map r).sum ≤ (l.map r).sum := by
  induction l with
  | nil => simp
  | cons a t ih => simp only [List.map_cons, List.sum_cons]; have := hle a; omega

theorem sum_map_lt {α : Type} (r : α → Nat) (f : α → α) (l : List α) (hle : ∀ x, r (f x) ≤ r x)
    (hex : ∃ x ∈ l, r (f x) < r x) : ((l.map f).map r).sum < (l.map r).sum := by
  induction l with
  | nil => simp at hex
  | cons a t ih =>
    simp only [List.map_cons, List.sum_cons]
    obtain ⟨x, hx, hlt⟩ := hex
    rcases List.mem_cons.1 hx with hx | hx
    · subst hx; have := sum_map_le r f t hle; omega
    · have := ih ⟨x, hx, hlt⟩; have := hle a; omega

theorem sum_filter_le {α : Type} (r : α → Nat) (q : α → Bool) (l : List α) :
    ((l.filter q).map r).sum ≤ (l.map r).sum := by
  induction l with
  | nil => simp
  | cons a t ih =>
    simp only [List.filter_cons, List.map_cons, List.sum_cons]
    split <;> (try simp only [List.map_cons, List.sum_cons]) <;> omega

theorem sum_filter_lt {α : Type} (r : α → Nat) (q : α → Bool) (l : List α)
    (hex : ∃ x ∈ l, q x = false ∧ 0 < r x) : ((l.filter q).map r).sum < (l.map r).sum := by
  induction l with
  | nil => simp at hex
  | cons a t ih =>
    obtain ⟨x, hx, hq, hpos⟩ := hex
    simp only [List.filter_cons, List.map_cons, List.sum_cons]
    rcases List.mem_cons.1 hx with hx | hx
    · subst hx; simp only [hq]; have := sum_filter_le r q t; simp; omega
    · have := ih ⟨x, hx, hq, hpos⟩
      split <;> (try simp only [List.map_cons, List.sum_cons]) <;> omega

/-- every step of a helper strictly decreases `hrank` -/
theorem helper_step_decreases (p : Params) (s s' : State) (l : Label) (hl : helperLabel l = true)
    (hs : step p s l = some s') : hrank s' < hrank s := by
  cases l <;> simp [helperLabel] at hl <;> simp only [step] at hs
  case primRet i =>
    split at hs <;> simp at hs
    subst hs
    rename_i hc
    have hab : (i, false) ∈ s.helpers := by simpa using hc
    apply sum_map_lt
    · intro x; rcases x with ⟨a, b⟩; cases b <;> simp only [hr] <;> split <;> simp
    · exact ⟨_, hab, by simp [hr]⟩
  case deliver i =>
    split at hs <;> simp at hs
    subst hs
    rename_i hc
    obtain ⟨hc1, _⟩ := hc
    have hb0 : (i, true) ∈ s.helpers := by simpa using hc1
    apply sum_filter_lt
    exact ⟨_, hb0, by simp, by simp [hr]⟩

/-- no step other than a new call adds work for the helpers -/
theorem hrank_mono (p : Params) (s s' : State) (l : Label) (hl : l ≠ .call)
    (hs : step p s l = some s') : hrank s' ≤ hrank s := by
  cases h : helperLabel l
  · cases l <;> simp [helperLabel] at h hl <;> simp only [step] at hs <;> (repeat' split at hs) <;>
      simp at hs <;> subst hs <;> simp [hrank, doClose]
  · exact Nat.le_of_lt (helper_step_decreases p s s' l h hs)

/-- progress of the helpers: released, some helper outstanding ⇒ an own helper step is enabled (and decreases
    `hrank`, by `helper_step_decreases`) -/
theorem helper_progress (p : Params) (hf : p.fresh = true) (hc : 1 ≤ p.cap) (s : State) (hi : Inv s)
    (hrel : s.released = true) (hne : s.helpers ≠ []) :
    ∃ l s', helperLabel l = true ∧ own s l = true ∧ step p s l = some s' := by
  cases hh : s.helpers with
  | nil => exact absurd hh hne
  | cons h t =>
    rcases h with ⟨i, b⟩
    have hm : (i, b) ∈ s.helpers := by rw [hh]; simp
    cases b with
    | true =>
      have := deliver_enabled p hf hc s hi i hm
      cases hst : step p s (.deliver i) with
      | none => rw [hst] at this; cases this
      | some s' => exact ⟨.deliver i, s', rfl, rfl, hst⟩
    | false =>
      have hany : s.helpers.any (fun h => h.1 == i && !h.2) = true := by
        simpa using hm
      cases hst : step p s (.primRet i) with
      | none => simp [step, hany] at hst
      | some s' => exact ⟨.primRet i, s', rfl, by simp [own, hrel], hst⟩

theorem released_stable (p : Params) (s s' : State) (l : Label) (hrel : s.released = true)
    (hs : step p s l = some s') : s'.released = true := by
  cases l <;> simp only [step] at hs <;> (repeat' split at hs) <;> simp at hs <;> subst hs <;> simp [doClose, hrel]

/-- the helpers drain: from a released state, at most `hrank s` own helper steps lead to a state without helpers -/
theorem drain (p : Params) (hf : p.fresh = true) (hc : 1 ≤ p.cap) :
    ∀ (n : Nat) (s : State), Inv s → s.released = true → hrank s ≤ n →
      ∃ ls s', GB.LTS.run (step p) s ls = some s' ∧ s'.helpers = [] ∧ ls.length ≤ n ∧
        ls.all helperLabel = true := by
  intro n
  induction n with
  | zero =>
    intro s hi hrel hn
    cases hh : s.helpers with
    | nil => exact ⟨[], s, rfl, hh, Nat.le_refl _, rfl⟩
    | cons h t =>
      obtain ⟨l, s', hl, _, hs⟩ := helper_progress p hf hc s hi hrel (by simp [hh])
      have := helper_step_decreases p s s' l hl hs
      omega
  | succ n ih =>
    intro s hi hrel hn
    cases hh : s.helpers with
    | nil => exact ⟨[], s, rfl, hh, Nat.zero_le _, rfl⟩
    | cons h t =>
      obtain ⟨l, s', hl, _, hs⟩ := helper_progress p hf hc s hi hrel (by simp [hh])
      have hlt := helper_step_decreases p s s' l hl hs
      obtain ⟨ls, s2, hrun, he, hlen, hall⟩ :=
        ih s' (inv_step p hf s s' l hi hs) (released_stable p s s' l hrel hs) (by omega)
      refine ⟨l :: ls, s2, ?_, he, ?_, ?_⟩
      · simp [GB.LTS.run, hs, hrun]
      · simp; omega
      · simp [hl, hall]

theorem hrank_le (s : State) : hrank s ≤ 2 * s.helpers.length := by
  unfold hrank
  induction s.helpers with
  | nil => simp
  | cons a t ih => simp [hr]; split <;> omega

/-! ### the caller's discipline: at most one helper per direction is outstanding -/

structure DInv (s : State) : Prop where
  le1 : s.helpers.length ≤ 1
  idle : s.caller = none → s.stopped = false → s.helpers = []
  cur : ∀ k, s.caller = some k → ∀ h ∈ s.helpers, h.1 = k

theorem dinv_init : DInv init := by
  constructor <;> simp [init]

theorem dinv_step (p : Params) (hf : p.fresh = true) (hst : p.stopAfterCtx = true) (s s' : State) (l : Label)
    (hi : Inv s) (hd : DInv s) (hs : step p s l = some s') : DInv s' := by
  obtain ⟨d1, d2, d3⟩ := hd
  cases l <;> simp only [step] at hs
  case call =>
    split at hs <;> simp at hs
    subst hs
    rename_i hc
    have := d2 hc.1 hc.2
    refine ⟨by simp [this], by simp, ?_⟩
    intro k hk h hm
    simp [this] at hm hk
    subst hm; exact hk
  case primRet i =>
    split at hs <;> simp at hs
    subst hs
    refine ⟨by simpa using d1, ?_, ?_⟩
    · intro a b; simp at a b ⊢; exact d2 a b
    · intro k hk h hm
      obtain ⟨h0, hac, rfl⟩ := List.mem_map.1 hm
      have := d3 k hk _ hac
      split <;> simpa using this
  case deliver i =>
    split at hs <;> simp at hs
    subst hs
    refine ⟨?_, ?_, ?_⟩
    · exact Nat.le_trans (List.length_filter_le _ _) d1
    · intro a b
      have := d2 a b
      simp [this]
    · intro k hk h hm
      exact d3 k hk h (List.mem_filter.1 hm).1
  case recvResult =>
    split at hs
    · rename_i k hk
      split at hs <;> simp at hs
      subst hs
      rename_i b hb
      have hbm := List.mem_of_find?_eq_some hb
      have hbp := List.find?_some hb
      simp [chanOf, hf] at hbp
      have hnil : s.helpers = [] := by
        cases hh : s.helpers with
        | nil => rfl
        | cons h t =>
          have hm : h ∈ s.helpers := by rw [hh]; simp
          have e1 := d3 k hk h hm
          have e2 := (hi.buf b hbm).2.2 h hm
          omega
      refine ⟨by simpa using d1, fun _ _ => hnil, by simp⟩
    · simp at hs
  case takeCtx =>
    split at hs
    · split at hs <;> simp at hs
      subst hs
      split <;> (refine ⟨by simpa [doClose] using d1, ?_, by simp [doClose]⟩; simp [doClose, hst])
    · simp at hs
  case ctxDone =>
    simp at hs; subst hs
    exact ⟨d1, d2, d3⟩
  case close =>
    simp at hs; subst hs
    exact ⟨by simpa [doClose] using d1, by simpa [doClose] using d2, by simpa [doClose] using d3⟩

theorem dinv_reach (p : Params) (hf : p.fresh = true) (hst : p.stopAfterCtx = true) (s : State)
    (h : Reachable p s) : DInv s := by
  have : Inv s ∧ DInv s := by
    refine GB.LTS.invariant (step p) init (fun s => Inv s ∧ DInv s) ⟨inv_init, dinv_init⟩ ?_ s h
    intro s l s' ⟨a, b⟩ hs
    exact ⟨inv_step p hf s s' l a hs, dinv_step p hf hst s s' l a b hs⟩
  exact this.2

end GB.WCtx

namespace GB.WCtx

/-- ANY schedule: along every run from `s` that contains no new call, the helper steps taken plus the work left
    never exceed the work there was — so in every interleaving the helpers take at most `hrank s` steps, and
    (by `helper_progress`) they are never stuck before they are all gone. -/
theorem bounded_any_schedule (p : Params) :
    ∀ (ls : List Label) (s s' : State), GB.LTS.run (step p) s ls = some s' → ls.all (· != .call) = true →
      (ls.filter helperLabel).length + hrank s' ≤ hrank s := by
  intro ls
  induction ls with
  | nil => intro s s' h _; simp [GB.LTS.run] at h; subst h; simp
  | cons l t ih =>
    intro s s' h hall
    simp only [GB.LTS.run] at h
    cases hs : step p s l with
    | none => simp [hs] at h
    | some s1 =>
      rw [hs] at h
      simp only [List.all_cons, Bool.and_eq_true] at hall
      have hne : l ≠ .call := by
        intro e; subst e; simp at hall
      have := ih s1 s' h hall.2
      cases hl : helperLabel l
      · have := hrank_mono p s s1 l hne hs
        simp [List.filter, hl]; omega
      · have := helper_step_decreases p s s1 l hl hs
        simp [List.filter, hl]; omega

/-! ### negative witnesses -/

/-- unbuffered result channel (seeded change C02-m3), everything else as in the code -/
def unbuffered : Params := { cap := 0, fresh := true, closeOnDone := false, stopAfterCtx := true }

/-- one channel shared by all calls of the stream, caller keeps calling -/
def shared : Params := { cap := 1, fresh := false, closeOnDone := false, stopAfterCtx := false }

/-- the state after: call, ctx done, caller leaves through ctx.Done, handler returns, the primitive returns -/
def leaked : State :=
  { next := 1, caller := none, helpers := [(0, true)], bufs := [], ctxDone := true, released := true, stopped := true,
    cancels := 1, got := [] }

theorem leaked_reached :
    GB.LTS.run (step unbuffered) init [.call, .ctxDone, .takeCtx, .close, .primRet 0] = some leaked := by decide

/-- with capacity 0 the helper whose call was abandoned stays blocked in `errChan <- f()` for ever: in every state
    reachable from `leaked` (any labels whatsoever) it is still there -/
theorem leaked_forever : ∀ (ls : List Label) (s : State), GB.LTS.run (step unbuffered) leaked ls = some s →
    s.helpers = [(0, true)] ∧ (step unbuffered s (.deliver 0)) = none := by
  have key : ∀ (ls : List Label) (a s : State), a.caller = none → a.stopped = true → a.helpers = [(0, true)] →
      GB.LTS.run (step unbuffered) a ls = some s →
      s.helpers = [(0, true)] ∧ (step unbuffered s (.deliver 0)) = none := by
    intro ls
    induction ls with
    | nil =>
      intro a s h1 h2 h3 h
      simp [GB.LTS.run] at h; subst h
      exact ⟨h3, by simp [step, unbuffered]⟩
    | cons l t ih =>
      intro a s h1 h2 h3 h
      simp only [GB.LTS.run] at h
      cases hs : step unbuffered a l with
      | none => simp [hs] at h
      | some a1 =>
        rw [hs] at h
        have : a1.caller = none ∧ a1.stopped = true ∧ a1.helpers = [(0, true)] := by
          cases l <;> simp [step, h1, h2, h3, unbuffered, doClose] at hs <;> (try (subst hs; simp [h1, h2, h3]))
          all_goals (obtain ⟨_, rfl⟩ := hs; simp [h1, h2, h3])
        exact ih a1 s this.1 this.2.1 this.2.2 h
  intro ls s h
  exact key ls leaked s rfl rfl rfl h

end GB.WCtx
