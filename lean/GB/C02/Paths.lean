/-
  Ways out of a function, from its "program" (regenerated fact `GB.Generated.c02Programs`, extract/c02.go): the
  top-level statements as tokens `(kind, events)` in source order —
     ("defer", evs)  a defer statement,
     ("ret", evs)    a statement containing a return (the events inside it happen on the returning path),
     ("do", evs)     any other statement with events.
  `paths prog` = the event sequence of EVERY way out: one per `ret` token (events so far, the events of the returning
  statement, then the deferred calls registered so far in LIFO order) and the one that falls off the end.
  A returning statement that is not taken contributes no event (its events are on the error path only).
-/
namespace GB.Paths

abbrev Tok := String × List String

/-- deferred calls registered so far; head = registered last = executed first -/
def unwind (ds : List (List String)) : List String := ds.flatten

def pathsAux : List Tok → List String → List (List String) → List (List String)
  | [], evs, ds => [evs ++ unwind ds]
  | (k, es) :: rest, evs, ds =>
    if k = "ret" then (evs ++ es ++ unwind ds) :: pathsAux rest evs ds
    else if k = "defer" then pathsAux rest evs (es :: ds)
    else pathsAux rest (evs ++ es) ds

def paths (prog : List Tok) : List (List String) := pathsAux prog [] []

def idxOf (e : String) : List String → Option Nat
  | [] => none
  | x :: t => if x = e then some 0 else (idxOf e t).map (· + 1)

def cnt (e : String) (π : List String) : Nat := (π.filter (fun x => decide (x = e))).length

def has (e : String) (π : List String) : Bool := decide (0 < cnt e π)

/-- the first `a` comes before the first `b` (both present) -/
def before (a b : String) (π : List String) : Bool :=
  match idxOf a π, idxOf b π with
  | some i, some j => decide (i < j)
  | _, _ => false

def lastIs (e : String) (π : List String) : Bool := decide (π.getLast? = some e)

/-- WebSocket handlers. Resources: the hijacked connection (deferred NetConn().Close()), the ReadLoop goroutine
    with its context (cancel + wg.Done deferred inside it), `stream.done`.
    A way out that started ReadLoop closes `done` exactly once, then waits for ReadLoop exactly once, then closes the
    connection as the very last thing; Forward runs at most once and only between `go ReadLoop` and close(done);
    a way out that did not start ReadLoop has nothing to wait for and never called Forward. -/
def wsPathOK (π : List String) : Bool :=
  decide (cnt "forward" π ≤ 1) && decide (cnt "goReadLoop" π ≤ 1) &&
  (if has "goReadLoop" π then
     decide (cnt "closeDone" π = 1) && decide (cnt "wgWait" π = 1) && decide (cnt "netClose" π = 1) &&
     before "goReadLoop" "closeDone" π && before "closeDone" "wgWait" π && before "wgWait" "netClose" π &&
     lastIs "netClose" π &&
     (if has "forward" π then before "goReadLoop" "forward" π && before "forward" "closeDone" π else true)
   else
     !has "closeDone" π && !has "wgWait" π && !has "forward" π)

/-- HTTP handlers (transcoded HTTP, gRPC-Web): no resource of their own besides what Forward owns; after Forward the
    handler takes the response over with finish() exactly once before it writes anything itself; ways out before
    Forward neither call finish nor Forward. -/
def httpPathOK (π : List String) : Bool :=
  decide (cnt "forward" π ≤ 1) && !has "goReadLoop" π && !has "wgWait" π &&
  (if has "forward" π then
     decide (cnt "finish" π = 1) && before "forward" "finish" π &&
     -- no response write between forward and finish: the events right after `forward` start with `finish`
     decide (((π.dropWhile (fun x => decide (x ≠ "forward"))).drop 1).head? = some "finish")
   else !has "finish" π)

/-- Forward itself: every way out ends with cancel() then wg.Wait(); the ways out after the stream exists
    (after `defer outgoing.Close()`; the pumps are started only there) run outgoing.Close() first, exactly once. -/
def fwdPathOK (π : List String) : Bool :=
  decide (cnt "cancel" π = 1) && decide (cnt "wgWait" π = 1) && before "cancel" "wgWait" π && lastIs "wgWait" π &&
  decide (cnt "outClose" π ≤ 1) &&
  (if has "goPump" π then decide (cnt "outClose" π = 1) && before "goPump" "outClose" π && before "outClose" "cancel" π
   else true)

def lookup (name : String) (ps : List (String × List Tok)) : List Tok :=
  match ps.find? (fun x => decide (x.1 = name)) with
  | some x => x.2
  | none => [("missing", [])]

/-- inside the ReadLoop goroutine: ReadLoop, then the deferred cancel() and only then wg.Done() — so a returned
    wg.Wait() implies the handler's context has been cancelled -/
def goBodyOK (b : List String) : Bool :=
  before "readLoop" "cancel" b && before "cancel" "wgDone" b && lastIs "wgDone" b

end GB.Paths
