import GB.C01.Trace
/-
  C02 / C18(a) — the call discipline of Forward towards the OUTGOING stream, over all runs of the Forward LTS.

  gRPC-Go's contract for a `grpc.ClientStream`: one goroutine may call SendMsg and another RecvMsg at the same time,
  but SendMsg ∥ SendMsg, RecvMsg ∥ RecvMsg and CloseSend ∥ SendMsg are forbidden; cancelling the stream's context is
  the only thing that may happen concurrently with anything.

  `Mon` is a contract checker that looks at the LABELS of a run only (it is what a contract-checking fake
  `grpc.ClientStream` does): it counts the Sends / Recvs Forward has issued that have not returned yet and raises `bad`
  when a send-side call (Send, CloseSend) is issued while a Send is in flight, or a receive-side call (Recv, Header,
  Trailer) while a Recv is in flight.  `Close` is parametrised: `halfClose = false` is the repository
  (`AdaptedClientStream.Close` = cancel only, regenerated fact), `halfClose = true` is a Close that also calls
  `stream.CloseSend()` (seeded change C18-m12) — then Close counts as a send-side call.
-/
set_option linter.unusedSimpArgs false
set_option linter.unusedVariables false
set_option linter.unusedSectionVars false
namespace GB.Fwd
open GB.LTS
variable {M E : Type} [DecidableEq M] [DecidableEq E]

/-- outgoing.Send calls issued by Forward (main in forwardUnaryRequest, or the request pump) that have not returned -/
def sendsInFlight (s : State M E) : Nat :=
  (if s.main = .uSendPending then 1 else 0) + (if s.i2o = .sendPending then 1 else 0)

/-- the response pump is inside outgoing.Recv -/
def OPc.outRecving : OPc M E → Bool
  | .recvPending _ => true
  | .recv2Pending _ => true
  | .absent => false | .recvCall _ => false | .recv2Call _ => false | .header _ _ => false | .setHeader _ _ => false
  | .trailer _ => false | .setTrailer _ => false | .sendCall _ _ => false | .sendPending _ => false | .exited => false

attribute [simp] OPc.outRecving.eq_1 OPc.outRecving.eq_2 OPc.outRecving.eq_3 OPc.outRecving.eq_4 OPc.outRecving.eq_5 OPc.outRecving.eq_6 OPc.outRecving.eq_7 OPc.outRecving.eq_8 OPc.outRecving.eq_9 OPc.outRecving.eq_10 OPc.outRecving.eq_11 OPc.outRecving.eq_12

/-- outgoing.Recv calls issued by Forward (the response pump) that have not returned -/
def recvsInFlight (s : State M E) : Nat := if s.o2i.outRecving then 1 else 0

@[simp] theorem After.pc_outRecving (k : After M E) : k.pc.outRecving = false := by cases k <;> rfl
@[simp] theorem afterRecv_outRecving (s : State M E) (h t : Bool) (k : After M E) : (afterRecv s h t k).o2i.outRecving = false := by
  cases h <;> cases t <;> cases k <;> rfl
@[simp] theorem beginReturn_notSend (s : State M E) (c : Bool) (e : Option (Err E)) :
    ((beginReturn s c e).main = .uSendPending) = False := by cases c <;> simp [beginReturn]

structure Mon where
  sends : Nat
  recvs : Nat
  bad : Bool
  deriving DecidableEq, Repr

def Mon.step (halfClose : Bool) (m : Mon) : Label M E → Mon
  | .outSendCall _ => { m with sends := m.sends + 1, bad := m.bad || decide (0 < m.sends) }
  | .outSendRet _ => { m with sends := m.sends - 1 }
  | .outCloseSend => { m with bad := m.bad || decide (0 < m.sends) }
  | .outClose => { m with bad := m.bad || (halfClose && decide (0 < m.sends)) }
  | .outRecvCall => { m with recvs := m.recvs + 1, bad := m.bad || decide (0 < m.recvs) }
  | .outRecvRet _ => { m with recvs := m.recvs - 1 }
  | .outHeader => { m with bad := m.bad || decide (0 < m.recvs) }
  | .outTrailer => { m with bad := m.bad || decide (0 < m.recvs) }
  | _ => m

def monRun (halfClose : Bool) (tr : List (Label M E)) : Mon := tr.foldl (Mon.step halfClose) ⟨0, 0, false⟩

theorem monRun_snoc (hc : Bool) (tr : List (Label M E)) (l : Label M E) :
    monRun hc (tr ++ [l]) = (monRun hc tr).step hc l := by
  simp [monRun, List.foldl_append]

/-- send-side calls of the outgoing stream -/
def sendSide : Label M E → Bool
  | .outSendCall _ => true
  | .outCloseSend => true
  | _ => false

/-- receive-side calls of the outgoing stream -/
def recvSide : Label M E → Bool
  | .outRecvCall => true
  | .outHeader => true
  | .outTrailer => true
  | _ => false

/-- every call Forward makes on the outgoing stream -/
def outCall : Label M E → Bool
  | .outSendCall _ => true
  | .outCloseSend => true
  | .outRecvCall => true
  | .outHeader => true
  | .outTrailer => true
  | .outClose => true
  | _ => false

/-- the monitor's counters are the state's in-flight counts, and the monitor (repository Close) never fired -/
structure DInv (s : State M E) (m : Mon) : Prop where
  snd : m.sends = sendsInFlight s
  rcv : m.recvs = recvsInFlight s
  ok : m.bad = false

set_option maxHeartbeats 8000000 in
theorem dinv_step (p : Params) (s s' : State M E) (m : Mon) (l : Label M E) (hS : SInv p s)
    (hD : DInv s m) (hs : step p s l = some s') : DInv s' (m.step false l) := by
  obtain ⟨s1, hc, rfl⟩ := step_core hs
  clear hs
  obtain ⟨d1, d2, d3⟩ := hD
  have h0 := hS.pre_i
  have h4 := hS.pre_o
  have h1 : s.main = .uSendPending → s.i2o = .absent := fun h => hS.pre_i (by simp [h])
  have h3 : s.main = .uCloseSend → s.i2o = .absent := fun h => hS.pre_i (by simp [h])
  have h2 := hS.lcs
  clear hS
  constructor
  · cases l <;> simp only [stepCore] at hc <;> (repeat' split at hc) <;> (try cases hc) <;>
      simp_all [Mon.step, sendsInFlight] <;> (try (split <;> simp_all)) <;>
      (try (split <;> simp_all))
  · cases l <;> simp only [stepCore] at hc <;> (repeat' split at hc) <;> (try cases hc) <;>
      simp_all [Mon.step, recvsInFlight] <;> (try (split <;> simp_all)) <;>
      (try (split <;> simp_all))
  · cases l <;> simp only [stepCore] at hc <;> (repeat' split at hc) <;> (try cases hc) <;>
      simp_all [Mon.step, sendsInFlight, recvsInFlight]

theorem dinv_run {p : Params} {tr : List (Label M E)} {s : State M E} (h : Run p tr s) :
    DInv s (monRun false tr) := by
  induction h with
  | init => constructor <;> simp [init, monRun, sendsInFlight, recvsInFlight]
  | @step tr s l s' hr hs ih =>
    rw [monRun_snoc]
    exact dinv_step p s s' _ l hr.sinv ih hs

/-- at most one Send in flight (state level) -/
theorem sends_le_one (p : Params) (s : State M E) (hS : SInv p s) : sendsInFlight s ≤ 1 := by
  unfold sendsInFlight
  by_cases hm : s.main = .uSendPending
  · have : s.i2o = .absent := hS.pre_i (by simp [hm])
    simp [hm, this]
  · simp [hm]; split <;> omega

theorem recvs_le_one (s : State M E) : recvsInFlight s ≤ 1 := by
  unfold recvsInFlight; split <;> omega

set_option maxHeartbeats 4000000 in
/-- a send-side call is only ever issued with no Send in flight; a receive-side call with no Recv in flight -/
theorem same_side_sequential (p : Params) (s s' : State M E) (l : Label M E) (hS : SInv p s)
    (hs : step p s l = some s') :
    (sendSide l = true → sendsInFlight s = 0) ∧ (recvSide l = true → recvsInFlight s = 0) := by
  obtain ⟨s1, hc, rfl⟩ := step_core hs
  clear hs
  have h0 := hS.pre_i
  have h4 := hS.pre_o
  have h1 : s.main = .uSendPending → s.i2o = .absent := fun h => hS.pre_i (by simp [h])
  have h3 : s.main = .uCloseSend → s.i2o = .absent := fun h => hS.pre_i (by simp [h])
  have h2 := hS.lcs
  clear hS
  constructor
  · cases l <;> simp only [stepCore] at hc <;> (repeat' split at hc) <;> (try cases hc) <;>
      simp_all [sendSide, sendsInFlight]
  · cases l <;> simp only [stepCore] at hc <;> (repeat' split at hc) <;> (try cases hc) <;>
      simp_all [recvSide, recvsInFlight]

end GB.Fwd
