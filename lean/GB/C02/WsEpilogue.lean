import GB.Base.LTS
/-
  The epilogue of the WebSocket handlers (`TranscodedWebSocketBridge.ServeHTTP`, `GRPCWebSocketBridge.ServeHTTP`)
  as a tiny LTS. It starts when Forward has returned: the forwarder no longer receives from `stream.events`.

  Handler:  sendClose (closeGracefully: close frame + connection deadline)  →  the two steps `closeDone`
            (close(stream.done)) and `waitLoop` (wg.Wait(): enabled iff ReadLoop has exited) in the order given by
            `doneFirst`  →  netClose (deferred NetConn().Close())  →  returned.
  ReadLoop: `reading` — a client message arrives (`msgArrives`, environment, `late` of them are still to come)
            and OnMessage runs: `select { case events <- ev: … ; case <-done: … }`. Nobody receives from `events`
            any more, so OnMessage can only leave through `done` (`onMsgDone`, enabled iff done is closed).
            While reading, the loop ends (`loopExit`) when the client answers the close frame or — at the latest —
            when the connection deadline set by sendClose expires (wsCloseTimeout), or when the connection is closed.
-/
namespace GB.WsEp

inductive HPc | sendClose | first | second | netClose | returned
  deriving DecidableEq, Repr

inductive LPc | reading | onMessage | exited
  deriving DecidableEq, Repr

structure State where
  h : HPc
  loop : LPc
  done : Bool      -- stream.done closed
  armed : Bool     -- close frame sent, connection deadline set
  late : Nat       -- client messages still to arrive
  deriving DecidableEq, Repr

inductive Label
  | sendClose | closeDone | waitLoop | netClose   -- handler
  | msgArrives                                     -- environment: a late client message reaches ReadLoop
  | onMsgDone | loopExit                           -- ReadLoop
  deriving DecidableEq, Repr

def init (late : Nat) : State := { h := .sendClose, loop := .reading, done := false, armed := false, late := late }

/-- `doneFirst = true`: close(stream.done) is executed before wg.Wait() (the code as it is);
    `false`: the swapped defers. -/
def step (doneFirst : Bool) (s : State) : Label → Option State
  | .sendClose => if s.h = .sendClose then some { s with h := .first, armed := true } else none
  | .closeDone =>
    if (doneFirst = true ∧ s.h = .first) then some { s with h := .second, done := true }
    else if (doneFirst = false ∧ s.h = .second) then some { s with h := .netClose, done := true }
    else none
  | .waitLoop =>
    if s.loop = .exited then
      if (doneFirst = true ∧ s.h = .second) then some { s with h := .netClose }
      else if (doneFirst = false ∧ s.h = .first) then some { s with h := .second }
      else none
    else none
  | .netClose => if s.h = .netClose then some { s with h := .returned } else none
  | .msgArrives =>
    if s.loop = .reading ∧ 0 < s.late then some { s with loop := .onMessage, late := s.late - 1 } else none
  | .onMsgDone => if s.loop = .onMessage ∧ s.done = true then some { s with loop := .reading } else none
  | .loopExit => if s.loop = .reading ∧ s.armed = true then some { s with loop := .exited } else none

/-- steps that need nothing from the client (`loopExit` is bounded by the connection deadline) -/
def own : Label → Bool
  | .msgArrives => false
  | _ => true

def hRank : HPc → Nat
  | .sendClose => 4 | .first => 3 | .second => 2 | .netClose => 1 | .returned => 0

def lRank : LPc → Nat
  | .onMessage => 2 | .reading => 1 | .exited => 0

/-- every step decreases it -/
def rank (s : State) : Nat := hRank s.h + lRank s.loop + 2 * s.late

/-- the state the real order maintains: whenever the handler is waiting (or later), done is closed -/
def Inv (s : State) : Prop :=
  (s.h = .second ∨ s.h = .netClose ∨ s.h = .returned → s.done = true) ∧ (s.h ≠ .sendClose → s.armed = true) ∧
  (s.h = .netClose ∨ s.h = .returned → s.loop = .exited)

theorem inv_init (late : Nat) : Inv (init late) := by simp [Inv, init]

theorem inv_step (s s' : State) (l : Label) (hi : Inv s) (hs : step true s l = some s') : Inv s' := by
  obtain ⟨h1, h2, h3⟩ := hi
  cases l <;> simp only [step] at hs <;> (repeat' split at hs) <;> (try cases hs) <;> simp_all [Inv]

theorem rank_decreases (b : Bool) (s s' : State) (l : Label) (hs : step b s l = some s') : rank s' < rank s := by
  cases l <;> simp only [step] at hs <;> (repeat' split at hs) <;> (try cases hs) <;>
    simp_all [rank, hRank, lRank] <;> omega

/-- real order: in every state satisfying the invariant in which the handler has not returned, some step that
    needs nothing from the client is enabled -/
theorem progress (s : State) (hi : Inv s) (hn : s.h ≠ .returned) :
    ∃ l, own l = true ∧ (step true s l).isSome = true := by
  obtain ⟨h1, h2, h3⟩ := hi
  rcases s with ⟨h, loop, done, armed, late⟩
  cases h <;> simp at hn h1 h2 h3
  · exact ⟨.sendClose, rfl, by simp [step]⟩
  · exact ⟨.closeDone, rfl, by simp [step]⟩
  · -- waiting for ReadLoop: it can always move on its own
    subst h1 h2
    cases loop
    · exact ⟨.loopExit, rfl, by simp [step]⟩
    · exact ⟨.onMsgDone, rfl, by simp [step]⟩
    · exact ⟨.waitLoop, rfl, by simp [step]⟩
  · exact ⟨.netClose, rfl, by simp [step]⟩

end GB.WsEp
