import GB.Base.LTS
/-
  The start of the WebSocket epilogue with a client that has STOPPED READING (seeded change C02-m9, twin of D35):
  Forward has returned (deadline / cancellation), but a response write abandoned by withCtx may still be blocked
  inside gws `WriteMessage`, holding gws's write mutex, because the connection's buffers are full.

  closeGracefully:   SetDeadline(now + wsCloseTimeout)   — `arm`
                     WriteMessage(close frame)            — `writeClose`: needs the write mutex; the write itself
                                                            completes if the client reads, and otherwise ends (fails)
                                                            only through the connection deadline
  then close(stream.done) — `closeDone`, wg.Wait() — `waitLoop` (ReadLoop exited), NetConn().Close() — `netClose`.
  `deadlineFirst = true` is the code as it is; `false` the swapped statements.

  Blocked writer: `writerFails` — the blocked write returns with a timeout once the deadline is armed and releases
  the mutex. ReadLoop: `loopExit` — its read fails once the deadline is armed (the client is silent).
  Every step is an own step of the bridge, bounded by wsCloseTimeout where it waits for the deadline; the client
  never does anything.
-/
namespace GB.WsStall

inductive HPc | arm | write | closeDone | wait | netClose | returned
  deriving DecidableEq, Repr

structure State where
  h : HPc
  armed : Bool        -- connection deadline set
  wrote : Bool        -- close frame written (or its write failed by the deadline)
  writer : Bool       -- an abandoned response write is blocked in WriteMessage, holding the write mutex
  loop : Bool         -- ReadLoop still reading
  done : Bool         -- stream.done closed
  deriving DecidableEq, Repr

inductive Label | arm | writeClose | writerFails | loopExit | closeDone | waitLoop | netClose
  deriving DecidableEq, Repr

/-- `writer` = whether a response write is blocked when the epilogue starts; `stalled` = the client does not read -/
def init (deadlineFirst writer : Bool) : State :=
  { h := if deadlineFirst then .arm else .write, armed := false, wrote := false, writer := writer, loop := true,
    done := false }

def step (deadlineFirst stalled : Bool) (s : State) : Label → Option State
  | .arm =>
    if s.h = .arm then some { s with armed := true, h := if deadlineFirst then .write else .closeDone } else none
  | .writeClose =>
    -- needs the mutex (no blocked writer), and completes only if the client reads or the deadline bounds it
    if s.h = .write ∧ s.writer = false ∧ (stalled = false ∨ s.armed = true) then
      some { s with wrote := true, h := if deadlineFirst then .closeDone else .arm }
    else none
  | .writerFails => if s.writer = true ∧ s.armed = true then some { s with writer := false } else none
  | .loopExit => if s.loop = true ∧ s.armed = true then some { s with loop := false } else none
  | .closeDone => if s.h = .closeDone then some { s with done := true, h := .wait } else none
  | .waitLoop => if s.h = .wait ∧ s.loop = false then some { s with h := .netClose } else none
  | .netClose => if s.h = .netClose then some { s with h := .returned, writer := false, loop := false } else none

def hRank : HPc → Nat
  | .arm => 5 | .write => 4 | .closeDone => 3 | .wait => 2 | .netClose => 1 | .returned => 0

/-- real order only (`arm` first): every step decreases it -/
def rank (s : State) : Nat := hRank s.h + (if s.writer then 1 else 0) + (if s.loop then 1 else 0)

def Inv (s : State) : Prop := s.h ≠ .arm → s.armed = true

theorem inv_init (w : Bool) : Inv (init true w) := by simp [Inv, init]

theorem inv_step (st : Bool) (s s' : State) (l : Label) (hi : Inv s) (hs : step true st s l = some s') : Inv s' := by
  cases l <;> simp only [step] at hs <;> (repeat' split at hs) <;> (try cases hs) <;> simp_all [Inv]

theorem rank_decreases (st : Bool) (s s' : State) (l : Label) (hi : Inv s) (hs : step true st s l = some s') :
    rank s' < rank s := by
  cases l <;> simp only [step] at hs <;> (repeat' split at hs) <;> (try cases hs) <;>
    simp_all [rank, hRank, Inv] <;> (repeat' split) <;> simp_all <;> omega

/-- real order: whatever the client does not do, some step is enabled until the handler has returned -/
theorem progress (st : Bool) (s : State) (hi : Inv s) (hn : s.h ≠ .returned) :
    ∃ l, (step true st s l).isSome = true := by
  rcases s with ⟨h, armed, wrote, writer, loop, done⟩
  cases h <;> simp [Inv] at hi hn
  · exact ⟨.arm, by simp [step]⟩
  · subst hi
    cases writer
    · exact ⟨.writeClose, by simp [step]⟩
    · exact ⟨.writerFails, by simp [step]⟩
  · exact ⟨.closeDone, by simp [step]⟩
  · subst hi
    cases loop
    · exact ⟨.waitLoop, by simp [step]⟩
    · exact ⟨.loopExit, by simp [step]⟩
  · exact ⟨.netClose, by simp [step]⟩

end GB.WsStall
