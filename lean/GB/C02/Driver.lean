import GB.Base.Proto
import GB.C01.Driver
namespace GB.C02
open GB GB.Proto

/-- Area c02 uses the same judge as c01 (trace-level C01+C02 specification, then replay through the
    Forward LTS); only the generator differs (fault injection). -/
def handle : Handler := GB.C01.judge

end GB.C02
