import GB.Base.Proto
namespace GB.C02
open GB GB.Proto

/-- stub: replaced when the C02 slice is built -/
def handle : Handler := fun _ _ => "BAD c02 unimplemented"

end GB.C02
