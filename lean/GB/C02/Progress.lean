import GB.C01.Trace
/-
  C02 — progress with a rank function, stability of `terminating`, and the deadlock of a
  ctx-ignoring incoming adapter.
-/
set_option linter.unusedSimpArgs false
set_option linter.unusedVariables false
set_option linter.unusedSectionVars false
namespace GB.Fwd
open GB.LTS
variable {M E : Type} [DecidableEq M] [DecidableEq E]

attribute [local simp] MPc.returning chErr rankAfter

macro "tac" : tactic => `(tactic|
  simp_all [forced, forcedMain, forcedI, forcedO, step, stepCore, unilateral, rank, rankM, rankI, rankO, rankAfter,
    pumpsGone, afterRecv, enterAfter, beginReturn] <;> (try omega))

set_option maxHeartbeats 4000000 in
/-- In every reachable, terminating, not yet returned state with ctx-aware adapters the step chosen by
    `forced` exists, is unilateral and strictly decreases `rank`. -/
theorem progress (e0 : E) (p : Params) (s : State M E) (hS : SInv p s)
    (ht : terminating s = true) (hd : isDone s = false) (hi : p.incAware = true) (ho : p.outAware = true) :
    ∃ l s', forced e0 p s = some l ∧ step p s l = some s' ∧ unilateral p s l = true ∧ rank s' < rank s := by
  have h1 := hS.pre_ic
  have h2 := hS.pre_oc
  have h3 := hS.canc
  clear hS
  rcases p with ⟨cs, ss, ia, oa⟩
  simp only at hi ho
  subst hi ho
  unfold terminating at ht
  unfold isDone at hd
  cases hm : s.main <;> simp [hm] at h1 h2 h3 ht hd
  case start => cases cs <;> tac
  case loop =>
    cases hoc : s.o2iCh <;> cases hcx : s.ctx <;> cases hic : s.i2oCh <;> (try (rename_i r; cases r)) <;> tac
  case deferWait e =>
    cases hgi : s.i2o <;> (
      cases hgo : s.o2i with
      | absent => tac
      | exited => tac
      | recvCall f => tac
      | recvPending f => cases f <;> cases ss <;> tac
      | recv2Call m => tac
      | recv2Pending m => tac
      | header t k => cases t <;> cases k <;> tac
      | setHeader t k => cases t <;> cases k <;> tac
      | trailer k => cases k <;> tac
      | setTrailer k => cases k <;> tac
      | sendCall m l => tac
      | sendPending l => cases l <;> tac)
  all_goals tac

end GB.Fwd
