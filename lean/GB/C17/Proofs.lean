import GB.C17.Spec
/-
  C17 — helper lemmas (core-only).
-/
namespace GB.C17
open GB

set_option linter.unusedSimpArgs false
set_option linter.unusedVariables false

theorem goSlice_ok (s : Bytes) (lo hi : Int) (h : 0 ≤ lo ∧ lo ≤ hi ∧ hi ≤ s.length) :
    ∃ r, goSlice s lo hi = .ok r := by
  unfold goSlice; rw [if_pos h]; exact ⟨_, rfl⟩

theorem goIndex_ok (s : Bytes) (i : Int) (h0 : 0 ≤ i) (h1 : i < s.length) :
    ∃ b, goIndex s i = .ok b := by
  unfold goIndex
  rw [if_pos h0]
  have : i.toNat < s.length := by omega
  rw [List.getElem?_eq_getElem this]
  exact ⟨_, rfl⟩

theorem goIndexL_ok (xs : List Bytes) (i : Int) (h0 : 0 ≤ i) (h1 : i < xs.length) :
    ∃ b, goIndexL xs i = .ok b := by
  unfold goIndexL
  rw [if_pos h0]
  have : i.toNat < xs.length := by omega
  rw [List.getElem?_eq_getElem this]
  exact ⟨_, rfl⟩

theorem splitSlash_ne_nil (s : Bytes) : splitSlash s ≠ [] := by
  induction s with
  | nil => simp [splitSlash]
  | cons c rest ih =>
    unfold splitSlash
    split
    · simp
    · split <;> simp

theorem splitSlash_length_pos (s : Bytes) : 1 ≤ (splitSlash s).length := by
  have := splitSlash_ne_nil s
  cases h : splitSlash s with
  | nil => exact absurd h this
  | cons _ _ => simp

/-- `strings.HasPrefix(k, p+"[") && strings.HasSuffix(k, "]")` forces `len(k) ≥ len(p)+2`. -/
theorem prefix_suffix_length (k p : Bytes) (hp : hasPrefix k (p ++ [91]) = true) (hs : hasSuffix k [93] = true) :
    p.length + 2 ≤ k.length := by
  unfold hasPrefix at hp
  unfold hasSuffix at hs
  rw [List.isPrefixOf_iff_prefix] at hp
  rw [List.isSuffixOf_iff_suffix] at hs
  obtain ⟨t, ht⟩ := hp
  obtain ⟨u, hu⟩ := hs
  cases t with
  | nil =>
    -- then k ends with '[' and with ']'
    exfalso
    have h1 : k.getLast? = some 91 := by rw [← ht]; simp
    have h2 : k.getLast? = some 93 := by rw [← hu]; simp
    rw [h1] at h2
    exact absurd h2 (by decide)
  | cons a t' =>
    rw [← ht]; simp only [List.length_append, List.length_cons, List.length_nil]; omega

theorem suffix_length (s p : Bytes) (h : hasSuffix s p = true) : p.length ≤ s.length := by
  unfold hasSuffix at h
  rw [List.isSuffixOf_iff_suffix] at h
  exact h.length_le

theorem prefix_length (s p : Bytes) (h : hasPrefix s p = true) : p.length ≤ s.length := by
  unfold hasPrefix at h
  rw [List.isPrefixOf_iff_prefix] at h
  exact h.length_le

theorem checkDigitsLoop_ok (s : Bytes) : ∀ (n : Nat) (i : Int), 0 ≤ i → i + n ≤ s.length →
    ∃ r, checkDigitsLoop s n i = .ok r := by
  intro n
  induction n with
  | zero => intro i _ _; exact ⟨true, rfl⟩
  | succ n ih =>
    intro i h0 h1
    unfold checkDigitsLoop
    obtain ⟨b, hb⟩ := goIndex_ok s i h0 (by omega)
    rw [hb]
    simp only [bind, Except.bind]
    split
    · exact ⟨false, rfl⟩
    · exact ih (i + 1) (by omega) (by omega)

theorem cutDot_rest_length (p : Bytes) : (cutDot p).2.1.length ≤ p.length ∧
    ((cutDot p).2.2 = true → (cutDot p).2.1.length < p.length) := by
  induction p with
  | nil => simp [cutDot]
  | cons c rest ih =>
    unfold cutDot
    split
    · simp
    · cases h : cutDot rest with
      | mk a bc =>
        cases bc with
        | mk b f =>
          rw [h] at ih
          simp only at ih ⊢
          constructor
          · have := ih.1; simp only [List.length_cons]; omega
          · intro hf; have := ih.2 hf; simp only [List.length_cons]; omega

theorem cutDot_notfound_rest (p : Bytes) : (cutDot p).2.2 = false → (cutDot p).2.1 = [] := by
  induction p with
  | nil => simp [cutDot]
  | cons c rest ih =>
    unfold cutDot
    split
    · simp
    · cases h : cutDot rest with
      | mk a bc =>
        cases bc with
        | mk b f =>
          rw [h] at ih
          simpa using ih

theorem backToRuneStart_ok (s : Bytes) : ∀ cut : Nat, cut < s.length →
    ∃ r, backToRuneStart s cut = .ok r ∧ r ≤ cut := by
  intro cut
  induction cut with
  | zero => intro _; exact ⟨0, rfl, Nat.le_refl _⟩
  | succ n ih =>
    intro h
    unfold backToRuneStart
    obtain ⟨b, hb⟩ := goIndex_ok s ((n + 1 : Nat) : Int) (by omega) (by omega)
    rw [hb]
    simp only [bind, Except.bind]
    split
    · exact ⟨n + 1, rfl, Nat.le_refl _⟩
    · obtain ⟨r, hr, hle⟩ := ih (by omega)
      exact ⟨r, hr, by omega⟩

end GB.C17
