import GB.C17.Spec
/-
  C17 — helper lemmas (core-only).
-/
namespace GB.C17
open GB

set_option linter.unusedSimpArgs false
set_option linter.unusedVariables false

theorem goSlice_ok (s : Bytes) (lo hi : Int) (h : 0 ≤ lo ∧ lo ≤ hi ∧ hi ≤ s.length) :
    ∃ r, goSlice s lo hi = .ok r := by
  unfold goSlice; rw [if_pos h]; exact ⟨_, rfl⟩

theorem goIndex_ok (s : Bytes) (i : Int) (h0 : 0 ≤ i) (h1 : i < s.length) :
    ∃ b, goIndex s i = .ok b := by
  unfold goIndex
  rw [if_pos h0]
  have : i.toNat < s.length := by omega
  rw [List.getElem?_eq_getElem this]
  exact ⟨_, rfl⟩

theorem goIndexL_ok (xs : List Bytes) (i : Int) (h0 : 0 ≤ i) (h1 : i < xs.length) :
    ∃ b, goIndexL xs i = .ok b := by
  unfold goIndexL
  rw [if_pos h0]
  have : i.toNat < xs.length := by omega
  rw [List.getElem?_eq_getElem this]
  exact ⟨_, rfl⟩

theorem splitSlash_ne_nil (s : Bytes) : GB.C03.splitSlash s ≠ [] := by
  induction s with
  | nil => simp [GB.C03.splitSlash]
  | cons c rest ih =>
    unfold GB.C03.splitSlash
    split
    · simp
    · split <;> simp

theorem splitSlash_length_pos (s : Bytes) : 1 ≤ (GB.C03.splitSlash s).length := by
  have := splitSlash_ne_nil s
  cases h : GB.C03.splitSlash s with
  | nil => exact absurd h this
  | cons _ _ => simp

theorem suffix_length (s p : Bytes) (h : GB.C03.hasSuffix s p = true) : p.length ≤ s.length := by
  unfold GB.C03.hasSuffix at h
  simp only [Bool.and_eq_true, decide_eq_true_eq] at h
  exact h.1

theorem prefix_length (s p : Bytes) (h : hasPrefix s p = true) : p.length ≤ s.length := by
  unfold hasPrefix at h
  rw [List.isPrefixOf_iff_prefix] at h
  exact h.length_le

theorem checkDigitsLoop_ok (s : Bytes) : ∀ (n : Nat) (i : Int), 0 ≤ i → i + n ≤ s.length →
    ∃ r, checkDigitsLoop s n i = .ok r := by
  intro n
  induction n with
  | zero => intro i _ _; exact ⟨true, rfl⟩
  | succ n ih =>
    intro i h0 h1
    unfold checkDigitsLoop
    obtain ⟨b, hb⟩ := goIndex_ok s i h0 (by omega)
    rw [hb]
    simp only [bind, Except.bind]
    split
    · exact ⟨false, rfl⟩
    · exact ih (i + 1) (by omega) (by omega)

theorem cutDot_rest_length (p : Bytes) : (cutDot p).2.1.length ≤ p.length ∧
    ((cutDot p).2.2 = true → (cutDot p).2.1.length < p.length) := by
  induction p with
  | nil => simp [cutDot]
  | cons c rest ih =>
    unfold cutDot
    split
    · simp
    · cases h : cutDot rest with
      | mk a bc =>
        cases bc with
        | mk b f =>
          rw [h] at ih
          simp only at ih ⊢
          constructor
          · have := ih.1; simp only [List.length_cons]; omega
          · intro hf; have := ih.2 hf; simp only [List.length_cons]; omega

theorem cutDot_notfound_rest (p : Bytes) : (cutDot p).2.2 = false → (cutDot p).2.1 = [] := by
  induction p with
  | nil => simp [cutDot]
  | cons c rest ih =>
    unfold cutDot
    split
    · simp
    · cases h : cutDot rest with
      | mk a bc =>
        cases bc with
        | mk b f =>
          rw [h] at ih
          simpa using ih

theorem backToRuneStart_ok (s : Bytes) : ∀ cut : Nat, cut < s.length →
    ∃ r, backToRuneStart s cut = .ok r ∧ r ≤ cut := by
  intro cut
  induction cut with
  | zero => intro _; exact ⟨0, rfl, Nat.le_refl _⟩
  | succ n ih =>
    intro h
    unfold backToRuneStart
    obtain ⟨b, hb⟩ := goIndex_ok s ((n + 1 : Nat) : Int) (by omega) (by omega)
    rw [hb]
    simp only [bind, Except.bind]
    split
    · exact ⟨n + 1, rfl, Nat.le_refl _⟩
    · obtain ⟨r, hr, hle⟩ := ih (by omega)
      exact ⟨r, hr, by omega⟩

/-- `goSlice` computes `take`/`drop` -/
theorem goSlice_eq (s : Bytes) (lo hi : Nat) (h : lo ≤ hi ∧ hi ≤ s.length) :
    goSlice s (lo : Int) (hi : Int) = .ok ((s.take hi).drop lo) := by
  unfold goSlice
  rw [if_pos (by omega)]
  simp

theorem goSliceTo_eq (s : Bytes) (hi : Nat) (h : hi ≤ s.length) : goSliceTo s (hi : Int) = .ok (s.take hi) := by
  unfold goSliceTo goSlice
  rw [if_pos (by omega)]
  simp

theorem goSliceFrom_eq (s : Bytes) (lo : Nat) (h : lo ≤ s.length) : goSliceFrom s (lo : Int) = .ok (s.drop lo) := by
  unfold goSliceFrom goSlice
  rw [if_pos (by omega)]
  simp

theorem goIndex_eq (s : Bytes) (i : Nat) (h : i < s.length) : goIndex s (i : Int) = .ok s[i] := by
  unfold goIndex
  rw [if_pos (by omega)]
  simp [List.getElem?_eq_getElem h]

/-- the Fault-explicit loop computes C13's `truncPoint` (whose `none` branch is unreachable here) -/
theorem backToRuneStart_eq (s : Bytes) : ∀ cut : Nat, cut < s.length →
    backToRuneStart s cut = .ok (GB.C13.truncPoint s cut) := by
  intro cut
  induction cut with
  | zero => intro _; rfl
  | succ n ih =>
    intro h
    unfold backToRuneStart GB.C13.truncPoint
    have hi := goIndex_eq s (n + 1) h
    rw [hi]
    simp only [bind, Except.bind, List.getElem?_eq_getElem h]
    split
    · rfl
    · exact ih (by omega)

/-! ### round 7: `decodeTimeout`'s digit loop and last-byte index, as values -/

theorem isDigit_iff (b : UInt8) : (b < 48 || b > 57) = !GB.C12.isDigit b := by
  unfold GB.C12.isDigit
  rw [Bool.eq_iff_iff]
  simp only [Bool.or_eq_true, decide_eq_true_eq, Bool.not_eq_true', Bool.and_eq_false_iff, decide_eq_false_iff_not,
    UInt8.lt_iff_toNat_lt, UInt8.le_iff_toNat_le, gt_iff_lt]
  have e1 : (48 : UInt8).toNat = 48 := rfl
  have e2 : (57 : UInt8).toNat = 57 := rfl
  rw [e1, e2]
  omega

/-- the loop `for i := i0; …n times… { if s[i] < '0' || s[i] > '9' { return false } }` computes `all isDigit` of that window -/
theorem checkDigitsLoop_eq (s : Bytes) : ∀ (n i : Nat), i + n ≤ s.length →
    checkDigitsLoop s n (i : Int) = .ok (((s.drop i).take n).all GB.C12.isDigit) := by
  intro n
  induction n with
  | zero => intro i _; simp [checkDigitsLoop]
  | succ n ih =>
    intro i h
    have hi : i < s.length := by omega
    unfold checkDigitsLoop
    rw [goIndex_eq s i hi]
    simp only [bind, Except.bind]
    rw [List.drop_eq_getElem_cons hi, List.take_succ_cons, List.all_cons, isDigit_iff]
    cases hd : GB.C12.isDigit s[i] with
    | false => simp
    | true =>
      simp only [Bool.not_true, Bool.false_eq_true, ↓reduceIte, Bool.true_and]
      have := ih (i + 1) (by omega)
      rw [← this]; congr 1

theorem dropLast_eq_take (s : Bytes) : s.dropLast = s.take (s.length - 1) := by
  rw [List.dropLast_eq_take]

theorem getLast?_eq_index (s : Bytes) (h : 0 < s.length) : s.getLast? = some (s[s.length - 1]'(by omega)) := by
  rw [List.getLast?_eq_getElem?, List.getElem?_eq_getElem (by omega)]

end GB.C17
