import GB.C17.Proofs
import GB.C17.Model2
import GB.C12.Props
import GB.C07.Model
import GB.C14.Props
import GB.Generated.Facts
import GB.C03.Props
import GB.C04.Props
import GB.C08.Props
import GB.C09.Props
import GB.C13.Props
import GB.C19.Props
/-
  C17 — no client input can crash or hang a handler.  PROPERTY THEOREMS.

  PARTIAL BY NATURE.  The full statement — "for all byte strings in every client-controlled position
  of HTTP, WebSocket, gRPC-Web and gRPC-WebSocket requests the handler neither panics nor hangs and
  answers with a well-formed response; invalid JSON / parameters on transcoded routes get 4xx" —
  quantifies over net/http, gws, protojson, grpc-gateway and the Go runtime, none of which is modelled.
  What is PROVED here, for ALL inputs, is that the Go partial operations of the small client-facing
  cores this slice owns cannot fault (index / slice bounds with Go's signed arithmetic, closing a
  channel twice, a `strings.Cut` loop running forever), that every decode failure a client can cause
  is wrapped to InvalidArgument ⇒ HTTP 400, and that a case the driver accepts satisfies each clause
  of the property.  The decode cores owned by other slices (C03 routing, C04 population, C08 framing,
  C09 JSON codec, C13 WebSocket intake, C14 names, C19 dispatch, C12 timeout) prove their own
  no-panic theorems; everything else is covered by the fuzz correspondence only (props/C17.json).
-/
open GB GB.C17

set_option linter.unusedSimpArgs false
set_option linter.unusedVariables false

/-! ### no Go partial operation can fault -/

/-- `webbridge.parseMetadataQuery`: the Fault-explicit key slice equals C19's total model — the slice
    `k[len(param)+1 : len(k)-1]` is in bounds (by `C19_mdquery_slice_in_range`) and yields `GB.C19.mdKeyOf`. -/
theorem C17_mdkey_is_C19 (param k : Bytes) :
    mdKeyWith param k = .ok (
      if !GB.C19.isMetaKey param k then .skip
      else if GB.C19.isValidMetadataKey (GB.C19.mdKeyOf param k) then .md (GB.C19.lower (GB.C19.mdKeyOf param k))
      else .drop) := by
  unfold mdKeyWith
  cases hm : GB.C19.isMetaKey param k with
  | false => simp
  | true =>
    have hlen := C19_mdquery_slice_in_range param k hm
    have hs := goSlice_eq k (param.length + 1) (k.length - 1) (by omega)
    have e1 : ((param.length + 1 : Nat) : Int) = (param.length : Int) + 1 := by omega
    have e2 : ((k.length - 1 : Nat) : Int) = (k.length : Int) - 1 := by omega
    rw [e1, e2] at hs
    have hk : (k.take (k.length - 1)).drop (param.length + 1) = GB.C19.mdKeyOf param k := by
      unfold GB.C19.mdKeyOf
      rw [List.drop_take]
    simp only [Bool.not_true, Bool.false_eq_true, ↓reduceIte, hs, hk, bind, Except.bind]
    split <;> rfl

/-- … hence no query key and no parameter name can make `parseMetadataQuery` panic. -/
theorem C17_mdkey_no_panic (param k : Bytes) : ∃ r, mdKey param k = .ok r := by
  unfold mdKey
  exact ⟨_, C17_mdkey_is_C19 _ k⟩

/-- gRPC-WebSocket `OnMessage` (after the metadata frame): the Fault-explicit model — `data[0]`, `data[6:]` —
    equals C08's total model for every frame in every state; in particular it never faults. -/
theorem C17_gws_onmessage_is_C08 (mdOk : Bytes → Bool) (st : GB.C08.WS) (data : Bytes) (hmd : st.receivedMD = true) :
    gwsOnMessage st data = .ok (GB.C08.onMessage mdOk st data) := by
  unfold gwsOnMessage GB.C08.onMessage
  cases hc : st.closed with
  | true => simp
  | false =>
    simp only [Bool.false_eq_true, ↓reduceIte, hmd, Bool.not_true]
    cases data with
    | nil => simp [GB.C08.wsOff, bind, Except.bind, pure, Except.pure]
    | cons b t =>
      have hb : goIndex (b :: t) 0 = .ok b := by simp [goIndex]
      by_cases h6 : 6 ≤ (b :: t).length
      · have hs := goSlice_eq (b :: t) 6 (b :: t).length ⟨h6, Nat.le_refl _⟩
        have hs' : goSliceFrom (b :: t) 6 = .ok ((b :: t).drop 6) := by
          unfold goSliceFrom; simpa using hs
        simp only [List.length_cons, gt_iff_lt, Nat.zero_lt_succ, ↓reduceIte, hb, bind, Except.bind, pure, Except.pure,
          ge_iff_le, GB.C08.wsOff]
        have h6' : 6 ≤ t.length + 1 := by simpa using h6
        simp only [h6', ↓reduceIte, hs']
      · have h6' : ¬ 6 ≤ t.length + 1 := by simpa using h6
        simp only [List.length_cons, gt_iff_lt, Nat.zero_lt_succ, ↓reduceIte, hb, bind, Except.bind, pure, Except.pure,
          ge_iff_le, GB.C08.wsOff, h6', Option.isNone_none, Bool.true_and]
        split <;> rfl

theorem C17_gws_onmessage_no_panic (st : GB.C08.WS) (data : Bytes) (hmd : st.receivedMD = true) :
    ∃ r, gwsOnMessage st data = .ok r :=
  ⟨_, C17_gws_onmessage_is_C08 (fun _ => true) st data hmd⟩

/-- A whole gRPC-WebSocket session never closes `events` twice, whatever the client sends in whatever order. -/
theorem C17_gws_session_no_double_close (frames : List Bytes) :
    ∃ r, gwsSession { receivedMD := true, closed := false } false frames = .ok r := by
  suffices h : ∀ (frames : List Bytes) (st : GB.C08.WS) (evClosed : Bool), st.receivedMD = true →
      (evClosed = true → st.closed = true) → ∃ r, gwsSession st evClosed frames = .ok r from h frames _ false rfl (by simp)
  intro frames
  induction frames with
  | nil => intro st e _ _; exact ⟨_, rfl⟩
  | cons d rest ih =>
    intro st evClosed hmd inv
    unfold gwsSession
    rw [C17_gws_onmessage_is_C08 (fun _ => true) st d hmd]
    simp only [bind, Except.bind]
    -- facts about C08's step: a closed stream ignores the frame; `eof` is emitted iff the stream closes now
    have hstep : (GB.C08.onMessage (fun _ => true) st d).1.receivedMD = true ∧
        (st.closed = true → GB.C08.onMessage (fun _ => true) st d = (st, [])) ∧
        ((GB.C08.onMessage (fun _ => true) st d).2.contains GB.C08.WSEv.eof = true →
          (GB.C08.onMessage (fun _ => true) st d).1.closed = true) := by
      unfold GB.C08.onMessage
      cases hc : st.closed with
      | true => simp [hmd]
      | false =>
        simp only [Bool.false_eq_true, ↓reduceIte, hmd, Bool.not_true, false_implies, true_and]
        intro hcont
        cases d with
        | nil => simp [GB.C08.wsOff] at hcont
        | cons b t =>
          simp only at hcont ⊢
          cases hb : (b == 1) with
          | true => rfl
          | false =>
            exfalso
            simp only [hb, Bool.false_eq_true, ↓reduceIte, List.append_nil] at hcont
            repeat' (split at hcont)
            all_goals simp at hcont
    obtain ⟨h1, h2, h3⟩ := hstep
    cases hc : st.closed with
    | true =>
      rw [h2 hc]
      simp only [List.contains_nil, Bool.false_eq_true, ↓reduceIte]
      exact ih st evClosed hmd inv
    | false =>
      have hev : evClosed = false := by
        cases evClosed with
        | false => rfl
        | true => have := inv rfl; rw [hc] at this; cases this
      subst hev
      by_cases hce : (GB.C08.onMessage (fun _ => true) st d).2.contains GB.C08.WSEv.eof = true
      · simp only [hce, ↓reduceIte, Bool.false_eq_true]
        exact ih _ true h1 (fun _ => h3 hce)
      · simp only [hce, Bool.false_eq_true, ↓reduceIte]
        exact ih _ false h1 (by simp)

/-- The transcoded WebSocket `OnMessage` closes `events` at most once for every binding shape and any number of frames. -/
theorem C17_ws_session_no_double_close (cs body : Bool) (n : Nat) : ∃ r, wsSession cs body false false n = .ok r := by
  suffices h : ∀ (n : Nat) (ar ev : Bool), (ev = true → ar = true ∧ cs = false) →
      ∃ r, wsSession cs body ar ev n = .ok r from h n false false (by simp)
  intro n
  induction n with
  | zero => intro ar ev _; exact ⟨_, rfl⟩
  | succ n ih =>
    intro ar ev inv
    unfold wsSession
    cases cs <;> cases body <;> cases ar <;> cases ev <;> first
      | (exfalso; simp at inv; done)
      | exact ih _ _ (by simp)

/-- gRPC-Web `recv`: the Fault-explicit model — `header[1:5]`, the four length bytes, the body slices — equals
    C08's total model `GB.C08.recv` for every request body; in particular it never faults. -/
theorem C17_gwrecv_is_C08 (body : Bytes) : gwRecv body = .ok (GB.C08.recv body) := by
  unfold gwRecv GB.C08.recv GB.C08.recvL
  match body with
  | [] => rfl
  | [_] => rfl
  | [_, _] => rfl
  | [_, _, _] => rfl
  | [_, _, _, _] => rfl
  | f :: a :: b :: c :: d :: rest =>
    have hh : goSliceTo (f :: a :: b :: c :: d :: rest) 5 = .ok [f, a, b, c, d] := by
      have := goSlice_eq (f :: a :: b :: c :: d :: rest) 0 5 (by simp)
      unfold goSliceTo; simpa using this
    have hr : goSliceFrom (f :: a :: b :: c :: d :: rest) 5 = .ok rest := by
      have := goSlice_eq (f :: a :: b :: c :: d :: rest) 5 (f :: a :: b :: c :: d :: rest).length (by simp)
      unfold goSliceFrom; simpa using this
    have hl : goSlice [f, a, b, c, d] 1 5 = .ok [a, b, c, d] := by
      have := goSlice_eq [f, a, b, c, d] 1 5 (by simp)
      simpa using this
    have i0 : goIndex [a, b, c, d] 0 = .ok a := by simp [goIndex]
    have i1 : goIndex [a, b, c, d] 1 = .ok b := by simp [goIndex]
    have i2 : goIndex [a, b, c, d] 2 = .ok c := by simp [goIndex]
    have i3 : goIndex [a, b, c, d] 3 = .ok d := by simp [goIndex]
    have hlen0 : ((f :: a :: b :: c :: d :: rest).length == 0) = false := by simp
    have hlen5 : ¬ (f :: a :: b :: c :: d :: rest).length < 5 := by simp
    simp only [hlen0, Bool.false_eq_true, ↓reduceIte, hlen5, hh, hr, hl, i0, i1, i2, i3, bind, Except.bind]
    split
    · rfl
    · split
      · rfl
      · split
        · rfl
        · rename_i h1 h2 h3
          have hle : GB.C08.be32 a b c d ≤ rest.length := by omega
          have hd := goSlice_eq rest 0 (GB.C08.be32 a b c d) ⟨Nat.zero_le _, hle⟩
          have hd' : goSliceTo rest (GB.C08.be32 a b c d : Nat) = .ok (rest.take (GB.C08.be32 a b c d)) := by
            unfold goSliceTo; simpa using hd
          have hrr := goSlice_eq rest (GB.C08.be32 a b c d) rest.length ⟨hle, Nat.le_refl _⟩
          have hrr' : goSliceFrom rest (GB.C08.be32 a b c d : Nat) = .ok (rest.drop (GB.C08.be32 a b c d)) := by
            unfold goSliceFrom; simpa using hrr
          simp only [hd', hrr']

theorem C17_gwrecv_no_panic (body : Bytes) : ∃ r, gwRecv body = .ok r := ⟨_, C17_gwrecv_is_C08 body⟩

/-- `verbIdx > 0` only arises from the suffix branch, where `verbIdx = len(last) - len(verb) - 1 < len(last)`. -/
theorem C17_verb_index_range (last verb : Bytes) :
    verbIndex last verb = -1 ∨ (0 ≤ verbIndex last verb ∧ verbIndex last verb + 1 ≤ last.length) := by
  unfold verbIndex
  split
  · rename_i hsuf
    have hs := suffix_length last (58 :: verb) hsuf.2
    simp only [List.length_cons] at hs
    right; omega
  · left; rfl

/-- `PatternRouter.RouteHTTP`: `path[1:]`, `pathComponents[len-1]`, `last[:verbIdx]`, `last[verbIdx+1:]` and the
    assignment to `matchComponents[len-1]` are in bounds for every path and every pattern verb. -/
theorem C17_route_slices_no_panic (path verb : Bytes) : ∃ r, routeSlices path verb = .ok r := by
  unfold routeSlices
  split
  · exact ⟨_, rfl⟩
  · rename_i hp
    have hp' : hasPrefix path [47] = true := by simpa using hp
    have hlen := prefix_length path [47] hp'
    simp only [List.length_cons, List.length_nil] at hlen
    obtain ⟨p1, hp1⟩ := goSlice_ok path 1 path.length (by omega)
    simp only [goSliceFrom, hp1, bind, Except.bind]
    have hpos := splitSlash_length_pos p1
    obtain ⟨last, hlast⟩ := goIndexL_ok (GB.C03.splitSlash p1) (((GB.C03.splitSlash p1).length : Int) - 1) (by omega) (by omega)
    rw [hlast]
    simp only
    have hvi := C17_verb_index_range last verb
    generalize verbIndex last verb = vi at hvi
    unfold routeSlicesAt
    split
    · exact ⟨_, rfl⟩
    · split
      · rename_i hgt
        have : vi + 1 ≤ last.length := by omega
        obtain ⟨a, ha⟩ := goSlice_ok last 0 vi (by omega)
        obtain ⟨v, hv⟩ := goSlice_ok last (vi + 1) last.length (by omega)
        simp only [goSliceTo, goSliceFrom, ha, hv, hlast, bind, Except.bind]
        exact ⟨_, rfl⟩
      · exact ⟨_, rfl⟩

/-- The Fault-explicit per-route step computes exactly the arguments C03's total `stepRoute` hands to the
    matcher (and skips the route exactly when C03 does): the two models of the `RouteHTTP` closure agree. -/
theorem C17_route_step_is_C03 {ι : Type} (comps : List Bytes) (last : Bytes) (r : GB.C03.Route ι) (hne : comps ≠ []) :
    ∃ s, routeSlicesAt comps last (verbIndex last r.verb) = .ok s ∧ s ≠ .invalid ∧
      GB.C03.stepRoute comps last r =
        (match s with | .comps mc v => r.run mc v | _ => .notMatch) := by
  have hpos : 1 ≤ comps.length := by
    cases comps with | nil => exact absurd rfl hne | cons _ _ => simp
  by_cases hsuf : r.verb ≠ [] ∧ GB.C03.hasSuffix last (58 :: r.verb) = true
  · have hs := suffix_length last (58 :: r.verb) hsuf.2
    simp only [List.length_cons] at hs
    have hvi : verbIndex last r.verb = ((last.length - r.verb.length - 1 : Nat) : Int) := by
      unfold verbIndex; rw [if_pos hsuf]; omega
    rw [hvi]
    unfold GB.C03.stepRoute
    rw [if_pos hsuf]
    generalize hn : last.length - r.verb.length - 1 = n
    have hnle : n + 1 ≤ last.length := by omega
    unfold routeSlicesAt
    by_cases h0 : n = 0
    · subst h0
      exact ⟨.skipRoute, by simp, by simp, by simp⟩
    · have hz : (((n : Nat) : Int) == 0) = false := by simp; omega
      have hgt : ((n : Nat) : Int) > 0 := by omega
      have e2 : ((n : Nat) : Int) + 1 = ((n + 1 : Nat) : Int) := by omega
      obtain ⟨x, hx⟩ := goIndexL_ok comps ((comps.length : Int) - 1) (by omega) (by omega)
      rw [hz]
      simp only [Bool.false_eq_true, ↓reduceIte, hgt, e2, goSliceTo_eq last n (by omega),
        goSliceFrom_eq last (n + 1) hnle, hx, bind, Except.bind, h0]
      exact ⟨_, rfl, by simp, rfl⟩
  · have hvi : verbIndex last r.verb = -1 := by unfold verbIndex; rw [if_neg hsuf]
    rw [hvi]
    unfold GB.C03.stepRoute routeSlicesAt
    rw [if_neg hsuf]
    exact ⟨.comps comps [], by simp, by simp, rfl⟩

/-- `routing.parseRPCName`: `rpcName[0]` and `rpcName[1:]` are in bounds for every name. -/
theorem C17_parse_rpc_name_no_panic (name : Bytes) : ∃ r, parseRPCName name = .ok r := by
  unfold parseRPCName
  by_cases h0 : name.length > 0
  · obtain ⟨b, hb⟩ := goIndex_ok name 0 (by omega) (by omega)
    obtain ⟨t, ht⟩ := goSlice_ok name 1 name.length (by omega)
    simp only [h0, ↓reduceIte, hb, bind, Except.bind, pure, Except.pure]
    cases hb47 : (b == 47)
    · simp only [Bool.false_eq_true, ↓reduceIte]; exact ⟨_, rfl⟩
    · simp only [↓reduceIte, goSliceFrom, ht]; exact ⟨_, rfl⟩
  · simp only [h0, ↓reduceIte, bind, Except.bind, pure, Except.pure]
    exact ⟨_, rfl⟩

/-- `grpcadapter.decodeTimeout`: `s[size-1]`, every `s[i]` of the digit loop and `s[:size-1]` are in bounds. -/
theorem C17_decode_timeout_no_panic (s : Bytes) : ∃ r, decodeTimeoutIdx s = .ok r := by
  unfold decodeTimeoutIdx
  simp only
  split
  · exact ⟨_, rfl⟩
  · rename_i h
    have h2 : 2 ≤ s.length ∧ s.length ≤ 9 := by omega
    obtain ⟨u, hu⟩ := goIndex_ok s ((s.length : Int) - 1) (by omega) (by omega)
    obtain ⟨okd, hokd⟩ := checkDigitsLoop_ok s (s.length - 1) 0 (by omega) (by omega)
    obtain ⟨t, ht⟩ := goSlice_ok s 0 ((s.length : Int) - 1) (by omega)
    rw [hu]
    simp only [bind, Except.bind]
    cases hd : GB.C12.timeoutUnitToDuration u with
    | none => exact ⟨_, rfl⟩
    | some d =>
      simp only [hokd, goSliceTo, ht]
      cases okd <;> exact ⟨_, rfl⟩

/-- `ProxyMDFilter.filterRequest`: `k[:len(prefix)]`, `k[len(prefix):]`, `k[len(k)-len(suffix):]` are in bounds
    for every allow-listed key and every configured prefix. -/
theorem C17_filter_key_no_panic (k pfx : Bytes) : ∃ r, filterKey k pfx = .ok r := by
  have bin_ok : ∀ k1 : Bytes, ∃ r, isBinKey k1 = .ok r := by
    intro k1
    unfold isBinKey
    split
    · rename_i h
      obtain ⟨t, ht⟩ := goSlice_ok k1 ((k1.length : Int) - binSuffix.length) k1.length (by omega)
      simp only [goSliceFrom, ht, bind, Except.bind, pure, Except.pure]
      exact ⟨_, rfl⟩
    · exact ⟨_, rfl⟩
  have strip_ok : ∃ r, stripGw k pfx = .ok r := by
    unfold stripGw
    split
    · rename_i hk
      obtain ⟨h, hh⟩ := goSlice_ok k 0 gwPrefix.length (by omega)
      obtain ⟨t, ht⟩ := goSlice_ok k gwPrefix.length k.length (by omega)
      simp only [goSliceTo, goSliceFrom, hh, ht, bind, Except.bind, pure, Except.pure]
      cases eqFold h gwPrefix <;> exact ⟨_, rfl⟩
    · exact ⟨_, rfl⟩
  obtain ⟨k1, hk1⟩ := strip_ok
  obtain ⟨b, hb⟩ := bin_ok k1
  unfold filterKey
  simp only [hk1, hb, bind, Except.bind, pure, Except.pure]
  exact ⟨_, rfl⟩

/-- `transcoding.traverseFieldPath`: the `strings.Cut` loop terminates (never runs out of `len(path)+1` iterations)
    for every path and every description. -/
theorem C17_traverse_terminates (lookup : Nat → Bytes → Option FieldKind) (root : Nat) (path : Bytes) :
    ∃ r, traverseFieldPath lookup root path = .ok r := by
  unfold traverseFieldPath
  split
  · exact ⟨_, rfl⟩
  · suffices h : ∀ (fuel : Nat) (m : Nat) (lastFd : Option Bytes) (p : Bytes), p.length < fuel →
        ∃ r, traverseLoop lookup fuel m lastFd p = .ok r from h _ root none path (by omega)
    intro fuel
    induction fuel with
    | zero => intro m l p h; omega
    | succ fuel ih =>
      intro m lastFd p hlen
      unfold traverseLoop
      cases hc : cutDot p with
      | mk elem rf =>
        cases rf with
        | mk rest found =>
          simp only
          split
          · split <;> exact ⟨_, rfl⟩
          · split
            · exact ⟨_, rfl⟩
            · split
              · exact ⟨_, rfl⟩
              · split
                · exact ⟨_, rfl⟩
                · rename_i hrest
                  split
                  · -- recursion on `rest`: it is non-empty, so the separator was found, so it is shorter
                    have hl := cutDot_rest_length p
                    have hnf := cutDot_notfound_rest p
                    rw [hc] at hl hnf
                    simp only at hl hnf
                    have hfound : found = true := by
                      cases found with
                      | true => rfl
                      | false => have := hnf rfl; simp [this] at hrest
                    have := hl.2 hfound
                    exact ih _ _ _ (by omega)
                  · exact ⟨_, rfl⟩

/-! ### invalid input ⇒ InvalidArgument ⇒ HTTP 400 -/

/-- Every decode failure a CLIENT can cause (body rejected by the marshaler, EOF of a streamed body, a path or
    query parameter that does not parse) reaches the client as InvalidArgument, i.e. HTTP 400 — for the
    one-shot and the streaming transcoder alike. -/
theorem C17_invalid_input_400 (supportsEOF : Bool) (f : DecodeFailure) (h : f ≠ .bodyPath) :
    recvHTTPStatus supportsEOF f = some 400 := by
  cases f <;> cases supportsEOF <;> first | rfl | exact absurd rfl h

/-- The only 5xx `transcodeFunc` itself produces is for a body path that does not resolve in the BINDING
    (a description error, not client input). -/
theorem C17_body_path_is_the_only_5xx (supportsEOF : Bool) (f : DecodeFailure) :
    (∃ s, recvHTTPStatus supportsEOF f = some s ∧ 500 ≤ s) ↔ f = .bodyPath := by
  cases f <;> cases supportsEOF <;> simp [recvHTTPStatus, requestTranscodingError, wrapTranscodingError, transcodeFuncErr, httpStatusFromCode]

/-- `requestTranscodingError`: nil stays nil, a direct status error keeps its code, anything else becomes
    InvalidArgument (never a 5xx by default); `responseTranscodingError` defaults to Internal. -/
theorem C17_wrap_transcoding_error (e : Err) :
    (requestTranscodingError e = none ↔ e = .nil) ∧
    (∀ c, e = .status c → requestTranscodingError e = some c) ∧
    (e = .plain → (requestTranscodingError e).map httpStatusFromCode = some 400) ∧
    (e = .plain → (responseTranscodingError e).map httpStatusFromCode = some 500) := by
  cases e <;> simp [requestTranscodingError, responseTranscodingError, wrapTranscodingError, httpStatusFromCode]

/-- The HTTP mapping never leaves the range of valid status codes, and is a 5xx exactly for the six server-side codes. -/
theorem C17_http_status_range (c : Code) :
    200 ≤ httpStatusFromCode c ∧ httpStatusFromCode c < 600 ∧
    (500 ≤ httpStatusFromCode c ↔ c = .unknown ∨ c = .deadlineExceeded ∨ c = .unimplemented ∨ c = .internal ∨ c = .unavailable ∨ c = .dataLoss) := by
  cases c <;> simp [httpStatusFromCode]

/-- `websocketError` only produces close codes that may be sent on the wire. -/
theorem C17_websocket_error_code_valid (e : WsErr) : validCloseCode (websocketError e).1 = true := by
  cases e <;> rfl

/-- `closeReason`: the Fault-explicit model — `reason[n]` in the loop, `reason[:n]` — equals C13's total model
    `GB.C13.closeReason` for every reason; in particular it never faults. -/
theorem C17_close_reason_is_C13 (reason : Bytes) : truncateCloseReason reason = .ok (GB.C13.closeReason reason) := by
  unfold truncateCloseReason GB.C13.closeReason
  split
  · rfl
  · rename_i h
    have hlt : GB.C13.maxCloseReasonLen < reason.length := by omega
    rw [backToRuneStart_eq reason _ hlt]
    simp only [bind, Except.bind]
    have hle : GB.C13.truncPoint reason GB.C13.maxCloseReasonLen ≤ reason.length := by
      have := GB.C13.truncPoint_le reason GB.C13.maxCloseReasonLen; omega
    have := goSlice_eq reason 0 (GB.C13.truncPoint reason GB.C13.maxCloseReasonLen) ⟨Nat.zero_le _, hle⟩
    unfold goSliceTo
    simpa using this

/-- … so the truncated reason fits a close frame (≤ 123 bytes next to the 2-byte code), is a prefix of the reason
    and — C13's result — is never cut inside a UTF-8 sequence. -/
theorem C17_close_reason_fits (reason : Bytes) :
    ∃ r, truncateCloseReason reason = .ok r ∧ r.length ≤ 123 ∧ r <+: reason :=
  ⟨_, C17_close_reason_is_C13 reason, GB.C13.closeReason_length reason, GB.C13.closeReason_prefix reason⟩

/-! ### what an accepted case means (the judgement is the property) -/

/-- An in-process case the driver accepts is not a panic, not a hang, and — unless net/http itself refused
    the request — has valid headers, a body that is well-formed for its protocol, a 4xx answer whenever the
    request was invalid on a transcoded route, and for gRPC-Web: 200 with exactly one trailer frame carrying
    a grpc-status. -/
theorem C17_accepted_http (c : HttpCase) (h : httpViolations c = []) :
    c.res = .reject ∨
    (c.res = .ok ∧ c.headersValid = true ∧ c.wellFormed = true ∧
      (invalidOnTranscodedRoute c = true → is4xx c.status = true ∨ (c.hasTimeout = true ∧ c.status = 504)) ∧
      (c.entry = .grpcweb → c.status = 200 ∧ c.ct = .grpcweb ∧ c.trailers = 1 ∧ c.grpcStatus.isSome = true) ∧
      (c.entry = .http → 200 ≤ c.status ∧ c.status < 600)) := by
  unfold httpViolations at h
  cases hr : c.res with
  | reject => left; rfl
  | panic => rw [hr] at h; simp at h
  | hang => rw [hr] at h; simp at h
  | ok =>
    right
    rw [hr] at h
    simp only [List.append_eq_nil_iff] at h
    obtain ⟨⟨hhv, hent⟩, hinv⟩ := h
    have hv : c.headersValid = true := by
      cases hh : c.headersValid with
      | true => rfl
      | false => simp [hh] at hhv
    have hinv' : invalidOnTranscodedRoute c = true → is4xx c.status = true ∨ (c.hasTimeout = true ∧ c.status = 504) := by
      intro hi
      simp only [hi, Bool.true_and] at hinv
      by_cases hcond : (is4xx c.status || (c.hasTimeout && c.status == 504)) = true
      · simp only [Bool.or_eq_true, Bool.and_eq_true, beq_iff_eq] at hcond
        exact hcond
      · simp [hcond] at hinv
    cases he : c.entry with
    | grpcweb =>
      rw [he] at hent
      simp only [List.append_eq_nil_iff] at hent
      obtain ⟨⟨⟨⟨h1, h2⟩, h3⟩, h4⟩, h5⟩ := hent
      have e1 : c.status = 200 := by
        by_cases hx : c.status = 200
        · exact hx
        · simp [hx] at h1
      have e2 : c.ct = .grpcweb := by
        by_cases hx : c.ct = .grpcweb
        · exact hx
        · simp [hx] at h2
      have e3 : c.wellFormed = true := by
        cases hx : c.wellFormed with
        | true => rfl
        | false => simp [hx] at h3
      have e4 : c.trailers = 1 := by
        by_cases hx : c.trailers = 1
        · exact hx
        · simp [hx] at h4
      have e5 : c.grpcStatus.isSome = true := by
        cases hx : c.grpcStatus with
        | some _ => rfl
        | none => simp [hx] at h5
      exact ⟨rfl, hv, e3, hinv', fun _ => ⟨e1, e2, e4, e5⟩, (by intro hc; cases hc)⟩
    | http =>
      rw [he] at hent
      simp only [List.append_eq_nil_iff] at hent
      obtain ⟨⟨h1, h2⟩, h3⟩ := hent
      have e1 : 200 ≤ c.status ∧ c.status < 600 := by
        by_cases hx : (decide (200 ≤ c.status) && decide (c.status < 600)) = true
        · simpa using hx
        · simp [hx] at h1
      have e2 : c.wellFormed = true := by
        cases hx : c.wellFormed with
        | true => rfl
        | false => simp [hx] at h2
      exact ⟨rfl, hv, e2, hinv', (by intro hc; cases hc), fun _ => e1⟩
    | ws =>
      rw [he] at hent
      simp only [List.append_eq_nil_iff] at hent
      have e2 : c.wellFormed = true := by
        cases hx : c.wellFormed with
        | true => rfl
        | false => simp [hx] at hent
      exact ⟨rfl, hv, e2, hinv', (by intro hc; cases hc), (by intro hc; cases hc)⟩
    | grpcws =>
      rw [he] at hent
      simp only [List.append_eq_nil_iff] at hent
      have e2 : c.wellFormed = true := by
        cases hx : c.wellFormed with
        | true => rfl
        | false => simp [hx] at hent
      exact ⟨rfl, hv, e2, hinv', (by intro hc; cases hc), (by intro hc; cases hc)⟩

/-- A socket session the driver accepts is not a panic and not a hang (the handler returned after the client
    left); after a successful upgrade every server message is well-formed, no malformed frame was seen, the close
    reason is UTF-8 and the close code is legal; a gRPC-WebSocket call the server ended normally carries its
    final trailer; and an invalid first message on a transcoded stream was reported as a client error. -/
theorem C17_accepted_ws (c : WsCase) (h : wsViolations c = []) :
    c.res = .reject ∨
    (c.res = .ok ∧ (c.handshake = 101 →
      c.messagesWF = true ∧ c.closeReasonUTF8 = true ∧ c.close ≠ .proto ∧ (∀ k, c.close = .code k → validCloseCode k = true) ∧
      (c.grpcws = true → c.fin = .wait → c.clientInterfered = false → c.close = .code 1000 → c.lastIsTrailer = true) ∧
      (wsMustReportInvalid c = true →
        (c.close = .code 1001 ∧ c.reasonCode = some "InvalidArgument") ∨ c.close = .code 1007 ∨ c.close = .code 1003))) := by
  unfold wsViolations at h
  cases hr : c.res with
  | reject => left; rfl
  | panic => rw [hr] at h; simp at h
  | hang => rw [hr] at h; simp at h
  | ok =>
    right
    refine ⟨rfl, ?_⟩
    intro hs
    rw [hr] at h
    simp only [hs, bne_self_eq_false, Bool.false_eq_true, ↓reduceIte, List.append_eq_nil_iff] at h
    obtain ⟨⟨⟨⟨h1, h2⟩, h3⟩, h4⟩, h5⟩ := h
    have e1 : c.messagesWF = true := by
      cases hx : c.messagesWF with
      | true => rfl
      | false => simp [hx] at h1
    have e2 : c.closeReasonUTF8 = true := by
      cases hx : c.closeReasonUTF8 with
      | true => rfl
      | false => simp [hx] at h2
    have e3 : c.close ≠ .proto := by
      intro hx; rw [hx] at h3; simp at h3
    have e4 : ∀ k, c.close = .code k → validCloseCode k = true := by
      intro k hk
      rw [hk] at h3
      cases hv : validCloseCode k with
      | true => rfl
      | false => simp [hv] at h3
    have e5 : c.grpcws = true → c.fin = .wait → c.clientInterfered = false → c.close = .code 1000 → c.lastIsTrailer = true := by
      intro a b ci d
      cases hx : c.lastIsTrailer with
      | true => rfl
      | false => simp [a, b, ci, d, hx] at h4
    have e6 : wsMustReportInvalid c = true →
        (c.close = .code 1001 ∧ c.reasonCode = some "InvalidArgument") ∨ c.close = .code 1007 ∨ c.close = .code 1003 := by
      intro hm
      simp only [hm, Bool.true_and] at h5
      by_cases hcond : ((c.close == .code 1001 && c.reasonCode == some "InvalidArgument") || c.close == .code 1007 || c.close == .code 1003) = true
      · simp only [Bool.or_eq_true, Bool.and_eq_true, beq_iff_eq] at hcond
        rcases hcond with (⟨a, b⟩ | a) | a
        · exact Or.inl ⟨a, b⟩
        · exact Or.inr (Or.inl a)
        · exact Or.inr (Or.inr a)
      · simp [hcond] at h5
    exact ⟨e1, e2, e3, e4, e5, e6⟩

/-! ### re-exports: the no-panic / totality / 4xx results of the decode cores owned by other slices

  Restated under `C17_*` and proved BY the other slices' theorems (nothing is re-proved here): together with
  the theorems above they are the "assembled" no-panic statement of section 5.17 — every modelled core on a
  client-controlled path is fault-free for all inputs.  (C14 name parsing is not merged yet; C12's decoder is a
  total function whose index expressions are `C17_decode_timeout_no_panic` above.) -/

/-- C09: no JSON value offered for any scalar-kinded field (singular, repeated, map) makes the field decoder
    panic — in particular an unknown enum name under DiscardUnknown (D9c). -/
theorem C17_json_decode_no_panic (ops : GB.C09.FloatOps) (o : GB.C09.Opts) (c : GB.C09.Card) (k : GB.C09.Kind) (j : GB.C09.J) :
    GB.C09.decode ops o c k j ≠ .panic :=
  C09_no_panic ops o c k j

/-- C09: the field encoder never panics, for any value, kind and options. -/
theorem C17_json_encode_no_panic (ops : GB.C09.FloatOps) (o : GB.C09.Opts) (k : GB.C09.Kind) (f : GB.C09.Field) :
    GB.C09.encode ops o k f ≠ .panic :=
  C09_encode_no_panic ops o k f

/-- C03: the path-template matcher never faults, for every template, every component list; it reports a
    malformed escape only when a component really has one (⇒ InvalidArgument, a 4xx). -/
theorem C17_matcher_no_fault (t : GB.C03.Tmpl) (comps : List Bytes) :
    GB.C03.matchTmpl t comps t.verb ≠ .fault ∧
    (GB.C03.matchTmpl t comps t.verb = .malformed → ∃ c ∈ comps, ¬ GB.C03.WellEscaped c) :=
  ⟨(C03_matcher_other t comps t.verb).2.1, (C03_matcher_other t comps t.verb).2.2⟩

/-- C19: no key shape can take the slice `k[len(param)+1 : len(k)-1]` of `parseMetadataQuery` out of range. -/
theorem C17_mdquery_slice_in_range (param k : Bytes) (h : GB.C19.isMetaKey param k = true) :
    param.length + 1 ≤ k.length - 1 :=
  C19_mdquery_slice_in_range param k h

/-- C08: whatever gRPC-Web `recv` hands out as a message is one complete frame within the limit, for EVERY byte
    stream (malformed ones included) — no partial read, no desynchronisation. -/
theorem C17_grpcweb_recv_never_truncates (s m r : Bytes) (h : GB.C08.recv s = (GB.C08.RecvRes.msg m, r)) :
    ∃ f a b c d, s = f :: a :: b :: c :: d :: (m ++ r) ∧ GB.C08.be32 a b c d = m.length ∧ m.length ≤ GB.C08.maxMsg :=
  C08_recv_never_truncates s m r h

/-- C08: every gRPC-WebSocket frame after the metadata is classified — ≥ 6 bytes delivers `data[6:]`, an empty frame
    and a 2..5-byte frame deliver a framing error (InvalidArgument), never silence and never a fault. -/
theorem C17_grpcws_frame_cases (mdOk : Bytes → Bool) (data : Bytes) :
    let evs := (GB.C08.onMessage mdOk { receivedMD := true, closed := false } data).2
    (6 ≤ data.length → evs.head? = some (GB.C08.WSEv.msg (data.drop 6))) ∧
    (data.length = 0 → evs = [GB.C08.WSEv.err GB.C08.RecvErr.flow]) ∧
    (2 ≤ data.length → data.length ≤ 5 → evs.head? = some (GB.C08.WSEv.err GB.C08.RecvErr.wsHeader)) :=
  C08_ws_onMessage_cases mdOk data

/-- C04 (the 4xx clause inside the population core): every error of the request transcoder is InvalidArgument,
    except Internal for a body path of the BINDING that is not a field path (description error), the wrapped EOF
    of a finished stream, or a malformed model input. -/
theorem C17_transcode_errors (sch : GB.C04.Schema) (orc : GB.C04.Oracle) (root : GB.C04.MsgDesc) (bd : GB.C04.Binding)
    (dec : GB.C04.Dec) (rq : GB.C04.Request) (e : GB.C04.Err)
    (h : GB.C04.transcode sch orc root bd dec rq = .error e) :
    e = .invalidArgument ∨ (e = .internal ∧ GB.C04.BadBinding sch root bd) ∨ (e = .eof ∧ dec = .eof) ∨ e = .fault :=
  C04_errors sch orc root bd dec rq e h

/-- C04: a path or query parameter value that does not parse can only yield InvalidArgument, never Internal. -/
theorem C17_param_errors_invalid_argument (sch : GB.C04.Schema) (orc : GB.C04.Oracle) (root : GB.C04.MsgDesc) (m : GB.C04.Msg)
    (fieldPath values : List Bytes) (e : GB.C04.Err)
    (h : GB.C04.populateFieldValueFromPath sch orc root m fieldPath values = .error e) :
    e = .invalidArgument ∨ e = .fault :=
  C04_param_errors_invalidArgument sch orc root m fieldPath values e h

/-- C13: the hand-off between the WebSocket read loop and `Recv` is safe for every interleaving of client
    writes, read loop, `Recv`, cancellation and close: what reaches the transcoder is a prefix of what the
    property allows (nothing duplicated, reordered or invented). -/
theorem C17_ws_handoff_safe (cfg : GB.C13.Cfg) (s : GB.C13.St) (h : GB.LTS.Reachable (GB.C13.step cfg) GB.C13.init s) :
    s.delivered <+: GB.C13.expectedDelivered cfg s.sent :=
  C13_ws_in_safe cfg s h

/-- C13: a shortened close reason is never cut inside a UTF-8 sequence (D24). -/
theorem C17_close_reason_rune_boundary (r : Bytes) (h : 123 < r.length) :
    ∃ n, GB.C13.closeReason r = r.take n ∧ n ≤ 123 ∧ (n = 0 ∨ ∀ b, r[n]? = some b → GB.C13.runeStart b = true) :=
  C13_close_reason_rune_boundary r h

/-! ### non-vacuity: the hypotheses are satisfiable and the partial operations are real -/

-- `_metadata[x-a]` forwards key `x-a`; `_metadata[]` forwards the empty key; `_metadata[` is not a metadata key
example : mdKey [] [95, 109, 101, 116, 97, 100, 97, 116, 97, 91, 120, 45, 97, 93] = .ok (.md [120, 45, 97]) := by decide
example : mdKey [] [95, 109, 101, 116, 97, 100, 97, 116, 97, 91, 93] = .ok (.md []) := by decide
example : mdKey [] [95, 109, 101, 116, 97, 100, 97, 116, 97, 91] = .ok .skip := by decide
-- the Go operations really are partial: the same slice expression without the guard faults
example : goSlice [91] 2 0 = .error .sliceBounds := by decide
example : goIndex [] 0 = .error .indexOutOfRange := by decide
example : goSlice [] 0 (-1) = .error .sliceBounds := by decide
-- closing twice is a fault of the session model when the guard is removed (state: not closed, events closed)
example : gwsSession { receivedMD := true, closed := false } true [[1]] = .error .closeOfClosedChannel := by decide
example : gwsSession { receivedMD := true, closed := false } false [[1], [1], [1, 0, 0, 0, 0, 0, 7]] =
    .ok ({ receivedMD := true, closed := true }, true) := by decide
-- a 7-byte frame delivers its last byte; a 6-byte frame delivers the empty message (fix D8); 3 bytes: framing error
example : gwsOnMessage { receivedMD := true, closed := false } [0, 0, 0, 0, 0, 1, 9] =
    .ok ({ receivedMD := true, closed := false }, [.msg [9]]) := by decide
example : gwsOnMessage { receivedMD := true, closed := false } [0, 0, 0, 0, 0, 0] =
    .ok ({ receivedMD := true, closed := false }, [.msg []]) := by decide
example : gwsOnMessage { receivedMD := true, closed := false } [1, 0, 0] =
    .ok ({ receivedMD := true, closed := true }, [.err .wsHeader, .eof]) := by decide
-- a declared length above the limit is rejected (fix D7), a short body is Unavailable
example : gwRecv [0, 0, 64, 0, 1, 9] = .ok (.err .oversize, [9]) := by decide
example : gwRecv [0, 0, 0, 0, 2, 9] = .ok (.err .body, []) := by decide
-- "/a/b:fetch" with pattern verb "fetch" and a last segment that is only the verb
example : routeSlices [47, 97, 47, 98, 58, 118] [118] = .ok (.comps [[97], [98]] [118]) := by decide
example : routeSlices [47, 97, 47, 58, 118] [118] = .ok .skipRoute := by decide
example : routeSlices [97] [118] = .ok .invalid := by decide
-- "€€" cut after 4 bytes would split the second character: the cut moves back to its start
example : backToRuneStart [226, 130, 172, 226, 130, 172] 4 = .ok 3 := by decide
example : recvHTTPStatus false .bodyUnmarshal = some 400 := by decide
example : recvHTTPStatus true .bodyPath = some 500 := by decide
example : traverseFieldPath (fun _ _ => some (.message 0)) 0 [97, 46, 98, 46] = .ok (.field 0 [98]) := by decide

/-! ## Round 5: whole-function Fault models (Model2.lean) and the remaining re-exports (C12, C14) -/

theorem C17_route_iter_eq (comps : List Bytes) (last verb : Bytes) :
    routeIter comps last comps.length verb = routeSlicesAt comps last (verbIndex last verb) := by
  unfold routeIter routeSlicesAt goReslice
  by_cases h0 : (verbIndex last verb == 0) = true
  · simp [h0]
  · have hc : (0 : Int) ≤ (comps.length : Int) ∧ (comps.length : Int) ≤ (comps.length : Int) := by omega
    simp [h0, hc, bind, Except.bind]

theorem C17_mapM_ok {α β : Type} (f : α → Except Fault β) (g : α → β) (xs : List α) (h : ∀ x ∈ xs, f x = .ok (g x)) :
    xs.mapM f = .ok (xs.map g) := by
  induction xs with
  | nil => rfl
  | cons x xs ih =>
    have hx := h x (by simp)
    have ih' := ih (fun y hy => h y (by simp [hy]))
    simp [List.mapM_cons, hx, ih', bind, Except.bind, pure, Except.pure]

/-- **`RouteHTTP` as a whole never faults, whatever the path and however many routes the method list has**:
    the shared `matchComponents` buffer is re-sliced within its capacity on every iteration, and every route
    gets exactly what the per-route model `routeSlices` (proved equal to C03's `stepRoute`) says.
    `none` (InvalidArgument ⇒ 400) iff the path does not start with '/'. -/
theorem C17_route_all_no_panic (path : Bytes) (verbs : List Bytes) :
    ∃ rs, routeAll path verbs = .ok rs ∧ (rs = none ↔ hasPrefix path [47] = false) ∧
      ∀ l, rs = some l → l.length = verbs.length ∧
        ∀ (i : Nat) (h1 : i < verbs.length) (h2 : i < l.length), routeSlices path verbs[i] = .ok l[i] := by
  unfold routeAll
  cases hp : hasPrefix path [47] with
  | false => exact ⟨none, by simp, by simp, by intro l h; cases h⟩
  | true =>
    have hlen := prefix_length path [47] hp
    simp only [List.length_cons, List.length_nil] at hlen
    obtain ⟨p1, hp1⟩ := goSlice_ok path 1 path.length (by omega)
    have hpos := splitSlash_length_pos p1
    obtain ⟨last, hlast⟩ := goIndexL_ok (GB.C03.splitSlash p1) (((GB.C03.splitSlash p1).length : Int) - 1) (by omega) (by omega)
    -- every route: routeSlices path v = routeSlicesAt … = routeIter …
    have hrs : ∀ v, routeSlices path v = routeSlicesAt (GB.C03.splitSlash p1) last (verbIndex last v) := by
      intro v
      unfold routeSlices
      simp only [hp, Bool.not_true, Bool.false_eq_true, ↓reduceIte, goSliceFrom, hp1, bind, Except.bind, hlast]
    have hall : ∀ v, ∃ r, routeSlices path v = .ok r := fun v => C17_route_slices_no_panic path v
    let g : Bytes → RouteSlices := fun v => (hall v).choose
    have hg : ∀ v, routeSlices path v = .ok (g v) := fun v => (hall v).choose_spec
    have hm := C17_mapM_ok (routeIter (GB.C03.splitSlash p1) last ((GB.C03.splitSlash p1).length : Int)) g verbs
      (fun v _ => by rw [C17_route_iter_eq, ← hrs v]; exact hg v)
    refine ⟨some (verbs.map g), ?_, by simp, ?_⟩
    · simp only [Bool.not_true, Bool.false_eq_true, ↓reduceIte, goSliceFrom, hp1, bind, Except.bind, hlast, hm]
    · intro l hl
      cases hl
      refine ⟨by simp, ?_⟩
      intro i h1 h2
      simp [List.getElem_map, hg]

/-- The request targets WITHOUT a path — `CONNECT host:port`, absolute-form `http://host` (both reach the handler
    with `URL.Path == ""`, hence `EscapedPath() == ""`), `OPTIONS *` (`Path == "*"`) — and every other path
    without a leading slash: `path[1:]` is never evaluated, the answer is InvalidArgument (HTTP 400). -/
theorem C17_route_no_leading_slash (rawPath escPath : Bytes) (verbs : List Bytes)
    (h : (requestPath rawPath escPath).head? ≠ some 47) :
    routeAll (requestPath rawPath escPath) verbs = .ok none := by
  unfold routeAll
  have : hasPrefix (requestPath rawPath escPath) [47] = false := by
    unfold hasPrefix
    cases hq : requestPath rawPath escPath with
    | nil => rfl
    | cons c cs =>
      rw [hq] at h
      have hc : c ≠ 47 := by intro e; apply h; simp [e]
      simp [List.isPrefixOf, Ne.symm hc]
  simp [this]

theorem C17_route_empty_path (verbs : List Bytes) : routeAll (requestPath [] []) verbs = .ok none :=
  C17_route_no_leading_slash [] [] verbs (by decide)

theorem C17_route_star_path (verbs : List Bytes) : routeAll (requestPath [] [42]) verbs = .ok none :=
  C17_route_no_leading_slash [] [42] verbs (by decide)

/-! #### `RouteHTTP` as a whole = C03's `routePath` (round 6) -/

theorem C17_route_loop_is_C03 {ι : Type} (comps : List Bytes) (last : Bytes) (hne : comps ≠ []) (rts : List (GB.C03.Route ι)) :
    ∃ l, (rts.map (·.verb)).mapM (routeIter comps last comps.length) = .ok l ∧
      consumeSlices l rts = GB.C03.iterate comps last rts := by
  induction rts with
  | nil => exact ⟨[], rfl, rfl⟩
  | cons r rs ih =>
    obtain ⟨s, hs, _, heq⟩ := C17_route_step_is_C03 comps last r hne
    obtain ⟨l, hl, hc⟩ := ih
    refine ⟨s :: l, ?_, ?_⟩
    · simp [List.mapM_cons, C17_route_iter_eq, hs, hl, bind, Except.bind, pure, Except.pure]
    · simp only [consumeSlices, GB.C03.iterate]
      rw [heq, hc]
      cases s with
      | comps mc v => simp only []; generalize r.run mc v = x; cases x <;> rfl
      | invalid => rfl
      | skipRoute => rfl

theorem C17_index_last (xs : List Bytes) (last : Bytes) (h : xs.getLast? = some last) :
    goIndexL xs ((xs.length : Int) - 1) = .ok last := by
  have hne : xs ≠ [] := by intro e; simp [e] at h
  have hpos : 1 ≤ xs.length := by
    cases xs with | nil => exact absurd rfl hne | cons _ _ => simp
  unfold goIndexL
  rw [if_pos (by omega)]
  have e : ((xs.length : Int) - 1).toNat = xs.length - 1 := by omega
  rw [e, ← List.getLast?_eq_getElem?, h]

/-- **`RouteHTTP` as a whole IS C03's `routePath`, for every path and every route table**: the Fault-explicit
    model (prefix test, `path[1:]`, `pathComponents[len-1]`, the shared re-sliced buffer, the per-route verb cut
    with its index arithmetic) never faults, and feeding what it hands to the matcher — every route of the method's
    list, in order — through the routes' own `MatchAndEscape` gives exactly `GB.C03.routePath`'s result (found id and
    captures, NotFound, InvalidArgument), not just route-by-route agreement. -/
theorem C17_route_all_is_C03 {ι : Type} (tbl : List (GB.C03.Route ι)) (method path : Bytes) :
    ∃ rs, routeAll path ((tbl.filter fun r => r.httpMethod == method).map (·.verb)) = .ok rs ∧
      routeAllResult rs (tbl.filter fun r => r.httpMethod == method) = GB.C03.routePath tbl method path := by
  unfold routeAll GB.C03.routePath
  cases path with
  | nil => exact ⟨none, rfl, rfl⟩
  | cons c p =>
    by_cases hc : c = 47
    · subst hc
      have hp : hasPrefix (47 :: p) [47] = true := by simp [hasPrefix, List.isPrefixOf]
      have hs : goSliceFrom (47 :: p) 1 = .ok p := by
        have := goSlice_eq (47 :: p) 1 (47 :: p).length (by simp)
        simpa [goSliceFrom] using this
      have hne := splitSlash_ne_nil p
      cases hl : (GB.C03.splitSlash p).getLast? with
      | none => simp [List.getLast?_eq_none_iff] at hl; exact absurd hl hne
      | some last =>
        obtain ⟨l, h1, h2⟩ := C17_route_loop_is_C03 (GB.C03.splitSlash p) last hne (tbl.filter fun r => r.httpMethod == method)
        refine ⟨some l, ?_, ?_⟩
        · simp only [hp, Bool.not_true, Bool.false_eq_true, ↓reduceIte, hs, bind, Except.bind,
            C17_index_last _ last hl, h1]
        · simp only [routeAllResult, hl, h2]
    · have hp : hasPrefix (c :: p) [47] = false := by simp [hasPrefix, List.isPrefixOf, Ne.symm hc]
      refine ⟨none, by simp [hp], ?_⟩
      simp only [routeAllResult]
      split
      · rename_i heq; cases heq; exact absurd rfl hc
      · rfl

/-- with the path choice (`RawPath`, else `EscapedPath()`) in front: the whole of `RouteHTTP` = `GB.C03.routeHTTP` -/
theorem C17_route_http_is_C03 {ι : Type} (tbl : List (GB.C03.Route ι)) (method : Bytes) (u : GB.C03.Url) :
    ∃ rs, routeAll (requestPath u.rawPath (GB.C03.escapedPath u)) ((tbl.filter fun r => r.httpMethod == method).map (·.verb)) = .ok rs ∧
      routeAllResult rs (tbl.filter fun r => r.httpMethod == method) = GB.C03.routeHTTP tbl method u := by
  have hpc : requestPath u.rawPath (GB.C03.escapedPath u) = GB.C03.pathChoice u := by
    unfold requestPath GB.C03.pathChoice
    cases u.rawPath <;> simp
  rw [hpc]
  exact C17_route_all_is_C03 tbl method (GB.C03.pathChoice u)

/-! ### parseMetadataQuery as a whole: the lazily created maps -/

theorem C17_md_vals_loop (mk : Bytes) (vals : List Bytes) (md : NilMap GB.C19.MD) :
    ∃ md', mdValsLoop mk vals md = .ok md' ∧
      md'.getD [] = (vals.filter GB.C19.isValidMetadataValue).foldl (fun m v => GB.C19.mdAppend1 m mk v) (md.getD []) := by
  induction vals generalizing md with
  | nil => exact ⟨md, rfl, rfl⟩
  | cons v vs ih =>
    unfold mdValsLoop
    cases hv : GB.C19.isValidMetadataValue v with
    | false => simpa [hv, List.filter] using ih md
    | true =>
      cases md with
      | none =>
        obtain ⟨md', h1, h2⟩ := ih (some (GB.C19.mdAppend1 [] mk v))
        exact ⟨md', by simpa [hv, mdAppendGo, bind, Except.bind] using h1, by simpa [hv, List.filter] using h2⟩
      | some m =>
        obtain ⟨md', h1, h2⟩ := ih (some (GB.C19.mdAppend1 m mk v))
        exact ⟨md', by simpa [hv, mdAppendGo, bind, Except.bind] using h1, by simpa [hv, List.filter] using h2⟩

theorem C17_md_query_step (param : Bytes) (orig : GB.C19.Values) (st : MQSt) (e : Bytes × List Bytes) :
    ∃ st', mdQueryStep param orig st e = .ok st' ∧
      st'.md.getD [] = GB.C19.mdStep param (st.md.getD []) e ∧
      st'.modified.isSome = (st.modified.isSome || GB.C19.isMetaKey param e.1) := by
  unfold mdQueryStep GB.C19.mdStep
  cases hm : GB.C19.isMetaKey param e.1 with
  | false => exact ⟨st, by simp, by simp, by simp⟩
  | true =>
    have hlen := C19_mdquery_slice_in_range param e.1 hm
    have hs := goSlice_eq e.1 (param.length + 1) (e.1.length - 1) (by omega)
    have e1 : ((param.length + 1 : Nat) : Int) = (param.length : Int) + 1 := by omega
    have e2 : ((e.1.length - 1 : Nat) : Int) = (e.1.length : Int) - 1 := by omega
    rw [e1, e2] at hs
    have hk : (e.1.take (e.1.length - 1)).drop (param.length + 1) = GB.C19.mdKeyOf param e.1 := by
      unfold GB.C19.mdKeyOf
      rw [List.drop_take]
    rw [hk] at hs
    have hsome : ∀ (o : NilMap GB.C19.Values), (mapDeleteGo (match o with | none => some orig | some m => some m) e.1).isSome = true := by
      intro o; cases o <;> simp [mapDeleteGo]
    simp only [Bool.not_true, Bool.false_eq_true, ↓reduceIte, hs, bind, Except.bind]
    cases hvk : GB.C19.isValidMetadataKey (GB.C19.mdKeyOf param e.1) with
    | false =>
      simp only [Bool.not_false, ↓reduceIte]
      exact ⟨_, rfl, by simp, by show Option.isSome (mapDeleteGo _ e.1) = _; cases st.modified <;> simp [mapDeleteGo]⟩
    | true =>
      obtain ⟨md', h1, h2⟩ := C17_md_vals_loop (GB.C19.mdKeyOf param e.1) e.2 st.md
      simp only [Bool.not_true, Bool.false_eq_true, ↓reduceIte, h1]
      exact ⟨_, rfl, by simpa using h2, by show Option.isSome (mapDeleteGo _ e.1) = _; cases st.modified <;> simp [mapDeleteGo]⟩

theorem C17_md_query_loop (param : Bytes) (orig : GB.C19.Values) (es : List (Bytes × List Bytes)) (st : MQSt) :
    ∃ st', mdQueryLoop param orig es st = .ok st' ∧
      st'.md.getD [] = es.foldl (GB.C19.mdStep param) (st.md.getD []) ∧
      st'.modified.isSome = (st.modified.isSome || es.any (fun e => GB.C19.isMetaKey param e.1)) := by
  induction es generalizing st with
  | nil => exact ⟨st, rfl, rfl, by simp⟩
  | cons e es ih =>
    obtain ⟨s1, h1, h2, h3⟩ := C17_md_query_step param orig st e
    obtain ⟨s2, g1, g2, g3⟩ := ih s1
    refine ⟨s2, ?_, ?_, ?_⟩
    · unfold mdQueryLoop; simp [h1, g1, bind, Except.bind]
    · rw [g2, h2]; rfl
    · rw [g3, h3]; simp [Bool.or_assoc]

/-- **`parseMetadataQuery` as a whole never faults** — the key slice stays in bounds and `md.Append` is never
    reached with a nil map — and its metadata / "query was rewritten" results are C19's total model, for every
    parameter name and every query (any number of keys, values, duplicates). -/
theorem C17_mdquery_no_panic (param0 : Bytes) (q : GB.C19.Values) :
    ∃ st, parseMetadataQueryGo param0 q = .ok st ∧
      st.md.getD [] = (GB.C19.parseMetadataQuery param0 q).md ∧
      st.modified.isSome = (GB.C19.parseMetadataQuery param0 q).modified := by
  obtain ⟨st, h1, h2, h3⟩ := C17_md_query_loop (if param0.isEmpty then GB.C19.defaultParam else param0) q q ⟨none, none⟩
  exact ⟨st, h1, by simpa [GB.C19.parseMetadataQuery] using h2, by simpa [GB.C19.parseMetadataQuery] using h3⟩

/-! #### the REMAINING query (round 6): content of the lazily cloned `modified` map = C19's `query` -/

/-- one loop iteration, the `modified` map exactly: untouched for a non-metadata key, else (cloned from the original if
    still nil, then) without every entry under that key — whether or not the metadata key / values are valid. -/
theorem C17_md_query_step_modified (param : Bytes) (orig : GB.C19.Values) (st st' : MQSt) (e : Bytes × List Bytes)
    (h : mdQueryStep param orig st e = .ok st') :
    st'.modified = (if GB.C19.isMetaKey param e.1 then some ((st.modified.getD orig).filter (fun x => x.1 != e.1))
                    else st.modified) := by
  unfold mdQueryStep at h
  cases hm : GB.C19.isMetaKey param e.1 with
  | false =>
    simp only [hm, Bool.not_false, ↓reduceIte, Except.ok.injEq] at h
    simp [← h]
  | true =>
    have hdel : mapDeleteGo (match st.modified with | none => some orig | some m => some m) e.1
        = some ((st.modified.getD orig).filter (fun x => x.1 != e.1)) := by
      cases st.modified <;> simp [mapDeleteGo]
    simp only [hm, Bool.not_true, Bool.false_eq_true, ↓reduceIte, bind, Except.bind] at h
    simp only [↓reduceIte]
    split at h
    · exact absurd h (by simp)
    · split at h
      · simp only [Except.ok.injEq] at h
        rw [← h]; exact hdel
      · split at h
        · exact absurd h (by simp)
        · simp only [Except.ok.injEq] at h
          rw [← h]; exact hdel

/-- the loop, with the keys deleted so far as a predicate `P`: the remaining query after the loop is the original one
    without the keys in `P` and without every metadata-shaped key the loop visited. -/
theorem C17_md_query_loop_remaining (param : Bytes) (orig : GB.C19.Values) (es : List (Bytes × List Bytes))
    (st st' : MQSt) (P : Bytes → Bool)
    (hinv : st.remaining orig = orig.filter (fun x => !P x.1))
    (h : mdQueryLoop param orig es st = .ok st') :
    st'.remaining orig =
      orig.filter (fun x => !(P x.1 || es.any (fun d => GB.C19.isMetaKey param d.1 && d.1 == x.1))) := by
  induction es generalizing st P with
  | nil =>
    simp only [mdQueryLoop, Except.ok.injEq] at h
    subst h
    simpa using hinv
  | cons e es ih =>
    obtain ⟨s1, h1, _, _⟩ := C17_md_query_step param orig st e
    have hm := C17_md_query_step_modified param orig st s1 e h1
    unfold mdQueryLoop at h
    simp only [h1, bind, Except.bind] at h
    have hinv1 : s1.remaining orig
        = orig.filter (fun x => !((fun k => P k || (GB.C19.isMetaKey param e.1 && e.1 == k)) x.1)) := by
      unfold MQSt.remaining at hinv ⊢
      rw [hm]
      cases hk : GB.C19.isMetaKey param e.1 with
      | false => simpa using hinv
      | true =>
        simp only [↓reduceIte, Option.getD_some, hinv, List.filter_filter, Bool.true_and]
        apply List.filter_congr
        intro x _
        by_cases hx : e.1 = x.1
        · simp [hx]
        · have hx' : ¬ x.1 = e.1 := fun h => hx h.symm
          have hb : (e.1 == x.1) = false := by rw [beq_eq_false_iff_ne]; exact hx
          have hb' : (x.1 != e.1) = true := by rw [bne_iff_ne]; exact hx'
          cases hp : P x.1 <;> simp [hb, hb']
    rw [ih s1 (fun k => P k || (GB.C19.isMetaKey param e.1 && e.1 == k)) hinv1 h]
    apply List.filter_congr
    intro x _
    simp [Bool.or_assoc]

/-- **The remaining query of the Fault-explicit whole-function model IS C19's**: for every parameter name and every
    query (any keys, duplicates, invalid metadata keys or values), what `parseMetadataQuery` hands on for binding
    — the lazily cloned `modified` map after all its `delete`s, or the original query when it stayed nil — is
    exactly `GB.C19.parseMetadataQuery`'s `query`: the original parameters minus ALL `param[...]` keys, nothing else
    removed, order kept. -/
theorem C17_mdquery_remaining_is_C19 (param0 : Bytes) (q : GB.C19.Values) (st : MQSt)
    (h : parseMetadataQueryGo param0 q = .ok st) :
    st.remaining q = (GB.C19.parseMetadataQuery param0 q).query := by
  unfold parseMetadataQueryGo at h
  have hl := C17_md_query_loop_remaining _ q q ⟨none, none⟩ st (fun _ => false) (by show q = q.filter (fun _ => !false); exact (List.filter_eq_self.2 (by simp)).symm) h
  rw [hl]
  simp only [GB.C19.parseMetadataQuery, Bool.false_or]
  apply List.filter_congr
  intro x hx
  congr 1
  cases hk : GB.C19.isMetaKey (if param0.isEmpty then GB.C19.defaultParam else param0) x.1 with
  | true =>
    simp only [List.any_eq_true, Bool.and_eq_true, beq_iff_eq]
    exact ⟨x, hx, hk, rfl⟩
  | false =>
    rw [List.any_eq_false]
    intro d _
    by_cases hd : d.1 = x.1
    · rw [hd, hk]; simp
    · simp [hd]

/-- **`parseMetadataQuery` as a whole = C19's total model, all three results**: it never faults, and its metadata,
    its "query was rewritten" flag AND the remaining parameters are `GB.C19.parseMetadataQuery`'s. -/
theorem C17_mdquery_is_C19 (param0 : Bytes) (q : GB.C19.Values) :
    ∃ st, parseMetadataQueryGo param0 q = .ok st ∧
      (⟨st.md.getD [], st.remaining q, st.modified.isSome⟩ : GB.C19.MQ) = GB.C19.parseMetadataQuery param0 q := by
  obtain ⟨st, h1, h2, h3⟩ := C17_mdquery_no_panic param0 q
  refine ⟨st, h1, ?_⟩
  rw [h2, h3, C17_mdquery_remaining_is_C19 param0 q st h1]

/-- a query without any `param[...]` key is handed on untouched (no clone, `RawQuery` not rewritten) -/
theorem C17_mdquery_untouched (param0 : Bytes) (q : GB.C19.Values) (st : MQSt)
    (h : parseMetadataQueryGo param0 q = .ok st)
    (hq : ∀ e ∈ q, GB.C19.isMetaKey (if param0.isEmpty then GB.C19.defaultParam else param0) e.1 = false) :
    st.modified = none ∧ st.remaining q = q := by
  obtain ⟨st2, g1, _, g3⟩ := C17_mdquery_no_panic param0 q
  rw [h] at g1
  cases g1
  have hany : (GB.C19.parseMetadataQuery param0 q).modified = false := by
    simp only [GB.C19.parseMetadataQuery, List.any_eq_false]
    intro e he; rw [hq e he]; simp
  rw [hany] at g3
  have hn : st.modified = none := by cases hmm : st.modified <;> simp [hmm] at g3 ⊢
  exact ⟨hn, by simp [MQSt.remaining, hn]⟩

example : (parseMetadataQueryGo [] [([97], [[49]]), ([95,109,101,116,97,100,97,116,97,91,120,93], [[50]]), ([98], [[51]])]).toOption.map
    (fun st => st.remaining []) = some [([97], [[49]]), ([98], [[51]])] := by decide

/-! ### unchecked type assertions -/

theorem C17_sock_messages (want : Dyn) (hw : want ≠ .absent) (n : Nat) :
    sockRun want want (List.replicate n .message) = .ok want := by
  induction n with
  | zero => rfl
  | succ n ih => simp [List.replicate_succ, sockRun, loadAssert, hw, ih, bind, Except.bind]

/-- `OnMessage`'s `streamAny.(*gwsStream)` / `.(*gRPCWebSocketStream)` cannot fail: the handler stores the stream
    in the session BEFORE it starts `ReadLoop`, so every message finds a value of the asserted type. -/
theorem C17_session_assert_safe (want : Dyn) (hw : want ≠ .absent) (n : Nat) :
    sockRun want .absent (handlerOrder want n) = .ok want := by
  unfold handlerOrder
  simp only [sockRun]
  exact C17_sock_messages want hw n

/-- `staticPatternRoutingTable.iterate`: a missing method key is not dereferenced, and a list holding only
    `targetPatternRoutes` values (all `addRoute`/`cloneLinkedList` ever push) passes every assertion. -/
theorem C17_iterate_no_fault (lst : Option (List Bool)) (h : ∀ l, lst = some l → ∀ b ∈ l, b = true) :
    ∃ n, iterateGo lst = .ok n := by
  cases lst with
  | none => exact ⟨0, rfl⟩
  | some l =>
    have hl := h l rfl
    unfold iterateGo
    suffices ∀ (k : Nat), ∃ n, l.foldlM (fun n isTPR => if isTPR then (.ok (n + 1) : Except Fault Nat) else .error .typeAssertion) k = .ok n from this 0
    clear h
    induction l with
    | nil => intro k; exact ⟨k, rfl⟩
    | cons b bs ih =>
      intro k
      have hb : b = true := hl b (by simp)
      obtain ⟨n, hn⟩ := ih (fun x hx => hl x (by simp [hx])) (k + 1)
      exact ⟨n, by simp [List.foldlM, hb, hn, bind, Except.bind]⟩

/-! ### `routing.parseRPCName` = C14's model; re-exports of C12 / C14 -/

theorem C17_cutSlash_is_C14 (s : Bytes) :
    GB.C14.cutSlash s = (if (cutSlash s).2.2 then some ((cutSlash s).1, (cutSlash s).2.1) else none) := by
  induction s with
  | nil => rfl
  | cons c cs ih =>
    unfold GB.C14.cutSlash cutSlash
    by_cases hc : c = 47
    · simp [hc, GB.C14.slash]
    · have hc' : (c == 47) = false := by simpa using hc
      simp only [GB.C14.slash, hc, ↓reduceIte, hc', Bool.false_eq_true, ih]
      split <;> simp_all

/-- The Fault-explicit `parseRPCName` (`rpcName[0]`, `rpcName[1:]`) never faults and IS C14's total model. -/
theorem C17_parse_rpc_name_is_C14 (name : Bytes) :
    ∃ r, parseRPCName name = .ok r ∧ rpcNameAsC14 r = GB.C14.parseRPCName name := by
  cases name with
  | nil => exact ⟨_, rfl, by simp [rpcNameAsC14, GB.C14.parseRPCName, C17_cutSlash_is_C14]⟩
  | cons c rest =>
    unfold parseRPCName GB.C14.parseRPCName rpcNameAsC14
    have hi : goIndex (c :: rest) 0 = .ok c := by simp [goIndex]
    have hs : goSliceFrom (c :: rest) 1 = .ok rest := by
      have := goSlice_eq (c :: rest) 1 (c :: rest).length (by simp)
      simpa [goSliceFrom] using this
    by_cases hc : c = 47
    · subst hc
      refine ⟨cutSlash rest, ?_, ?_⟩
      · simp [hi, hs, bind, Except.bind, pure, Except.pure]
      · simp [GB.C14.slash, C17_cutSlash_is_C14]
    · have hc' : (c == 47) = false := by simpa using hc
      refine ⟨cutSlash (c :: rest), ?_, ?_⟩
      · simp [hi, hc', bind, Except.bind, pure, Except.pure]
      · simp [hc, GB.C14.slash, C17_cutSlash_is_C14]

/-- C14: a gRPC method name is malformed exactly when no '/' follows the optional leading one — a total decision,
    answered Unimplemented (`C14_route_grpc`), never a panic. -/
theorem C17_rpc_name_malformed_total (s : Bytes) : GB.C14.parseRPCName s = none ↔ GB.C14.slash ∉ GB.C14.strip s :=
  C14_parse_malformed s

/-- C12: every malformed `grpc-timeout` value (signs, spaces, empty or over-long digit runs, bad unit) is IGNORED. -/
theorem C17_timeout_malformed_ignored (s : Bytes)
    (h : ¬ ∃ ds u, s = ds ++ [u] ∧ 1 ≤ ds.length ∧ ds.length ≤ 8 ∧ (∀ b ∈ ds, GB.C12.isDigit b = true) ∧ (GB.C12.specUnit u).isSome) :
    GB.C12.decodeTimeout s = none := C12_malformed_ignored s h

/-- C12: the int64 product of an accepted `grpc-timeout` never overflows and is never negative. -/
theorem C17_timeout_no_overflow (s : Bytes) (n : Int) (h : GB.C12.decodeTimeout s = some n) :
    0 ≤ n ∧ n ≤ 9223372036854775807 := C12_no_overflow s n h

/-- C04: the whole request population (path parameters, query, body) never reaches a Fault, unary and streaming. -/
theorem C17_population_no_fault (sch : GB.C04.Schema) (orc : GB.C04.Oracle) (root : GB.C04.MsgDesc) (bd : GB.C04.Binding)
    (dec : GB.C04.Dec) (rq : GB.C04.Request) (h : GB.C04.wfInputs sch orc root rq = true) :
    GB.C04.transcode sch orc root bd dec rq ≠ .error .fault := C04_no_fault sch orc root bd dec rq h

theorem C17_population_no_fault_stream (sch : GB.C04.Schema) (orc : GB.C04.Oracle) (root : GB.C04.MsgDesc) (bd : GB.C04.Binding)
    (rq : GB.C04.Request) (decs : List GB.C04.Dec) (h : GB.C04.wfInputs sch orc root rq = true) :
    ∀ r ∈ GB.C04.streamTranscode sch orc root bd rq decs, r ≠ .error .fault := C04_no_fault_stream sch orc root bd rq decs h

example : routeAll [] [[118]] = .ok none := by decide
example : routeAll [42] [[118], []] = .ok none := by decide
example : routeAll [104, 58, 56, 48] [[]] = .ok none := by decide          -- "h:80"
example : routeAll [47] [[], [118]] = .ok (some [.comps [[]] [], .comps [[]] []]) := by decide
example : routeAll [47, 58, 118] [[], [118]] = .ok (some [.comps [[58, 118]] [], .skipRoute]) := by decide
example : goReslice 1 2 = .error .sliceBounds := by decide
example : mdAppendGo none [97] [98] = .error .nilMapWrite := by decide
example : sockRun .gwsStream .absent [.message] = .error .typeAssertion := by decide
example : sockRun .gwsStream .absent [.store .grpcWebSocketStream, .message] = .error .typeAssertion := by decide
example : iterateGo (some [true, false]) = .error .typeAssertion := by decide

/-! ### hang side -/

/-- Regenerated from the AST of package webbridge: every incoming-stream `Recv` gives up when the call's context
    ends — the two body readers run inside `withCtx(ctx, …)`, the two WebSocket ones select on `ctx.Done()` — the request
    body is read only by the two lower-case `recv` helpers, and no `recv` helper call, body read or channel receive on
    the handler path escapes those guards. -/
theorem C17_facts_recv_guarded :
    GB.Generated.c17RecvGuards =
      [("gRPCWebSocketStream.Recv", "select"), ("gRPCWebStream.Recv", "withCtx"), ("gwsStream.Recv", "select"), ("httpStream.Recv", "withCtx")] ∧
    GB.Generated.c17BodyReaders = ["gRPCWebStream.recv", "httpStream.recv"] ∧
    GB.Generated.c17UnguardedReads = [] := by decide

/-- Soundness of the judgement of the raw TCP cases: an accepted case has a handler that returned while the client was
    still connected and silent, a complete response with a status in range, for gRPC-Web exactly one trailer frame
    (last) with a grpc-status on a 200, and no 5xx for a request target without a path. -/
theorem C17_accepted_tcp (c : TcpCase) (h : tcpViolations c = []) :
    c.returned = true ∧ 200 ≤ c.status ∧ c.status < 600 ∧ c.bodyDone = true ∧
    (c.gwct = true → c.status = 200 ∧ c.gwFramesOK = true ∧ c.trailers = 1 ∧ c.grpcStatus.isSome = true) ∧
    (c.idle = false → c.status < 500) := by
  unfold tcpViolations at h
  simp only [List.append_eq_nil_iff] at h
  obtain ⟨h1, h2⟩ := h
  have hret : c.returned = true := by
    cases hr : c.returned <;> simp [hr] at h1 ⊢
  cases hs0 : (c.status == 0) with
  | true => simp [hs0] at h2
  | false =>
    simp only [hs0, Bool.false_eq_true, ↓reduceIte, List.append_eq_nil_iff] at h2
    obtain ⟨⟨⟨h3, h4⟩, h5⟩, h6⟩ := h2
    have hrange : (200 ≤ c.status && c.status < 600) = true := by
      cases hr : (200 ≤ c.status && c.status < 600) <;> simp [hr] at h3 ⊢
    have hdone : c.bodyDone = true := by
      cases hr : c.bodyDone <;> simp [hr] at h4 ⊢
    simp only [Bool.and_eq_true, decide_eq_true_eq] at hrange
    refine ⟨hret, hrange.1, hrange.2, hdone, ?_, ?_⟩
    · intro hg
      simp only [hg, ↓reduceIte, List.append_eq_nil_iff] at h5
      obtain ⟨⟨⟨a, b⟩, c1⟩, d⟩ := h5
      refine ⟨?_, ?_, ?_, ?_⟩
      · cases hr : (c.status != 200) <;> simp [hr] at a; simpa using hr
      · cases hr : c.gwFramesOK <;> simp [hr] at b ⊢
      · cases hr : (c.trailers != 1) <;> simp [hr] at c1; simpa using hr
      · cases hr : c.grpcStatus.isNone <;> simp [hr] at d; cases hq : c.grpcStatus <;> simp [hq] at hr ⊢
    · intro hi
      cases hr : (decide (500 ≤ c.status)) with
      | true => simp [hi, hr] at h6
      | false => simpa using hr

/-! ### round 7 (wave 7): the last conditional / no-fault-only cores as full equalities -/

/-- `gwsGRPCWebHandler.OnMessage` AS A WHOLE — closed test, the `!receivedMD` branch (`readMD`: the first frame is the
    header message) and the frame code with its Go index / slice operations — equals C08's total model for every
    `mdOk`, every state and every frame. UNCONDITIONAL (`C17_gws_onmessage_is_C08` needed `receivedMD = true`). -/
theorem C17_gws_onmessage_full_is_C08 (mdOk : Bytes → Bool) (st : GB.C08.WS) (data : Bytes) :
    gwsOnMessageFull mdOk st data = .ok (GB.C08.onMessage mdOk st data) := by
  cases hmd : st.receivedMD with
  | true =>
    have h := C17_gws_onmessage_is_C08 mdOk st data hmd
    unfold gwsOnMessageFull
    cases hc : st.closed with
    | true => unfold GB.C08.onMessage; simp [hc]
    | false => simpa [hmd] using h
  | false =>
    unfold gwsOnMessageFull gwsReadMD GB.C08.onMessage
    cases hc : st.closed with
    | true => simp
    | false => cases hok : mdOk data <;> simp [hmd, hok]

/-- … hence no frame in no state (before or after the header message) can make `OnMessage` panic. -/
theorem C17_gws_onmessage_full_no_panic (mdOk : Bytes → Bool) (st : GB.C08.WS) (data : Bytes) :
    ∃ r, gwsOnMessageFull mdOk st data = .ok r := ⟨_, C17_gws_onmessage_full_is_C08 mdOk st data⟩

/-- A whole gRPC-WebSocket connection FROM THE INITIAL STATE (no metadata yet, nothing closed), whatever `readMD`
    accepts: `events` is never closed twice. (`C17_gws_session_no_double_close` started after the header message.) -/
theorem C17_gws_session_full_no_double_close (mdOk : Bytes → Bool) (frames : List Bytes) :
    ∃ r, gwsSessionFull mdOk {} false frames = .ok r := by
  suffices h : ∀ (frames : List Bytes) (st : GB.C08.WS) (evClosed : Bool),
      (evClosed = true → st.closed = true) → ∃ r, gwsSessionFull mdOk st evClosed frames = .ok r from
    h frames _ false (by simp)
  intro frames
  induction frames with
  | nil => intro st e _; exact ⟨_, rfl⟩
  | cons d rest ih =>
    intro st evClosed inv
    unfold gwsSessionFull
    rw [C17_gws_onmessage_full_is_C08 mdOk st d]
    simp only [bind, Except.bind]
    have hstep : (st.closed = true → GB.C08.onMessage mdOk st d = (st, [])) ∧
        ((GB.C08.onMessage mdOk st d).2.contains GB.C08.WSEv.eof = true →
          (GB.C08.onMessage mdOk st d).1.closed = true) := by
      unfold GB.C08.onMessage
      cases hc : st.closed with
      | true => simp
      | false =>
        simp only [Bool.false_eq_true, ↓reduceIte, false_implies, true_and]
        cases hmd : st.receivedMD with
        | false => cases hok : mdOk d <;> simp
        | true =>
          simp only [Bool.not_true, Bool.false_eq_true, ↓reduceIte]
          intro hcont
          cases d with
          | nil => simp [GB.C08.wsOff] at hcont
          | cons b t =>
            simp only at hcont ⊢
            cases hb : (b == 1) with
            | true => rfl
            | false =>
              exfalso
              simp only [hb, Bool.false_eq_true, ↓reduceIte, List.append_nil] at hcont
              repeat' (split at hcont)
              all_goals simp at hcont
    obtain ⟨h2, h3⟩ := hstep
    cases hc : st.closed with
    | true =>
      rw [h2 hc]
      simp only [List.contains_nil, Bool.false_eq_true, ↓reduceIte]
      exact ih st evClosed inv
    | false =>
      have hev : evClosed = false := by
        cases evClosed with
        | false => rfl
        | true => have := inv rfl; rw [hc] at this; cases this
      subst hev
      cases hcont : (GB.C08.onMessage mdOk st d).2.contains GB.C08.WSEv.eof with
      | true =>
        simp only [↓reduceIte, Bool.false_eq_true]
        exact ih _ true (fun _ => h3 hcont)
      | false =>
        simp only [Bool.false_eq_true, ↓reduceIte]
        exact ih _ false (by simp)

/-- `grpcadapter.decodeTimeout` with every index expression explicit (`s[size-1]`, the digit loop's `s[i]`,
    `s[:size-1]`) EQUALS C12's total model for every string: each early return of the code is a `none` of the model
    (`s[size-1]` is `getLast?`, the loop is `dropLast.all isDigit`), and nothing faults. -/
theorem C17_decode_timeout_is_C12 (s : Bytes) : decodeTimeoutIdx s = .ok (GB.C12.decodeTimeout s) := by
  unfold decodeTimeoutIdx
  simp only
  split
  · rename_i h
    have : (s.length < GB.C12.minSize || s.length > GB.C12.maxSize) = true := by
      show (decide (s.length < 2) || decide (s.length > 9)) = true
      simp only [Bool.or_eq_true, decide_eq_true_eq]; omega
    unfold GB.C12.decodeTimeout; rw [if_pos this]
  · rename_i h
    have h2 : 2 ≤ s.length ∧ s.length ≤ 9 := by omega
    have hsz : (s.length < GB.C12.minSize || s.length > GB.C12.maxSize) = false := by
      show (decide (s.length < 2) || decide (s.length > 9)) = false
      simp only [Bool.or_eq_false_iff, decide_eq_false_iff_not]; omega
    have hlt : s.length - 1 < s.length := by omega
    have e1 : (s.length : Int) - 1 = ((s.length - 1 : Nat) : Int) := by omega
    have hu : goIndex s ((s.length : Int) - 1) = .ok s[s.length - 1] := by rw [e1]; exact goIndex_eq s _ hlt
    have hlast := getLast?_eq_index s (by omega)
    have hloop := checkDigitsLoop_eq s (s.length - 1) 0 (by omega)
    simp only [List.drop_zero] at hloop
    have hloop : checkDigitsLoop s (s.length - 1) 0 = .ok ((s.take (s.length - 1)).all GB.C12.isDigit) := hloop
    have hloop' : checkDigitsLoop s (s.length - 1) 0 = .ok (s.dropLast.all GB.C12.isDigit) := by
      rw [dropLast_eq_take]; exact hloop
    have hsl : goSliceTo s ((s.length : Int) - 1) = .ok (s.take (s.length - 1)) := by
      rw [e1]; exact goSliceTo_eq s _ (by omega)
    rw [hu]
    simp only [bind, Except.bind]
    have hmodel : GB.C12.decodeTimeout s =
        match GB.C12.timeoutUnitToDuration s[s.length - 1] with
        | none => none
        | some d =>
          if !s.dropLast.all GB.C12.isDigit then none
          else match GB.C12.parseInt10 s.dropLast with
            | none => none
            | some t => if d == GB.C12.hour && t > GB.C12.maxHours then some GB.C12.maxInt64 else some (d * t) := by
      unfold GB.C12.decodeTimeout
      rw [hsz, hlast]; rfl
    cases hd : GB.C12.timeoutUnitToDuration s[s.length - 1] with
    | none => rw [hmodel, hd]
    | some d =>
      simp only [hloop', hsl]
      cases hdig : s.dropLast.all GB.C12.isDigit with
      | false => rw [hmodel, hd]; simp [hdig]
      | true => simp

/-- C17's copies of the two key constants and of `ascii.EqualFold` are C07's. -/
theorem C17_filter_consts_are_C07 : gwPrefix = GB.C07.gwPrefix ∧ binSuffix = GB.C07.binSuffix ∧
    (∀ a b, eqFold a b = GB.C07.equalFold a b) := ⟨rfl, rfl, fun _ _ => rfl⟩

/-- `ProxyMDFilter.filterRequest`'s key handling with its three slices explicit EQUALS C07's total key functions for
    every allow-listed key and every configured prefix: the outgoing key is `GB.C07.renameRaw pfx k` (gateway prefix
    stripped case-insensitively, else the configured prefix added) and the base64 decision is `GB.C07.hasBinSuffix` of it. -/
theorem C17_filter_key_is_C07 (k pfx : Bytes) :
    filterKey k pfx = .ok (GB.C07.renameRaw pfx k, GB.C07.hasBinSuffix (GB.C07.renameRaw pfx k)) := by
  have hstrip : stripGw k pfx = .ok (GB.C07.renameRaw pfx k) := by
    unfold stripGw GB.C07.renameRaw GB.C07.hasGwPrefix
    by_cases hk : k.length > gwPrefix.length
    · have hk' : k.length > GB.C07.gwPrefix.length := hk
      rw [if_pos hk, goSliceTo_eq k gwPrefix.length (by omega), goSliceFrom_eq k gwPrefix.length (by omega)]
      simp only [bind, Except.bind, pure, Except.pure, hk', decide_true, Bool.true_and]
      show (if GB.C07.equalFold (k.take GB.C07.gwPrefix.length) GB.C07.gwPrefix = true then _ else _) = _
      cases GB.C07.equalFold (k.take GB.C07.gwPrefix.length) GB.C07.gwPrefix <;> rfl
    · have hk' : ¬ k.length > GB.C07.gwPrefix.length := hk
      rw [if_neg hk]
      simp [hk', pure, Except.pure]
  have hbin : ∀ k1 : Bytes, isBinKey k1 = .ok (GB.C07.hasBinSuffix k1) := by
    intro k1
    unfold isBinKey GB.C07.hasBinSuffix
    by_cases hk : k1.length > binSuffix.length
    · have hk' : k1.length > GB.C07.binSuffix.length := hk
      have e : (k1.length : Int) - (binSuffix.length : Int) = ((k1.length - binSuffix.length : Nat) : Int) := by omega
      rw [if_pos hk, e, goSliceFrom_eq k1 _ (by omega)]
      simp only [bind, Except.bind, pure, Except.pure, hk', decide_true, Bool.true_and]
      rfl
    · have hk' : ¬ k1.length > GB.C07.binSuffix.length := hk
      rw [if_neg hk]
      simp [hk', pure, Except.pure]
  unfold filterKey
  simp only [hstrip, hbin, bind, Except.bind, pure, Except.pure]

/-- Corollary: the decision the real `filterRequest` takes about base64-decoding a value is C07's `decodeVals` guard. -/
theorem C17_filter_key_bin_is_C07_decode (k pfx : Bytes) (v : List Bytes) :
    ∃ k1 isBin, filterKey k pfx = .ok (k1, isBin) ∧
      GB.C07.decodeVals k1 v = (if isBin then v.filterMap GB.C07.decodeBinHeader else v) :=
  ⟨_, _, C17_filter_key_is_C07 k pfx, rfl⟩
