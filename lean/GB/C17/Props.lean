import GB.C17.Proofs
/-
  C17 — no client input can crash or hang a handler.  PROPERTY THEOREMS.

  PARTIAL BY NATURE.  The full statement — "for all byte strings in every client-controlled position
  of HTTP, WebSocket, gRPC-Web and gRPC-WebSocket requests the handler neither panics nor hangs and
  answers with a well-formed response; invalid JSON / parameters on transcoded routes get 4xx" —
  quantifies over net/http, gws, protojson, grpc-gateway and the Go runtime, none of which is modelled.
  What is PROVED here, for ALL inputs, is that the Go partial operations of the small client-facing
  cores this slice owns cannot fault (index / slice bounds with Go's signed arithmetic, closing a
  channel twice, a `strings.Cut` loop running forever), that every decode failure a client can cause
  is wrapped to InvalidArgument ⇒ HTTP 400, and that a case the driver accepts satisfies each clause
  of the property.  The decode cores owned by other slices (C03 routing, C04 population, C08 framing,
  C09 JSON codec, C13 WebSocket intake, C14 names, C19 dispatch, C12 timeout) prove their own
  no-panic theorems; everything else is covered by the fuzz correspondence only (props/C17.json).
-/
open GB GB.C17

set_option linter.unusedSimpArgs false
set_option linter.unusedVariables false

/-! ### no Go partial operation can fault -/

/-- `webbridge.parseMetadataQuery`: `k[len(param)+1 : len(k)-1]` is in bounds for every parameter name and key. -/
theorem C17_mdkey_no_panic (param k : Bytes) : ∃ r, mdKey param k = .ok r := by
  unfold mdKey
  generalize (if param.isEmpty then defaultMetadataParam else param) = p
  unfold mdKeyWith
  split
  · exact ⟨_, rfl⟩
  · rename_i h
    simp only [Bool.not_eq_true', Bool.and_eq_false_iff, not_or, Bool.not_eq_false] at h
    have hlen := prefix_suffix_length k p h.1 h.2
    obtain ⟨mk, hmk⟩ := goSlice_ok k ((p.length : Int) + 1) ((k.length : Int) - 1) (by omega)
    rw [hmk]
    simp only [bind, Except.bind]
    split <;> exact ⟨_, rfl⟩

/-- gRPC-WebSocket `OnMessage`: `data[0]` and `data[6:]` are in bounds for every frame in every state. -/
theorem C17_gws_onmessage_no_panic (closed : Bool) (data : Bytes) : ∃ r, gwsOnMessage closed data = .ok r := by
  unfold gwsOnMessage
  split
  · exact ⟨_, rfl⟩
  · by_cases h0 : data.length > 0
    · obtain ⟨b, hb⟩ := goIndex_ok data 0 (by omega) (by omega)
      by_cases h6 : data.length > 6
      · obtain ⟨d, hd⟩ := goSlice_ok data 6 data.length (by omega)
        simp [h0, h6, hb, goSliceFrom, hd, bind, Except.bind, pure, Except.pure]
      · simp [h0, h6, hb, bind, Except.bind, pure, Except.pure]
    · have : data.length = 0 := by omega
      simp [this, bind, Except.bind, pure, Except.pure]

/-- What `OnMessage` delivers: exactly `data[6:]` when the frame is longer than 6 bytes, nothing otherwise;
    the stream is closed iff the flow-control byte is 1. -/
theorem C17_gws_onmessage_spec (data : Bytes) (o : GwsOut) (h : gwsOnMessage false data = .ok o) :
    o.closed = (data.head? == some 1) ∧ o.closeEvents = o.closed ∧
    (o.delivered.isSome ↔ data.length > 6) ∧ (∀ d e, o.delivered = some (d, e) → d = data.drop 6 ∧ e = false) := by
  unfold gwsOnMessage at h
  simp only [Bool.false_eq_true, ↓reduceIte] at h
  by_cases h0 : data.length > 0
  · obtain ⟨b, hb⟩ := goIndex_ok data 0 (by omega) (by omega)
    have hb' : data.head? = some b := by
      unfold goIndex at hb
      cases data with
      | nil => simp at h0
      | cons x xs => simp at hb; simp [hb]
    by_cases h6 : data.length > 6
    · obtain ⟨d, hd⟩ := goSlice_ok data 6 data.length (by omega)
      have hd' : d = data.drop 6 := by
        unfold goSlice at hd
        split at hd
        · injection hd with hd; rw [← hd]; simp
        · cases hd
      simp [h0, h6, hb, goSliceFrom, hd, bind, Except.bind, pure, Except.pure] at h
      subst h
      simp [hb', hd', h6]
    · simp [h0, h6, hb, bind, Except.bind, pure, Except.pure] at h
      subst h
      simp [hb', h6]
  · have hz : data = [] := by cases data with | nil => rfl | cons _ _ => simp at h0
    subst hz
    simp [bind, Except.bind, pure, Except.pure] at h
    subst h
    simp

/-- A whole gRPC-WebSocket session never closes `events` twice, whatever the client sends in whatever order. -/
theorem C17_gws_session_no_double_close (frames : List Bytes) : ∃ r, gwsSession false false frames = .ok r := by
  suffices h : ∀ (frames : List Bytes) (closed evClosed : Bool), (evClosed = true → closed = true) →
      ∃ r, gwsSession closed evClosed frames = .ok r from h frames false false (by simp)
  intro frames
  induction frames with
  | nil => intro c e _; exact ⟨_, rfl⟩
  | cons d rest ih =>
    intro closed evClosed inv
    unfold gwsSession
    obtain ⟨o, ho⟩ := C17_gws_onmessage_no_panic closed d
    rw [ho]
    simp only [bind, Except.bind]
    cases hc : closed with
    | true =>
      -- a closed stream ignores the frame: nothing is closed again
      have : o = { closed := true, delivered := none, closeEvents := false } := by
        rw [hc] at ho; unfold gwsOnMessage at ho; simpa using ho.symm
      subst this
      simp only [Bool.false_eq_true, ↓reduceIte]
      exact ih true evClosed (by simp)
    | false =>
      have hev : evClosed = false := by
        cases evClosed with
        | false => rfl
        | true => have := inv rfl; rw [hc] at this; cases this
      obtain ⟨_, h2, _, _⟩ := C17_gws_onmessage_spec d o (by rw [hc] at ho; exact ho)
      subst hev
      by_cases hce : o.closeEvents = true
      · simp only [hce, ↓reduceIte, Bool.false_eq_true]
        exact ih o.closed true (by intro _; rw [← h2]; exact hce)
      · simp only [hce, Bool.false_eq_true, ↓reduceIte]
        exact ih o.closed false (by simp)

/-- The transcoded WebSocket `OnMessage` closes `events` at most once for every binding shape and any number of frames. -/
theorem C17_ws_session_no_double_close (cs body : Bool) (n : Nat) : ∃ r, wsSession cs body false false n = .ok r := by
  suffices h : ∀ (n : Nat) (ar ev : Bool), (ev = true → ar = true ∧ cs = false) →
      ∃ r, wsSession cs body ar ev n = .ok r from h n false false (by simp)
  intro n
  induction n with
  | zero => intro ar ev _; exact ⟨_, rfl⟩
  | succ n ih =>
    intro ar ev inv
    unfold wsSession
    cases cs <;> cases body <;> cases ar <;> cases ev <;> first
      | (exfalso; simp at inv; done)
      | exact ih _ _ (by simp)

/-- gRPC-Web `recv`: the header and body slices are in bounds for every request body. -/
theorem C17_gwrecv_no_panic (body : Bytes) : ∃ r, gwRecv body = .ok r := by
  unfold gwRecv
  split
  · exact ⟨_, rfl⟩
  · split
    · exact ⟨_, rfl⟩
    · rename_i h0 h5
      have h5' : 5 ≤ body.length := by omega
      obtain ⟨hd, hhd⟩ := goSlice_ok body 0 5 (by omega)
      obtain ⟨rest, hrest⟩ := goSlice_ok body 5 body.length (by omega)
      have hhdlen : hd.length = 5 := by
        unfold goSlice at hhd
        split at hhd
        · injection hhd with e; rw [← e]; simp; omega
        · cases hhd
      obtain ⟨lb, hlb⟩ := goSlice_ok hd 1 5 (by omega)
      simp only [goSliceTo, goSliceFrom, hhd, hrest, hlb, bind, Except.bind]
      split
      · exact ⟨_, rfl⟩
      · split
        · exact ⟨_, rfl⟩
        · rename_i hn
          obtain ⟨data, hdata⟩ := goSlice_ok rest 0 (min (be32 lb) maxRecv : Nat) (by omega)
          rw [hdata]
          exact ⟨_, rfl⟩

/-- `PatternRouter.RouteHTTP`: `path[1:]`, `pathComponents[len-1]`, `last[:verbIdx]`, `last[verbIdx+1:]` and the
    assignment to `matchComponents[len-1]` are in bounds for every path and every pattern verb. -/
theorem C17_route_slices_no_panic (path verb : Bytes) : ∃ r, routeSlices path verb = .ok r := by
  unfold routeSlices
  split
  · exact ⟨_, rfl⟩
  · rename_i hp
    have hp' : hasPrefix path [47] = true := by simpa using hp
    have hlen := prefix_length path [47] hp'
    simp only [List.length_cons, List.length_nil] at hlen
    obtain ⟨p1, hp1⟩ := goSlice_ok path 1 path.length (by omega)
    simp only [goSliceFrom, hp1, bind, Except.bind]
    have hpos := splitSlash_length_pos p1
    obtain ⟨last, hlast⟩ := goIndexL_ok (splitSlash p1) (((splitSlash p1).length : Int) - 1) (by omega) (by omega)
    rw [hlast]
    simp only
    -- verbIdx > 0 only arises from the suffix branch, where verbIdx = len(last) - len(verb) - 1
    have hvi : verbIndex last verb > 0 → verbIndex last verb + 1 ≤ last.length := by
      unfold verbIndex
      split
      · rename_i hsuf
        have hs := suffix_length last (58 :: verb) hsuf.2
        simp only [List.length_cons] at hs
        intro _; omega
      · intro h; omega
    generalize verbIndex last verb = vi at hvi
    unfold routeSlicesAt
    split
    · exact ⟨_, rfl⟩
    · split
      · rename_i hgt
        have := hvi hgt
        obtain ⟨a, ha⟩ := goSlice_ok last 0 vi (by omega)
        obtain ⟨v, hv⟩ := goSlice_ok last (vi + 1) last.length (by omega)
        simp only [goSliceTo, goSliceFrom, ha, hv, hlast, bind, Except.bind]
        exact ⟨_, rfl⟩
      · exact ⟨_, rfl⟩

/-- `routing.parseRPCName`: `rpcName[0]` and `rpcName[1:]` are in bounds for every name. -/
theorem C17_parse_rpc_name_no_panic (name : Bytes) : ∃ r, parseRPCName name = .ok r := by
  unfold parseRPCName
  by_cases h0 : name.length > 0
  · obtain ⟨b, hb⟩ := goIndex_ok name 0 (by omega) (by omega)
    obtain ⟨t, ht⟩ := goSlice_ok name 1 name.length (by omega)
    simp only [h0, ↓reduceIte, hb, bind, Except.bind, pure, Except.pure]
    cases hb47 : (b == 47)
    · simp only [Bool.false_eq_true, ↓reduceIte]; exact ⟨_, rfl⟩
    · simp only [↓reduceIte, goSliceFrom, ht]; exact ⟨_, rfl⟩
  · simp only [h0, ↓reduceIte, bind, Except.bind, pure, Except.pure]
    exact ⟨_, rfl⟩

/-- `grpcadapter.decodeTimeout`: `s[size-1]`, every `s[i]` of the digit loop and `s[:size-1]` are in bounds. -/
theorem C17_decode_timeout_no_panic (s : Bytes) : ∃ r, decodeTimeoutIdx s = .ok r := by
  unfold decodeTimeoutIdx
  simp only
  split
  · exact ⟨_, rfl⟩
  · rename_i h
    have h2 : 2 ≤ s.length ∧ s.length ≤ 9 := by omega
    obtain ⟨u, hu⟩ := goIndex_ok s ((s.length : Int) - 1) (by omega) (by omega)
    obtain ⟨okd, hokd⟩ := checkDigitsLoop_ok s (s.length - 1) 0 (by omega) (by omega)
    obtain ⟨t, ht⟩ := goSlice_ok s 0 ((s.length : Int) - 1) (by omega)
    rw [hu]
    simp only [bind, Except.bind]
    cases hd : GB.C12.timeoutUnitToDuration u with
    | none => exact ⟨_, rfl⟩
    | some d =>
      simp only [hokd, goSliceTo, ht]
      cases okd <;> exact ⟨_, rfl⟩

/-- `ProxyMDFilter.filterRequest`: `k[:len(prefix)]`, `k[len(prefix):]`, `k[len(k)-len(suffix):]` are in bounds
    for every allow-listed key and every configured prefix. -/
theorem C17_filter_key_no_panic (k pfx : Bytes) : ∃ r, filterKey k pfx = .ok r := by
  have bin_ok : ∀ k1 : Bytes, ∃ r, isBinKey k1 = .ok r := by
    intro k1
    unfold isBinKey
    split
    · rename_i h
      obtain ⟨t, ht⟩ := goSlice_ok k1 ((k1.length : Int) - binSuffix.length) k1.length (by omega)
      simp only [goSliceFrom, ht, bind, Except.bind, pure, Except.pure]
      exact ⟨_, rfl⟩
    · exact ⟨_, rfl⟩
  have strip_ok : ∃ r, stripGw k pfx = .ok r := by
    unfold stripGw
    split
    · rename_i hk
      obtain ⟨h, hh⟩ := goSlice_ok k 0 gwPrefix.length (by omega)
      obtain ⟨t, ht⟩ := goSlice_ok k gwPrefix.length k.length (by omega)
      simp only [goSliceTo, goSliceFrom, hh, ht, bind, Except.bind, pure, Except.pure]
      cases eqFold h gwPrefix <;> exact ⟨_, rfl⟩
    · exact ⟨_, rfl⟩
  obtain ⟨k1, hk1⟩ := strip_ok
  obtain ⟨b, hb⟩ := bin_ok k1
  unfold filterKey
  simp only [hk1, hb, bind, Except.bind, pure, Except.pure]
  exact ⟨_, rfl⟩

/-- `transcoding.traverseFieldPath`: the `strings.Cut` loop terminates (never runs out of `len(path)+1` iterations)
    for every path and every description. -/
theorem C17_traverse_terminates (lookup : Nat → Bytes → Option FieldKind) (root : Nat) (path : Bytes) :
    ∃ r, traverseFieldPath lookup root path = .ok r := by
  unfold traverseFieldPath
  split
  · exact ⟨_, rfl⟩
  · suffices h : ∀ (fuel : Nat) (m : Nat) (lastFd : Option Bytes) (p : Bytes), p.length < fuel →
        ∃ r, traverseLoop lookup fuel m lastFd p = .ok r from h _ root none path (by omega)
    intro fuel
    induction fuel with
    | zero => intro m l p h; omega
    | succ fuel ih =>
      intro m lastFd p hlen
      unfold traverseLoop
      cases hc : cutDot p with
      | mk elem rf =>
        cases rf with
        | mk rest found =>
          simp only
          split
          · split <;> exact ⟨_, rfl⟩
          · split
            · exact ⟨_, rfl⟩
            · split
              · exact ⟨_, rfl⟩
              · split
                · exact ⟨_, rfl⟩
                · rename_i hrest
                  split
                  · -- recursion on `rest`: it is non-empty, so the separator was found, so it is shorter
                    have hl := cutDot_rest_length p
                    have hnf := cutDot_notfound_rest p
                    rw [hc] at hl hnf
                    simp only at hl hnf
                    have hfound : found = true := by
                      cases found with
                      | true => rfl
                      | false => have := hnf rfl; simp [this] at hrest
                    have := hl.2 hfound
                    exact ih _ _ _ (by omega)
                  · exact ⟨_, rfl⟩

/-! ### invalid input ⇒ InvalidArgument ⇒ HTTP 400 -/

/-- Every decode failure a CLIENT can cause (body rejected by the marshaler, EOF of a streamed body, a path or
    query parameter that does not parse) reaches the client as InvalidArgument, i.e. HTTP 400 — for the
    one-shot and the streaming transcoder alike. -/
theorem C17_invalid_input_400 (supportsEOF : Bool) (f : DecodeFailure) (h : f ≠ .bodyPath) :
    recvHTTPStatus supportsEOF f = some 400 := by
  cases f <;> cases supportsEOF <;> first | rfl | exact absurd rfl h

/-- The only 5xx `transcodeFunc` itself produces is for a body path that does not resolve in the BINDING
    (a description error, not client input). -/
theorem C17_body_path_is_the_only_5xx (supportsEOF : Bool) (f : DecodeFailure) :
    (∃ s, recvHTTPStatus supportsEOF f = some s ∧ 500 ≤ s) ↔ f = .bodyPath := by
  cases f <;> cases supportsEOF <;> simp [recvHTTPStatus, requestTranscodingError, wrapTranscodingError, transcodeFuncErr, httpStatusFromCode]

/-- `requestTranscodingError`: nil stays nil, a direct status error keeps its code, anything else becomes
    InvalidArgument (never a 5xx by default); `responseTranscodingError` defaults to Internal. -/
theorem C17_wrap_transcoding_error (e : Err) :
    (requestTranscodingError e = none ↔ e = .nil) ∧
    (∀ c, e = .status c → requestTranscodingError e = some c) ∧
    (e = .plain → (requestTranscodingError e).map httpStatusFromCode = some 400) ∧
    (e = .plain → (responseTranscodingError e).map httpStatusFromCode = some 500) := by
  cases e <;> simp [requestTranscodingError, responseTranscodingError, wrapTranscodingError, httpStatusFromCode]

/-- The HTTP mapping never leaves the range of valid status codes, and is a 5xx exactly for the six server-side codes. -/
theorem C17_http_status_range (c : Code) :
    200 ≤ httpStatusFromCode c ∧ httpStatusFromCode c < 600 ∧
    (500 ≤ httpStatusFromCode c ↔ c = .unknown ∨ c = .deadlineExceeded ∨ c = .unimplemented ∨ c = .internal ∨ c = .unavailable ∨ c = .dataLoss) := by
  cases c <;> simp [httpStatusFromCode]

/-- `websocketError` only produces close codes that may be sent on the wire. -/
theorem C17_websocket_error_code_valid (e : WsErr) : validCloseCode (websocketError e).1 = true := by
  cases e <;> rfl

/-- `truncateCloseReason`: `reason[cut]` and `reason[:cut]` are in bounds, the result fits a close frame
    (≤ 123 bytes next to the 2-byte code) and is a prefix of the reason.  (That the cut falls on a character
    boundary is `utf8.RuneStart`'s contract; the differential op and the fuzz check the result is valid UTF-8.) -/
theorem C17_close_reason_fits (reason : Bytes) :
    ∃ r, truncateCloseReason reason = .ok r ∧ r.length ≤ 123 ∧ r <+: reason := by
  unfold truncateCloseReason maxCloseReasonLen
  split
  · rename_i h; exact ⟨reason, rfl, h, List.prefix_refl _⟩
  · rename_i h
    obtain ⟨cut, hcut, hle⟩ := backToRuneStart_ok reason 123 (by omega)
    rw [hcut]
    simp only [bind, Except.bind, goSliceTo, goSlice]
    have hc : (0 : Int) ≤ 0 ∧ (0 : Int) ≤ (cut : Int) ∧ (cut : Int) ≤ reason.length := by omega
    rw [if_pos hc]
    refine ⟨_, rfl, ?_, ?_⟩
    · simp; omega
    · simp; exact List.take_prefix _ _

/-! ### what an accepted case means (the judgement is the property) -/

/-- An in-process case the driver accepts is not a panic, not a hang, and — unless net/http itself refused
    the request — has valid headers, a body that is well-formed for its protocol, a 4xx answer whenever the
    request was invalid on a transcoded route, and for gRPC-Web: 200 with exactly one trailer frame carrying
    a grpc-status. -/
theorem C17_accepted_http (c : HttpCase) (h : httpViolations c = []) :
    c.res = .reject ∨
    (c.res = .ok ∧ c.headersValid = true ∧ c.wellFormed = true ∧
      (invalidOnTranscodedRoute c = true → is4xx c.status = true ∨ (c.hasTimeout = true ∧ c.status = 504)) ∧
      (c.entry = .grpcweb → c.status = 200 ∧ c.ct = .grpcweb ∧ c.trailers = 1 ∧ c.grpcStatus.isSome = true) ∧
      (c.entry = .http → 200 ≤ c.status ∧ c.status < 600)) := by
  unfold httpViolations at h
  cases hr : c.res with
  | reject => left; rfl
  | panic => rw [hr] at h; simp at h
  | hang => rw [hr] at h; simp at h
  | ok =>
    right
    rw [hr] at h
    simp only [List.append_eq_nil_iff] at h
    obtain ⟨⟨hhv, hent⟩, hinv⟩ := h
    have hv : c.headersValid = true := by
      cases hh : c.headersValid with
      | true => rfl
      | false => simp [hh] at hhv
    have hinv' : invalidOnTranscodedRoute c = true → is4xx c.status = true ∨ (c.hasTimeout = true ∧ c.status = 504) := by
      intro hi
      simp only [hi, Bool.true_and] at hinv
      by_cases hcond : (is4xx c.status || (c.hasTimeout && c.status == 504)) = true
      · simp only [Bool.or_eq_true, Bool.and_eq_true, beq_iff_eq] at hcond
        exact hcond
      · simp [hcond] at hinv
    cases he : c.entry with
    | grpcweb =>
      rw [he] at hent
      simp only [List.append_eq_nil_iff] at hent
      obtain ⟨⟨⟨⟨h1, h2⟩, h3⟩, h4⟩, h5⟩ := hent
      have e1 : c.status = 200 := by
        by_cases hx : c.status = 200
        · exact hx
        · simp [hx] at h1
      have e2 : c.ct = .grpcweb := by
        by_cases hx : c.ct = .grpcweb
        · exact hx
        · simp [hx] at h2
      have e3 : c.wellFormed = true := by
        cases hx : c.wellFormed with
        | true => rfl
        | false => simp [hx] at h3
      have e4 : c.trailers = 1 := by
        by_cases hx : c.trailers = 1
        · exact hx
        · simp [hx] at h4
      have e5 : c.grpcStatus.isSome = true := by
        cases hx : c.grpcStatus with
        | some _ => rfl
        | none => simp [hx] at h5
      exact ⟨rfl, hv, e3, hinv', fun _ => ⟨e1, e2, e4, e5⟩, (by intro hc; cases hc)⟩
    | http =>
      rw [he] at hent
      simp only [List.append_eq_nil_iff] at hent
      obtain ⟨⟨h1, h2⟩, h3⟩ := hent
      have e1 : 200 ≤ c.status ∧ c.status < 600 := by
        by_cases hx : (decide (200 ≤ c.status) && decide (c.status < 600)) = true
        · simpa using hx
        · simp [hx] at h1
      have e2 : c.wellFormed = true := by
        cases hx : c.wellFormed with
        | true => rfl
        | false => simp [hx] at h2
      exact ⟨rfl, hv, e2, hinv', (by intro hc; cases hc), fun _ => e1⟩
    | ws =>
      rw [he] at hent
      simp only [List.append_eq_nil_iff] at hent
      have e2 : c.wellFormed = true := by
        cases hx : c.wellFormed with
        | true => rfl
        | false => simp [hx] at hent
      exact ⟨rfl, hv, e2, hinv', (by intro hc; cases hc), (by intro hc; cases hc)⟩
    | grpcws =>
      rw [he] at hent
      simp only [List.append_eq_nil_iff] at hent
      have e2 : c.wellFormed = true := by
        cases hx : c.wellFormed with
        | true => rfl
        | false => simp [hx] at hent
      exact ⟨rfl, hv, e2, hinv', (by intro hc; cases hc), (by intro hc; cases hc)⟩

/-- A socket session the driver accepts is not a panic and not a hang (the handler returned after the client
    left); after a successful upgrade every server message is well-formed, no malformed frame was seen, the close
    reason is UTF-8 and the close code is legal; a gRPC-WebSocket call the server ended normally carries its
    final trailer; and an invalid first message on a transcoded stream was reported as a client error. -/
theorem C17_accepted_ws (c : WsCase) (h : wsViolations c = []) :
    c.res = .reject ∨
    (c.res = .ok ∧ (c.handshake = 101 →
      c.messagesWF = true ∧ c.closeReasonUTF8 = true ∧ c.close ≠ .proto ∧ (∀ k, c.close = .code k → validCloseCode k = true) ∧
      (c.grpcws = true → c.fin = .wait → c.clientInterfered = false → c.close = .code 1000 → c.lastIsTrailer = true) ∧
      (wsMustReportInvalid c = true →
        (c.close = .code 1001 ∧ c.reasonCode = some "InvalidArgument") ∨ c.close = .code 1007 ∨ c.close = .code 1003))) := by
  unfold wsViolations at h
  cases hr : c.res with
  | reject => left; rfl
  | panic => rw [hr] at h; simp at h
  | hang => rw [hr] at h; simp at h
  | ok =>
    right
    refine ⟨rfl, ?_⟩
    intro hs
    rw [hr] at h
    simp only [hs, bne_self_eq_false, Bool.false_eq_true, ↓reduceIte, List.append_eq_nil_iff] at h
    obtain ⟨⟨⟨⟨h1, h2⟩, h3⟩, h4⟩, h5⟩ := h
    have e1 : c.messagesWF = true := by
      cases hx : c.messagesWF with
      | true => rfl
      | false => simp [hx] at h1
    have e2 : c.closeReasonUTF8 = true := by
      cases hx : c.closeReasonUTF8 with
      | true => rfl
      | false => simp [hx] at h2
    have e3 : c.close ≠ .proto := by
      intro hx; rw [hx] at h3; simp at h3
    have e4 : ∀ k, c.close = .code k → validCloseCode k = true := by
      intro k hk
      rw [hk] at h3
      cases hv : validCloseCode k with
      | true => rfl
      | false => simp [hv] at h3
    have e5 : c.grpcws = true → c.fin = .wait → c.clientInterfered = false → c.close = .code 1000 → c.lastIsTrailer = true := by
      intro a b ci d
      cases hx : c.lastIsTrailer with
      | true => rfl
      | false => simp [a, b, ci, d, hx] at h4
    have e6 : wsMustReportInvalid c = true →
        (c.close = .code 1001 ∧ c.reasonCode = some "InvalidArgument") ∨ c.close = .code 1007 ∨ c.close = .code 1003 := by
      intro hm
      simp only [hm, Bool.true_and] at h5
      by_cases hcond : ((c.close == .code 1001 && c.reasonCode == some "InvalidArgument") || c.close == .code 1007 || c.close == .code 1003) = true
      · simp only [Bool.or_eq_true, Bool.and_eq_true, beq_iff_eq] at hcond
        rcases hcond with (⟨a, b⟩ | a) | a
        · exact Or.inl ⟨a, b⟩
        · exact Or.inr (Or.inl a)
        · exact Or.inr (Or.inr a)
      · simp [hcond] at h5
    exact ⟨e1, e2, e3, e4, e5, e6⟩

/-! ### non-vacuity: the hypotheses are satisfiable and the partial operations are real -/

-- `_metadata[x-a]` forwards key `x-a`; `_metadata[]` forwards the empty key; `_metadata[` is not a metadata key
example : mdKey [] [95, 109, 101, 116, 97, 100, 97, 116, 97, 91, 120, 45, 97, 93] = .ok (.md [120, 45, 97]) := by decide
example : mdKey [] [95, 109, 101, 116, 97, 100, 97, 116, 97, 91, 93] = .ok (.md []) := by decide
example : mdKey [] [95, 109, 101, 116, 97, 100, 97, 116, 97, 91] = .ok .skip := by decide
-- the Go operations really are partial: the same slice expression without the guard faults
example : goSlice [91] 2 0 = .error .sliceBounds := by decide
example : goIndex [] 0 = .error .indexOutOfRange := by decide
example : goSlice [] 0 (-1) = .error .sliceBounds := by decide
-- closing twice is a fault of the session model when the guard is removed (state: not closed, events closed)
example : gwsSession false true [[1]] = .error .closeOfClosedChannel := by decide
example : gwsSession false false [[1], [1], [1, 0, 0, 0, 0, 0, 7]] = .ok (true, true) := by decide
-- a 7-byte frame delivers its last byte; a 6-byte frame delivers nothing (the empty message is dropped)
example : gwsOnMessage false [0, 0, 0, 0, 0, 1, 9] = .ok { closed := false, delivered := some ([9], false), closeEvents := false } := by decide
example : gwsOnMessage false [0, 0, 0, 0, 0, 0] = .ok { closed := false, delivered := none, closeEvents := false } := by decide
-- "/a/b:fetch" with pattern verb "fetch" and a last segment that is only the verb
example : routeSlices [47, 97, 47, 98, 58, 118] [118] = .ok (.comps [[97], [98]] [118]) := by decide
example : routeSlices [47, 97, 47, 58, 118] [118] = .ok .notFound := by decide
example : routeSlices [97] [118] = .ok .invalid := by decide
-- "€€" cut after 4 bytes would split the second character: the cut moves back to its start
example : backToRuneStart [226, 130, 172, 226, 130, 172] 4 = .ok 3 := by decide
example : recvHTTPStatus false .bodyUnmarshal = some 400 := by decide
example : recvHTTPStatus true .bodyPath = some 500 := by decide
example : traverseFieldPath (fun _ _ => some (.message 0)) 0 [97, 46, 98, 46] = .ok (.field 0 [98]) := by decide
