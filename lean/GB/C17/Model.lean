import GB.Base.Bytes
import GB.C03.Model
import GB.C08.Model
import GB.C12.Model
import GB.C13.Model
import GB.C19.Model
/-
  C17 — models of the small client-facing cores, with every Go partial operation explicit.

  Totality is free in Lean, so "no panic" only means something when the operations that can panic
  in Go are modelled as partial: index expressions, slice expressions (with Go's *signed* index
  arithmetic: `len(k)-1` is -1 for an empty string, not 0), closing a channel twice, running a loop
  out of its fuel.  Every function below returns `Except Fault α`; the theorems in Props.lean show
  the `Fault` branch is unreachable for ALL inputs.

  NO PRIVATE COPIES: where another slice already models a core (C19 dispatch and parseMetadataQuery,
  C08 gRPC-Web recv / OnMessage, C03 RouteHTTP, C12 decodeTimeout, C13 closeReason) that model is
  IMPORTED.  Those models are total functions that hide the partial operation (pattern matching,
  `take`/`drop`, truncated `Nat` subtraction); the functions here redo only the partial operations
  Fault-explicitly, use the other slice's definitions for every guard and result, and Props.lean
  proves each of them EQUAL to the imported model (`C17_*_is_C08` / `_is_C19` / `_is_C03` / `_is_C13`),
  so the two descriptions cannot drift apart.
-/
namespace GB.C17
open GB

inductive Fault where
  | indexOutOfRange
  | sliceBounds
  | closeOfClosedChannel
  | outOfFuel
  | nilMapWrite          -- assignment to an entry of a nil map
  | nilDeref             -- method call / field access through a nil pointer
  | typeAssertion        -- `x.(T)` without `, ok` on a value of another dynamic type (or nil)
  | divideByZero
  deriving Repr, DecidableEq

instance {ε α : Type} [DecidableEq ε] [DecidableEq α] : DecidableEq (Except ε α)
  | .ok a, .ok b => if h : a = b then isTrue (by rw [h]) else isFalse (by intro e; injection e; contradiction)
  | .error a, .error b => if h : a = b then isTrue (by rw [h]) else isFalse (by intro e; injection e; contradiction)
  | .ok _, .error _ => isFalse (by intro e; cases e)
  | .error _, .ok _ => isFalse (by intro e; cases e)

/-- Go `s[i]` on a string / byte slice, `i` a Go `int`. -/
def goIndex (s : Bytes) (i : Int) : Except Fault UInt8 :=
  if 0 ≤ i then
    match s[i.toNat]? with
    | some b => .ok b
    | none => .error .indexOutOfRange
  else .error .indexOutOfRange

/-- Go `s[lo:hi]`: panics unless `0 ≤ lo ≤ hi ≤ len(s)`. -/
def goSlice (s : Bytes) (lo hi : Int) : Except Fault Bytes :=
  if 0 ≤ lo ∧ lo ≤ hi ∧ hi ≤ s.length then .ok ((s.take hi.toNat).drop lo.toNat)
  else .error .sliceBounds

/-- Go `s[lo:]`. -/
def goSliceFrom (s : Bytes) (lo : Int) : Except Fault Bytes := goSlice s lo s.length
/-- Go `s[:hi]`. -/
def goSliceTo (s : Bytes) (hi : Int) : Except Fault Bytes := goSlice s 0 hi

/-- Go `xs[i]` on a slice of strings. -/
def goIndexL (xs : List Bytes) (i : Int) : Except Fault Bytes :=
  if 0 ≤ i then
    match xs[i.toNat]? with
    | some b => .ok b
    | none => .error .indexOutOfRange
  else .error .indexOutOfRange

def hasPrefix (s p : Bytes) : Bool := p.isPrefixOf s

/-- internal/ascii.EqualFold (GB.C19) -/
def eqFold (a b : Bytes) : Bool := GB.C19.equalFold a b

/-! ## webbridge.parseMetadataQuery — per-key decision and the key slice (guards and results: GB.C19) -/

inductive MdKeyResult where
  | skip                 -- not of the form param[...]: stays in the query
  | drop                 -- param[...] with an invalid metadata key: removed from the query, not forwarded
  | md (k : Bytes)       -- forwarded under this (lower-cased) key
  deriving Repr, DecidableEq

/-- One iteration of the loop of `parseMetadataQuery` for query key `k` (the value is valid), `param` non-empty. -/
def mdKeyWith (param k : Bytes) : Except Fault MdKeyResult :=
  if !GB.C19.isMetaKey param k then .ok .skip
  else do
    -- mdKey := k[len(param)+1 : len(k)-1]
    let mk ← goSlice k ((param.length : Int) + 1) ((k.length : Int) - 1)
    if GB.C19.isValidMetadataKey mk then .ok (.md (GB.C19.lower mk)) else .ok .drop

/-- `if param == "" { param = defaultMetadataParam }` then the loop body. -/
def mdKey (param k : Bytes) : Except Fault MdKeyResult :=
  mdKeyWith (if param.isEmpty then GB.C19.defaultParam else param) k

/-! ## gRPC-WebSocket `gwsGRPCWebHandler.OnMessage` after the metadata frame (state and events: GB.C08) -/

open GB.C08 (WS WSEv RecvErr) in
/-- One `OnMessage` call with `stream.receivedMD = true` (after fixes D8/D8b: `>= 6`, errors are delivered). -/
def gwsOnMessage (st : WS) (data : Bytes) : Except Fault (WS × List WSEv) :=
  if st.closed then .ok (st, [])
  else do
    -- if len(data) > 0 { stream.closed = data[0] == 1 } else { event.err = "expected flow control byte" }
    let (closed, err0) ←
      if data.length > 0 then (do let b ← goIndex data 0; pure (b == 1, (none : Option RecvErr)))
      else pure (false, some RecvErr.flow)
    -- if len(data) >= 6 { event.data = data[6:] } else if event.err == nil && len(data) != 1 { event.err = "expected …header" }
    let evs ←
      if data.length ≥ 6 then (do let d ← goSliceFrom data 6; pure [WSEv.msg d])
      else if err0.isNone && data.length != 1 then pure [WSEv.err RecvErr.wsHeader]
      else match err0 with
        | some e => pure [WSEv.err e]
        | none => pure []
    -- if stream.closed { close(stream.events) }
    pure ({ st with closed := closed }, evs ++ (if closed then [WSEv.eof] else []))

/-- A whole session: `events` must never be closed twice (`close` of a closed channel panics).
    state = stream state and "events already closed". -/
def gwsSession : GB.C08.WS → Bool → List Bytes → Except Fault (GB.C08.WS × Bool)
  | st, evClosed, [] => .ok (st, evClosed)
  | st, evClosed, d :: rest => do
    let (st', evs) ← gwsOnMessage st d
    if evs.contains GB.C08.WSEv.eof then
      if evClosed then .error .closeOfClosedChannel else gwsSession st' true rest
    else gwsSession st' evClosed rest

/-! ## transcoded WebSocket `gwsHandler.OnMessage`: `close(stream.events)` at most once -/

/-- state: alreadyRead, eventsClosed.  `cs` = client streaming, `body` = the binding has a request body. -/
def wsSession (cs body : Bool) : Bool → Bool → Nat → Except Fault (Bool × Bool)
  | alreadyRead, evClosed, 0 => .ok (alreadyRead, evClosed)
  | alreadyRead, evClosed, n + 1 =>
    -- if !(ClientStreaming || (RequestBodyPath != "" && alreadyRead.CompareAndSwap(false, true))) { return }
    let cas := body && !alreadyRead
    let alreadyRead' := if !cs && body && !alreadyRead then true else alreadyRead
    if !(cs || cas) then wsSession cs body alreadyRead' evClosed n
    else
      -- … deliver the event …; if !ClientStreaming { close(stream.events) }
      if !cs then
        if evClosed then .error .closeOfClosedChannel else wsSession cs body alreadyRead' true n
      else wsSession cs body alreadyRead' evClosed n

/-! ## gRPC-Web `gRPCWebStream.recv` (result type, limit and `be32`: GB.C08) -/

/-- One `recv` on the remaining body: result and unread rest, with the header slices explicit
    (after fix D7: a declared length above the limit is rejected, not truncated). -/
def gwRecv (body : Bytes) : Except Fault (GB.C08.RecvRes × Bytes) :=
  if body.length == 0 then .ok (.eof, [])                       -- io.ReadFull read nothing: io.EOF
  else if body.length < 5 then .ok (.err .header, [])            -- ErrUnexpectedEOF
  else do
    let header ← goSliceTo body 5
    let rest ← goSliceFrom body 5
    let lenBytes ← goSlice header 1 5                            -- header[1:5]
    let a ← goIndex lenBytes 0
    let b ← goIndex lenBytes 1
    let c ← goIndex lenBytes 2
    let d ← goIndex lenBytes 3
    let length := GB.C08.be32 a b c d                            -- binary.BigEndian.Uint32
    if length < 1 then .ok (.msg [], rest)
    else if length > GB.C08.maxMsg then .ok (.err .oversize, rest)
    else if rest.length < length then .ok (.err .body, [])
    else do
      let data ← goSliceTo rest length                           -- the make([]byte, length) buffer, filled
      let rest' ← goSliceFrom rest length
      .ok (.msg data, rest')

/-! ## routing.PatternRouter.RouteHTTP — path splitting and verb slicing (`splitSlash`, `hasSuffix`: GB.C03) -/

inductive RouteSlices where
  | invalid                                   -- path does not start with '/': InvalidArgument
  | skipRoute                                 -- a last segment consisting only of the verb: this route is skipped (fix D3)
  | comps (matchComponents : List Bytes) (verb : Bytes)   -- arguments of `MatchAndEscape`
  deriving Repr, DecidableEq

/-- `verbIdx` of `RouteHTTP` for one route whose pattern verb is `patternVerb`. -/
def verbIndex (last patternVerb : Bytes) : Int :=
  if patternVerb ≠ [] ∧ GB.C03.hasSuffix last (58 :: patternVerb) then (last.length : Int) - patternVerb.length - 1 else -1

/-- What the closure of `RouteHTTP` does with `verbIdx` for one route. -/
def routeSlicesAt (pathComponents : List Bytes) (last : Bytes) (verbIdx : Int) : Except Fault RouteSlices :=
  if verbIdx == 0 then .ok .skipRoute
  else if verbIdx > 0 then do
    let a ← goSliceTo last verbIdx                                  -- lastPathComponent[:verbIdx]
    let v ← goSliceFrom last (verbIdx + 1)                          -- lastPathComponent[verbIdx+1:]
    -- matchComponents[len(matchComponents)-1] = a   (an index assignment: needs len ≥ 1)
    let _ ← goIndexL pathComponents ((pathComponents.length : Int) - 1)
    .ok (.comps (pathComponents.dropLast ++ [a]) v)
  else .ok (.comps pathComponents [])

/-- The slicing `RouteHTTP` does for one route whose pattern verb is `patternVerb`. -/
def routeSlices (path patternVerb : Bytes) : Except Fault RouteSlices :=
  if !hasPrefix path [47] then .ok .invalid
  else do
    let p1 ← goSliceFrom path 1                                      -- path[1:]
    let pathComponents := GB.C03.splitSlash p1
    let last ← goIndexL pathComponents ((pathComponents.length : Int) - 1)  -- pathComponents[len-1]
    routeSlicesAt pathComponents last (verbIndex last patternVerb)

/-! ## routing.parseRPCName -/

/-- `strings.Cut(s, "/")` -/
def cutSlash : Bytes → Bytes × Bytes × Bool
  | [] => ([], [], false)
  | c :: rest =>
    if c == 47 then ([], rest, true)
    else let (a, b, f) := cutSlash rest; (c :: a, b, f)

def parseRPCName (rpcName : Bytes) : Except Fault (Bytes × Bytes × Bool) := do
  -- if len(rpcName) > 0 && rpcName[0] == '/' { rpcName = rpcName[1:] }
  let name ←
    if rpcName.length > 0 then (do
      let b ← goIndex rpcName 0
      if b == 47 then goSliceFrom rpcName 1 else pure rpcName)
    else pure rpcName
  pure (cutSlash name)

/-! ## grpcadapter.decodeTimeout — the index expressions (the value is C12's model) -/

def checkDigitsLoop (s : Bytes) : Nat → Int → Except Fault Bool
  | 0, _ => .ok true
  | n + 1, i => do
    let b ← goIndex s i                       -- s[i] for i := 0; i < size-1
    if b < 48 || b > 57 then .ok false else checkDigitsLoop s n (i + 1)

def decodeTimeoutIdx (s : Bytes) : Except Fault (Option Int) :=
  let size : Int := s.length
  if size < 2 ∨ size > 9 then .ok none
  else do
    let u ← goIndex s (size - 1)              -- s[size-1]
    match GB.C12.timeoutUnitToDuration u with
    | none => .ok none
    | some _ =>
      let okDigits ← checkDigitsLoop s (s.length - 1) 0
      if !okDigits then .ok none
      else do
        let _ ← goSliceTo s (size - 1)        -- s[:size-1]
        .ok (GB.C12.decodeTimeout s)

/-! ## grpcadapter.ProxyMDFilter.filterRequest — key slicing -/

def gwPrefix : Bytes := [103, 114, 112, 99, 45, 109, 101, 116, 97, 100, 97, 116, 97, 45]  -- "grpc-metadata-"
def binSuffix : Bytes := [45, 98, 105, 110]  -- "-bin"

/-- the `grpc-metadata-` branch: strip the gateway prefix, else add the configured one -/
def stripGw (k pfx : Bytes) : Except Fault Bytes :=
  if k.length > gwPrefix.length then do
    let h ← goSliceTo k gwPrefix.length                     -- k[:len(prefix)]
    if eqFold h gwPrefix then goSliceFrom k gwPrefix.length -- k[len(prefix):]
    else pure (pfx ++ k)
  else pure (pfx ++ k)

/-- the `-bin` test -/
def isBinKey (k1 : Bytes) : Except Fault Bool :=
  if k1.length > binSuffix.length then do
    let t ← goSliceFrom k1 ((k1.length : Int) - binSuffix.length)  -- k[len(k)-len(suffix):]
    pure (eqFold t binSuffix)
  else pure false

/-- Returns the outgoing key and whether its values are base64-decoded. -/
def filterKey (k pfx : Bytes) : Except Fault (Bytes × Bool) := do
  let k1 ← stripGw k pfx
  let isBin ← isBinKey k1
  pure (k1, isBin)

/-! ## transcoding.traverseFieldPath — the `strings.Cut` loop terminates -/

/-- `strings.Cut(s, ".")` -/
def cutDot : Bytes → Bytes × Bytes × Bool
  | [] => ([], [], false)
  | c :: rest =>
    if c == 46 then ([], rest, true)
    else let (a, b, f) := cutDot rest; (c :: a, b, f)

inductive FieldKind where
  | scalar | message (m : Nat) | repeated
  deriving Repr, DecidableEq

inductive Traverse where
  | whole (m : Nat)                       -- "" or "*": the message itself
  | field (m : Nat) (name : Bytes)        -- message reached and final field
  | errEmptyElem | errNoField | errNotMessage
  deriving Repr, DecidableEq

/-- The loop body, run with explicit fuel (`for elem, rest, found := Cut(path); elem != "" || found; … = Cut(rest)`). -/
def traverseLoop (lookup : Nat → Bytes → Option FieldKind) : Nat → Nat → Option Bytes → Bytes → Except Fault Traverse
  | 0, _, _, _ => .error .outOfFuel
  | fuel + 1, m, lastFd, path =>
    let (elem, rest, found) := cutDot path
    if !(elem ≠ [] || found) then
      -- loop condition false: return msg, fd
      match lastFd with
      | some fd => .ok (.field m fd)
      | none => .ok (.whole m)
    else if found && elem == [] then .ok .errEmptyElem
    else
      match lookup m elem with
      | none => .ok .errNoField
      | some k =>
        if rest == [] then .ok (.field m elem)      -- break on the last element
        else match k with
          | .message m' => traverseLoop lookup fuel m' (some elem) rest
          | _ => .ok .errNotMessage

def traverseFieldPath (lookup : Nat → Bytes → Option FieldKind) (root : Nat) (path : Bytes) : Except Fault Traverse :=
  if path == [] || path == [42] then .ok (.whole root)
  else traverseLoop lookup (path.length + 1) root none path

/-! ## error wrapping and the HTTP mapping -/

inductive Code where
  | ok | canceled | unknown | invalidArgument | deadlineExceeded | notFound | alreadyExists
  | permissionDenied | resourceExhausted | failedPrecondition | aborted | outOfRange
  | unimplemented | internal | unavailable | dataLoss | unauthenticated
  deriving Repr, DecidableEq

def Code.toNat : Code → Nat
  | .ok => 0 | .canceled => 1 | .unknown => 2 | .invalidArgument => 3 | .deadlineExceeded => 4
  | .notFound => 5 | .alreadyExists => 6 | .permissionDenied => 7 | .resourceExhausted => 8
  | .failedPrecondition => 9 | .aborted => 10 | .outOfRange => 11 | .unimplemented => 12
  | .internal => 13 | .unavailable => 14 | .dataLoss => 15 | .unauthenticated => 16

def Code.ofNat? : Nat → Option Code
  | 0 => some .ok | 1 => some .canceled | 2 => some .unknown | 3 => some .invalidArgument
  | 4 => some .deadlineExceeded | 5 => some .notFound | 6 => some .alreadyExists
  | 7 => some .permissionDenied | 8 => some .resourceExhausted | 9 => some .failedPrecondition
  | 10 => some .aborted | 11 => some .outOfRange | 12 => some .unimplemented | 13 => some .internal
  | 14 => some .unavailable | 15 => some .dataLoss | 16 => some .unauthenticated | _ => none

/-- grpc-gateway `runtime.HTTPStatusFromCode` (used by `webbridge.errorStatus`). -/
def httpStatusFromCode : Code → Nat
  | .ok => 200 | .canceled => 499 | .unknown => 500 | .invalidArgument => 400 | .deadlineExceeded => 504
  | .notFound => 404 | .alreadyExists => 409 | .permissionDenied => 403 | .unauthenticated => 401
  | .resourceExhausted => 429 | .failedPrecondition => 400 | .aborted => 409 | .outOfRange => 400
  | .unimplemented => 501 | .internal => 500 | .unavailable => 503 | .dataLoss => 500

/-- An error value as the wrapping functions see it. -/
inductive Err where
  | nil
  | status (c : Code)          -- implements GRPCStatus() directly
  | plain                      -- any other error (including one that merely WRAPS a status error)
  deriving Repr, DecidableEq

/-- `wrapTranscodingError(err, defaultCode)`: nil stays nil, direct status errors pass, the rest get the default. -/
def wrapTranscodingError (e : Err) (dflt : Code) : Option Code :=
  match e with
  | .nil => none
  | .status c => some c
  | .plain => some dflt

def requestTranscodingError (e : Err) : Option Code := wrapTranscodingError e .invalidArgument
def responseTranscodingError (e : Err) : Option Code := wrapTranscodingError e .internal

/-- What can go wrong inside `standardRequestTranscoder.transcodeFunc`. -/
inductive DecodeFailure where
  | bodyPath            -- the BINDING's body path does not resolve (description error, not client input)
  | bodyUnmarshal       -- the marshaler rejected the body (syntactically invalid JSON, type mismatch, …)
  | bodyEOFStream       -- io.EOF from a streaming decoder (`supportsEOF`)
  | pathParam           -- a path parameter does not parse for its field
  | queryParam          -- a query parameter does not parse for its field
  deriving Repr, DecidableEq

/-- The error `transcodeFunc` returns for each failure. -/
def transcodeFuncErr (supportsEOF : Bool) : DecodeFailure → Err
  | .bodyPath => .status .internal
  | .bodyUnmarshal => .status .invalidArgument
  | .bodyEOFStream => if supportsEOF then .plain else .status .invalidArgument
  | .pathParam => .status .invalidArgument
  | .queryParam => .status .invalidArgument

/-- `httpStream.recv` / `gwsStream.Recv`: `requestTranscodingError(reqtc.Transcode(b, msg))` then `errorStatus`. -/
def recvHTTPStatus (supportsEOF : Bool) (f : DecodeFailure) : Option Nat :=
  (requestTranscodingError (transcodeFuncErr supportsEOF f)).map httpStatusFromCode

/-! ## webbridge.websocketError -/

inductive WsErr where
  | nil | expectedText | expectedBinary | status (c : Code) | plain
  deriving Repr, DecidableEq

/-- close code and "the reason has the compact status form `code X: msg`". -/
def websocketError : WsErr → Nat × Bool
  | .nil => (1000, false)
  | .expectedText => (1003, true)
  | .expectedBinary => (1003, true)
  | .status _ => (1001, true)
  | .plain => (1001, false)

/-! ### the close reason must fit a control frame: `closeReason` on valid UTF-8 (constants, `runeStart`: GB.C13) -/

/-- `for n > 0 && !utf8.RuneStart(reason[n]) { n-- }` -/
def backToRuneStart (s : Bytes) : Nat → Except Fault Nat
  | 0 => .ok 0
  | cut + 1 => do
    let b ← goIndex s ((cut + 1 : Nat) : Int)     -- reason[n]
    if GB.C13.runeStart b then .ok (cut + 1) else backToRuneStart s cut

def truncateCloseReason (s : Bytes) : Except Fault Bytes :=
  if s.length ≤ GB.C13.maxCloseReasonLen then .ok s
  else do
    let cut ← backToRuneStart s GB.C13.maxCloseReasonLen
    goSliceTo s cut                                -- reason[:n]

/-- Close codes a server may put on the wire (RFC 6455 §7.4.1: 1005, 1006, 1015 are reserved). -/
def validCloseCode (c : Nat) : Bool :=
  (1000 ≤ c && c ≤ 1003) || (1007 ≤ c && c ≤ 1011) || (3000 ≤ c && c ≤ 4999)

end GB.C17
