import GB.Base.Proto
import GB.C17.Spec
namespace GB.C17
open GB GB.Proto

/-! Line protocol of area `c17` (see harness/c17):
  fuzz ops      `http <tag> <script> <hexreq>`, `ws <tag> <script> <hextarget> <hexheaders> <end> <frames…>`
                 => `res=… key=value …` (observed outcome)
  differential  `mdkey`, `gwsmsg`, `gwrecv`, `rslice`, `rpcname`, `dtidx`, `fkey`, `wserr`, `wrap`, `hst`, `tfp`
  (the models compared are the Fault-explicit ones of Model.lean, proved equal to the imported C03/C08/C13/C19 models)
-/

def kvGet (toks : List String) (k : String) : Option String :=
  (toks.find? (fun t => t.startsWith (k ++ "="))).map (fun t => (t.drop (k.length + 1)).toString)

/-- a list of header lines: `-` (no line) or hex fields joined by `,` -/
def parseHexList (s : String) : Option (List Bytes) :=
  if s == "-" then some [] else (s.splitOn ",").mapM parseHex

def parseScript (s : String) : Option Script :=
  -- n<k>c<code>w<0|1>
  match s.toList with
  | 'n' :: rest =>
    let (nd, r1) := rest.span Char.isDigit
    match r1 with
    | 'c' :: r2 =>
      let (cd, r3) := r2.span Char.isDigit
      match r3 with
      | ['w', w] =>
        match (String.ofList nd).toNat?, (String.ofList cd).toNat? with
        | some n, some c =>
          match Code.ofNat? c with
          | some code => some { n := n, code := code, wait := w == '1' }
          | none => none
        | _, _ => none
      | _ => none
    | _ => none
  | _ => none

def parseTag : String → Tag
  | "badjson" => .badjson
  | "badparam" => .badparam
  | _ => .none

def parseRes : String → Option Res
  | "ok" => some .ok | "panic" => some .panic | "crash" => some .panic
  | "hang" => some .hang | "reject" => some .reject | _ => none

def parseBody : String → BodyKind
  | "star" => .star | "field" => .field | _ => .none

def parseCt : String → CtClass
  | "json" => .json | "sse" => .json | "text" => .text | "grpcweb" => .grpcweb | "none" => .none | _ => .other

def b1 (o : Option String) : Bool := o == some "1"
def natOr (o : Option String) (d : Nat) : Nat := (o.bind String.toNat?).getD d

def showList (l : List String) : String := ",".intercalate l

def entryName : GB.C19.Bridge → String
  | .http => "http" | .ws => "ws" | .grpcweb => "grpcweb" | .grpcws => "grpcws"

def verdict (viol mism : List String) (ok : String) : String :=
  if !viol.isEmpty then s!"VIOL {showList viol}"
  else if !mism.isEmpty then s!"DIFF model={showList mism}"
  else ok

def handleHttp (script : String) (o : List String) : String :=
  match kvGet o "res" >>= parseRes, parseScript script with
  | none, _ => "BAD res"
  | _, none => "BAD script"
  | some res, some scr =>
    if res == .reject then "OK b=nethttp-reject"
    else
      match (kvGet o "hc" >>= parseHexList), (kvGet o "hu" >>= parseHexList), (kvGet o "hp" >>= parseHexList), (kvGet o "hct" >>= parseHexList) with
      | some hc, some hu, some hp, some hct =>
        let entry := GB.C19.dispatch { connection := hc, upgrade := hu, protocol := hp, contentType := hct }
        let route := (kvGet o "route").getD "none"
        let c : HttpCase := {
          res := res, entry := entry, tag := parseTag ((kvGet o "tag").getD "none"),
          firstJSONInvalid := kvGet o "jp" == some "0",
          hasTimeout := b1 (kvGet o "to"), bodyUnreadable := kvGet o "jp" == some "rd",
          routerHit := match kvGet o "rt" with | some "grpc" => some true | some "http" => some false | _ => none,
          routeOK := route == "ok", cs := b1 (kvGet o "cs"), ss := b1 (kvGet o "ss"),
          body := parseBody ((kvGet o "bp").getD "none"), streams := natOr (kvGet o "streams") 0, script := scr,
          hijacked := b1 (kvGet o "hj"), status := natOr (kvGet o "st") 0, ct := parseCt ((kvGet o "ct").getD "other"),
          wellFormed := b1 (kvGet o "wf"), lateData := kvGet o "wf" == some "2", headersValid := (kvGet o "hv").getD "1" == "1",
          trailers := natOr (kvGet o "tr") 0, grpcStatus := (kvGet o "gs") >>= String.toNat? }
        let cls := if c.status == 0 then "none" else s!"{c.status / 100}xx"
        let inv := if invalidOnTranscodedRoute c then "-invalid" else ""
        let nt := if c.routeOK || c.entry != .http then " nt" else ""
        verdict (httpViolations c) (httpMismatches c) s!"OK{nt} b={entryName entry}-{cls}{inv}"
      | _, _, _, _ => "BAD http fields"

def parseEnd : String → Option End
  | "close" => some .close | "drop" => some .drop | "wait" => some .wait | _ => none

def parseClose (s : String) : CloseObs :=
  match s with
  | "none" => .none | "timeout" => .timeout | "eof" => .eof | "proto" => .proto | "nostatus" => .noStatus
  | _ => match s.toNat? with | some k => .code k | none => .proto

def closeName : CloseObs → String
  | .code k => s!"{k}" | .noStatus => "nostatus" | .none => "none" | .timeout => "timeout" | .eof => "eof" | .proto => "proto"

def handleWs (script : String) (o : List String) : String :=
  match kvGet o "res" >>= parseRes, parseScript script, kvGet o "end" >>= parseEnd with
  | some res, some scr, some fin =>
    let route := (kvGet o "route").getD "none"
    let c : WsCase := {
      res := res, grpcws := b1 (kvGet o "g"), tag := parseTag ((kvGet o "tag").getD "none"), fin := fin,
      hasTimeout := b1 (kvGet o "to"), clientInterfered := b1 (kvGet o "ci"),
      routeOK := route == "ok", routerHit := (kvGet o "rt").getD "none" != "none", cs := b1 (kvGet o "cs"),
      body := parseBody ((kvGet o "bp").getD "none"), script := scr,
      handshake := natOr (kvGet o "hs") 0, handshakeWF := b1 (kvGet o "hwf"),
      messages := natOr (kvGet o "n") 0, messagesWF := (kvGet o "wfm").getD "1" == "1",
      close := parseClose ((kvGet o "cc").getD "none"), closeReasonUTF8 := (kvGet o "cu").getD "1" == "1",
      reasonCode := match kvGet o "rc" with | some "na" => none | x => x,
      lastIsTrailer := b1 (kvGet o "lt"),
      firstJSONInvalid := match kvGet o "fj" with | some "1" => some true | some "0" => some false | _ => none }
    let kind := if c.grpcws then "grpcws" else "ws"
    let inv := if wsMustReportInvalid c then "-invalid" else ""
    let nt := if c.handshake == 101 then " nt" else ""
    verdict (wsViolations c) (wsMismatches c) s!"OK{nt} b={kind}-hs{c.handshake}-cc{closeName c.close}{inv}"
  | _, _, _ => "BAD ws fields"

def showMdKey : MdKeyResult → String
  | .skip => "skip" | .drop => "drop" | .md k => s!"md:{toHex k}"

def showFault : Fault → String
  | .indexOutOfRange => "index" | .sliceBounds => "slice" | .closeOfClosedChannel => "close" | .outOfFuel => "fuel"
  | .nilMapWrite => "nilmap" | .nilDeref => "nilderef" | .typeAssertion => "typeassert" | .divideByZero => "div0"

def b01 (b : Bool) : String := if b then "1" else "0"

/-- model output vs implementation output for the differential ops: a model FAULT is a predicted panic. -/
def cmp (impl : String) (model : Except Fault String) (br : String) : String :=
  match model with
  | .error f => if impl.startsWith "PANIC" then s!"VIOL panic model-fault={showFault f}" else s!"DIFF model=FAULT-{showFault f}"
  | .ok m =>
    if impl.startsWith "PANIC" then s!"VIOL panic impl={impl} model={m}"
    else if impl == m then s!"OK nt b={br}" else s!"DIFF model={m}"

def joinSlash (cs : List Bytes) : Bytes := (cs.intersperse [47]).flatten

/-- the schema of message `c17.All` as far as `traverseFieldPath` can see it (0 = All, 1 = Nested, 2 = Timestamp, 3 = Struct, 4 = Any) -/
def lookupAll (m : Nat) (name : Bytes) : Option FieldKind :=
  let n := bytesToString name
  match m with
  | 0 =>
    if n == "f_nested" || n == "o_nested" then some (.message 1)
    else if n == "w_ts" then some (.message 2)
    else if n == "w_struct" then some (.message 3)
    else if n == "w_any" then some (.message 4)
    else if n == "f_string" || n == "f_int32" || n == "f_enum" || n == "o_string" || n == "p_int32" then some .scalar
    else if n == "r_nested" || n == "r_int32" || n == "m_ss" || n == "m_sn" then some .repeated
    else none
  | 1 =>
    if n == "child" then some (.message 1)
    else if n == "name" || n == "n" || n == "color" then some .scalar
    else if n == "tags" then some .repeated
    else none
  | 2 => if n == "seconds" || n == "nanos" then some .scalar else none
  | 3 => if n == "fields" then some .repeated else none
  | _ => if n == "type_url" || n == "value" then some .scalar else none

def showTraverse : Traverse → String
  | .whole m => s!"whole:{m}" | .field m n => s!"field:{m}:{toHex n}"
  | .errEmptyElem => "err:empty" | .errNoField => "err:nofield" | .errNotMessage => "err:notmsg"

def parseErrKind (s : String) : Option Err :=
  if s == "nil" then some .nil
  else if s == "plain" || s.startsWith "wrapst:" then some .plain
  else if s.startsWith "st:" then ((s.drop 3).toString.toNat? >>= Code.ofNat?).map .status
  else none

def handleCore : List String → List String → String
  | ["mdkey", hp, hk], out =>
    match parseHex hp, parseHex hk with
    | some p, some k => cmp (" ".intercalate out) ((mdKey p k).map showMdKey)
        (match mdKey p k with | .ok .skip => "mdkey-skip" | .ok .drop => "mdkey-drop" | _ => "mdkey-md")
    | _, _ => "BAD hex"
  | ["gwsmsg", "1", cl, hd], out =>
    match parseHex hd with
    | some d =>
      let m := (gwsOnMessage { receivedMD := true, closed := cl == "1" } d).map (fun (st, evs) =>
        let (dl, data, err) := match evs.head? with
          | some (GB.C08.WSEv.msg m) => ("1", toHex m, "0")
          | some (GB.C08.WSEv.err _) => ("1", "x", "1")
          | _ => ("0", "x", "0")
        s!"closed={b01 st.closed} dl={dl} data={data} err={err} ec={b01 (evs.contains GB.C08.WSEv.eof)}")
      cmp (" ".intercalate out) m (if d.length ≥ 6 then "gwsmsg-deliver" else "gwsmsg-short")
    | none => "BAD hex"
  | ["gwsmsg", "0", cl, _], out =>
    -- metadata frame: textproto parsing is not modelled; both permitted outcomes are panic-free
    let impl := " ".intercalate out
    if impl.startsWith "PANIC" then s!"VIOL panic impl={impl}"
    else if cl == "1" then (if impl == "noop" then "OK b=gwsmd-closed" else s!"DIFF model=noop")
    else if impl == "md-accepted" || impl == "md-rejected-trailer" then s!"OK nt b=gws{impl}" else s!"DIFF model=md-accepted|md-rejected-trailer"
  | ["gwrecv", hb], out =>
    match parseHex hb with
    | some b =>
      let impl := " ".intercalate out
      match gwRecv b with
      | .error f => if impl.startsWith "PANIC" then s!"VIOL panic model-fault={showFault f}" else s!"DIFF model=FAULT-{showFault f}"
      | .ok r =>
        if impl.startsWith "PANIC" then s!"VIOL panic impl={impl}"
        else
          let n := b.length - r.2.length
          let permitted : List String := match r.1 with
            | .eof => ["n=0 eof=1 code=-1 unk=x"]
            | .err e => [s!"n={n} eof=0 code={e.code} unk=x"]
            | .msg [] => [s!"n={n} eof=0 code=-1 unk=x"]
            | .msg d => [s!"n={n} eof=0 code=-1 unk={toHex d}", s!"n={n} eof=0 code=2 unk=x", s!"n={n} eof=0 code=13 unk=x"]
          if permitted.contains impl then
            s!"OK nt b=gwrecv-{match r.1 with | .eof => "eof" | .err .oversize => "oversize" | .err _ => "short" | .msg [] => "empty" | .msg _ => "payload"}"
          else s!"DIFF model={"|".intercalate permitted}"
    | none => "BAD hex"
  | ["rslice", hp, hv], out =>
    match parseHex hp, parseHex hv with
    | some p, some v =>
      let m := (routeSlices p v).map (fun r => match r with
        | .invalid => "inv" | .skipRoute => "nf"
        | .comps cs verb => if verb == v then s!"ok:{toHex (joinSlash cs)}" else "nf")
      cmp (" ".intercalate out) m (match routeSlices p v with | .ok (.comps _ _) => "rslice-comps" | .ok .skipRoute => "rslice-verbonly" | _ => "rslice-inv")
    | _, _ => "BAD hex"
  | ["rpcname", hn], out =>
    match parseHex hn with
    | some n =>
      let m := (parseRPCName n).map (fun (s, me, ok) => if ok then s!"ok:{toHex s}:{toHex me}" else "bad")
      cmp (" ".intercalate out) m "rpcname"
    | none => "BAD hex"
  | ["dtidx", hs], out =>
    match parseHex hs with
    | some s => cmp (" ".intercalate out) ((decodeTimeoutIdx s).map showOptInt) "dtidx"
    | none => "BAD hex"
  | ["fkey", hk, hp], out =>
    match parseHex hk, parseHex hp with
    | some k, some p =>
      let m := (filterKey k p).map (fun (k1, isBin) => s!"key {toHex (GB.C19.lower k1)} bin={b01 isBin}")
      cmp (" ".intercalate out) m "fkey"
    | _, _ => "BAD hex"
  | ["wserr", kind], out =>
    let e : Option WsErr :=
      if kind == "nil" then some .nil else if kind == "text" then some .expectedText
      else if kind == "binary" then some .expectedBinary else if kind == "plain" then some .plain
      else if kind.startsWith "st:" then ((kind.drop 3).toString.toNat? >>= Code.ofNat?).map .status
      else none
    match e with
    | some e =>
      let (c, form) := websocketError e
      let valid := validCloseCode c
      let r := cmp (" ".intercalate out) (.ok s!"code={c} form={b01 form}") "wserr"
      if valid then r else s!"VIOL invalid close code {c}"
    | none => "BAD kind"
  | ["wrap", dir, kind], out =>
    match parseErrKind kind with
    | some e =>
      let r := if dir == "req" then requestTranscodingError e else responseTranscodingError e
      let m := match r with | none => "nil" | some c => s!"code={c.toNat} http={httpStatusFromCode c}"
      cmp (" ".intercalate out) (.ok m) s!"wrap-{dir}"
    | none => "BAD kind"
  | ["hst", c], out =>
    match c.toNat? with
    | some n =>
      let m := match Code.ofNat? n with | some code => s!"{httpStatusFromCode code}" | none => "500"
      cmp (" ".intercalate out) (.ok m) "hst"
    | none => "BAD code"
  | ["tfp", hp], out =>
    match parseHex hp with
    | some p => cmp (" ".intercalate out) ((traverseFieldPath lookupAll 0 p).map showTraverse) "tfp"
    | none => "BAD hex"
  | _, _ => "BAD c17 line"

/-- PANIC (recovered in the handler, or the whole worker process died) and HANG are violations whatever
    else is known about the case — also for the differential ops, whose models never fault. -/
def crashVerdict (out : List String) : Option String :=
  match kvGet out "res" with
  | some "panic" => some s!"VIOL panic {(kvGet out "msg").getD ""}"
  | some "crash" => some s!"VIOL panic process-died {(kvGet out "msg").getD ""}"
  | some "hang" => some s!"VIOL hang {(kvGet out "where").getD ""}"
  | _ => none

/-- `tcp raw` (request targets without a path over a real connection) and `tcp idle` (the client stops sending while the
    target ends the call / the deadline expires): judged by `tcpViolations` (Spec.lean). -/
def handleTcp (kind what script : String) (o : List String) : String :=
  match parseScript script with
  | none => "BAD script"
  | some scr =>
    let c : TcpCase := {
      idle := kind == "idle", grpcweb := what.startsWith "grpcweb", deadline := (what.splitOn "/").getD 1 "" == "deadline",
      script := scr, returned := b1 (kvGet o "ret"), status := natOr (kvGet o "st") 0,
      gwct := b1 (kvGet o "gwct"), gwFramesOK := b1 (kvGet o "gw"), trailers := natOr (kvGet o "tr") 0,
      grpcStatus := (kvGet o "gs") >>= String.toNat?, bodyDone := b1 (kvGet o "done"), streams := natOr (kvGet o "streams") 0 }
    let br := if c.idle then s!"tcp-idle-{what}" else s!"tcp-raw-{c.status}"
    verdict (tcpViolations c) (tcpMismatches c) s!"OK nt b={br}"

def handle : Handler := fun i o =>
  match crashVerdict o with
  | some v => v
  | none =>
    match i with
    | "http" :: _ :: script :: _ => handleHttp script o
    | "ws" :: _ :: script :: _ => handleWs script o
    | ["tcp", kind, what, script, _] => handleTcp kind what script o
    | _ => handleCore i o

end GB.C17
