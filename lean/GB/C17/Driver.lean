import GB.Base.Proto
namespace GB.C17
open GB GB.Proto

/-- stub: replaced when the C17 slice is built -/
def handle : Handler := fun _ _ => "BAD c17 unimplemented"

end GB.C17
