import GB.C17.Model
/-
  C17 — the specification the fuzz correspondence is judged against.

  Property text: arbitrary bytes in paths, queries, headers, bodies, WebSocket frames and gRPC-Web
  frames never cause a panic or a stuck handler on any entry point; every such request completes
  with a well-formed response for its protocol; syntactically invalid JSON or parameters on
  transcoded routes are answered with a 4xx status rather than a 5xx.

  An `Outcome` is what the harness observed (status / content-type class / body well-formedness as
  decided by the harness' own decoders / close code / PANIC / HANG); `Case` is what is known about
  the request.  `violations` lists the clauses of the property the outcome breaks (empty = accepted);
  `mismatches` lists disagreements with the model that are NOT property violations.
-/
namespace GB.C17
open GB

/-- The four entry points of `WebBridge.ServeHTTP` and the dispatch on the request headers are the C19 slice's
    model (`GB.C19.Bridge`, `GB.C19.dispatch`: token lists, ASCII case-insensitive) — imported, not copied. -/
abbrev Entry := GB.C19.Bridge

inductive Res where
  | ok | panic | hang | reject
  deriving Repr, DecidableEq

inductive CtClass where
  | json | text | grpcweb | none | other
  deriving Repr, DecidableEq

inductive Tag where
  | none | badjson | badparam
  deriving Repr, DecidableEq

inductive BodyKind where
  | none | star | field
  deriving Repr, DecidableEq

/-- how the scripted target answers: `n` responses, then EOF (`code = ok`) or a status; `wait` = only after half-close -/
structure Script where
  n : Nat
  code : Code
  wait : Bool
  deriving Repr, DecidableEq

/-- One in-process request and what was observed. -/
structure HttpCase where
  res : Res
  entry : Entry
  tag : Tag
  firstJSONInvalid : Bool       -- non-empty body whose first JSON value does not parse (harness oracle: encoding/json)
  hasTimeout : Bool             -- the request carries a grpc-timeout header
  bodyUnreadable : Bool         -- the request body cannot be read at all (broken chunked framing): a transport error
  routerHit : Option Bool       -- none: no router called; some true: RouteGRPC; some false: RouteHTTP
  routeOK : Bool
  cs : Bool
  ss : Bool
  body : BodyKind
  streams : Nat                 -- calls opened to the target
  script : Script
  hijacked : Bool
  status : Nat
  ct : CtClass
  wellFormed : Bool             -- body well-formed for its content type (harness decoder)
  lateData : Bool               -- gRPC-Web: all frames parse, one trailer frame, but message frames follow it
  headersValid : Bool
  trailers : Nat                -- gRPC-Web trailer frames
  grpcStatus : Option Nat
  deriving Repr

def is4xx (s : Nat) : Bool := 400 ≤ s && s < 500
def is5xx (s : Nat) : Bool := 500 ≤ s && s < 600

/-- 5xx answers the script (or the client's own deadline, or an HTTP client-streaming attempt) explains. -/
def explained5xx (c : HttpCase) : Bool :=
  (c.entry == .http && c.routeOK && c.cs && c.status == 501) ||
  (c.hasTimeout && c.status == 504) ||
  (c.bodyUnreadable && c.status == 503) ||
  (c.streams ≥ 1 && c.script.code != .ok && httpStatusFromCode c.script.code == c.status &&
      (if c.ss then c.script.n == 0 else c.script.n ≤ 1)) ||
  (c.streams ≥ 1 && c.script.code == .ok && c.script.n == 0 && !c.ss && c.status == 503)

/-- The request is one the 4xx clause speaks about: it reached decoding on a transcoded route and is invalid. -/
def invalidOnTranscodedRoute (c : HttpCase) : Bool :=
  c.entry == .http && c.routeOK && !c.cs &&
  ((c.firstJSONInvalid && c.body != .none) || c.tag == .badparam || (c.tag == .badjson && c.body != .none))

/-- Clauses of the property an in-process outcome violates. -/
def httpViolations (c : HttpCase) : List String :=
  match c.res with
  | .reject => []
  | .panic => ["panic"]
  | .hang => ["hang"]
  | .ok =>
    (if !c.headersValid then ["malformed-response-header"] else []) ++
    (match c.entry with
     | .grpcweb =>
       (if c.status != 200 then ["grpcweb-status-not-200"] else []) ++
       (if c.ct != .grpcweb then ["grpcweb-content-type"] else []) ++
       (if !c.wellFormed then [if c.lateData then "grpcweb-data-after-trailer" else "grpcweb-frames-malformed"] else []) ++
       (if c.trailers != 1 then ["grpcweb-trailer-frames-not-exactly-one"] else []) ++
       (if c.grpcStatus.isNone then ["grpcweb-no-grpc-status"] else [])
     | .http =>
       (if !(200 ≤ c.status && c.status < 600) then ["http-status-out-of-range"] else []) ++
       (if !c.wellFormed then ["http-body-malformed"] else []) ++
       (if c.ct == .other || c.ct == .grpcweb then ["http-content-type"] else [])
     | .ws | .grpcws =>
       (if c.hijacked then
          (if c.status != 101 && !is4xx c.status then ["ws-handshake-status"] else [])
        else
          (if !(200 ≤ c.status && c.status < 600) then ["http-status-out-of-range"] else []) ++
          (if c.ct == .other || c.ct == .grpcweb then ["http-content-type"] else [])) ++
       (if !c.wellFormed then ["ws-handshake-body-malformed"] else [])) ++
    (if invalidOnTranscodedRoute c && !(is4xx c.status || (c.hasTimeout && c.status == 504)) then ["invalid-input-not-4xx"] else [])

/-- Disagreements with the model that are not property violations. -/
def httpMismatches (c : HttpCase) : List String :=
  match c.res with
  | .ok =>
    (match c.entry with
     | .http => if c.routerHit != some false || c.hijacked then ["dispatch"] else []
     | .grpcweb => if c.routerHit != some true || c.hijacked then ["dispatch"] else []
     | .ws => if c.routerHit != some false || (c.hijacked && !c.routeOK) || (c.routeOK && !c.hijacked && !is4xx c.status) then ["dispatch"] else []
     | .grpcws => if !c.hijacked || c.routerHit == some false then ["dispatch"] else []) ++
    (if (c.entry == .http || c.entry == .ws) && !c.hijacked && is5xx c.status && !explained5xx c then ["unexplained-5xx"] else [])
  | _ => []

/-! ### socket sessions -/

inductive CloseObs where
  | code (c : Nat)      -- a close frame with this code arrived
  | noStatus            -- a close frame with an empty payload arrived
  | none                -- the client left first / the handshake failed
  | timeout             -- the server kept the stream open until the client gave up
  | eof                 -- the connection ended without a close frame
  | proto               -- the client library rejected a frame the SERVER sent
  deriving Repr, DecidableEq

inductive End where
  | close | drop | wait
  deriving Repr, DecidableEq

structure WsCase where
  res : Res
  grpcws : Bool
  tag : Tag
  fin : End
  hasTimeout : Bool             -- a grpc-timeout was supplied (header or _metadata query)
  clientInterfered : Bool       -- the client itself sent close / control frames or raw wire bytes
  routeOK : Bool
  routerHit : Bool
  cs : Bool
  body : BodyKind
  script : Script
  handshake : Nat               -- HTTP status of the handshake answer (0: none)
  handshakeWF : Bool
  messages : Nat
  messagesWF : Bool             -- every message from the server is well-formed for the protocol
  close : CloseObs
  closeReasonUTF8 : Bool
  reasonCode : Option String    -- `X` of a close reason `code X: …`
  lastIsTrailer : Bool          -- gRPC-WebSocket: the last message is a trailer frame carrying grpc-status
  firstJSONInvalid : Option Bool  -- the first client message was text and (in)valid JSON
  deriving Repr

/-- The invalid first message must be answered as a client error: deterministic only when the request is
    read before anything is sent (not client-streaming) or the target stays silent until half-close. -/
def wsMustReportInvalid (c : WsCase) : Bool :=
  !c.grpcws && c.routeOK && c.fin == .wait && !c.clientInterfered && c.handshake == 101 && !c.hasTimeout &&
  ((c.firstJSONInvalid == some true && c.body != .none && (!c.cs || c.script.wait)) ||
   (c.tag == .badparam && !c.cs && c.body == .none))

def wsViolations (c : WsCase) : List String :=
  match c.res with
  | .reject => []
  | .panic => ["panic"]
  | .hang => ["hang"]
  | .ok =>
    if c.handshake != 101 then
      (if !c.handshakeWF then ["ws-handshake-body-malformed"] else []) ++
      (if !(200 ≤ c.handshake && c.handshake < 600) then ["ws-handshake-status"] else [])
    else
      (if !c.messagesWF then ["ws-message-malformed"] else []) ++
      (if !c.closeReasonUTF8 then ["ws-close-reason-not-utf8"] else []) ++
      (match c.close with
       | .proto => ["ws-frame-malformed"]
       | .code k => if validCloseCode k then [] else ["ws-close-code-invalid"]
       | _ => []) ++
      (if c.grpcws && c.fin == .wait && !c.clientInterfered && c.close == .code 1000 && !c.lastIsTrailer then ["grpcws-no-final-trailer"] else []) ++
      (if wsMustReportInvalid c &&
          !((c.close == .code 1001 && c.reasonCode == some "InvalidArgument") || c.close == .code 1007 || c.close == .code 1003)
       then ["invalid-input-not-client-error"] else [])

def wsMismatches (c : WsCase) : List String :=
  match c.res with
  | .ok =>
    (if c.handshake != 101 && !is4xx c.handshake then ["handshake-not-4xx"] else []) ++
    (if !c.grpcws && c.handshake == 101 && !(c.routerHit && c.routeOK) then ["dispatch"] else [])
  | _ => []


/-! ## raw TCP cases: request targets without a path, and the client that stops sending -/

/-- One `tcp` case: what the client on the real connection saw, and whether the handler returned while the client
    was still connected and silent. -/
structure TcpCase where
  idle : Bool              -- the client left the request body open and idle (else: a complete raw request)
  grpcweb : Bool           -- entry point gRPC-Web (else transcoded HTTP) — idle cases only
  deadline : Bool          -- the call ends by its own grpc-timeout (else the target ends it)
  script : Script
  returned : Bool          -- no handler invocation is running any more, within the bound, client still connected
  status : Nat             -- 0 = no parsable HTTP response arrived within the bound
  gwct : Bool              -- response content type application/grpc-web*
  gwFramesOK : Bool        -- body = well-formed gRPC-Web frames, the trailer frame last
  trailers : Nat
  grpcStatus : Option Nat
  bodyDone : Bool          -- the response body ended (terminating chunk / length / close) within the bound
  streams : Nat
  deriving Repr

/-- Clauses of the property a raw TCP case violates: the handler must RETURN in bounded time although the client
    sends nothing more, and the client must get a well-formed answer — gRPC-Web: 200 with exactly one trailer frame
    (last, with grpc-status); transcoded HTTP: a complete response with a status; a request target without a path
    is a client error, never 5xx. -/
def tcpViolations (c : TcpCase) : List String :=
  (if !c.returned then ["hang handler-holds-on-while-client-idle"] else []) ++
  (if c.status == 0 then ["no-response-within-bound"] else
    (if !(200 ≤ c.status && c.status < 600) then ["http-status-out-of-range"] else []) ++
    (if !c.bodyDone then ["response-body-not-terminated"] else []) ++
    (if c.gwct then
      (if c.status != 200 then ["grpcweb-status-not-200"] else []) ++
      (if !c.gwFramesOK then ["grpcweb-frames-malformed"] else []) ++
      (if c.trailers != 1 then ["grpcweb-trailer-frames-not-exactly-one"] else []) ++
      (if c.grpcStatus.isNone then ["grpcweb-no-grpc-status"] else [])
     else []) ++
    (if !c.idle && 500 ≤ c.status then ["pathless-target-5xx"] else []))

/-- Model disagreement that is not a violation: the idle gRPC-Web cases must be answered BY the gRPC-Web bridge, with
    the status the script / the deadline dictates. -/
def tcpMismatches (c : TcpCase) : List String :=
  if !c.idle || c.status == 0 then [] else
  let want : Nat := if c.deadline then 4 else c.script.code.toNat
  (if c.grpcweb && !c.gwct then ["grpcweb-entry-expected"] else []) ++
  (if c.grpcweb && c.gwct && c.grpcStatus != some want then [s!"grpc-status-expected-{want}"] else []) ++
  (if !c.grpcweb && c.status != httpStatusFromCode (if c.deadline then .deadlineExceeded else c.script.code) then
     [s!"http-status-expected-{httpStatusFromCode (if c.deadline then .deadlineExceeded else c.script.code)}"] else [])

end GB.C17
