import GB.C17.Model
import GB.C14.Model
/-
  C17, round 5 — more of the client-facing code with the partial operations explicit:

  * `RouteHTTP` as a WHOLE: choice of the path (`RawPath`, else `EscapedPath()`), the prefix test that keeps
    `path[1:]` legal for the EMPTY path (`CONNECT host:port` and absolute-form targets without a path reach the
    handler with `URL.Path == ""`), for `*` (`OPTIONS *`) and for a path without a leading slash; then the loop
    over ALL routes of the method list sharing ONE `matchComponents` buffer (`make([]string, len)`, re-sliced to
    `[:len(pathComponents)]` and overwritten by `copy` on every iteration).
  * `parseMetadataQuery` as a WHOLE loop with its two lazily created maps: `md` is nil until the first valid
    value, `md.Append` on a nil map would be an assignment to an entry in a nil map.
  * the WebSocket handlers' `socket.Session().Load(key)` followed by an unchecked type assertion: a value of the
    right dynamic type must have been stored before `ReadLoop` delivers the first message.
  * `staticPatternRoutingTable.iterate`: map lookup with `ok`, `e.Value.(targetPatternRoutes)`.
-/
namespace GB.C17
open GB

/-! ## RouteHTTP as a whole -/

/-- `path := r.URL.RawPath; if path == "" { path = r.URL.EscapedPath() }` -/
def requestPath (rawPath escapedPath : Bytes) : Bytes := if rawPath.isEmpty then escapedPath else rawPath

/-- `buf[:n]` on a slice of capacity `cap` (re-slicing up to the capacity is legal, beyond it panics) -/
def goReslice (cap n : Int) : Except Fault Unit :=
  if 0 ≤ n ∧ n ≤ cap then .ok () else .error .sliceBounds

/-- one iteration of the closure handed to `iterate`, with the shared buffer's capacity explicit -/
def routeIter (pathComponents : List Bytes) (last : Bytes) (bufCap : Int) (patternVerb : Bytes) : Except Fault RouteSlices := do
  let verbIdx := verbIndex last patternVerb
  if verbIdx == 0 then .ok .skipRoute
  else do
    goReslice bufCap pathComponents.length          -- matchComponents = matchComponents[:len(pathComponents)]
    -- copy(matchComponents, pathComponents): total
    routeSlicesAt pathComponents last verbIdx

/-- `RouteHTTP` up to the matcher calls: `none` = InvalidArgument (no leading slash), else what every route of
    the method's list hands to `MatchAndEscape`, in list order. -/
def routeAll (path : Bytes) (patternVerbs : List Bytes) : Except Fault (Option (List RouteSlices)) :=
  if !hasPrefix path [47] then .ok none
  else do
    let p1 ← goSliceFrom path 1
    let pathComponents := GB.C03.splitSlash p1
    let last ← goIndexL pathComponents ((pathComponents.length : Int) - 1)
    let bufCap : Int := pathComponents.length           -- make([]string, len(pathComponents))
    let rs ← patternVerbs.mapM (routeIter pathComponents last bufCap)
    .ok (some rs)

/-- what `RouteHTTP` does with `routeAll`'s result: InvalidArgument without a leading slash, else the closure's
    `MatchAndEscape` call per route in list order — first success wins, a malformed escape ends the search with
    InvalidArgument, `ErrNotMatch` (and a skipped route) goes on; NotFound when the list is exhausted. -/
def consumeSlices {ι : Type} : List RouteSlices → List (GB.C03.Route ι) → GB.C03.RouteResult ι
  | s :: ss, r :: rs =>
    match (match s with | .comps mc v => r.run mc v | _ => .notMatch) with
    | .ok params => .found r.id params
    | .malformed => .error .invalidArgument
    | .notMatch => consumeSlices ss rs
    | .fault => consumeSlices ss rs
  | _, _ => .error .notFound

def routeAllResult {ι : Type} (rs : Option (List RouteSlices)) (rts : List (GB.C03.Route ι)) : GB.C03.RouteResult ι :=
  match rs with
  | none => .error .invalidArgument
  | some l => consumeSlices l rts

/-! ## parseMetadataQuery as a whole (values and predicates: GB.C19) -/

/-- Go map that may be nil -/
abbrev NilMap (α : Type) := Option α

/-- `md.Append(k, v)`: an assignment `md[k] = append(md[k], v)` — faults on a nil map -/
def mdAppendGo (md : NilMap GB.C19.MD) (k v : Bytes) : Except Fault (NilMap GB.C19.MD) :=
  match md with
  | none => .error .nilMapWrite
  | some m => .ok (some (GB.C19.mdAppend1 m k v))

/-- `delete(m, k)`: a no-op on a nil map (never faults) -/
def mapDeleteGo (m : NilMap GB.C19.Values) (k : Bytes) : NilMap GB.C19.Values :=
  m.map (fun l => l.filter (fun e => e.1 != k))

structure MQSt where
  modified : NilMap GB.C19.Values
  md : NilMap GB.C19.MD

/-- what `parseMetadataQuery` leaves for binding: `modified` when it was created (`r.URL.RawQuery = modified.Encode()`),
    else the untouched original query -/
def MQSt.remaining (st : MQSt) (orig : GB.C19.Values) : GB.C19.Values := st.modified.getD orig

/-- the inner loop over the values of one key -/
def mdValsLoop (mdKey : Bytes) : List Bytes → NilMap GB.C19.MD → Except Fault (NilMap GB.C19.MD)
  | [], md => .ok md
  | v :: vs, md =>
    if !GB.C19.isValidMetadataValue v then mdValsLoop mdKey vs md
    else do
      let md1 : NilMap GB.C19.MD := match md with | none => some [] | some m => some m   -- if md == nil { md = make(metadata.MD) }
      let md2 ← mdAppendGo md1 mdKey v
      mdValsLoop mdKey vs md2

/-- the loop body of `parseMetadataQuery` for one `(k, vals)` -/
def mdQueryStep (param : Bytes) (original : GB.C19.Values) (st : MQSt) (e : Bytes × List Bytes) : Except Fault MQSt :=
  if !GB.C19.isMetaKey param e.1 then .ok st
  else do
    let modified : NilMap GB.C19.Values := match st.modified with | none => some original | some m => some m  -- maps.Clone(original)
    let modified := mapDeleteGo modified e.1
    let mk ← goSlice e.1 ((param.length : Int) + 1) ((e.1.length : Int) - 1)
    if !GB.C19.isValidMetadataKey mk then .ok { st with modified := modified }
    else do
      let md ← mdValsLoop mk e.2 st.md
      .ok { modified := modified, md := md }

def mdQueryLoop (param : Bytes) (original : GB.C19.Values) : List (Bytes × List Bytes) → MQSt → Except Fault MQSt
  | [], st => .ok st
  | e :: es, st => do
    let st' ← mdQueryStep param original st e
    mdQueryLoop param original es st'

def parseMetadataQueryGo (param0 : Bytes) (q : GB.C19.Values) : Except Fault MQSt :=
  mdQueryLoop (if param0.isEmpty then GB.C19.defaultParam else param0) q q ⟨none, none⟩

/-! ## `socket.Session().Load(key)` + unchecked type assertion in `OnMessage` -/

/-- dynamic type of what sits under `gwsStreamKey` -/
inductive Dyn where
  | absent | gwsStream | grpcWebSocketStream | other
  deriving Repr, DecidableEq

/-- `streamAny, _ := Load(key); stream := streamAny.(*T)` -/
def loadAssert (want : Dyn) (session : Dyn) : Except Fault Unit :=
  if session = want ∧ want ≠ .absent then .ok () else .error .typeAssertion

/-- events of one upgraded connection as the handler orders them -/
inductive SockEv where
  | store (d : Dyn)      -- socket.Session().Store(gwsStreamKey, stream)
  | message              -- ReadLoop delivers a frame: OnMessage runs
  deriving Repr, DecidableEq

def sockRun (want : Dyn) : Dyn → List SockEv → Except Fault Dyn
  | s, [] => .ok s
  | _, .store d :: es => sockRun want d es
  | s, .message :: es => do
    loadAssert want s
    sockRun want s es

/-- what `handleWebSocket` / `handleGRPCWebSocket` do: Store, THEN `go ReadLoop()` (any number of messages) -/
def handlerOrder (want : Dyn) (n : Nat) : List SockEv := .store want :: List.replicate n .message

/-! ## `staticPatternRoutingTable.iterate` -/

/-- `list, ok := st.routes[method]; if !ok { return }` then `e.Value.(targetPatternRoutes)` for every element;
    `vals` = dynamic type tags of the elements' values (`true` = targetPatternRoutes). -/
def iterateGo (lst : Option (List Bool)) : Except Fault Nat :=
  match lst with
  | none => .ok 0
  | some l => l.foldlM (fun n isTPR => if isTPR then .ok (n + 1) else .error .typeAssertion) 0

/-! ## `routing.parseRPCName` is C14's -/

def rpcNameAsC14 (r : Bytes × Bytes × Bool) : Option (Bytes × Bytes) := if r.2.2 then some (r.1, r.2.1) else none

/-! ## gRPC-WebSocket `gwsGRPCWebHandler.OnMessage` as a whole: the `!stream.receivedMD` branch in front (round 7)

`gwsOnMessage` (Model.lean) is the function body AFTER the `if !stream.receivedMD { b.readMD(stream, data); return }` test.
`readMD` performs no Go partial operation on client bytes (`slices.Concat(data, "\r\n")`, `textproto.ReadMIMEHeader` —
abstracted as `mdOk`, exactly as in GB.C08.onMessage), it never touches `stream.events` (no `close`), and it writes
`stream.closed = true` (fix D8b) or `stream.receivedMD = true`. -/

open GB.C08 (WS WSEv) in
/-- `gwsGRPCWebHandler.readMD`. -/
def gwsReadMD (mdOk : Bytes → Bool) (st : WS) (data : Bytes) : Except Fault (WS × List WSEv) :=
  -- mimeHeader, err := tp.ReadMIMEHeader(); if err != nil { stream.closed = true; sendTrailer(InvalidArgument); return }
  if !mdOk data then .ok ({ st with closed := true }, [WSEv.badMD])
  -- stream.receivedMD = true; stream.metadataCh <- metadata.MD(mimeHeader)
  else .ok ({ st with receivedMD := true }, [WSEv.md data])

open GB.C08 (WS WSEv) in
/-- The whole `OnMessage`: closed ⇒ ignored; no metadata yet ⇒ `readMD`; else the frame code of `gwsOnMessage`. -/
def gwsOnMessageFull (mdOk : Bytes → Bool) (st : WS) (data : Bytes) : Except Fault (WS × List WSEv) :=
  if st.closed then .ok (st, [])
  else if !st.receivedMD then gwsReadMD mdOk st data
  else gwsOnMessage st data

/-- A whole connection from ANY state (in particular the initial one, before the header message):
    `close(stream.events)` at most once. Same shape as `gwsSession`, over the whole `OnMessage`. -/
def gwsSessionFull (mdOk : Bytes → Bool) : GB.C08.WS → Bool → List Bytes → Except Fault (GB.C08.WS × Bool)
  | st, evClosed, [] => .ok (st, evClosed)
  | st, evClosed, d :: rest => do
    let (st', evs) ← gwsOnMessageFull mdOk st d
    if evs.contains GB.C08.WSEv.eof then
      if evClosed then .error .closeOfClosedChannel else gwsSessionFull mdOk st' true rest
    else gwsSessionFull mdOk st' evClosed rest

end GB.C17
