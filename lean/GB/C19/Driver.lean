import GB.Base.Proto
import GB.C19.Model
import GB.C19.Join
import GB.C19.Query
import GB.C07.Wire
import GB.C19.Wire
/-
  C19 driver.  Lines (hex `x…`; `m:` multimap = `xKEY:xV1,xV2` joined by `;` sorted by key):

    disp x<raw query> p:<header lines>  => seen=m:<r.Header at the bridge> q=m:<r.URL.Query() at the bridge>
                                           h=http|ws|grpcweb|grpcws st=<status> sp=x<sub-protocol>|- rq=m:<query at the router>|-
    mdq  x<param> x<raw query>          => q=m:<url.Values before> md=m:<metadata> q2=m:<url.Values after> mod=0|1
    tok  x<header name> x<token> l:<header lines>  => 0|1     (exported headerHasToken)
    ctype x<Content-Type value>                    => 0|1     (exported isGRPCWebContentType)
    wsmd direct|bridge x<raw query> p:<header lines>
                                        => seen=m:<r.Header at the handler> q=m:<r.URL.Query() at the handler> st=<status>
                                           md=m:<incoming metadata the forwarder was handed>|-

  `disp` cases are judged by `dispatchWire` (GB/C19/Wire.lean) on the RAW header block the harness wrote on the TCP
  connection (`wireBlock` rebuilds those bytes from the case line): model = spec on the wire, `C19_dispatch_wire`.
  `dispatch` is proved equal to the RFC 7230 / media-type specification (C19_ws, C19_grpcws,
  C19_grpcweb, C19_http), so a deviation of the implementation from `dispatch` is a violation of
  the specification — except in the band the specification leaves open (a media type that starts
  with `application/grpc-web` but is neither it nor a `+suffix` of it), where it is only a DIFF.
-/
namespace GB.C19
open GB GB.Proto

def dropPrefix? (s p : String) : Option String :=
  if s.startsWith p then some (s.drop p.length).toString else none

def parseHexList (s : String) : Option (List Bytes) :=
  if s.isEmpty then some [] else (s.splitOn ",").mapM parseHex

def parseEntry (s : String) : Option (Bytes × List Bytes) :=
  match s.splitOn ":" with
  | [k, vs] => do let k ← parseHex k; let vs ← parseHexList vs; pure (k, vs)
  | _ => none

def parseM (s : String) : Option MD :=
  (dropPrefix? s "m:").bind fun b => if b.isEmpty then some [] else (b.splitOn ";").mapM parseEntry

def bytesLt : Bytes → Bytes → Bool
  | [], [] => false
  | [], _ :: _ => true
  | _ :: _, [] => false
  | a :: as, b :: bs => if a < b then true else if b < a then false else bytesLt as bs

def insertBy {α} (lt : α → α → Bool) (e : α) : List α → List α
  | [] => [e]
  | x :: xs => if lt e x then e :: x :: xs else x :: insertBy lt e xs

def sortBy {α} (lt : α → α → Bool) (l : List α) : List α := l.foldl (fun acc e => insertBy lt e acc) []

def sortMD (md : MD) : MD := sortBy (fun a b => bytesLt a.1 b.1) md
/-- keys sorted and the values of every key sorted (multiset view) -/
def canonMD (md : MD) : MD := (sortMD md).map (fun e => (e.1, sortBy bytesLt e.2))

def showMD (md : MD) : String :=
  "m:" ++ ";".intercalate ((sortMD md).map fun e => toHex e.1 ++ ":" ++ ",".intercalate (e.2.map toHex))

def field (outs : List String) (name : String) : Option String :=
  outs.findSome? (fun s => dropPrefix? s (name ++ "="))

def showBridge : Bridge → String
  | .http => "http" | .ws => "ws" | .grpcweb => "grpcweb" | .grpcws => "grpcws"

def hdrsOf (seen : MD) : Hdrs :=
  { connection := mdLookup seen (ascii "Connection")
    upgrade := mdLookup seen (ascii "Upgrade")
    protocol := mdLookup seen (ascii "Sec-Websocket-Protocol")
    contentType := mdLookup seen (ascii "Content-Type") }

/-- the band the specification leaves open -/
def openBand (ct : Bytes) : Bool :=
  let mt := trimOWS (cutSemi ct)
  mt.length > grpcWebBase.length && equalFold (mt.take grpcWebBase.length) grpcWebBase &&
    (mt.drop grpcWebBase.length).head? != some 43

/-- classification of a Content-Type value from the property text: the media type is what precedes the first `;`
    (trimmed, ASCII case-insensitive); `must` = it is application/grpc-web or application/grpc-web+…,
    `mustnot` = it does not begin with application/grpc-web, `open` = in between (…-text, …x). -/
def ctClass (cts : List Bytes) : String :=
  match cts with
  | [] => "noct"
  | ct :: _ =>
    let mt := trimOWS (cutSemi ct)
    if !(mt.length ≥ grpcWebBase.length && equalFold (mt.take grpcWebBase.length) grpcWebBase) then "mustnot"
    else if mt.length == grpcWebBase.length || (mt.drop grpcWebBase.length).head? == some 43 then
      (if ct.length == mt.length then "must" else "must+tail")
    else "open"

/-- `_metadata[verif-sentinel]` — the harness appends `&<QueryEscape(sentinel)>=1` to the raw query of `disp` requests -/
def sentinelKey : Bytes := ascii "_metadata[verif-sentinel]"
def dispRawQuery (raw : Bytes) : Bytes :=
  raw ++ (if raw.isEmpty then [] else [38]) ++ escape sentinelKey ++ [61, 49]

/-- does the raw query exercise the irregular paths of `url.ParseQuery`? (branch histogram only) -/
def rawClass (raw : Bytes) : String :=
  let segs := (splitB 38 raw).filter (fun s => !s.isEmpty)
  if segs.length != (queryPairs raw).length then "rawskip"
  else if raw.contains 37 || raw.contains 43 then "rawesc" else "rawplain"

/-- the recorded `r.URL.Query()` must be the model's `url.ParseQuery` of the raw query that was sent -/
def queryTie (raw : Bytes) (q : MD) : Option String :=
  if sortMD q != sortMD (urlQuery raw) then some s!"DIFF model=q:{showMD (urlQuery raw)}" else none

def parseLinePair (s : String) : Option (Bytes × Bytes) :=
  match s.splitOn "=" with
  | [k, v] => do let k ← parseHex k; let v ← parseHex v; pure (k, v)
  | _ => none

def parseLines (s : String) : Option (List (Bytes × Bytes)) :=
  (dropPrefix? s "p:").bind fun b => if b.isEmpty then some [] else (b.splitOn ";").mapM parseLinePair

/-- the header block exactly as `fake.RawConn.WriteRequest` puts it on the wire: a Host line, every given line as
    `name: value CRLF` verbatim, a Content-Length line when there is a body, the blank line -/
def wireBlock (lines : List (Bytes × Bytes)) (post : Bool) (extra : List (Bytes × Bytes) := []) : Bytes :=
  ascii "Host: verif.test\r\n" ++
  (extra ++ lines).flatMap (fun l => l.1 ++ [58, 32] ++ l.2 ++ [13, 10]) ++
  (if post then ascii "Content-Length: 5\r\n" else []) ++ [13, 10]

/-- the recorded `r.Header` must be what the model of net/textproto + net/http's server makes of the bytes sent -/
def headerTie (block : Bytes) (seen : MD) : Option String :=
  match GB.C07.serverHeader block with
  | none => some "DIFF model=rejected (net/http answers 400 to this header block)"
  | some h => if sortMD seen != sortMD h then some s!"DIFF model=seen:{showMD h}" else none

def targetSafe (raw : Bytes) : Bool := raw.all (fun c => c > 32 && c != 127)

def handle : Handler
  | ["disp", meth, rqIn, linesS], outs =>
    let block := (parseLines linesS).map (fun ls => wireBlock ls (meth == "POST"))
    if outs.head? == some "rejected" then
      (match block, parseHex rqIn with
       | some b, some raw =>
         if (GB.C07.serverHeader b).isSome && targetSafe raw then "DIFF model=accepted (the wire model lets this header block through)"
         else "OK nt b=disp-rejected-by-net/http"
       | _, _ => "BAD disp lines") else
    let htie := match block, (field outs "seen").bind parseM with
      | some b, some seen => headerTie b seen
      | _, _ => some "BAD disp lines"
    if let some d := htie then d else
    let qtie := match parseHex rqIn, (field outs "q").bind parseM with
      | some raw, some q => queryTie (dispRawQuery raw) q
      | _, _ => some "BAD disp raw query"
    if let some d := qtie then d else
    match field outs "seen", field outs "q", field outs "h", field outs "st", field outs "sp", field outs "rq" with
    | some seenS, some qS, some h, some st, some sp, some rq =>
      match parseM seenS, parseM qS with
      | some seen, some q =>
        let hd := hdrsOf seen
        -- judged by the WIRE-level specification on the raw header block that was sent (`dispatchWire`, proved equal to
        -- the model `dispatchRaw` = serverHeader + dispatch: C19_dispatch_wire); `headerTie` above has already
        -- established that the server layer model accepts the block, so the fallback is unreachable
        let m := match block.bind dispatchWire with
          | some b => b
          | none => dispatch hd
        let ms := showBridge m
        let upg := m == .ws || m == .grpcws
        if h != ms then
          if openBand (first hd.contentType) && !upg && (h == "http" || h == "grpcweb") then s!"DIFF model={ms}"
          else s!"VIOL dispatched to {h}, header semantics say {ms}"
        else if st == "101" && !upg then s!"VIOL 101 switching protocols from the {h} handler"
        else if sp == toHex tokGrpcWS && m != .grpcws then s!"VIOL grpc-websockets negotiated by the {h} handler"
        else if st == "101" && m == .grpcws && sp != toHex tokGrpcWS then s!"DIFF model=sp:{toHex tokGrpcWS}"
        else
          -- what the router (and so the message binding) sees of the query
          let expQ : Option MD := match m with
            | .ws => some (parseMetadataQuery [] q).query
            | .http => some q
            | _ => none
          match expQ with
          | some eq =>
            (match (if rq == "-" then none else parseM rq) with
             | none => s!"DIFF model=rq:{showMD eq}"
             | some rqm =>
               if m == .ws && rqm.any (fun e => isMetaKey defaultParam e.1) then "VIOL metadata entries left in the parameters bound to the message"
               else if canonMD rqm != canonMD eq && sortMD rqm != sortMD eq then s!"DIFF model=rq:{showMD eq}"
               else s!"OK nt b=disp-{ms}-{st}-ct:{ctClass hd.contentType}")
          | none => if rq != "-" then s!"DIFF model=rq:-" else s!"OK nt b=disp-{ms}-{st}-ct:{ctClass hd.contentType}"
      | _, _ => "BAD disp md"
    | _, _, _, _, _, _ => "BAD disp fields"
  | ["tok", _name, tokS, linesS], [out] =>
    match parseHex tokS, (dropPrefix? linesS "l:").bind parseHexList with
    | some token, some lines =>
      let m := headerHasToken lines token
      let high := lines.any (fun l => l.any (fun b => b ≥ 128))
      if out != (if m then "1" else "0") then
        s!"VIOL headerHasToken={out}, RFC 7230 token-list semantics (ASCII case only) say {if m then 1 else 0}"
      else s!"OK nt b=tok-{if m then "has" else "hasnot"}-{if high then "nonascii" else "ascii"}"
    | _, _ => "BAD tok line"
  | ["ctype", ctS], [out] =>
    match parseHex ctS with
    | some ct =>
      let m := isGRPCWebContentType ct
      let cls := ctClass [ct]
      if out != (if m then "1" else "0") then
        (if cls == "open" then s!"DIFF model={if m then 1 else 0}"
         else s!"VIOL isGRPCWebContentType={out}, the media type says {if m then 1 else 0}")
      else s!"OK nt b=ctype-{cls}-{if ct.any (fun b => b ≥ 128) then "nonascii" else "ascii"}"
    | none => "BAD ctype line"
  | ["wsmd", via, rqIn, _lines], outs =>
    if outs.head? == some "rejected" then "OK b=wsmd-rejected-by-net/http" else
    let qtie := match parseHex rqIn, (field outs "q").bind parseM with
      | some raw, some q => queryTie raw q
      | _, _ => some "BAD wsmd raw query"
    if let some d := qtie then d else
    match field outs "seen", field outs "q", field outs "st", field outs "md" with
    | some seenS, some qS, some st, some mdS =>
      match parseM seenS, parseM qS with
      | some seen, some q =>
        if st != "101" then
          (if mdS == "-" then s!"OK b=wsmd-{via}-no-upgrade-{st}" else "DIFF model=md:-")
        else match (if mdS == "-" then none else parseM mdS) with
        | none => "DIFF model=forwarder-called"
        | some md =>
          let m := wsIncoming [] q seen
          let qmd := (parseMetadataQuery [] q).md
          -- a query entry lost: the specification's own clause, checked directly
          let lost := qmd.any (fun e => e.2.any (fun v => !(mdLookup md e.1).contains v))
          -- two query keys that differ only in case: their relative order is Go map order
          let ks := (q.filter (fun e => isMetaKey defaultParam e.1)).map (fun e => lower (mdKeyOf defaultParam e.1))
          let collide := ks.any (fun k => (ks.filter (· == k)).length > 1)
          let hdrCollide := qmd.any (fun e => !(mdLookup (GB.C07.headersToMD seen) e.1).isEmpty)
          if lost then s!"VIOL query metadata entry lost on the way to the forwarder model={showMD m}"
          else if canonMD md != canonMD m then s!"VIOL forwarder metadata is not Join(query metadata, headers) model={showMD m}"
          else if !collide && sortMD md != sortMD m then s!"DIFF model={showMD m}"
          else s!"OK{if qmd.isEmpty then "" else " nt"} b=wsmd-{via}-{if qmd.isEmpty then "noquerymd" else if hdrCollide then "collides-with-header" else "disjoint"}"
      | _, _ => "BAD wsmd md"
    | _, _, _, _ => "BAD wsmd fields"
  | ["mdq", ph, rqIn], outs =>
    match parseHex rqIn, parseHex ph, field outs "q", field outs "md", field outs "q2", field outs "mod" with
    | some raw, some param, some qS, some mdS, some q2S, some mod =>
      match parseM qS, parseM mdS, parseM q2S with
      | some q, some md, some q2 =>
        let r := parseMetadataQuery param q
        let mmod := if r.modified then "1" else "0"
        if canonMD md != canonMD r.md then s!"VIOL metadata is not the valid _metadata[k]=v entries model={showMD r.md}"
        else if sortMD q2 != sortMD r.query then s!"VIOL remaining parameters are not the non-metadata entries model={showMD r.query}"
        else if let some d := queryTie raw q then d
        else if mod != mmod then s!"DIFF model=mod:{mmod}"
        else
          -- order of values under one key is map-order dependent only when two query keys collide
          let p := if param.isEmpty then defaultParam else param
          let ks := (q.filter (fun e => isMetaKey p e.1)).map (fun e => lower (mdKeyOf p e.1))
          let collide := ks.any (fun k => (ks.filter (· == k)).length > 1)
          if !collide && sortMD md != sortMD r.md then s!"DIFF model={showMD r.md}"
          else s!"OK{if r.modified then " nt" else ""} b=mdq-{if r.md.isEmpty then "nomd" else "md"}-{if collide then "collide" else "plain"}-{rawClass raw}"
      | _, _, _ => "BAD mdq md"
    | _, _, _, _, _, _ => "BAD mdq fields"
  | _, _ => "BAD c19 line"

end GB.C19
