import GB.Base.Proto
namespace GB.C19
open GB GB.Proto

/-- stub: replaced when the C19 slice is built -/
def handle : Handler := fun _ _ => "BAD c19 unimplemented"

end GB.C19
