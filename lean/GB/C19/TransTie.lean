import GB.Generated.Trans
import GB.Base.TransLemmas
import GB.C19.Model
/-
  C19 — SOURCE-TO-LEAN TRANSLATOR TIE.  `GB.Generated.Trans.*` are regenerated from the Go sources on every
  run by extract/trans; the theorems below prove, for ALL inputs, that each regenerated definition equals
  the hand-written model function of `GB.C19.Model` that the property theorems are about.  A change of
  one of these Go functions changes the generated definition and breaks the theorem.
  (Total form: Go panics are not modelled — see docs/notes/TRANS.md.)
-/
set_option linter.unusedSimpArgs false
set_option linter.unusedVariables false

open GB GB.Trans

theorem GB.C19.TransTie.zip_any_lower (s t : Bytes) (hl : s.length = t.length) :
    (!(s.zip t).any (fun p => GB.C19.lowerB p.1 != GB.C19.lowerB p.2)) = (GB.C19.lower s == GB.C19.lower t) := by
  induction s generalizing t with
  | nil => cases t with
    | nil => rfl
    | cons y ys => simp at hl
  | cons x xs ih => cases t with
    | nil => simp at hl
    | cons y ys =>
      have := ih ys (by simpa using hl)
      simp only [GB.C19.lower] at this ⊢
      by_cases hxy : GB.C19.lowerB x = GB.C19.lowerB y
      · simp [hxy]; simpa using this
      · have h1 : (GB.C19.lowerB x == GB.C19.lowerB y) = false := by simp [hxy]
        simp [bne, h1]

theorem GB.C19.TransTie.splitByte_comma (l : Bytes) : splitByte 44 l = GB.C19.splitComma l := by
  induction l with
  | nil => rfl
  | cons c r ih => simp only [splitByte, GB.C19.splitComma, ih]; rfl

theorem GB.C19.TransTie.trimLeftSet_ows (l : Bytes) : trimLeftSet [32, 9] l = GB.C19.trimLeft l := by
  induction l with
  | nil => rfl
  | cons c r ih =>
    simp [trimLeftSet, GB.C19.trimLeft, GB.C19.isOWS, ih]

theorem GB.C19.TransTie.trimSet_ows (e : Bytes) : trimSet e [32, 9] = GB.C19.trimOWS e := by
  simp [trimSet, GB.C19.trimOWS, trimLeftSet_ows]

open GB.C19.TransTie

/-- internal/ascii `lower` -/
theorem C19_trans_lower : ∀ b : UInt8, GB.Generated.Trans.lower b = GB.C19.lowerB b := by
  intro b
  simp [GB.Generated.Trans.lower, GB.C19.lowerB]

/-- internal/ascii `EqualFold` (the length test and the index loop over both strings) -/
theorem C19_trans_EqualFold : ∀ s t : GB.Bytes, GB.Generated.Trans.EqualFold s t = GB.C19.equalFold s t := by
  intro s t
  unfold GB.Generated.Trans.EqualFold GB.C19.equalFold
  by_cases hl : s.length = t.length
  · have hlen : len s = len t := (len_eq_iff s t).mpr hl
    rw [loop_range_idx2 s t hl () _
      (fun a b _ => if (GB.Generated.Trans.lower a != GB.Generated.Trans.lower b) then Ctl.ret false else Ctl.next ())
      (by intro i st; rfl)]
    rw [loop_unit_any (ρ := Bool) (s.zip t) (fun p => GB.Generated.Trans.lower p.1 != GB.Generated.Trans.lower p.2) false]
    have hz := zip_any_lower s t hl
    simp only [C19_trans_lower] at *
    simp only [hlen, bne_self_eq_false, Bool.false_eq_true, if_false, hl, beq_self_eq_true, Bool.true_and]
    rw [← hz]
    cases (s.zip t).any (fun p => GB.C19.lowerB p.1 != GB.C19.lowerB p.2) <;> rfl
  · have hlen : len s ≠ len t := fun h => hl ((len_eq_iff s t).mp h)
    simp [hlen, hl]

/-- webbridge `isValidMetadataKey` -/
theorem C19_trans_isValidMetadataKey : ∀ k : GB.Bytes, GB.Generated.Trans.isValidMetadataKey k = GB.C19.isValidMetadataKey k := by
  intro k
  unfold GB.Generated.Trans.isValidMetadataKey GB.C19.isValidMetadataKey
  rw [loop_range_idx k () _
    (fun ch _ => if !GB.C19.isValidKeyByte ch then Ctl.ret false else Ctl.next ())
    (by intro i st; simp [GB.C19.isValidKeyByte, ge_iff_le, and_assoc])]
  rw [loop_unit_any (ρ := Bool) k (fun ch => !GB.C19.isValidKeyByte ch) false]
  rw [List.all_eq_not_any_not]
  cases k.any (fun ch => !GB.C19.isValidKeyByte ch) <;> rfl

/-- webbridge `isValidMetadataValue` -/
theorem C19_trans_isValidMetadataValue : ∀ v : GB.Bytes, GB.Generated.Trans.isValidMetadataValue v = GB.C19.isValidMetadataValue v := by
  intro v
  unfold GB.Generated.Trans.isValidMetadataValue GB.C19.isValidMetadataValue
  rw [loop_range_idx v () _
    (fun ch _ => if (decide (ch < 32) || decide (ch > 126)) then Ctl.ret false else Ctl.next ())
    (by intro i st; rfl)]
  rw [loop_unit_any (ρ := Bool) v (fun ch => (decide (ch < 32) || decide (ch > 126))) false]
  rw [List.all_eq_not_any_not]
  simp only [Bool.not_not]
  cases v.any (fun ch => (decide (ch < 32) || decide (ch > 126))) <;> rfl

/-- bridge.go `isGRPCWebContentType` -/
theorem C19_trans_isGRPCWebContentType : ∀ ct : GB.Bytes, GB.Generated.Trans.isGRPCWebContentType ct = GB.C19.isGRPCWebContentType ct := by
  intro ct
  unfold GB.Generated.Trans.isGRPCWebContentType GB.C19.isGRPCWebContentType
  rw [C19_trans_EqualFold]
  have h20 : ((20 : Int) ≤ (ct.length : Int)) ↔ (20 ≤ ct.length) := by omega
  simp [slice, len, GB.C19.grpcWebBase, h20]

/-- bridge.go `headerHasToken`, the header `h` modelled by its `Values` function (library: `strings.Split`
    by a one-byte separator = `splitComma`, `strings.Trim(e, " \t")` = `trimOWS`) -/
theorem C19_trans_headerHasToken : ∀ (h : GB.Bytes → List GB.Bytes) (name token : GB.Bytes),
    GB.Generated.Trans.headerHasToken h name token = GB.C19.headerHasToken (h name) token := by
  intro h name token
  unfold GB.Generated.Trans.headerHasToken GB.C19.headerHasToken
  rw [loop_congr (h name) () _
    (fun line _ => if (GB.C19.splitComma line).any (fun e => GB.C19.equalFold (GB.C19.trimOWS e) token) then Ctl.ret true else Ctl.next ())
    (by
      intro line _ st
      rw [loop_unit_any (ρ := Bool) (splitByte 44 line) (fun elem => GB.Generated.Trans.EqualFold (trimSet elem [32, 9]) token) true]
      simp only [splitByte_comma, trimSet_ows, C19_trans_EqualFold]
      cases (GB.C19.splitComma line).any (fun e => GB.C19.equalFold (GB.C19.trimOWS e) token) <;> rfl)]
  rw [loop_unit_any (ρ := Bool) (h name) (fun line => (GB.C19.splitComma line).any (fun e => GB.C19.equalFold (GB.C19.trimOWS e) token)) true]
  cases (h name).any (fun line => (GB.C19.splitComma line).any (fun e => GB.C19.equalFold (GB.C19.trimOWS e) token)) <;> rfl

/-- the theorems are not vacuous: the regenerated definitions compute -/
example : GB.Generated.Trans.isGRPCWebContentType [65,80,80,76,73,67,65,84,73,79,78,47,103,114,112,99,45,119,101,98,43] = true := by decide
example : GB.Generated.Trans.isValidMetadataKey [97, 32] = false := by decide

/-! ## Wave 4: `parseMetadataQuery` — the key-shape test `param[` … `]` and the key slice (fragments)

`mdQuery_keyTest k param` = the condition of `if !(strings.HasPrefix(k, param+"[") && strings.HasSuffix(k, "]")) { continue }`
(webbridge.go:155, IF-HEAD fragment — the body `continue`s the map loop and is not part of it);
`mdQuery_mdKey k param` = `mdKey := k[len(param)+1 : len(k)-1]` (webbridge.go:167). -/

theorem GB.C19.TransTie.hasSuffix_eq (s p : Bytes) : GB.Trans.hasSuffix s p = GB.C19.hasSuffix s p := by
  unfold GB.Trans.hasSuffix GB.C19.hasSuffix
  rw [Bool.and_comm]

/-- the regenerated skip condition is the negation of the model's key-shape predicate -/
theorem C19_trans_mdQuery_keyTest : ∀ k param : GB.Bytes,
    GB.Generated.Trans.mdQuery_keyTest k param = !GB.C19.isMetaKey param k := by
  intro k param
  unfold GB.Generated.Trans.mdQuery_keyTest GB.C19.isMetaKey
  rw [hasSuffix_eq]
  rfl

/-- the regenerated slice arithmetic is the model's `mdKeyOf` (for every key, bracketed or not: both clamp alike) -/
theorem C19_trans_mdQuery_mdKey : ∀ k param : GB.Bytes,
    GB.Generated.Trans.mdQuery_mdKey k param = GB.C19.mdKeyOf param k := by
  intro k param
  unfold GB.Generated.Trans.mdQuery_mdKey GB.C19.mdKeyOf GB.Trans.slice GB.Trans.len
  have h1 : (Int.ofNat param.length + 1).toNat = param.length + 1 := by simp only [Int.ofNat_eq_natCast]; omega
  have h2 : (Int.ofNat k.length - 1).toNat = k.length - 1 := by simp only [Int.ofNat_eq_natCast]; omega
  rw [h1, h2, List.drop_take]

/-- the loop body of `parseMetadataQuery` for one `(k, vals)` of the query map, over the REGENERATED key test, key
    slice and key/value validity predicates -/
theorem C19_trans_mdStep : ∀ (param : GB.Bytes) (md : GB.C19.MD) (e : GB.Bytes × List GB.Bytes),
    GB.C19.mdStep param md e =
      if GB.Generated.Trans.mdQuery_keyTest e.1 param then md
      else if !GB.Generated.Trans.isValidMetadataKey (GB.Generated.Trans.mdQuery_mdKey e.1 param) then md
      else (e.2.filter GB.Generated.Trans.isValidMetadataValue).foldl
        (fun m v => GB.C19.mdAppend1 m (GB.Generated.Trans.mdQuery_mdKey e.1 param) v) md := by
  intro param md e
  have hv : GB.Generated.Trans.isValidMetadataValue = GB.C19.isValidMetadataValue := funext C19_trans_isValidMetadataValue
  rw [C19_trans_mdQuery_keyTest, C19_trans_mdQuery_mdKey, C19_trans_isValidMetadataKey, hv]
  rfl

/-- a key that passes the test has the shape `param ++ "[" ++ mdKey ++ "]"` with `mdKey` the regenerated slice -/
theorem C19_trans_mdQuery_shape : ∀ k param : GB.Bytes,
    GB.Generated.Trans.mdQuery_keyTest k param = false →
    k = param ++ [91] ++ GB.Generated.Trans.mdQuery_mdKey k param ++ [93] := by
  intro k param h
  rw [C19_trans_mdQuery_keyTest] at h
  rw [C19_trans_mdQuery_mdKey]
  have h : GB.C19.isMetaKey param k = true := by simpa using h
  unfold GB.C19.isMetaKey GB.C19.hasPrefix GB.C19.hasSuffix at h
  simp only [Bool.and_eq_true, beq_iff_eq, decide_eq_true_eq, List.length_cons, List.length_nil] at h
  obtain ⟨h1, h2, h3⟩ := h
  have hl : (k.take (param ++ [91]).length).length = (param ++ [91]).length := by rw [h1]
  simp only [List.length_take, List.length_append, List.length_cons, List.length_nil] at hl
  have hlen : param.length + 2 ≤ k.length := by
    by_cases hk : k.length = param.length + 1
    · exfalso
      have e1 : k = param ++ [91] := by
        have := h1
        rw [List.take_of_length_le (by simp; omega)] at this
        exact this
      rw [e1] at h2
      simp at h2
    · omega
  simp only [List.length_append, List.length_cons, List.length_nil] at h1
  unfold GB.C19.mdKeyOf
  have e1 : k = k.take (param.length + 1) ++ k.drop (param.length + 1) := (List.take_append_drop _ _).symm
  have e2 : k.drop (param.length + 1) =
      (k.drop (param.length + 1)).take (k.length - 1 - (param.length + 1)) ++
      (k.drop (param.length + 1)).drop (k.length - 1 - (param.length + 1)) := (List.take_append_drop _ _).symm
  have e3 : (k.drop (param.length + 1)).drop (k.length - 1 - (param.length + 1)) = [93] := by
    rw [List.drop_drop]
    have : param.length + 1 + (k.length - 1 - (param.length + 1)) = k.length - 1 := by omega
    first
      | (rw [this]; exact h2)
      | (have t2 : (k.length - 1 - (param.length + 1)) + (param.length + 1) = k.length - 1 := by omega
         rw [t2]; exact h2)
  rw [e3] at e2
  calc k = k.take (param.length + 1) ++ k.drop (param.length + 1) := e1
    _ = (param ++ [91]) ++ ((k.drop (param.length + 1)).take (k.length - 1 - (param.length + 1)) ++ [93]) := by rw [h1, ← e2]
    _ = _ := by simp [List.append_assoc]

example : GB.Generated.Trans.mdQuery_keyTest [109, 91, 120, 93] [109] = false := by decide   -- "m[x]", param "m"
example : GB.Generated.Trans.mdQuery_keyTest [109, 91, 120] [109] = true := by decide        -- "m[x"
example : GB.Generated.Trans.mdQuery_mdKey [109, 91, 120, 93] [109] = [120] := by decide
