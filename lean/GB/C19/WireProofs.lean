import GB.C19.Wire
import GB.C19.Proofs
import GB.C07.WireProofs
/-
  C19 — lemmas for the wire-level dispatch theorem.
-/
set_option linter.unusedSimpArgs false
set_option linter.unusedVariables false
namespace GB.C19
open GB

theorem wireLinesOf_eq (K : Bytes) (ps : List (Bytes × Bytes)) : wireLinesOf K ps = GB.C07.wireValues K ps := rfl

theorem lookup_filter_ne (m : MD) (K X : Bytes) (h : K ≠ X) :
    GB.C07.MD.lookup (m.filter (fun e => !(e.1 == X))) K = GB.C07.MD.lookup m K := by
  induction m with
  | nil => rfl
  | cons e rest ih =>
    obtain ⟨k0, v0⟩ := e
    by_cases hk : k0 = X
    · subst hk
      have h1 : (k0 == K) = false := by simp; exact fun hh => h hh.symm
      simp [List.filter_cons, GB.C07.MD.lookup, h1, ih]
    · have h0 : (k0 == X) = false := by simp [hk]
      simp only [List.filter_cons, h0, Bool.not_false, ↓reduceIte, GB.C07.MD.lookup, ih]

theorem headerHasToken_wire (K : Bytes) (ps : List (Bytes × Bytes)) (t : Bytes) :
    headerHasToken (wireLinesOf K ps) t = wireHasToken K ps t := by
  unfold headerHasToken wireHasToken wireElems
  simp [List.any_flatMap, List.any_map, Function.comp_def]

theorem hdrs_of_serverPairs (ps : List (Bytes × Bytes)) :
    hdrsOfMap ((GB.C07.mimeHeader ps).filter (fun e => !(e.1 == GB.C07.hostKey))) =
      { connection := wireLinesOf kConnection ps, upgrade := wireLinesOf kUpgrade ps,
        protocol := wireLinesOf kProtocol ps, contentType := wireLinesOf kContentType ps } := by
  unfold hdrsOfMap
  rw [lookup_filter_ne _ _ _ (by decide : kConnection ≠ GB.C07.hostKey),
      lookup_filter_ne _ _ _ (by decide : kUpgrade ≠ GB.C07.hostKey),
      lookup_filter_ne _ _ _ (by decide : kProtocol ≠ GB.C07.hostKey),
      lookup_filter_ne _ _ _ (by decide : kContentType ≠ GB.C07.hostKey)]
  simp only [GB.C07.lookup_mimeHeader, wireLinesOf_eq]

theorem dispatch_wire_pairs (ps : List (Bytes × Bytes)) :
    dispatch (hdrsOfMap ((GB.C07.mimeHeader ps).filter (fun e => !(e.1 == GB.C07.hostKey)))) = wireDispatch ps := by
  rw [hdrs_of_serverPairs]
  unfold dispatch wireDispatch
  simp only [headerHasToken_wire]

/-! ### header-name case -/

set_option maxRecDepth 100000 in
theorem canon_byte_lower_all : ∀ n, n < 256 →
    GB.C07.validTok (GB.C07.lowerB (UInt8.ofNat n)) = GB.C07.validTok (UInt8.ofNat n) ∧
    GB.C07.upperB (GB.C07.lowerB (UInt8.ofNat n)) = GB.C07.upperB (UInt8.ofNat n) ∧
    GB.C07.lowerB (GB.C07.lowerB (UInt8.ofNat n)) = GB.C07.lowerB (UInt8.ofNat n) := by decide

theorem canon_byte_lower (c : UInt8) :
    GB.C07.validTok (GB.C07.lowerB c) = GB.C07.validTok c ∧
    GB.C07.upperB (GB.C07.lowerB c) = GB.C07.upperB c ∧
    GB.C07.lowerB (GB.C07.lowerB c) = GB.C07.lowerB c := by
  have := canon_byte_lower_all c.toNat c.toNat_lt
  simpa using this

theorem canonLoop_lower (up : Bool) (k : Bytes) : GB.C07.canonLoop up (k.map GB.C07.lowerB) = GB.C07.canonLoop up k := by
  induction k generalizing up with
  | nil => rfl
  | cons c r ih =>
    obtain ⟨_, h2, h3⟩ := canon_byte_lower c
    simp only [List.map_cons, GB.C07.canonLoop, h2, h3, ih]

theorem allTok_lower (k : Bytes) : (k.map GB.C07.lowerB).all GB.C07.validTok = k.all GB.C07.validTok := by
  induction k with
  | nil => rfl
  | cons c r ih => simp only [List.map_cons, List.all_cons, (canon_byte_lower c).1, ih]

/-- `CanonicalMIMEHeaderKey` does not see the ASCII case of a (token) name -/
theorem canonKey_lower (k : Bytes) (h : k.all GB.C07.validTok = true) :
    GB.C07.canonKey (k.map GB.C07.lowerB) = GB.C07.canonKey k := by
  unfold GB.C07.canonKey
  rw [allTok_lower, h]
  simp only [↓reduceIte]
  exact canonLoop_lower true k

theorem canonKey_caseEq (k k' : Bytes) (h : k.all GB.C07.validTok = true)
    (he : k.map GB.C07.lowerB = k'.map GB.C07.lowerB) : GB.C07.canonKey k = GB.C07.canonKey k' := by
  have h' : k'.all GB.C07.validTok = true := by rw [← allTok_lower, ← he, allTok_lower]; exact h
  rw [← canonKey_lower k h, ← canonKey_lower k' h', he]

/-- the relation "same lines, names possibly spelled differently but with the same canonical form" -/
def SameLines : List (Bytes × Bytes) → List (Bytes × Bytes) → Prop
  | [], [] => True
  | p :: ps, q :: qs => (GB.C07.canonKey p.1 = GB.C07.canonKey q.1 ∧ p.2 = q.2) ∧ SameLines ps qs
  | _, _ => False

theorem wireLinesOf_same (K : Bytes) (ps ps' : List (Bytes × Bytes)) (h : SameLines ps ps') :
    wireLinesOf K ps = wireLinesOf K ps' := by
  induction ps generalizing ps' with
  | nil => cases ps' with
    | nil => rfl
    | cons q qs => simp [SameLines] at h
  | cons p ps ih => cases ps' with
    | nil => simp [SameLines] at h
    | cons q qs =>
      simp only [SameLines] at h
      have := ih qs h.2
      simp only [wireLinesOf, List.filterMap_cons, h.1.1, h.1.2] at this ⊢
      rw [this]

theorem wireDispatch_same (ps ps' : List (Bytes × Bytes)) (h : SameLines ps ps') : wireDispatch ps = wireDispatch ps' := by
  unfold wireDispatch wireHasToken wireElems
  simp only [wireLinesOf_same _ ps ps' h]

/-! ### names with a space -/

theorem serverPairs_names_tok (hs : Bytes) (ps : List (Bytes × Bytes)) (h : GB.C07.serverPairs hs = some ps) :
    ∀ p ∈ ps, p.1.all GB.C07.validTok = true := by
  unfold GB.C07.serverPairs at h
  split at h
  · simp at h
  · split at h
    · rename_i hc
      simp only [Option.some.injEq] at h
      subst h
      simp only [Bool.and_eq_true, List.all_eq_true] at hc
      intro p hp
      simpa using hc.1 p hp
    · simp at h

end GB.C19
