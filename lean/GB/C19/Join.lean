import GB.C19.Proofs
import GB.C07.Proofs
/-
  C19 — the metadata-query clause END TO END: what the transcoded WebSocket entry hands the forwarder.
  `TranscodedWebSocketBridge.ServeHTTP`: `md := parseMetadataQuery(r, param)` …
  `metadata.NewIncomingContext(ctx, metadata.Join(md, headersToMD(r.Header)))`.
  `join` / `headersToMD` are the C07 model's (GB/C07/Model.lean); `parseMetadataQuery` is C19's.
-/
set_option linter.unusedSimpArgs false
set_option linter.unusedVariables false
namespace GB.C19
open GB

/-- the metadata attached to the incoming context on the WebSocket entry -/
def wsIncoming (param : Bytes) (q : Values) (hdr : MD) : MD :=
  GB.C07.join (parseMetadataQuery param q).md (GB.C07.headersToMD hdr)

/-- `maps.Copy(dst, src)`: `dst[k] = v` — overwrites -/
def copyInto (out md : MD) : MD := md.foldl (fun o e => GB.C07.MD.put o e.1 e.2) out

/-- the seeded variant C19-m6 (`incomingContext`): `maps.Copy(md, extra); maps.Copy(md, headersToMD(r.Header))` -/
def wsIncomingCopy (param : Bytes) (q : Values) (hdr : MD) : MD :=
  copyInto (copyInto [] (parseMetadataQuery param q).md) (GB.C07.headersToMD hdr)

/-! C19's `mdLookup` / `mdPut` are the C07 model's `MD.lookup` / `MD.put` -/

theorem mdLookup_eq (md : MD) (k : Bytes) : mdLookup md k = GB.C07.MD.lookup md k := by
  induction md with
  | nil => rfl
  | cons e rest ih => obtain ⟨k0, v0⟩ := e; simp only [mdLookup, GB.C07.MD.lookup, ih]

theorem mdPut_eq (md : MD) (k : Bytes) (v : List Bytes) : mdPut md k v = GB.C07.MD.put md k v := by
  induction md with
  | nil => rfl
  | cons e rest ih => obtain ⟨k0, v0⟩ := e; simp only [mdPut, GB.C07.MD.put, ih]

/-! maps: distinct keys -/

def Keys (md : MD) : List Bytes := md.map (·.1)

theorem keys_put (md : MD) (k : Bytes) (v : List Bytes) (x : Bytes) (h : x ∈ Keys (GB.C07.MD.put md k v)) :
    x = k ∨ x ∈ Keys md := by
  obtain ⟨e, he, rfl⟩ := List.mem_map.1 h
  rcases GB.C07.mem_put md k v e he with h1 | h1
  · left; rw [h1]
  · right; exact List.mem_map_of_mem h1

theorem nodup_put (md : MD) (k : Bytes) (v : List Bytes) (h : (Keys md).Nodup) : (Keys (GB.C07.MD.put md k v)).Nodup := by
  induction md with
  | nil => simp [GB.C07.MD.put, Keys]
  | cons e rest ih =>
    obtain ⟨k0, v0⟩ := e
    have h' : (k0 :: Keys rest).Nodup := h
    have hn := List.nodup_cons.1 h'
    simp only [GB.C07.MD.put]
    by_cases hk : k0 = k
    · subst hk
      simp only [beq_self_eq_true, ↓reduceIte]
      simpa [Keys] using h
    · have : (k0 == k) = false := by simp [hk]
      simp only [this, Bool.false_eq_true, ↓reduceIte]
      have ih' := ih hn.2
      show (k0 :: Keys (GB.C07.MD.put rest k v)).Nodup
      refine List.nodup_cons.2 ⟨?_, ih'⟩
      intro hm
      rcases keys_put rest k v k0 hm with h1 | h1
      · exact hk h1
      · exact hn.1 h1

/-- all values stored under `k` in an association list, in order (= `lookup` when keys are distinct) -/
def allVals (md : MD) (k : Bytes) : List Bytes := md.flatMap (fun e => if e.1 = k then e.2 else [])

theorem lookup_absent (md : MD) (k : Bytes) (h : k ∉ Keys md) : GB.C07.MD.lookup md k = [] := by
  induction md with
  | nil => rfl
  | cons e rest ih =>
    obtain ⟨k0, v0⟩ := e
    have h1 : k0 ≠ k := fun hh => h (by simp [Keys, hh])
    have h2 : k ∉ Keys rest := fun hh => h (by simp only [Keys, List.map_cons, List.mem_cons]; right; exact hh)
    have : (k0 == k) = false := by simp [h1]
    simp only [GB.C07.MD.lookup, this, Bool.false_eq_true, ↓reduceIte]
    exact ih h2

theorem allVals_absent (md : MD) (k : Bytes) (h : k ∉ Keys md) : allVals md k = [] := by
  induction md with
  | nil => rfl
  | cons e rest ih =>
    have h1 : e.1 ≠ k := fun hh => h (by simp [Keys, hh])
    have h2 : k ∉ Keys rest := fun hh => h (by simp only [Keys, List.map_cons, List.mem_cons]; right; exact hh)
    simp only [allVals, List.flatMap_cons, h1, ↓reduceIte, List.nil_append]
    exact ih h2

theorem allVals_nodup (md : MD) (k : Bytes) (h : (Keys md).Nodup) : allVals md k = GB.C07.MD.lookup md k := by
  induction md with
  | nil => rfl
  | cons e rest ih =>
    obtain ⟨k0, v0⟩ := e
    have h' : (k0 :: Keys rest).Nodup := h
    have hn := List.nodup_cons.1 h'
    by_cases hk : k0 = k
    · subst hk
      have ha := allVals_absent rest k0 hn.1
      simp only [allVals, List.flatMap_cons, ↓reduceIte, GB.C07.MD.lookup, beq_self_eq_true]
      have : List.flatMap (fun e => if e.1 = k0 then e.2 else []) rest = [] := ha
      rw [this, List.append_nil]
    · have : (k0 == k) = false := by simp [hk]
      simp only [allVals, List.flatMap_cons, hk, ↓reduceIte, List.nil_append, GB.C07.MD.lookup, this, Bool.false_eq_true]
      exact ih hn.2

/-- `metadata.Join`: under every key, what was there, then every value the joined map stores under it -/
theorem lookup_joinInto (md out : MD) (k : Bytes) :
    GB.C07.MD.lookup (GB.C07.joinInto out md) k = GB.C07.MD.lookup out k ++ allVals md k := by
  unfold GB.C07.joinInto
  induction md generalizing out with
  | nil => simp [allVals]
  | cons e rest ih =>
    simp only [List.foldl_cons]
    rw [ih, GB.C07.lookup_put]
    by_cases hk : k = e.1
    · subst hk
      simp [allVals, List.append_assoc]
    · have hk' : e.1 ≠ k := fun hh => hk hh.symm
      simp [allVals, hk, hk']

theorem lookup_join (a b : MD) (k : Bytes) (ha : (Keys a).Nodup) (hb : (Keys b).Nodup) :
    GB.C07.MD.lookup (GB.C07.join a b) k = GB.C07.MD.lookup a k ++ GB.C07.MD.lookup b k := by
  unfold GB.C07.join
  rw [lookup_joinInto, lookup_joinInto, allVals_nodup a k ha, allVals_nodup b k hb]
  simp [GB.C07.MD.lookup]

/-! both sides of the join are maps -/

theorem nodup_steps (p : Bytes) (q : Values) : (Keys (q.foldl (mdStep p) [])).Nodup := by
  refine GB.C07.foldl_inv (mdStep p) (fun o => (Keys o).Nodup) q [] (by simp [Keys]) ?_
  intro o e _ ho
  show (Keys (mdStep p o e)).Nodup
  unfold mdStep
  by_cases h1 : (!isMetaKey p e.1) = true
  · rw [if_pos h1]; exact ho
  · rw [if_neg h1]
    by_cases h2 : (!isValidMetadataKey (mdKeyOf p e.1)) = true
    · rw [if_pos h2]; exact ho
    · rw [if_neg h2]
      refine GB.C07.foldl_inv (fun m v => mdAppend1 m (mdKeyOf p e.1) v) (fun o => (Keys o).Nodup) _ o ho ?_
      intro o' v _ ho'
      show (Keys (mdAppend1 o' (mdKeyOf p e.1) v)).Nodup
      unfold mdAppend1
      rw [mdPut_eq]
      exact nodup_put _ _ _ ho'

theorem nodup_queryMD (param : Bytes) (q : Values) : (Keys (parseMetadataQuery param q).md).Nodup := by
  unfold parseMetadataQuery
  exact nodup_steps _ q

theorem nodup_headersToMD (h : MD) : (Keys (GB.C07.headersToMD h)).Nodup := by
  unfold GB.C07.headersToMD
  refine GB.C07.foldl_inv _ (fun o => (Keys o).Nodup) h [] (by simp [Keys]) ?_
  intro o e _ ho
  show (Keys (GB.C07.MD.set o e.1 e.2)).Nodup
  unfold GB.C07.MD.set
  split
  · exact ho
  · exact nodup_put _ _ _ ho

end GB.C19
