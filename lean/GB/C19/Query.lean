import GB.C19.Model
/-
  C19 — the net/url layer in front of `parseMetadataQuery`, as a total function on bytes
  (Go 1.23 `net/url`): `url.ParseQuery` (`parseQuery`), `url.QueryUnescape` (`unescape(s, encodeQueryComponent)`),
  `url.QueryEscape`, `url.Values.Encode` — so that the metadata-query clause can be stated over the RAW
  query string of the request target (`r.URL.RawQuery`) instead of the already parsed `r.URL.Query()`.

  `r.URL.Query()` is `ParseQuery(RawQuery)` with the error dropped: pairs whose key or value has a malformed
  %-escape, and '&'-separated segments containing ';', are skipped, everything else is kept.
-/
namespace GB.C19
open GB

def isHex (c : UInt8) : Bool := (48 ≤ c && c ≤ 57) || (97 ≤ c && c ≤ 102) || (65 ≤ c && c ≤ 70)

/-- net/url `unhex` -/
def unhex (c : UInt8) : UInt8 :=
  if 48 ≤ c && c ≤ 57 then c - 48
  else if 97 ≤ c && c ≤ 102 then c - 97 + 10
  else if 65 ≤ c && c ≤ 70 then c - 65 + 10
  else 0

/-- `url.QueryUnescape(s)`: `none` = `EscapeError` (a '%' not followed by two hex digits anywhere in `s`);
    otherwise `%XX` ↦ the byte, '+' ↦ ' ', every other byte (any value, 0x00–0xFF) unchanged. -/
def unescape : Bytes → Option Bytes
  | [] => some []
  | c :: rest =>
    if c == 37 then
      match rest with
      | a :: b :: rest' =>
        if isHex a && isHex b then (unescape rest').map (fun t => (unhex a * 16 + unhex b) :: t) else none
      | _ => none
    else (unescape rest).map (fun t => (if c == 43 then 32 else c) :: t)

/-- `strings.Split(s, sep)` for a one-byte separator -/
def splitB (sep : UInt8) : Bytes → List Bytes
  | [] => [[]]
  | c :: r =>
    if c == sep then [] :: splitB sep r
    else match splitB sep r with
      | [] => [[c]]
      | e :: es => (c :: e) :: es

/-- `strings.Cut(s, sep)` for a one-byte separator: (before, after); no separator ⇒ (s, "") -/
def cutB (sep : UInt8) : Bytes → Bytes × Bytes
  | [] => ([], [])
  | c :: r => if c == sep then ([], r) else ((c :: (cutB sep r).1), (cutB sep r).2)

/-- the body of the `parseQuery` loop for one '&'-separated segment: `none` = `continue` (nothing added) -/
def parsePair (seg : Bytes) : Option (Bytes × Bytes) :=
  if seg.contains 59 then none            -- "invalid semicolon separator in query"
  else if seg.isEmpty then none
  else
    match unescape (cutB 61 seg).1, unescape (cutB 61 seg).2 with
    | some k, some v => some (k, v)
    | _, _ => none

/-- the `(key, value)` pairs `parseQuery` adds to the map, in the order it adds them.
    (`for query != "" { key, query, _ = strings.Cut(query, "&") … }` visits exactly the '&'-separated
    segments; the empty ones — `a&&b`, a trailing `&`, the empty query — are skipped by `key == ""`.) -/
def queryPairs (raw : Bytes) : List (Bytes × Bytes) := (splitB 38 raw).filterMap parsePair

/-- `m[key] = append(m[key], value)` -/
def addValue (m : Values) (p : Bytes × Bytes) : Values := mdPut m p.1 (mdLookup m p.1 ++ [p.2])

def groupPairs (ps : List (Bytes × Bytes)) : Values := ps.foldl addValue []

/-- `r.URL.Query()` for `r.URL.RawQuery = raw` (keys in order of first appearance — Go's map order is arbitrary,
    `C19_mdquery_order_independent` covers every other order) -/
def urlQuery (raw : Bytes) : Values := groupPairs (queryPairs raw)

/-- `parseMetadataQuery(r, param)` as a function of the raw query string -/
def rawMetadataQuery (param raw : Bytes) : MQ := parseMetadataQuery param (urlQuery raw)

/-! ### url.QueryEscape / Values.Encode (what `parseMetadataQuery` writes back into `r.URL.RawQuery`) -/

/-- net/url `shouldEscape(c, encodeQueryComponent)` -/
def shouldEscape (c : UInt8) : Bool :=
  !((97 ≤ c && c ≤ 122) || (65 ≤ c && c ≤ 90) || (48 ≤ c && c ≤ 57) || c == 45 || c == 95 || c == 46 || c == 126)

/-- `"0123456789ABCDEF"[n]` for `n < 16` -/
def upperhex (n : UInt8) : UInt8 := if n < 10 then 48 + n else 55 + n

/-- `url.QueryEscape` -/
def escape : Bytes → Bytes
  | [] => []
  | c :: r =>
    if c == 32 then 43 :: escape r
    else if shouldEscape c then 37 :: upperhex (c / 16) :: upperhex (c % 16) :: escape r
    else c :: escape r

/-- `k=v` joined by '&' (the body of `Values.Encode` once the keys are sorted and the value lists flattened) -/
def encodePairs : List (Bytes × Bytes) → Bytes
  | [] => []
  | [p] => escape p.1 ++ 61 :: escape p.2
  | p :: p' :: ps => escape p.1 ++ 61 :: escape p.2 ++ 38 :: encodePairs (p' :: ps)

def flatten (q : Values) : List (Bytes × Bytes) := q.flatMap (fun e => e.2.map (fun v => (e.1, v)))

/-- the metadata-relevant entries of the raw pair list — the specification side: a pair `param[k]=v` with a
    valid key `k`, `lower k = k'`, and a printable value -/
def rawCollect (param k' : Bytes) (ps : List (Bytes × Bytes)) : List Bytes :=
  ps.filterMap (fun p =>
    if isMetaKey param p.1 && isValidMetadataKey (mdKeyOf param p.1) && lower (mdKeyOf param p.1) == k'
        && isValidMetadataValue p.2 then some p.2 else none)

/-- the values of key `k` among the raw pairs, in order -/
def valuesOf (k : Bytes) (ps : List (Bytes × Bytes)) : List Bytes :=
  ps.filterMap (fun p => if p.1 == k then some p.2 else none)

end GB.C19
