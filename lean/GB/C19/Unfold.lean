import GB.C19.WireProofs
/-
  C19 — RFC 7230 obs-fold: the UNFOLDED rewrite of a header block and the lemmas for `C19_dispatch_unfold*`.

    * `joinLine first conts` = the logical line textproto builds: `trim first`, then every continuation line `trim`med
      and joined to its predecessor with ONE SP;
    * `unfoldLines` = every group (line + its continuation lines) replaced by its joined line (a blank first line — the end of the
      block — keeps its group as it is: textproto never reads continuation lines after a blank line);
    * `unfold hs` = those lines written back with CRLF.
  The joined line of a group whose last continuation lines are all blank ENDS in SP: read back as ONE line textproto trims
  it, so the value loses trailing OWS (`TrailOWS`).  Dispatch does not see that (`wireDispatch_trail`).
-/
set_option linter.unusedSimpArgs false
set_option linter.unusedVariables false
namespace GB.C19
open GB

def joinLine (first : Bytes) (conts : List Bytes) : Bytes :=
  GB.C07.trimB first ++ conts.flatMap (fun c => 32 :: GB.C07.trimB c)

def unfoldGroup : List Bytes → List Bytes
  | [] => []
  | first :: conts => if first.isEmpty then first :: conts else [joinLine first conts]

def unfoldLines (ls : List Bytes) : List Bytes := (GB.C07.groupLines ls).flatMap unfoldGroup

def serialize (ls : List Bytes) : Bytes := ls.flatMap (fun l => l ++ [13, 10])

/-- the header block with every obs-fold replaced by one SP -/
def unfold (hs : Bytes) : Bytes := serialize (unfoldLines (GB.C07.wireLines hs))

/-! ### values equal up to trailing OWS -/

/-- `v = v' ++ w`, `w` only SP / HTAB -/
def TrailOWS (v v' : Bytes) : Prop := ∃ w : Bytes, w.all isOWS = true ∧ v = v' ++ w

/-- same names, values equal up to trailing OWS, line by line -/
def TrailLines : List (Bytes × Bytes) → List (Bytes × Bytes) → Prop
  | [], [] => True
  | p :: ps, q :: qs => (p.1 = q.1 ∧ TrailOWS p.2 q.2) ∧ TrailLines ps qs
  | _, _ => False

theorem trimLeft_append_nonsp (x : Bytes) (c : UInt8) (y : Bytes) (hc : isOWS c = false) :
    trimLeft (x ++ c :: y) = trimLeft x ++ c :: y := by
  induction x with
  | nil => simp [trimLeft, hc]
  | cons a r ih =>
    by_cases ha : isOWS a = true
    · simp [trimLeft, ha, ih]
    · simp [trimLeft, ha]

theorem trimLeft_allOWS (w : Bytes) (h : w.all isOWS = true) : trimLeft w = [] := by
  induction w with
  | nil => rfl
  | cons a r ih =>
    simp only [List.all_cons, Bool.and_eq_true] at h
    simp [trimLeft, h.1, ih h.2]

theorem trimLeft_allOWS_append (w x : Bytes) (h : w.all isOWS = true) : trimLeft (w ++ x) = trimLeft x := by
  induction w with
  | nil => rfl
  | cons a r ih =>
    simp only [List.all_cons, Bool.and_eq_true] at h
    simp [trimLeft, h.1, ih h.2]

theorem trimLeft_append_of_ne (x w : Bytes) (h : trimLeft x ≠ []) : trimLeft (x ++ w) = trimLeft x ++ w := by
  induction x with
  | nil => simp [trimLeft] at h
  | cons a r ih =>
    by_cases ha : isOWS a = true
    · simp only [trimLeft, ha, ↓reduceIte, List.cons_append] at h ⊢
      exact ih h
    · simp [trimLeft, ha]

theorem trimLeft_eq_nil_allOWS (x : Bytes) (h : trimLeft x = []) : x.all isOWS = true := by
  induction x with
  | nil => rfl
  | cons a r ih =>
    by_cases ha : isOWS a = true
    · simp only [trimLeft, ha, ↓reduceIte] at h
      simp [ha, ih h]
    · simp [trimLeft, ha] at h

/-- `strings.Trim(s, " \t")` does not see trailing OWS -/
theorem trimOWS_trail (e w : Bytes) (h : w.all isOWS = true) : trimOWS (e ++ w) = trimOWS e := by
  unfold trimOWS
  by_cases hx : trimLeft e = []
  · have he := trimLeft_eq_nil_allOWS e hx
    have : (e ++ w).all isOWS = true := by simp [List.all_append, he, h]
    rw [trimLeft_allOWS _ this, hx]
  · rw [trimLeft_append_of_ne e w hx, List.reverse_append, trimLeft_allOWS_append]
    simpa using h

theorem splitComma_nocomma (w : Bytes) (hw : ∀ c ∈ w, (c == 44) = false) : splitComma w = [w] := by
  induction w with
  | nil => rfl
  | cons a r ih =>
    have ha := hw a (by simp)
    have := ih (fun c hc => hw c (by simp [hc]))
    simp [splitComma, ha, this]

/-- a comma-free suffix only extends the LAST element -/
theorem splitComma_append_nocomma (v w : Bytes) (hw : ∀ c ∈ w, (c == 44) = false) :
    ∃ es l, splitComma v = es ++ [l] ∧ splitComma (v ++ w) = es ++ [l ++ w] := by
  induction v with
  | nil => exact ⟨[], [], rfl, by simp [splitComma_nocomma w hw]⟩
  | cons c r ih =>
    obtain ⟨es, l, h1, h2⟩ := ih
    by_cases hc : (c == 44) = true
    · exact ⟨[] :: es, l, by simp [splitComma, hc, h1], by simp [splitComma, hc, h2]⟩
    · cases es with
      | nil => exact ⟨[], c :: l, by simp [splitComma, hc, h1], by simp [splitComma, hc, h2]⟩
      | cons e0 es0 => exact ⟨(c :: e0) :: es0, l, by simp [splitComma, hc, h1], by simp [splitComma, hc, h2]⟩

theorem ows_nocomma (w : Bytes) (h : w.all isOWS = true) : ∀ c ∈ w, (c == 44) = false := by
  intro c hc
  have := List.all_eq_true.mp h c hc
  unfold isOWS at this
  rcases (Bool.or_eq_true _ _).mp this with h1 | h1 <;> (have := eq_of_beq h1; subst this; decide)

theorem splitComma_trail (v w : Bytes) (h : w.all isOWS = true) :
    (splitComma (v ++ w)).map trimOWS = (splitComma v).map trimOWS := by
  obtain ⟨es, l, h1, h2⟩ := splitComma_append_nocomma v w (ows_nocomma w h)
  rw [h1, h2]
  simp [trimOWS_trail l w h]

theorem wireElems_trail (K : Bytes) (ps ps' : List (Bytes × Bytes)) (h : TrailLines ps ps') :
    wireElems K ps = wireElems K ps' := by
  induction ps generalizing ps' with
  | nil => cases ps' with
    | nil => rfl
    | cons q qs => simp [TrailLines] at h
  | cons p ps ih => cases ps' with
    | nil => simp [TrailLines] at h
    | cons q qs =>
      simp only [TrailLines] at h
      obtain ⟨⟨hk, w, hw, hv⟩, hr⟩ := h
      have := ih qs hr
      unfold wireElems wireLinesOf at this ⊢
      by_cases hc : (GB.C07.canonKey q.1 == K) = true
      · simp only [List.filterMap_cons, hk, hc, ↓reduceIte, List.flatMap_cons, this, hv, splitComma_trail _ w hw]
      · simp only [List.filterMap_cons, hk, hc, Bool.false_eq_true, ↓reduceIte]
        exact this

theorem wireHasToken_trail (K : Bytes) (ps ps' : List (Bytes × Bytes)) (t : Bytes) (h : TrailLines ps ps') :
    wireHasToken K ps t = wireHasToken K ps' t := by
  unfold wireHasToken
  rw [wireElems_trail K ps ps' h]

end GB.C19
