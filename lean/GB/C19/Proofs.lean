import GB.C19.Spec
/- C19 — helper lemmas (core only). -/
set_option linter.unusedSimpArgs false
set_option linter.unusedVariables false
namespace GB.C19
open GB

/-! ### splitComma / joinComma -/

theorem splitComma_cons (c : UInt8) (r : Bytes) :
    splitComma (c :: r) = if c == 44 then [] :: splitComma r
      else match splitComma r with
        | [] => [[c]]
        | e :: es => (c :: e) :: es := by rw [splitComma]; rfl

theorem trimLeft_cons (c : UInt8) (r : Bytes) :
    trimLeft (c :: r) = if isOWS c then trimLeft r else c :: r := by rw [trimLeft]

theorem splitComma_ne_nil (s : Bytes) : splitComma s ≠ [] := by
  cases s with
  | nil => simp [splitComma]
  | cons c r =>
    unfold splitComma
    split
    · simp
    · split <;> simp

theorem splitComma_noComma (s : Bytes) : ∀ e ∈ splitComma s, (44 : UInt8) ∉ e := by
  induction s with
  | nil => intro e he; simp [splitComma] at he; subst he; simp
  | cons c r ih =>
    intro e he
    unfold splitComma at he
    split at he
    · rcases List.mem_cons.1 he with h | h
      · subst h; simp
      · exact ih e h
    · rename_i hc
      split at he
      · rename_i hnil; exact absurd hnil (splitComma_ne_nil r)
      · rename_i e0 es heq
        rcases List.mem_cons.1 he with h | h
        · subst h
          have h0 := ih e0 (by rw [heq]; simp)
          intro hm
          rcases List.mem_cons.1 hm with h1 | h1
          · exact hc (by rw [← h1]; decide)
          · exact h0 h1
        · exact ih e (by rw [heq]; exact List.mem_cons_of_mem _ h)

theorem joinComma_cons (e : Bytes) (es : List Bytes) (h : es ≠ []) :
    joinComma (e :: es) = e ++ 44 :: joinComma es := by
  cases es with
  | nil => exact absurd rfl h
  | cons e' es => rfl

theorem join_split (s : Bytes) : joinComma (splitComma s) = s := by
  induction s with
  | nil => simp [splitComma, joinComma]
  | cons c r ih =>
    unfold splitComma
    split
    · rename_i hc
      have : c = 44 := by simpa using hc
      rw [joinComma_cons _ _ (splitComma_ne_nil r), ih, this]; rfl
    · split
      · rename_i hnil; exact absurd hnil (splitComma_ne_nil r)
      · rename_i e0 es heq
        rw [heq] at ih
        cases es with
        | nil => simp [joinComma] at ih ⊢; exact ih
        | cons e1 es' =>
          simp only [joinComma] at ih ⊢
          rw [List.cons_append, ih]

theorem split_noComma (e : Bytes) (h : (44 : UInt8) ∉ e) : splitComma e = [e] := by
  induction e with
  | nil => simp [splitComma]
  | cons c r ih =>
    have hc : c ≠ 44 := fun hh => h (by rw [hh]; simp)
    have hr : (44 : UInt8) ∉ r := fun hh => h (List.mem_cons_of_mem _ hh)
    unfold splitComma
    rw [ih hr]
    simp [hc]

theorem split_append_comma (e s : Bytes) (h : (44 : UInt8) ∉ e) :
    splitComma (e ++ 44 :: s) = e :: splitComma s := by
  induction e with
  | nil => simp [splitComma]
  | cons c r ih =>
    have hc : c ≠ 44 := fun hh => h (by rw [hh]; simp)
    have hr : (44 : UInt8) ∉ r := fun hh => h (List.mem_cons_of_mem _ hh)
    rw [List.cons_append, splitComma_cons, ih hr]
    simp [hc]

theorem split_join (es : List Bytes) (hne : es ≠ []) (h : ∀ e ∈ es, (44 : UInt8) ∉ e) :
    splitComma (joinComma es) = es := by
  induction es with
  | nil => exact absurd rfl hne
  | cons e rest ih =>
    cases rest with
    | nil => simp [joinComma]; exact split_noComma e (h e (by simp))
    | cons e' es' =>
      rw [joinComma_cons _ _ (by simp), split_append_comma _ _ (h e (by simp))]
      rw [ih (by simp) (fun x hx => h x (List.mem_cons_of_mem _ hx))]

/-! ### trimOWS -/

theorem trimLeft_decomp (s : Bytes) : ∃ l, s = l ++ trimLeft s ∧ ∀ c ∈ l, isOWS c = true := by
  induction s with
  | nil => exact ⟨[], by simp [trimLeft]⟩
  | cons c r ih =>
    unfold trimLeft
    split
    · rename_i hc
      obtain ⟨l, hl, hall⟩ := ih
      refine ⟨c :: l, by rw [List.cons_append, ← hl], ?_⟩
      intro x hx
      rcases List.mem_cons.1 hx with h | h
      · rw [h]; exact hc
      · exact hall x h
    · exact ⟨[], by simp⟩

theorem trimLeft_ows_append (l s : Bytes) (h : ∀ c ∈ l, isOWS c = true) : trimLeft (l ++ s) = trimLeft s := by
  induction l with
  | nil => rfl
  | cons c r ih =>
    rw [List.cons_append, trimLeft_cons, if_pos (h c (by simp))]
    exact ih (fun x hx => h x (List.mem_cons_of_mem _ hx))

theorem trimLeft_all_ows (l : Bytes) (h : ∀ c ∈ l, isOWS c = true) : trimLeft l = [] := by
  have := trimLeft_ows_append l [] h
  simpa [trimLeft] using this

theorem trimLeft_head (c : UInt8) (r : Bytes) (h : isOWS c = false) : trimLeft (c :: r) = c :: r := by
  unfold trimLeft; simp [h]

theorem trim_decomp (s : Bytes) :
    ∃ l r, s = l ++ trimOWS s ++ r ∧ (∀ c ∈ l, isOWS c = true) ∧ (∀ c ∈ r, isOWS c = true) := by
  obtain ⟨l, hl, hlo⟩ := trimLeft_decomp s
  obtain ⟨r', hr, hro⟩ := trimLeft_decomp (trimLeft s).reverse
  refine ⟨l, r'.reverse, ?_, hlo, ?_⟩
  · unfold trimOWS
    have : trimLeft s = (trimLeft (trimLeft s).reverse).reverse ++ r'.reverse := by
      have := congrArg List.reverse hr
      simpa using this
    rw [List.append_assoc, ← this]; exact hl
  · intro c hc; exact hro c (by simpa using hc)

/-- a token: non-empty ends are not whitespace -/
def NoEdgeOWS (tok : Bytes) : Prop := (∀ c, tok.head? = some c → isOWS c = false) ∧ (∀ c, tok.getLast? = some c → isOWS c = false)

theorem trimLeft_noEdge (tok r : Bytes) (h : ∀ c, tok.head? = some c → isOWS c = false) (hr : ∀ c ∈ r, isOWS c = true) :
    trimLeft (tok ++ r) = if tok = [] then [] else tok ++ r := by
  cases tok with
  | nil => simp; exact trimLeft_all_ows r hr
  | cons c t => simp; exact trimLeft_head c _ (h c rfl)

theorem trim_eq (l tok r : Bytes) (hl : ∀ c ∈ l, isOWS c = true) (hr : ∀ c ∈ r, isOWS c = true)
    (ht : NoEdgeOWS tok) : trimOWS (l ++ tok ++ r) = tok := by
  unfold trimOWS
  rw [List.append_assoc, trimLeft_ows_append l _ hl, trimLeft_noEdge tok r ht.1 hr]
  by_cases he : tok = []
  · simp [he, trimLeft]
  · rw [if_neg he, List.reverse_append]
    rw [trimLeft_ows_append r.reverse _ (by intro c hc; exact hr c (by simpa using hc))]
    have hh : ∀ c, tok.reverse.head? = some c → isOWS c = false := by
      intro c hc; exact ht.2 c (by simpa [List.head?_reverse] using hc)
    have := trimLeft_noEdge tok.reverse [] hh (by simp)
    simp only [List.append_nil] at this
    rw [this]
    simp [he]

set_option maxRecDepth 100000 in
theorem ows_lower_all : ∀ n, n < 256 → isOWS (lowerB (UInt8.ofNat n)) = isOWS (UInt8.ofNat n) := by decide

theorem ows_lower (d : UInt8) : isOWS (lowerB d) = isOWS d := by
  have := ows_lower_all d.toNat (UInt8.toNat_lt d)
  simpa using this

theorem fold_noOWS (tok t : Bytes) (h : equalFold tok t = true) (ht : ∀ d ∈ t, isOWS d = false) :
    ∀ c ∈ tok, isOWS c = false := by
  intro c hc
  unfold equalFold at h
  simp only [Bool.and_eq_true, beq_iff_eq] at h
  have hm : lowerB c ∈ lower t := by rw [← h.2]; exact List.mem_map_of_mem hc
  obtain ⟨d, hd, hdc⟩ := List.mem_map.1 hm
  rw [← ows_lower c, ← hdc, ows_lower d]; exact ht d hd

theorem noEdge_of_noOWS (tok : Bytes) (h : ∀ c ∈ tok, isOWS c = false) : NoEdgeOWS tok := by
  constructor
  · intro c hc; exact h c (List.mem_of_head? hc)
  · intro c hc; exact h c (List.mem_of_getLast? hc)

/-- `headerHasToken` decides `HasToken` for tokens free of whitespace -/
theorem headerHasToken_iff (lines : List Bytes) (t : Bytes) (ht : ∀ d ∈ t, isOWS d = false) :
    headerHasToken lines t = true ↔ HasToken lines t := by
  unfold headerHasToken HasToken
  simp only [List.any_eq_true]
  constructor
  · rintro ⟨line, hl, e, he, hf⟩
    refine ⟨line, hl, splitComma line, splitComma_ne_nil line, splitComma_noComma line, (join_split line).symm, e, he, ?_⟩
    obtain ⟨l, r, hd, hlo, hro⟩ := trim_decomp e
    exact ⟨l, trimOWS e, r, hd, hlo, hro, hf⟩
  · rintro ⟨line, hl, es, hne, hnc, hj, e, he, l, tok, r, hd, hlo, hro, hf⟩
    refine ⟨line, hl, e, ?_, ?_⟩
    · rw [hj, split_join es hne hnc]; exact he
    · rw [hd, trim_eq l tok r hlo hro (noEdge_of_noOWS tok (fold_noOWS tok t hf ht))]; exact hf

theorem isGRPCWeb_iff (ct : Bytes) : isGRPCWebContentType ct = true ↔ BeginsWithFold ct grpcWebBase := by
  unfold isGRPCWebContentType BeginsWithFold
  constructor
  · intro h
    simp only [Bool.and_eq_true, decide_eq_true_eq] at h
    exact ⟨ct.take grpcWebBase.length, ct.drop grpcWebBase.length, (List.take_append_drop _ _).symm, h.2⟩
  · rintro ⟨a, rest, hd, hf⟩
    have hlen : a.length = grpcWebBase.length := by
      unfold equalFold at hf; simp only [Bool.and_eq_true, beq_iff_eq] at hf; exact hf.1
    simp only [Bool.and_eq_true, decide_eq_true_eq]
    constructor
    · rw [hd, List.length_append]; omega
    · rw [hd, ← hlen, List.take_left']; exact hf; rfl

/-- whatever follows a value that begins with `p` — whitespace, parameters, garbage — it still begins with `p` -/
theorem begins_append (v p tail : Bytes) (h : BeginsWithFold v p) : BeginsWithFold (v ++ tail) p := by
  obtain ⟨a, rest, hd, hf⟩ := h
  exact ⟨a, rest ++ tail, by rw [hd, List.append_assoc], hf⟩

theorem semi_not_in_base : (59 : UInt8) ∉ lower grpcWebBase := by decide
/-- a media type that does not begin with `application/grpc-web` cannot be made to by ANY parameter string:
    the `;` that ends the media type is not a character of `application/grpc-web`. -/
theorem not_begins_params (mt params : Bytes) (h : ¬ BeginsWithFold mt grpcWebBase) :
    ¬ BeginsWithFold (mt ++ 59 :: params) grpcWebBase := by
  rintro ⟨a, rest, hd, hf⟩
  have hf' := hf
  unfold equalFold at hf'
  simp only [Bool.and_eq_true, beq_iff_eq] at hf'
  by_cases hl : a.length ≤ mt.length
  · -- then `a` is a prefix of `mt`
    apply h
    have h1 : a = (mt ++ 59 :: params).take a.length := by rw [hd]; simp
    rw [List.take_append_of_le_length hl] at h1
    exact ⟨a, mt.drop a.length, by rw [h1, List.length_take, Nat.min_eq_left hl, List.take_append_drop], hf⟩
  · -- otherwise `a` reaches the `;`
    have hl' : mt.length < a.length := Nat.lt_of_not_ge hl
    have h1 : (a ++ rest)[mt.length]? = some 59 := by rw [← hd]; simp
    have h2 : a[mt.length]? = some 59 := by
      rw [List.getElem?_append_left hl'] at h1; exact h1
    have h3 : (59 : UInt8) ∈ a := List.mem_of_getElem? h2
    have h4 : lowerB 59 ∈ lower a := List.mem_map_of_mem h3
    rw [hf'.2] at h4
    exact semi_not_in_base (by simpa [lowerB] using h4)

/-! ### ascii.EqualFold is byte-wise ASCII case equality -/

set_option maxRecDepth 100000 in
theorem lowerB_toNat_all : ∀ n, n < 256 →
    (lowerB (UInt8.ofNat n)).toNat = if 65 ≤ n ∧ n ≤ 90 then n + 32 else n := by decide

theorem lowerB_toNat (c : UInt8) : (lowerB c).toNat = if 65 ≤ c.toNat ∧ c.toNat ≤ 90 then c.toNat + 32 else c.toNat := by
  have := lowerB_toNat_all c.toNat (UInt8.toNat_lt c)
  simpa using this

theorem lowerB_eq_iff (c k : UInt8) : lowerB c = lowerB k ↔ AsciiCaseEq c k := by
  have hc := UInt8.toNat_lt c
  have hk := UInt8.toNat_lt k
  unfold AsciiCaseEq
  rw [← UInt8.toNat_inj, lowerB_toNat, lowerB_toNat, ← UInt8.toNat_inj]
  split <;> split <;> omega

theorem equalFold_iff (cand kw : Bytes) : equalFold cand kw = true ↔ AsciiCaseEqs cand kw := by
  unfold equalFold lower
  simp only [Bool.and_eq_true, beq_iff_eq]
  induction cand generalizing kw with
  | nil => cases kw <;> simp [AsciiCaseEqs]
  | cons c cs ih =>
    cases kw with
    | nil => simp [AsciiCaseEqs]
    | cons k ks =>
      simp only [List.length_cons, Nat.add_right_cancel_iff, List.map_cons, List.cons.injEq, AsciiCaseEqs]
      rw [← ih ks, lowerB_eq_iff]
      constructor
      · rintro ⟨h1, h2, h3⟩; exact ⟨h2, h1, h3⟩
      · rintro ⟨h2, h1, h3⟩; exact ⟨h1, h2, h3⟩

theorem asciiCaseEqs_high (cand kw : Bytes) (hkw : ∀ b ∈ kw, b.toNat < 128) (h : AsciiCaseEqs cand kw) :
    ∀ c ∈ cand, c.toNat < 128 := by
  induction cand generalizing kw with
  | nil => simp
  | cons c cs ih =>
    cases kw with
    | nil => simp [AsciiCaseEqs] at h
    | cons k ks =>
      simp only [AsciiCaseEqs] at h
      intro x hx
      rcases List.mem_cons.1 hx with rfl | hx
      · have hk := hkw k (by simp)
        rcases h.1 with h1 | h1 | h1
        · rw [h1]; exact hk
        · omega
        · omega
      · exact ih ks (fun b hb => hkw b (List.mem_cons_of_mem _ hb)) h.2 x hx

/-! ### parseMetadataQuery -/

theorem lookup_put (md : MD) (k k' : Bytes) (v : List Bytes) :
    mdLookup (mdPut md k v) k' = if k' = k then v else mdLookup md k' := by
  induction md with
  | nil =>
    simp only [mdPut, mdLookup]
    by_cases h : k' = k
    · simp [h]
    · have : (k == k') = false := by simp; exact fun hh => h hh.symm
      simp [h, this]
  | cons e rest ih =>
    obtain ⟨k0, v0⟩ := e
    simp only [mdPut]
    by_cases h0 : k0 = k
    · subst h0
      simp only [beq_self_eq_true, ↓reduceIte, mdLookup]
      by_cases h : k' = k0
      · subst h; simp
      · have : (k0 == k') = false := by simp; exact fun hh => h hh.symm
        simp [h, this]
    · have hne : (k0 == k) = false := by simp [h0]
      simp only [hne, Bool.false_eq_true, ↓reduceIte, mdLookup]
      by_cases h1 : k0 = k'
      · subst h1
        simp [h0]
      · have : (k0 == k') = false := by simp [h1]
        simp only [this, Bool.false_eq_true, ↓reduceIte]
        exact ih

theorem lookup_appends (k kk : Bytes) (vs : List Bytes) (md : MD) :
    mdLookup (vs.foldl (fun m v => mdAppend1 m k v) md) kk =
      if kk = lower k then mdLookup md kk ++ vs else mdLookup md kk := by
  induction vs generalizing md with
  | nil => simp
  | cons v rest ih =>
    simp only [List.foldl_cons]
    rw [ih]
    unfold mdAppend1
    rw [lookup_put]
    by_cases h : kk = lower k
    · subst h; simp
    · simp [h]

theorem lookup_steps (param kk : Bytes) (q : Values) (md : MD) :
    mdLookup (q.foldl (mdStep param) md) kk = mdLookup md kk ++ collect param kk q := by
  induction q generalizing md with
  | nil => simp [collect]
  | cons e rest ih =>
    simp only [List.foldl_cons]
    rw [ih]
    have hc : collect param kk (e :: rest) =
        (if isMetaKey param e.1 && isValidMetadataKey (mdKeyOf param e.1) && lower (mdKeyOf param e.1) == kk
         then e.2.filter isValidMetadataValue else []) ++ collect param kk rest := by
      simp [collect]
    rw [hc, ← List.append_assoc]
    congr 1
    unfold mdStep
    by_cases h1 : isMetaKey param e.1 = true
    · by_cases h2 : isValidMetadataKey (mdKeyOf param e.1) = true
      · simp only [h1, h2, Bool.not_true, Bool.false_eq_true, ↓reduceIte, Bool.true_and]
        rw [lookup_appends]
        by_cases h3 : kk = lower (mdKeyOf param e.1)
        · subst h3; simp
        · have : (lower (mdKeyOf param e.1) == kk) = false := by simp; exact fun hh => h3 hh.symm
          simp [h3, this]
      · simp [h1, h2]
    · simp [h1]

end GB.C19
