import GB.C19.Proofs
import GB.C19.Join
import GB.C19.QueryProofs
import GB.C19.WireProofs
import GB.C19.Unfold
import GB.Generated.Facts
/-
  C19 — property theorems.  `dispatch` is `WebBridge.ServeHTTP` (bridge.go, after fix D18),
  `parseMetadataQuery` is webbridge/webbridge.go; `HasToken`, `BeginsWithFold`, `collect` are the
  declarative specification of GB/C19/Spec.lean.  Every theorem quantifies over ALL header values /
  multiplicities and ALL queries.
-/
set_option linter.unusedSimpArgs false
set_option linter.unusedVariables false
open GB GB.C19

theorem C19_aux_up : ∀ d ∈ tokUpgrade, isOWS d = false := by decide
theorem C19_aux_ws : ∀ d ∈ tokWebsocket, isOWS d = false := by decide
theorem C19_aux_gw : ∀ d ∈ tokGrpcWS, isOWS d = false := by decide

/-- A request is handled as a WebSocket upgrade (either WebSocket bridge) iff `Connection` contains the
    `upgrade` token and `Upgrade` names `websocket` — token lists, any case, any number of lines. -/
theorem C19_ws (h : Hdrs) :
    (dispatch h = .ws ∨ dispatch h = .grpcws) ↔ IsUpgrade h := by
  unfold IsUpgrade
  rw [← headerHasToken_iff _ _ C19_aux_up, ← headerHasToken_iff _ _ C19_aux_ws]
  unfold dispatch
  cases h1 : headerHasToken h.connection tokUpgrade <;> cases h2 : headerHasToken h.upgrade tokWebsocket <;>
    cases h3 : headerHasToken h.protocol tokGrpcWS <;> cases h4 : isGRPCWebContentType (first h.contentType) <;> simp

/-- … as gRPC-WebSocket iff it additionally offers the `grpc-websockets` sub-protocol. -/
theorem C19_grpcws (h : Hdrs) :
    dispatch h = .grpcws ↔ IsUpgrade h ∧ HasToken h.protocol tokGrpcWS := by
  unfold IsUpgrade
  rw [← headerHasToken_iff _ _ C19_aux_up, ← headerHasToken_iff _ _ C19_aux_ws, ← headerHasToken_iff _ _ C19_aux_gw]
  unfold dispatch
  cases h1 : headerHasToken h.connection tokUpgrade <;> cases h2 : headerHasToken h.upgrade tokWebsocket <;>
    cases h3 : headerHasToken h.protocol tokGrpcWS <;> cases h4 : isGRPCWebContentType (first h.contentType) <;> simp

/-- … as plain (transcoded) WebSocket iff it is an upgrade that does not offer that sub-protocol. -/
theorem C19_ws_plain (h : Hdrs) :
    dispatch h = .ws ↔ IsUpgrade h ∧ ¬ HasToken h.protocol tokGrpcWS := by
  unfold IsUpgrade
  rw [← headerHasToken_iff _ _ C19_aux_up, ← headerHasToken_iff _ _ C19_aux_ws, ← headerHasToken_iff _ _ C19_aux_gw]
  unfold dispatch
  cases h1 : headerHasToken h.connection tokUpgrade <;> cases h2 : headerHasToken h.upgrade tokWebsocket <;>
    cases h3 : headerHasToken h.protocol tokGrpcWS <;> cases h4 : isGRPCWebContentType (first h.contentType) <;> simp

/-- … as gRPC-Web iff it is not an upgrade and its media type is `application/grpc-web` followed by
    anything (`+suffix`, `;parameters`, nothing), in any case. -/
theorem C19_grpcweb (h : Hdrs) :
    dispatch h = .grpcweb ↔ ¬ IsUpgrade h ∧ BeginsWithFold (first h.contentType) grpcWebBase := by
  unfold IsUpgrade
  rw [← headerHasToken_iff _ _ C19_aux_up, ← headerHasToken_iff _ _ C19_aux_ws, ← isGRPCWeb_iff]
  unfold dispatch
  cases h1 : headerHasToken h.connection tokUpgrade <;> cases h2 : headerHasToken h.upgrade tokWebsocket <;>
    cases h3 : headerHasToken h.protocol tokGrpcWS <;> cases h4 : isGRPCWebContentType (first h.contentType) <;> simp

/-- **Tokens are ASCII.**  In the model a candidate equals a dispatch keyword (`ascii.EqualFold`, used for
    `upgrade`, `websocket`, `grpc-websockets` and the `application/grpc-web` prefix) iff the two are equal byte
    for byte up to ASCII case — `A–Z` ↔ `a–z` and nothing else. -/
theorem C19_tokens_ascii_only (cand kw : Bytes) : equalFold cand kw = true ↔ AsciiCaseEqs cand kw :=
  equalFold_iff cand kw

/-- … so ANY byte ≥ 0x80 in the candidate makes it unequal to an (ASCII) keyword: no UTF-8 encoded look-alike
    (U+017F ſ, U+212A K, U+0130 İ, U+0131 ı, fullwidth letters) and no raw high byte can name a token. -/
theorem C19_high_byte_never_matches (cand kw : Bytes) (hkw : ∀ b ∈ kw, b.toNat < 128)
    (hc : ∃ c ∈ cand, 128 ≤ c.toNat) : equalFold cand kw = false := by
  cases h : equalFold cand kw with
  | false => rfl
  | true =>
    obtain ⟨c, hm, hge⟩ := hc
    have := asciiCaseEqs_high cand kw hkw ((equalFold_iff cand kw).1 h) c hm
    omega

/-- the dispatch keywords are ASCII (hypothesis of the previous theorem) -/
theorem C19_keywords_ascii :
    (∀ b ∈ tokUpgrade, b.toNat < 128) ∧ (∀ b ∈ tokWebsocket, b.toNat < 128) ∧
    (∀ b ∈ tokGrpcWS, b.toNat < 128) ∧ (∀ b ∈ grpcWebBase, b.toNat < 128) := by decide

/-- Seeded variant C19-m7 (`strings.EqualFold`: Unicode simple folding), kernel-checked negative witness on the
    bytes of `webſocket` (`77 65 62 c5 bf 6f 63 6b 65 74`) and `grpc-webſocKets`: Unicode folding accepts them as the
    `websocket` / `grpc-websockets` tokens; the model does not, and `Connection: Upgrade` + `Upgrade: webſocket`
    is a plain HTTP request. -/
theorem C19_unicode_fold_fails :
    let ws : Bytes := [119,101,98,0xc5,0xbf,111,99,107,101,116]
    let gw : Bytes := [103,114,112,99,45,119,101,98,0xc5,0xbf,111,99,0xe2,0x84,0xaa,101,116,115]
    equalFoldUnicode ws tokWebsocket = true ∧ equalFold ws tokWebsocket = false ∧
    equalFoldUnicode gw tokGrpcWS = true ∧ equalFold gw tokGrpcWS = false ∧
    headerHasToken [ws] tokWebsocket = false ∧
    dispatch { connection := [tokUpgrade], upgrade := [ws] } = .http ∧
    dispatch { connection := [tokUpgrade], upgrade := [tokWebsocket], protocol := [gw] } = .ws := by
  decide

/-- **The parameters do not have to be well-formed.**  If the media type (what precedes the parameters)
    begins with `application/grpc-web` in any case — the type itself, `+proto`, any suffix — then the request
    is gRPC-Web WHATEVER byte string follows it: optional whitespace, `; charset=utf-8`, an attribute-only
    `; charset`, `;;`, unquoted tspecials, repeated parameters, an unterminated quoted string, a `,`-folded
    duplicate, non-ASCII bytes.  (No parser is involved, so no parse error can change the dispatch.) -/
theorem C19_grpcweb_any_parameters (h : Hdrs) (mt tail : Bytes) (more : List Bytes)
    (hct : h.contentType = (mt ++ tail) :: more) (hmt : BeginsWithFold mt grpcWebBase) (hup : ¬ IsUpgrade h) :
    dispatch h = .grpcweb := by
  rw [C19_grpcweb]
  refine ⟨hup, ?_⟩
  rw [hct]
  exact begins_append mt grpcWebBase tail hmt

/-- Conversely no parameter string can turn another media type into gRPC-Web: if the media type before the
    first `;` does not begin with `application/grpc-web`, the request is not handled as gRPC-Web whatever
    the parameters contain (e.g. `text/plain; x=application/grpc-web`). -/
theorem C19_not_grpcweb_any_parameters (h : Hdrs) (mt params : Bytes) (more : List Bytes)
    (hct : h.contentType = (mt ++ 59 :: params) :: more) (hmt : ¬ BeginsWithFold mt grpcWebBase) :
    dispatch h ≠ .grpcweb := by
  rw [Ne, C19_grpcweb]
  rintro ⟨_, hb⟩
  rw [hct] at hb
  exact not_begins_params mt params hmt hb

/-- … and as transcoded HTTP otherwise. -/
theorem C19_http (h : Hdrs) :
    dispatch h = .http ↔ ¬ IsUpgrade h ∧ ¬ BeginsWithFold (first h.contentType) grpcWebBase := by
  unfold IsUpgrade
  rw [← headerHasToken_iff _ _ C19_aux_up, ← headerHasToken_iff _ _ C19_aux_ws, ← isGRPCWeb_iff]
  unfold dispatch
  cases h1 : headerHasToken h.connection tokUpgrade <;> cases h2 : headerHasToken h.upgrade tokWebsocket <;>
    cases h3 : headerHasToken h.protocol tokGrpcWS <;> cases h4 : isGRPCWebContentType (first h.contentType) <;> simp

/-- The specification is satisfiable the way real clients do it: Firefox's
    `Connection: keep-alive, Upgrade` / `Upgrade: websocket` is an upgrade … -/
theorem C19_firefox_is_upgrade :
    IsUpgrade { connection := [[107,101,101,112,45,97,108,105,118,101,44,32,85,112,103,114,97,100,101]],
                upgrade := [[119,101,98,115,111,99,107,101,116]] } := by
  rw [← C19_ws]; decide

/-- … which the code before fix D18 sent to the HTTP bridge (kernel-checked negative witness), and so
    did it with a list-valued sub-protocol offer (`foo, grpc-websockets` ⇒ plain WebSocket) and an
    upper-case media type (`APPLICATION/GRPC-WEB` ⇒ HTTP). -/
theorem C19_prefix_dispatch_fails :
    dispatchPreFix { connection := [[107,101,101,112,45,97,108,105,118,101,44,32,85,112,103,114,97,100,101]],
                     upgrade := [[119,101,98,115,111,99,107,101,116]] } = .http
    ∧ dispatchPreFix { connection := [tokUpgrade], upgrade := [tokWebsocket],
                       protocol := [[102,111,111,44,32] ++ tokGrpcWS] } = .ws
    ∧ dispatch { connection := [tokUpgrade], upgrade := [tokWebsocket],
                 protocol := [[102,111,111,44,32] ++ tokGrpcWS] } = .grpcws
    ∧ dispatchPreFix { contentType := [[65,80,80,76,73,67,65,84,73,79,78,47,71,82,80,67,45,87,69,66]] } = .http
    ∧ dispatch { contentType := [[65,80,80,76,73,67,65,84,73,79,78,47,71,82,80,67,45,87,69,66]] } = .grpcweb := by
  decide

/-- Metadata extraction, exactly: under key `k'` the metadata holds the printable values of the
    `param[k]=v` entries whose `k` is a valid key with `lower k = k'`, in the order the query map is
    traversed — nothing else becomes metadata (invalid keys, unprintable values, other parameters). -/
theorem C19_mdquery (param : Bytes) (q : Values) (k' : Bytes) :
    mdLookup (parseMetadataQuery param q).md k' =
      collect (if param.isEmpty then defaultParam else param) k' q := by
  unfold parseMetadataQuery
  simp only
  rw [lookup_steps]
  simp [mdLookup]

/-- Go map iteration order does not matter: for any two traversal orders of the same query the
    metadata under every key is the same multiset of values. -/
theorem C19_mdquery_order_independent (param : Bytes) (q₁ q₂ : Values) (hp : q₁.Perm q₂) (k' : Bytes) :
    (mdLookup (parseMetadataQuery param q₁).md k').Perm (mdLookup (parseMetadataQuery param q₂).md k') := by
  rw [C19_mdquery, C19_mdquery]
  unfold collect
  exact List.Perm.flatMap_right _ hp

/-- The metadata entries are removed from the parameters bound to the message, and only they. -/
theorem C19_mdquery_removed (param : Bytes) (q : Values) (e : Bytes × List Bytes) :
    e ∈ (parseMetadataQuery param q).query ↔
      e ∈ q ∧ isMetaKey (if param.isEmpty then defaultParam else param) e.1 = false := by
  unfold parseMetadataQuery
  simp [List.mem_filter]

/-- No key shape can make the slice `k[len(param)+1 : len(k)-1]` go out of range: a key that passes
    the prefix/suffix test is at least `len(param)+2` long. -/
theorem C19_mdquery_slice_in_range (param k : Bytes) (h : isMetaKey param k = true) :
    param.length + 1 ≤ k.length - 1 := by
  unfold isMetaKey hasPrefix hasSuffix at h
  simp only [Bool.and_eq_true, beq_iff_eq, decide_eq_true_eq, List.length_cons, List.length_nil] at h
  obtain ⟨h1, h2, h3⟩ := h
  have hl : (k.take (param ++ [91]).length).length = (param ++ [91]).length := by rw [h1]
  simp only [List.length_take, List.length_append, List.length_cons, List.length_nil] at hl
  -- the byte at index len(param) is '[' and the last byte is ']': they cannot be the same byte
  by_cases hk : k.length = param.length + 1
  · exfalso
    have e1 : k = param ++ [91] := by
      have := h1
      rw [List.take_of_length_le (by simp; omega)] at this
      exact this
    rw [e1] at h2
    simp at h2
  · omega

/-- **The metadata-query clause end to end** (transcoded WebSocket entry, for ALL queries and ALL header sets,
    colliding names included): under every key the forwarder is handed first the query metadata of
    `C19_mdquery` — the printable values of the valid `param[k]=v` entries, in query-map order — and then the
    header values under that key: `metadata.Join(queryMD, headersToMD(r.Header))`.  Nothing is dropped and
    nothing overwrites anything. -/
theorem C19_mdquery_joined (param : Bytes) (q : Values) (hdr : MD) (k' : Bytes) :
    GB.C07.MD.lookup (wsIncoming param q hdr) k' =
      collect (if param.isEmpty then defaultParam else param) k' q ++ GB.C07.MD.lookup (GB.C07.headersToMD hdr) k' := by
  unfold wsIncoming
  rw [lookup_join _ _ _ (nodup_queryMD param q) (nodup_headersToMD hdr), ← mdLookup_eq, C19_mdquery]

/-- … in particular no query metadata entry is ever lost, whatever headers the handshake carries. -/
theorem C19_mdquery_never_lost (param : Bytes) (q : Values) (hdr : MD) (k' v : Bytes)
    (h : v ∈ collect (if param.isEmpty then defaultParam else param) k' q) :
    v ∈ GB.C07.MD.lookup (wsIncoming param q hdr) k' := by
  rw [C19_mdquery_joined]
  exact List.mem_append_left _ h

/-- … and every header value is still there, after the query values. -/
theorem C19_headers_kept (param : Bytes) (q : Values) (hdr : MD) (k' v : Bytes)
    (h : v ∈ GB.C07.MD.lookup (GB.C07.headersToMD hdr) k') :
    v ∈ GB.C07.MD.lookup (wsIncoming param q hdr) k' := by
  rw [C19_mdquery_joined]
  exact List.mem_append_right _ h

/-- Seeded variant C19-m6 (`maps.Copy` instead of `metadata.Join`), kernel-checked negative witness:
    `?_metadata[authorization]=q` next to an `Authorization: h` header — the overwrite variant hands the forwarder
    only `h`; the real join hands it `q, h`; without the colliding header both agree. -/
theorem C19_mdquery_overwrite_fails :
    let q : Values := [([95,109,101,116,97,100,97,116,97,91,97,117,116,104,111,114,105,122,97,116,105,111,110,93], [[113]])]
    let hdr : MD := [([65,117,116,104,111,114,105,122,97,116,105,111,110], [[104]])]
    let key : Bytes := [97,117,116,104,111,114,105,122,97,116,105,111,110]
    GB.C07.MD.lookup (wsIncomingCopy [] q hdr) key = [[104]] ∧
    GB.C07.MD.lookup (wsIncoming [] q hdr) key = [[113], [104]] ∧
    wsIncomingCopy [] q [] = wsIncoming [] q [] := by
  decide

/-! Facts ties: the constants of the model are the ones in the sources now (regenerated on every run). -/

/-- `ServeHTTP` tests exactly (Connection, upgrade), (Upgrade, websocket), (Sec-WebSocket-Protocol,
    grpc-websockets) with `headerHasToken`, in this order. -/
theorem C19_facts_dispatch :
    GB.Generated.c19DispatchCalls =
      [ ([67,111,110,110,101,99,116,105,111,110], tokUpgrade.map UInt8.toNat),
        ([85,112,103,114,97,100,101], tokWebsocket.map UInt8.toNat),
        ([83,101,99,45,87,101,98,83,111,99,107,101,116,45,80,114,111,116,111,99,111,108], tokGrpcWS.map UInt8.toNat) ]
    ∧ GB.Generated.c19GrpcWebMediaType = grpcWebBase.map UInt8.toNat := by
  decide

theorem C19_facts_metadata :
    GB.Generated.c19MetadataParam = defaultParam.map UInt8.toNat
    ∧ GB.Generated.c19KeyRanges = [97, 122, 65, 90, 48, 57, 95, 45, 46]
    ∧ GB.Generated.c19ValueRange = [("<", 0x20), (">", 0x7E)] := by
  decide

/-- Every case-insensitive comparison of the dispatch / content-type code is `ascii.EqualFold` of
    `internal/ascii` (exactly the two calls the model mirrors), and neither bridge.go nor webbridge/*.go calls
    `strings.EqualFold` / `strings.ToLower` / `strings.ToUpper` / `strings.ToTitle` / `bytes.EqualFold` / … or
    anything of package `unicode` / `golang.org/x/text/cases`. -/
theorem C19_facts_ascii_fold_only :
    GB.Generated.c19FoldCalls =
      ["bridge.go:headerHasToken:ascii.EqualFold", "bridge.go:isGRPCWebContentType:ascii.EqualFold"]
    ∧ GB.Generated.c19UnicodeCaseCalls = []
    ∧ GB.Generated.c19AsciiImport = "github.com/renbou/grpcbridge/internal/ascii" := by
  decide


/-! ### Round 5 (w2net): the metadata-query clause over the RAW query string (`url.ParseQuery` inside the model)

  `queryPairs raw` = the `(key, value)` pairs Go 1.23 `url.ParseQuery` adds to the map for `r.URL.RawQuery = raw`,
  in order; `urlQuery raw` = `r.URL.Query()`; `rawMetadataQuery param raw` = `parseMetadataQuery` on it. -/

/-- Which pairs `url.ParseQuery` yields, for EVERY raw query: one per non-empty '&'-separated segment that has no
    ';' and whose key part (before the first '=') and value part (after it) both unescape; malformed segments are
    skipped, parsing continues. -/
theorem C19_rawquery_pairs (raw : Bytes) (p : Bytes × Bytes) :
    p ∈ queryPairs raw ↔
      ∃ seg ∈ splitB 38 raw, seg ≠ [] ∧ (59 : UInt8) ∉ seg ∧
        unescape (cutB 61 seg).1 = some p.1 ∧ unescape (cutB 61 seg).2 = some p.2 := by
  unfold queryPairs
  simp only [List.mem_filterMap]
  constructor
  · rintro ⟨seg, hs, hp⟩
    refine ⟨seg, hs, ?_⟩
    unfold parsePair at hp
    split at hp
    · exact absurd hp (by simp)
    · rename_i h1
      split at hp
      · exact absurd hp (by simp)
      · rename_i h2
        split at hp
        · rename_i k v hk hv
          simp only [Option.some.injEq] at hp
          subst hp
          refine ⟨?_, ?_, hk, hv⟩
          · intro hh; subst hh; simp at h2
          · intro hh; exact h1 (by simpa using hh)
        · exact absurd hp (by simp)
  · rintro ⟨seg, hs, hne, hsemi, hk, hv⟩
    refine ⟨seg, hs, ?_⟩
    unfold parsePair
    have h1 : seg.contains 59 = false := by
      cases hc : seg.contains 59
      · rfl
      · have hm : (59 : UInt8) ∈ seg := by simpa using hc
        exact absurd hm hsemi
    have h2 : seg.isEmpty = false := by
      cases seg with
      | nil => exact absurd rfl hne
      | cons _ _ => rfl
    simp [h1, h2, hk, hv, hsemi]

/-- `r.URL.Query()[k]` = the values of the pairs with key `k`, in the order they stand in the raw query
    (repeated keys keep their order; keys are compared after unescaping). -/
theorem C19_urlquery_values (raw k : Bytes) : mdLookup (urlQuery raw) k = valuesOf k (queryPairs raw) := by
  unfold urlQuery groupPairs
  rw [lookup_foldl_addValue]
  simp [mdLookup]

/-- FOR EVERY RAW QUERY STRING: the metadata `parseMetadataQuery` hands on under key `k'` is — as a multiset; the
    order between two different spellings of one key is Go map order — exactly the values of the raw pairs
    `param[k]=v` with a valid key `k`, `lower k = k'`, and a printable value `v`. -/
theorem C19_rawquery_metadata (param raw k' : Bytes) :
    (mdLookup (rawMetadataQuery param raw).md k').Perm
      (rawCollect (if param.isEmpty then defaultParam else param) k' (queryPairs raw)) := by
  unfold rawMetadataQuery
  rw [C19_mdquery]
  exact collect_group_perm _ _ _

/-- membership form of `C19_rawquery_metadata`: nothing is invented, nothing valid is dropped -/
theorem C19_rawquery_metadata_mem (param raw k' v : Bytes) :
    v ∈ mdLookup (rawMetadataQuery param raw).md k' ↔
      ∃ p ∈ queryPairs raw, isMetaKey (if param.isEmpty then defaultParam else param) p.1 = true ∧
        isValidMetadataKey (mdKeyOf (if param.isEmpty then defaultParam else param) p.1) = true ∧
        lower (mdKeyOf (if param.isEmpty then defaultParam else param) p.1) = k' ∧
        isValidMetadataValue p.2 = true ∧ p.2 = v := by
  rw [(C19_rawquery_metadata param raw k').mem_iff]
  generalize (if param.isEmpty = true then defaultParam else param) = P
  unfold rawCollect
  simp only [List.mem_filterMap]
  constructor
  · rintro ⟨p, hp, h⟩
    refine ⟨p, hp, ?_⟩
    by_cases hc : (isMetaKey P p.1 && isValidMetadataKey (mdKeyOf P p.1) && lower (mdKeyOf P p.1) == k' && isValidMetadataValue p.2) = true
    · rw [if_pos hc] at h
      simp only [Bool.and_eq_true, beq_iff_eq] at hc
      simp only [Option.some.injEq] at h
      exact ⟨hc.1.1.1, hc.1.1.2, hc.1.2, hc.2, h⟩
    · rw [if_neg hc] at h; cases h
  · rintro ⟨p, hp, h1, h2, h3, h4, h5⟩
    refine ⟨p, hp, ?_⟩
    have hc : (isMetaKey P p.1 && isValidMetadataKey (mdKeyOf P p.1) && lower (mdKeyOf P p.1) == k' && isValidMetadataValue p.2) = true := by
      simp [h1, h2, h3, h4]
    rw [if_pos hc, h5]

/-- FOR EVERY RAW QUERY STRING: the parameters left for the router / the message binding contain NO metadata entry
    (valid or not), and every other key keeps all its values in raw-query order (duplicates included). -/
theorem C19_rawquery_remaining (param raw k : Bytes) :
    mdLookup (rawMetadataQuery param raw).query k =
      if isMetaKey (if param.isEmpty then defaultParam else param) k then []
      else valuesOf k (queryPairs raw) := by
  unfold rawMetadataQuery parseMetadataQuery
  simp only
  rw [lookup_filter_notmeta, C19_urlquery_values]

/-- end to end on the WebSocket entry, over the raw query and the header map: what the forwarder is handed under a
    key = the raw query's valid metadata values (any order among spellings) followed by the header values -/
theorem C19_rawquery_joined (param raw : Bytes) (hdr : MD) (k' : Bytes) :
    (GB.C07.MD.lookup (wsIncoming param (urlQuery raw) hdr) k').Perm
      (rawCollect (if param.isEmpty then defaultParam else param) k' (queryPairs raw) ++
        GB.C07.MD.lookup (GB.C07.headersToMD hdr) k') := by
  rw [C19_mdquery_joined]
  exact List.Perm.append_right _ (collect_group_perm _ _ _)

/-- `url.QueryUnescape (url.QueryEscape s) = s` for every byte string: the rewritten `RawQuery`
    (`modified.Encode()`) gives the router back exactly the keys and values that were kept -/
theorem C19_unescape_escape (s : Bytes) : unescape (escape s) = some s := unescape_escape s

/-- a component without '%' and '+' is taken literally, whatever other bytes it has (`[`, `]`, NUL, UTF-8, …) -/
theorem C19_unescape_plain (s : Bytes) (h1 : (37 : UInt8) ∉ s) (h2 : (43 : UInt8) ∉ s) : unescape s = some s :=
  unescape_plain s h1 h2

/-- kernel-checked instance with every irregularity at once:
    `a=1&&b=%zz&c;d=2&e=+%41&=x&f&_metadata[X-A]=v%201&%5Fmetadata%5bx-a%5D=w&_metadata[x-a]=%7f&_metadata[x%20]=u&g=%4`
    — empty segment, malformed escapes (`%zz`, truncated `%4`) and the ';' segment skipped, '+' ↦ space, empty key,
    key without '=', an escaped spelling of the metadata key; metadata `x-a = [v 1, w]` (0x7F and the key `x ` dropped),
    and the four metadata entries all gone from what is left. -/
theorem C19_rawquery_example :
    let raw : Bytes := [97,61,49,38,38,98,61,37,122,122,38,99,59,100,61,50,38,101,61,43,37,52,49,38,61,120,38,102,38,95,109,101,116,97,100,97,116,97,91,88,45,65,93,61,118,37,50,48,49,38,37,53,70,109,101,116,97,100,97,116,97,37,53,98,120,45,97,37,53,68,61,119,38,95,109,101,116,97,100,97,116,97,91,120,45,97,93,61,37,55,102,38,95,109,101,116,97,100,97,116,97,91,120,37,50,48,93,61,117,38,103,61,37,52]
    queryPairs raw =
      [([97], [49]), ([101], [32,65]), ([], [120]), ([102], []),
       ([95,109,101,116,97,100,97,116,97,91,88,45,65,93], [118,32,49]),
       ([95,109,101,116,97,100,97,116,97,91,120,45,97,93], [119]),
       ([95,109,101,116,97,100,97,116,97,91,120,45,97,93], [127]),
       ([95,109,101,116,97,100,97,116,97,91,120,32,93], [117])] ∧
    (rawMetadataQuery [] raw).md = [([120,45,97], [[118,32,49], [119]])] ∧
    (rawMetadataQuery [] raw).query = [([97], [[49]]), ([101], [[32,65]]), ([], [[120]]), ([102], [[]])] := by
  decide

/-! ## Round 5b — dispatch over the RAW header bytes (GB/C19/Wire.lean)

  `dispatchRaw hs` = the model of the code path (`GB.C07.serverHeader`: textproto.ReadMIMEHeader + net/http's checks + the
  map `r.Header`, then `dispatch` reading `Values`/`Get` of the map); `dispatchWire hs` = the token-list specification applied
  to the header LINES of `hs`. -/

/-- **Dispatch on the wire.**  For EVERY byte string `hs` sent as a header block: the server layer answers 400 exactly when
    the line-level specification has no lines to judge, and otherwise the bridge selected by `WebBridge.ServeHTTP` from the
    map `r.Header` is the bridge the token-list rule selects from the lines of `hs` (names canonicalised, wire order,
    comma-split, OWS-trimmed, ASCII case-insensitive). -/
theorem C19_dispatch_wire (hs : Bytes) : dispatchRaw hs = dispatchWire hs := by
  unfold dispatchRaw dispatchWire GB.C07.serverHeader
  cases GB.C07.serverPairs hs with
  | none => rfl
  | some ps => simp only [Option.map_some]; rw [dispatch_wire_pairs]

/-- … in the form of the task statement: whenever the server layer accepts (`serverHeader hs = some H`), the lines `ps` it
    read exist and `dispatch` of the request's header map = the wire specification of those lines. -/
theorem C19_dispatch_wire_accepted (hs : Bytes) (H : MD) (h : GB.C07.serverHeader hs = some H) :
    ∃ ps, GB.C07.serverPairs hs = some ps ∧ GB.C07.readPairs (GB.C07.wireLines hs) = some ps ∧
      dispatch (hdrsOfMap H) = wireDispatch ps := by
  unfold GB.C07.serverHeader at h
  cases hp : GB.C07.serverPairs hs with
  | none => rw [hp] at h; simp at h
  | some ps =>
    rw [hp] at h
    simp only [Option.map_some, Option.some.injEq] at h
    subst h
    refine ⟨ps, rfl, ?_, dispatch_wire_pairs ps⟩
    unfold GB.C07.serverPairs at hp
    split at hp
    · simp at hp
    · rename_i ps' hr
      split at hp
      · simp only [Option.some.injEq] at hp; subst hp; exact hr
      · simp at hp

/-- The wire specification in RFC 7230 terms: the request is an upgrade (either WebSocket bridge) iff the `Connection` LINES
    of the block hold the `upgrade` token and the `Upgrade` lines the `websocket` token (`HasToken`: declarative list grammar). -/
theorem C19_dispatch_wire_ws (ps : List (Bytes × Bytes)) :
    (wireDispatch ps = .ws ∨ wireDispatch ps = .grpcws) ↔
      HasToken (wireLinesOf kConnection ps) tokUpgrade ∧ HasToken (wireLinesOf kUpgrade ps) tokWebsocket := by
  rw [← dispatch_wire_pairs, hdrs_of_serverPairs]
  exact C19_ws _

theorem C19_dispatch_wire_grpcws (ps : List (Bytes × Bytes)) :
    wireDispatch ps = .grpcws ↔
      (HasToken (wireLinesOf kConnection ps) tokUpgrade ∧ HasToken (wireLinesOf kUpgrade ps) tokWebsocket) ∧
        HasToken (wireLinesOf kProtocol ps) tokGrpcWS := by
  rw [← dispatch_wire_pairs, hdrs_of_serverPairs]
  exact C19_grpcws _

theorem C19_dispatch_wire_grpcweb (ps : List (Bytes × Bytes)) :
    wireDispatch ps = .grpcweb ↔
      ¬ (HasToken (wireLinesOf kConnection ps) tokUpgrade ∧ HasToken (wireLinesOf kUpgrade ps) tokWebsocket) ∧
        BeginsWithFold (first (wireLinesOf kContentType ps)) grpcWebBase := by
  rw [← dispatch_wire_pairs, hdrs_of_serverPairs]
  exact C19_grpcweb _

/-- **Continuation lines.**  The value of a folded header is read off the JOINED logical line (first line and every
    continuation `trim`med, joined by one SP): name = what precedes its first ':', value = the rest without leading OWS.  So a
    continuation completes (`keep-alive,` + ` Upgrade`) or breaks (`up` + ` grade` = `up grade`) a token exactly as the joined
    line reads. -/
theorem C19_wire_continuation_joined (first : Bytes) (conts : List Bytes) (k v : Bytes)
    (h : GB.C07.parseLogical (first :: conts) = some (k, v)) :
    k = (GB.C07.cutColon (GB.C07.trimB first ++ conts.flatMap (fun c => 32 :: GB.C07.trimB c))).1 ∧
    v = GB.C07.trimL (GB.C07.cutColon (GB.C07.trimB first ++ conts.flatMap (fun c => 32 :: GB.C07.trimB c))).2 := by
  simp only [GB.C07.parseLogical] at h
  split at h
  · simp at h
  · split at h
    · simp at h
    · split at h
      · simp at h
      · simp only [Option.some.injEq, Prod.mk.injEq] at h
        exact ⟨h.1.symm, h.2.symm⟩

/-- **A header name with a space is a 400, never a dispatch.**  textproto lets `Connection : upgrade` through (key
    `Connection `), net/http's `ValidHeaderFieldName` does not: whenever any line read from `hs` has a SP in its name the
    server layer rejects the block and no bridge runs. -/
theorem C19_wire_name_space_rejected (hs : Bytes) (ps : List (Bytes × Bytes))
    (h : GB.C07.readPairs (GB.C07.wireLines hs) = some ps) (p : Bytes × Bytes) (hp : p ∈ ps) (hsp : (32 : UInt8) ∈ p.1) :
    GB.C07.serverHeader hs = none ∧ dispatchRaw hs = none ∧ dispatchWire hs = none := by
  have hn : GB.C07.serverPairs hs = none := by
    cases hs' : GB.C07.serverPairs hs with
    | none => rfl
    | some ps' =>
      exfalso
      have hps : ps' = ps := by
        unfold GB.C07.serverPairs at hs'
        rw [h] at hs'
        simp only at hs'
        split at hs'
        · simp only [Option.some.injEq] at hs'; exact hs'.symm
        · simp at hs'
      subst hps
      have := serverPairs_names_tok hs ps' hs' p hp
      have h32 := List.all_eq_true.1 this 32 hsp
      exact absurd h32 (by decide)
  have h1 : GB.C07.serverHeader hs = none := by unfold GB.C07.serverHeader; rw [hn]; rfl
  exact ⟨h1, by unfold dispatchRaw; rw [h1]; rfl, by unfold dispatchWire; rw [hn]; rfl⟩

/-- … and conversely every name of an accepted block is made of token bytes only. -/
theorem C19_wire_names_tokens (hs : Bytes) (ps : List (Bytes × Bytes)) (h : GB.C07.serverPairs hs = some ps) :
    ∀ p ∈ ps, p.1.all GB.C07.validTok = true := serverPairs_names_tok hs ps h

/-- **Header-name case is irrelevant.**  Two (token) names equal up to ASCII case have the same canonical form … -/
theorem C19_wire_name_canon_case (k k' : Bytes) (h : k.all GB.C07.validTok = true) (he : equalFold k k' = true) :
    GB.C07.canonKey k = GB.C07.canonKey k' := by
  apply canonKey_caseEq k k' h
  unfold equalFold at he
  simp only [Bool.and_eq_true, beq_iff_eq] at he
  exact he.2

/-- … and the wire specification depends on the names through their canonical form only: re-spelling any names of a block
    (same values, same order) never changes the bridge. -/
theorem C19_wire_name_case (ps ps' : List (Bytes × Bytes)) (h : SameLines ps ps') : wireDispatch ps = wireDispatch ps' :=
  wireDispatch_same ps ps' h

/-! Kernel-checked header blocks (`decide`), bytes exactly as on the wire. -/

set_option maxRecDepth 1000000 in
/-- `Connection: keep-alive` / `Upgrade: websocket` / `connection: x, Upgrade` — the token is on the SECOND Connection line,
    spelled with another name case ⇒ WebSocket -/
theorem C19_wire_example_split_lines :
    dispatchRaw [72,111,115,116,58,32,97,13,10,67,111,110,110,101,99,116,105,111,110,58,32,107,101,101,112,45,97,108,105,118,101,13,10,85,112,103,114,97,100,101,58,32,119,101,98,115,111,99,107,101,116,13,10,99,111,110,110,101,99,116,105,111,110,58,32,120,44,32,85,112,103,114,97,100,101,13,10,13,10] = some .ws := by decide

set_option maxRecDepth 1000000 in
/-- `Connection: keep-alive,\r\n Upgrade` — the continuation line completes the list ⇒ WebSocket; the same bytes without
    the leading SP (`Connection: keep-alive,\r\nUpgrade: websocket`) are two headers ⇒ plain HTTP -/
theorem C19_wire_example_continuation_completes :
    dispatchRaw [72,111,115,116,58,32,97,13,10,67,111,110,110,101,99,116,105,111,110,58,32,107,101,101,112,45,97,108,105,118,101,44,13,10,32,85,112,103,114,97,100,101,13,10,85,112,103,114,97,100,101,58,32,119,101,98,115,111,99,107,101,116,13,10,13,10] = some .ws ∧
    dispatchRaw [72,111,115,116,58,32,97,13,10,67,111,110,110,101,99,116,105,111,110,58,32,107,101,101,112,45,97,108,105,118,101,44,13,10,85,112,103,114,97,100,101,58,32,119,101,98,115,111,99,107,101,116,13,10,13,10] = some .http := by decide

set_option maxRecDepth 1000000 in
/-- `Connection: up\r\n grade` — joined `up grade`: not the token ⇒ plain HTTP -/
theorem C19_wire_example_continuation_breaks :
    dispatchRaw [72,111,115,116,58,32,97,13,10,67,111,110,110,101,99,116,105,111,110,58,32,117,112,13,10,32,103,114,97,100,101,13,10,85,112,103,114,97,100,101,58,32,119,101,98,115,111,99,107,101,116,13,10,13,10] = some .http := by decide

set_option maxRecDepth 1000000 in
/-- `cOnNeCtIoN: UPGRADE` / `UPGRADE: h2c,<TAB>WebSocket ` / `sec-websocket-PROTOCOL: x` / `SEC-WEBSOCKET-protocol: y , Grpc-WebSockets`
    ⇒ gRPC-WebSocket; `content-TYPE: Application/GRPC-Web+proto; x=1` before `Content-type: text/plain` ⇒ gRPC-Web -/
theorem C19_wire_example_mixed_case_names :
    dispatchRaw [72,111,115,116,58,32,97,13,10,99,79,110,78,101,67,116,73,111,78,58,32,85,80,71,82,65,68,69,13,10,85,80,71,82,65,68,69,58,32,104,50,99,44,9,87,101,98,83,111,99,107,101,116,32,13,10,115,101,99,45,119,101,98,115,111,99,107,101,116,45,80,82,79,84,79,67,79,76,58,32,120,13,10,83,69,67,45,87,69,66,83,79,67,75,69,84,45,112,114,111,116,111,99,111,108,58,32,121,32,44,32,71,114,112,99,45,87,101,98,83,111,99,107,101,116,115,13,10,13,10] = some .grpcws ∧
    dispatchRaw [72,111,115,116,58,32,97,13,10,99,111,110,116,101,110,116,45,84,89,80,69,58,32,65,112,112,108,105,99,97,116,105,111,110,47,71,82,80,67,45,87,101,98,43,112,114,111,116,111,59,32,120,61,49,13,10,67,111,110,116,101,110,116,45,116,121,112,101,58,32,116,101,120,116,47,112,108,97,105,110,13,10,13,10] = some .grpcweb := by decide

set_option maxRecDepth 1000000 in
/-- `Connection : upgrade` (SP before the colon) ⇒ 400, no bridge -/
theorem C19_wire_example_name_space :
    dispatchRaw [72,111,115,116,58,32,97,13,10,67,111,110,110,101,99,116,105,111,110,32,58,32,117,112,103,114,97,100,101,13,10,85,112,103,114,97,100,101,58,32,119,101,98,115,111,99,107,101,116,13,10,13,10] = none := by decide

/-! ### Round 7 (w7c19): obs-fold — a FOLDED block and its UNFOLDED rewrite (`GB/C19/Unfold.lean`)

  Full statement (NOT proved in general; the parser-level half — `serverPairs hs = some ps → ∃ ps', serverPairs (unfold hs) = some ps' ∧
  TrailLines ps ps'` — and the Content-Type clause are missing):
      theorem C19_dispatch_unfold (hs : Bytes) (h : GB.C07.serverPairs hs ≠ none) :
          dispatchWire hs = dispatchWire (unfold hs) ∧ dispatchRaw hs = dispatchRaw (unfold hs)
-/

/-- PARTIAL (dispatch half of `C19_dispatch_unfold`): lines with the same names whose values differ only by TRAILING OWS — what the
    unfolded rewrite of a folded block with all-blank trailing continuation lines gives (textproto trims the single line, the joined
    logical line keeps the SP) — have the same token lists, hence the same Connection / Upgrade / Sec-WebSocket-Protocol tests, and the
    same bridge whenever the Content-Type prefix test agrees -/
theorem C19_dispatch_unfold_partial (ps ps' : List (Bytes × Bytes)) (h : TrailLines ps ps') :
    (∀ K t, wireHasToken K ps t = wireHasToken K ps' t) ∧
    (isGRPCWebContentType (first (wireLinesOf kContentType ps)) = isGRPCWebContentType (first (wireLinesOf kContentType ps')) →
      wireDispatch ps = wireDispatch ps') := by
  refine ⟨fun K t => wireHasToken_trail K ps ps' t h, fun hct => ?_⟩
  unfold wireDispatch
  simp only [wireHasToken_trail _ ps ps' _ h, hct]

/-- element level: `strings.Split(v, ",")` + `strings.Trim(e, " \t")` do not see trailing OWS of the line -/
theorem C19_unfold_elems_trailing_ows (v w : Bytes) (h : w.all isOWS = true) :
    (splitComma (v ++ w)).map trimOWS = (splitComma v).map trimOWS := splitComma_trail v w h

set_option maxRecDepth 1000000 in
/-- `Connection: keep-alive,\r\n Upgrade\r\nUpgrade: websocket\r\n \t \r\n` (all-blank trailing continuation line): `unfold` gives
    `Connection: keep-alive, Upgrade\r\nUpgrade: websocket \r\n`, both blocks ⇒ WebSocket, model and spec -/
theorem C19_unfold_example_blank_trailing :
    unfold [72,111,115,116,58,32,97,13,10,67,111,110,110,101,99,116,105,111,110,58,32,107,101,101,112,45,97,108,105,118,101,44,13,10,32,85,112,103,114,97,100,101,13,10,85,112,103,114,97,100,101,58,32,119,101,98,115,111,99,107,101,116,13,10,32,9,32,13,10,13,10] = [72,111,115,116,58,32,97,13,10,67,111,110,110,101,99,116,105,111,110,58,32,107,101,101,112,45,97,108,105,118,101,44,32,85,112,103,114,97,100,101,13,10,85,112,103,114,97,100,101,58,32,119,101,98,115,111,99,107,101,116,32,13,10,13,10] ∧
    dispatchWire [72,111,115,116,58,32,97,13,10,67,111,110,110,101,99,116,105,111,110,58,32,107,101,101,112,45,97,108,105,118,101,44,13,10,32,85,112,103,114,97,100,101,13,10,85,112,103,114,97,100,101,58,32,119,101,98,115,111,99,107,101,116,13,10,32,9,32,13,10,13,10] = some .ws ∧ dispatchWire (unfold [72,111,115,116,58,32,97,13,10,67,111,110,110,101,99,116,105,111,110,58,32,107,101,101,112,45,97,108,105,118,101,44,13,10,32,85,112,103,114,97,100,101,13,10,85,112,103,114,97,100,101,58,32,119,101,98,115,111,99,107,101,116,13,10,32,9,32,13,10,13,10]) = some .ws ∧
    dispatchRaw [72,111,115,116,58,32,97,13,10,67,111,110,110,101,99,116,105,111,110,58,32,107,101,101,112,45,97,108,105,118,101,44,13,10,32,85,112,103,114,97,100,101,13,10,85,112,103,114,97,100,101,58,32,119,101,98,115,111,99,107,101,116,13,10,32,9,32,13,10,13,10] = dispatchRaw (unfold [72,111,115,116,58,32,97,13,10,67,111,110,110,101,99,116,105,111,110,58,32,107,101,101,112,45,97,108,105,118,101,44,13,10,32,85,112,103,114,97,100,101,13,10,85,112,103,114,97,100,101,58,32,119,101,98,115,111,99,107,101,116,13,10,32,9,32,13,10,13,10]) := by decide

set_option maxRecDepth 1000000 in
/-- `Content-Type: application/grpc-web\r\n \r\n` ⇒ gRPC-Web folded and unfolded; `Connection: up\r\n grade` ⇒ HTTP both;
    HTAB fold + two-SP fold + blank trailing fold on Sec-WebSocket-Protocol ⇒ gRPC-WebSocket both -/
theorem C19_unfold_example_kinds :
    dispatchWire [72,111,115,116,58,32,97,13,10,67,111,110,116,101,110,116,45,84,121,112,101,58,32,97,112,112,108,105,99,97,116,105,111,110,47,103,114,112,99,45,119,101,98,13,10,32,13,10,13,10] = some .grpcweb ∧ dispatchWire (unfold [72,111,115,116,58,32,97,13,10,67,111,110,116,101,110,116,45,84,121,112,101,58,32,97,112,112,108,105,99,97,116,105,111,110,47,103,114,112,99,45,119,101,98,13,10,32,13,10,13,10]) = some .grpcweb ∧
    dispatchWire [72,111,115,116,58,32,97,13,10,67,111,110,110,101,99,116,105,111,110,58,32,117,112,13,10,32,103,114,97,100,101,13,10,85,112,103,114,97,100,101,58,32,119,101,98,115,111,99,107,101,116,13,10,13,10] = some .http ∧ dispatchWire (unfold [72,111,115,116,58,32,97,13,10,67,111,110,110,101,99,116,105,111,110,58,32,117,112,13,10,32,103,114,97,100,101,13,10,85,112,103,114,97,100,101,58,32,119,101,98,115,111,99,107,101,116,13,10,13,10]) = some .http ∧
    dispatchWire [72,111,115,116,58,32,97,13,10,67,111,110,110,101,99,116,105,111,110,58,32,85,112,103,114,97,100,101,13,10,85,112,103,114,97,100,101,58,13,10,9,119,101,98,115,111,99,107,101,116,13,10,83,101,99,45,87,101,98,83,111,99,107,101,116,45,80,114,111,116,111,99,111,108,58,32,120,44,13,10,32,32,103,114,112,99,45,119,101,98,115,111,99,107,101,116,115,32,32,13,10,32,13,10,13,10] = some .grpcws ∧ dispatchWire (unfold [72,111,115,116,58,32,97,13,10,67,111,110,110,101,99,116,105,111,110,58,32,85,112,103,114,97,100,101,13,10,85,112,103,114,97,100,101,58,13,10,9,119,101,98,115,111,99,107,101,116,13,10,83,101,99,45,87,101,98,83,111,99,107,101,116,45,80,114,111,116,111,99,111,108,58,32,120,44,13,10,32,32,103,114,112,99,45,119,101,98,115,111,99,107,101,116,115,32,32,13,10,32,13,10,13,10]) = some .grpcws ∧
    dispatchRaw [72,111,115,116,58,32,97,13,10,67,111,110,110,101,99,116,105,111,110,58,32,85,112,103,114,97,100,101,13,10,85,112,103,114,97,100,101,58,13,10,9,119,101,98,115,111,99,107,101,116,13,10,83,101,99,45,87,101,98,83,111,99,107,101,116,45,80,114,111,116,111,99,111,108,58,32,120,44,13,10,32,32,103,114,112,99,45,119,101,98,115,111,99,107,101,116,115,32,32,13,10,32,13,10,13,10] = dispatchRaw (unfold [72,111,115,116,58,32,97,13,10,67,111,110,110,101,99,116,105,111,110,58,32,85,112,103,114,97,100,101,13,10,85,112,103,114,97,100,101,58,13,10,9,119,101,98,115,111,99,107,101,116,13,10,83,101,99,45,87,101,98,83,111,99,107,101,116,45,80,114,111,116,111,99,111,108,58,32,120,44,13,10,32,32,103,114,112,99,45,119,101,98,115,111,99,107,101,116,115,32,32,13,10,32,13,10,13,10]) := by decide
