import GB.Base.Bytes
/-
  C19 — executable model of
    * `WebBridge.ServeHTTP` (bridge.go) — the header tests that select one of four bridges, as coded
      after fix D18 (`headerHasToken`, `isGRPCWebContentType`), and as coded before (kept as
      `dispatchPreFix` to state what was wrong);
    * `parseMetadataQuery`, `isValidMetadataKey`, `isValidMetadataValue` (webbridge/webbridge.go).
  Header values are the lists `r.Header.Values(name)` (one element per header line, in order).
  The query is the multimap `r.URL.Query()` (`url.Values`): an association list with distinct keys.
-/
namespace GB.C19
open GB

def lowerB (b : UInt8) : UInt8 := if 65 ≤ b ∧ b ≤ 90 then b + 32 else b
def lower (s : Bytes) : Bytes := s.map lowerB
/-- `internal/ascii.EqualFold` -/
def equalFold (s t : Bytes) : Bool := s.length == t.length && lower s == lower t

/-- `strings.Split(line, ",")` -/
def splitComma : Bytes → List Bytes
  | [] => [[]]
  | c :: r =>
    if c == 44 then [] :: splitComma r
    else match splitComma r with
      | [] => [[c]]
      | e :: es => (c :: e) :: es

def isOWS (c : UInt8) : Bool := c == 32 || c == 9

def trimLeft : Bytes → Bytes
  | [] => []
  | c :: r => if isOWS c then trimLeft r else c :: r

/-- `strings.Trim(s, " \t")` -/
def trimOWS (s : Bytes) : Bytes := (trimLeft (trimLeft s).reverse).reverse

/-- bridge.go `headerHasToken(h, name, token)` over `h.Values(name)` -/
def headerHasToken (lines : List Bytes) (token : Bytes) : Bool :=
  lines.any (fun line => (splitComma line).any (fun e => equalFold (trimOWS e) token))

def grpcWebBase : Bytes := [97,112,112,108,105,99,97,116,105,111,110,47,103,114,112,99,45,119,101,98] -- "application/grpc-web"
def tokUpgrade : Bytes := [117,112,103,114,97,100,101]
def tokWebsocket : Bytes := [119,101,98,115,111,99,107,101,116]
def tokGrpcWS : Bytes := [103,114,112,99,45,119,101,98,115,111,99,107,101,116,115] -- "grpc-websockets"

/-- `strings.Cut(ct, ";")` before-part (used by the specification: the media type) -/
def cutSemi : Bytes → Bytes
  | [] => []
  | c :: r => if c == 59 then [] else c :: cutSemi r

/-- bridge.go `isGRPCWebContentType(r.Header.Get("Content-Type"))`:
    `len(ct) >= len(grpcWeb) && ascii.EqualFold(ct[:len(grpcWeb)], grpcWeb)` -/
def isGRPCWebContentType (ct : Bytes) : Bool :=
  ct.length ≥ grpcWebBase.length && equalFold (ct.take grpcWebBase.length) grpcWebBase

inductive Bridge | http | ws | grpcweb | grpcws
deriving Repr, DecidableEq

structure Hdrs where
  connection : List Bytes := []
  upgrade : List Bytes := []
  protocol : List Bytes := []       -- Sec-WebSocket-Protocol
  contentType : List Bytes := []
deriving Repr

/-- `h.Get(name)`: first value or "" -/
def first (vs : List Bytes) : Bytes := match vs with | [] => [] | v :: _ => v

/-- `WebBridge.ServeHTTP` -/
def dispatch (h : Hdrs) : Bridge :=
  if headerHasToken h.connection tokUpgrade && headerHasToken h.upgrade tokWebsocket then
    if headerHasToken h.protocol tokGrpcWS then .grpcws else .ws
  else if isGRPCWebContentType (first h.contentType) then .grpcweb
  else .http

def hasPrefix (s p : Bytes) : Bool := s.take p.length == p

/-- the code before fix D18: whole first value compared, exact membership among header lines, byte prefix -/
def dispatchPreFix (h : Hdrs) : Bridge :=
  if equalFold (first h.connection) tokUpgrade && equalFold (first h.upgrade) tokWebsocket then
    if h.protocol.contains tokGrpcWS then .grpcws else .ws
  else if hasPrefix (first h.contentType) grpcWebBase then .grpcweb
  else .http

/-! ### parseMetadataQuery -/

abbrev Values := List (Bytes × List Bytes)

def isValidKeyByte (ch : UInt8) : Bool :=
  (97 ≤ ch && ch ≤ 122) || (65 ≤ ch && ch ≤ 90) || (48 ≤ ch && ch ≤ 57) || ch == 95 || ch == 45 || ch == 46

def isValidMetadataKey (k : Bytes) : Bool := k.all isValidKeyByte
def isValidMetadataValue (v : Bytes) : Bool := v.all (fun ch => !(ch < 0x20 || ch > 0x7E))

def defaultParam : Bytes := [95,109,101,116,97,100,97,116,97] -- "_metadata"

def hasSuffix (s p : Bytes) : Bool := s.drop (s.length - p.length) == p && p.length ≤ s.length

/-- `strings.HasPrefix(k, param+"[") && strings.HasSuffix(k, "]")` -/
def isMetaKey (param k : Bytes) : Bool := hasPrefix k (param ++ [91]) && hasSuffix k [93]

/-- `k[len(param)+1 : len(k)-1]` -/
def mdKeyOf (param k : Bytes) : Bytes := (k.drop (param.length + 1)).take (k.length - 1 - (param.length + 1))

abbrev MD := List (Bytes × List Bytes)

def mdLookup : MD → Bytes → List Bytes
  | [], _ => []
  | (k', v) :: rest, k => if k' == k then v else mdLookup rest k

def mdPut : MD → Bytes → List Bytes → MD
  | [], k, v => [(k, v)]
  | (k', v') :: rest, k, v => if k' == k then (k, v) :: rest else (k', v') :: mdPut rest k v

/-- `md.Append(k, v)` -/
def mdAppend1 (md : MD) (k v : Bytes) : MD := mdPut md (lower k) (mdLookup md (lower k) ++ [v])

/-- the loop body for one `(k, vals)` of the query map -/
def mdStep (param : Bytes) (md : MD) (e : Bytes × List Bytes) : MD :=
  if !isMetaKey param e.1 then md
  else if !isValidMetadataKey (mdKeyOf param e.1) then md
  else (e.2.filter isValidMetadataValue).foldl (fun m v => mdAppend1 m (mdKeyOf param e.1) v) md

structure MQ where
  md : MD
  query : Values          -- the parameters left for binding
  modified : Bool         -- RawQuery was rewritten
deriving Repr

/-- `parseMetadataQuery(r, param)`; the map is iterated in the order of the list `q`. -/
def parseMetadataQuery (param0 : Bytes) (q : Values) : MQ :=
  let param := if param0.isEmpty then defaultParam else param0
  { md := q.foldl (mdStep param) []
    query := q.filter (fun e => !isMetaKey param e.1)
    modified := q.any (fun e => isMetaKey param e.1) }

end GB.C19
