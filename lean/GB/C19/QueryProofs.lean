import GB.C19.Query
import GB.C19.Proofs
/-
  C19 — lemmas about the net/url layer (`GB/C19/Query.lean`).
-/
set_option linter.unusedSimpArgs false
set_option linter.unusedVariables false
namespace GB.C19
open GB

theorem lookup_addValue (m : Values) (p : Bytes × Bytes) (k : Bytes) :
    mdLookup (addValue m p) k = if k = p.1 then mdLookup m k ++ [p.2] else mdLookup m k := by
  unfold addValue
  rw [lookup_put]
  by_cases h : k = p.1
  · subst h; simp
  · simp [h]

theorem valuesOf_cons (k : Bytes) (p : Bytes × Bytes) (ps : List (Bytes × Bytes)) :
    valuesOf k (p :: ps) = (if k = p.1 then [p.2] else []) ++ valuesOf k ps := by
  unfold valuesOf
  by_cases h : k = p.1
  · subst h; simp [List.filterMap_cons]
  · have h' : ¬ p.1 = k := fun hh => h hh.symm
    simp [List.filterMap_cons, h', h]

theorem lookup_foldl_addValue (ps : List (Bytes × Bytes)) (m : Values) (k : Bytes) :
    mdLookup (ps.foldl addValue m) k = mdLookup m k ++ valuesOf k ps := by
  induction ps generalizing m with
  | nil => simp [valuesOf]
  | cons p ps ih =>
    simp only [List.foldl_cons]
    rw [ih, lookup_addValue, valuesOf_cons]
    by_cases h : k = p.1
    · simp [h]
    · simp [h]

/-- contribution of a multimap to "the values selected by `f` on keys and `g` on values" -/
def sel (f : Bytes → Bool) (g : Bytes → Bool) (m : Values) : List Bytes :=
  m.flatMap (fun e => if f e.1 then e.2.filter g else [])

theorem sel_cons (f g) (e : Bytes × List Bytes) (m : Values) :
    sel f g (e :: m) = (if f e.1 then e.2.filter g else []) ++ sel f g m := by
  simp [sel]

theorem sel_put (f g) (m : Values) (k x : Bytes) :
    (sel f g (mdPut m k (mdLookup m k ++ [x]))).Perm (sel f g m ++ (if f k && g x then [x] else [])) := by
  induction m with
  | nil =>
    simp only [mdLookup, mdPut, List.nil_append, sel_cons]
    cases hf : f k <;> cases hg : g x <;> simp [sel, List.filter, hg]
  | cons e rest ih =>
    obtain ⟨k0, v0⟩ := e
    by_cases h0 : k0 = k
    · subst h0
      simp only [mdLookup, mdPut, beq_self_eq_true, ↓reduceIte, sel_cons]
      cases hf : f k0
      · simp
      · simp only [↓reduceIte, List.filter_append, Bool.true_and]
        have hx : List.filter g [x] = if g x then [x] else [] := by
          cases hg : g x <;> simp [List.filter, hg]
        rw [hx, List.append_assoc, List.append_assoc]
        exact List.Perm.append_left _ List.perm_append_comm
    · have hne : (k0 == k) = false := by simp [h0]
      simp only [mdLookup, mdPut, hne, Bool.false_eq_true, ↓reduceIte, sel_cons]
      rw [List.append_assoc]
      exact List.Perm.append_left _ ih

theorem sel_foldl (f g) (ps : List (Bytes × Bytes)) (m : Values) :
    (sel f g (ps.foldl addValue m)).Perm
      (sel f g m ++ ps.filterMap (fun p => if f p.1 && g p.2 then some p.2 else none)) := by
  induction ps generalizing m with
  | nil => simp
  | cons p ps ih =>
    simp only [List.foldl_cons]
    refine (ih (addValue m p)).trans ?_
    have h1 := sel_put f g m p.1 p.2
    have hc : List.filterMap (fun p => if f p.1 && g p.2 then some p.2 else none) (p :: ps) =
        (if f p.1 && g p.2 then [p.2] else []) ++ ps.filterMap (fun p => if f p.1 && g p.2 then some p.2 else none) := by
      cases hf : f p.1 <;> cases hg : g p.2 <;> simp [List.filterMap_cons, hf, hg]
    rw [hc, ← List.append_assoc]
    exact List.Perm.append_right _ h1

theorem collect_eq_sel (param k' : Bytes) (q : Values) :
    collect param k' q =
      sel (fun k => isMetaKey param k && isValidMetadataKey (mdKeyOf param k) && lower (mdKeyOf param k) == k')
        isValidMetadataValue q := by
  simp [collect, sel]

theorem collect_group_perm (param k' : Bytes) (ps : List (Bytes × Bytes)) :
    (collect param k' (groupPairs ps)).Perm (rawCollect param k' ps) := by
  rw [collect_eq_sel]
  unfold groupPairs
  have h := sel_foldl (fun k => isMetaKey param k && isValidMetadataKey (mdKeyOf param k) && lower (mdKeyOf param k) == k')
    isValidMetadataValue ps []
  simpa [sel, rawCollect] using h

theorem lookup_filter_notmeta (param k : Bytes) (q : Values) :
    mdLookup (q.filter (fun e => !isMetaKey param e.1)) k = if isMetaKey param k then [] else mdLookup q k := by
  induction q with
  | nil => simp [mdLookup]
  | cons e rest ih =>
    obtain ⟨k0, v0⟩ := e
    by_cases hm : isMetaKey param k0 = true
    · simp only [List.filter_cons, hm, Bool.not_true, Bool.false_eq_true, ↓reduceIte, mdLookup]
      rw [ih]
      by_cases hk : k0 = k
      · subst hk; simp [hm]
      · have : (k0 == k) = false := by simp [hk]
        simp [this]
    · have hm' : isMetaKey param k0 = false := by simpa using hm
      simp only [List.filter_cons, hm', Bool.not_false, ↓reduceIte, mdLookup]
      by_cases hk : k0 = k
      · subst hk; simp [hm']
      · have : (k0 == k) = false := by simp [hk]
        simp only [this, Bool.false_eq_true, ↓reduceIte]
        exact ih

/-! ### unescape / escape -/

theorem unescape_cons_plain (c : UInt8) (r : Bytes) (h : (c == 37) = false) :
    unescape (c :: r) = (unescape r).map (fun t => (if c == 43 then 32 else c) :: t) := by
  cases r with
  | nil => simp [unescape, h]
  | cons a r' => cases r' <;> simp [unescape, h]

theorem unescape_pct (a b : UInt8) (r : Bytes) :
    unescape (37 :: a :: b :: r) =
      if isHex a && isHex b then (unescape r).map (fun t => (unhex a * 16 + unhex b) :: t) else none := by
  rw [unescape]; simp

/-- no '%' and no '+': `QueryUnescape` returns the string itself -/
theorem unescape_plain (s : Bytes) (h1 : (37 : UInt8) ∉ s) (h2 : (43 : UInt8) ∉ s) : unescape s = some s := by
  induction s with
  | nil => simp [unescape]
  | cons c r ih =>
    have hc1 : (c == 37) = false := by
      simp only [beq_eq_false_iff_ne, ne_eq]; intro hh; exact h1 (by simp [hh])
    have hc2 : (c == 43) = false := by
      simp only [beq_eq_false_iff_ne, ne_eq]; intro hh; exact h2 (by simp [hh])
    rw [unescape_cons_plain c r hc1, ih (fun hh => h1 (List.mem_cons_of_mem _ hh)) (fun hh => h2 (List.mem_cons_of_mem _ hh))]
    simp [hc2]

set_option maxRecDepth 100000 in
theorem hex_roundtrip_all : ∀ n, n < 256 →
    (isHex (upperhex (UInt8.ofNat n / 16)) && isHex (upperhex (UInt8.ofNat n % 16)) &&
      (unhex (upperhex (UInt8.ofNat n / 16)) * 16 + unhex (upperhex (UInt8.ofNat n % 16)) == UInt8.ofNat n)) = true := by
  decide

theorem hex_roundtrip (c : UInt8) :
    isHex (upperhex (c / 16)) = true ∧ isHex (upperhex (c % 16)) = true ∧
      unhex (upperhex (c / 16)) * 16 + unhex (upperhex (c % 16)) = c := by
  have h := hex_roundtrip_all c.toNat c.toNat_lt
  simp only [UInt8.ofNat_toNat, Bool.and_eq_true, beq_iff_eq] at h
  exact ⟨h.1.1, h.1.2, h.2⟩

set_option maxRecDepth 100000 in
theorem noescape_plain_all : ∀ n, n < 256 →
    (shouldEscape (UInt8.ofNat n) || (!(UInt8.ofNat n == 37) && !(UInt8.ofNat n == 43) && !(UInt8.ofNat n == 32))) = true := by
  decide

/-- `QueryUnescape(QueryEscape(s)) = s` for every byte string -/
theorem unescape_escape (s : Bytes) : unescape (escape s) = some s := by
  induction s with
  | nil => simp [escape, unescape]
  | cons c r ih =>
    by_cases h32 : c = 32
    · subst h32
      have : escape (32 :: r) = 43 :: escape r := by simp [escape]
      rw [this, unescape_cons_plain 43 _ (by decide), ih]
      simp
    · have h32' : (c == 32) = false := by simp [h32]
      by_cases hs : shouldEscape c = true
      · have : escape (c :: r) = 37 :: upperhex (c / 16) :: upperhex (c % 16) :: escape r := by
          simp [escape, h32', hs]
        obtain ⟨ha, hb, hv⟩ := hex_roundtrip c
        rw [this, unescape_pct, ha, hb, ih]
        simp [hv]
      · have hs' : shouldEscape c = false := by simpa using hs
        have : escape (c :: r) = c :: escape r := by simp [escape, h32', hs']
        have hall := noescape_plain_all c.toNat c.toNat_lt
        simp only [UInt8.ofNat_toNat, hs', Bool.false_or, Bool.and_eq_true, Bool.not_eq_true', beq_eq_false_iff_ne] at hall
        have hc1 : (c == 37) = false := by simp [hall.1.1]
        have hc2 : (c == 43) = false := by simp [hall.1.2]
        rw [this, unescape_cons_plain c _ hc1, ih]
        simp [hc2]

end GB.C19
