import GB.C19.Model
import GB.C07.Wire
/-
  C19 — dispatch over the RAW header bytes as received on the wire (core only: the driver uses it).

    * model  `dispatchRaw hs`  = net/http's server layer (`GB.C07.serverHeader`: textproto.ReadMIMEHeader, the
      ValidHeaderFieldName / Host checks, the map `r.Header`) followed by `WebBridge.ServeHTTP` reading that map;
    * spec   `dispatchWire hs` = the token-list rule applied to the header LINES of `hs`: every line whose name
      canonicalises to Connection / Upgrade / Sec-WebSocket-Protocol / Content-Type, in wire order, comma-split,
      OWS-trimmed, compared ASCII case-insensitively — no map in between.
  `C19_dispatch_wire` (Props.lean): the two are the same function on every byte string.
-/
namespace GB.C19
open GB

def kConnection : Bytes := [67,111,110,110,101,99,116,105,111,110]
def kUpgrade : Bytes := [85,112,103,114,97,100,101]
def kProtocol : Bytes := [83,101,99,45,87,101,98,115,111,99,107,101,116,45,80,114,111,116,111,99,111,108] -- Sec-Websocket-Protocol
def kContentType : Bytes := [67,111,110,116,101,110,116,45,84,121,112,101]

/-- `r.Header` as `WebBridge.ServeHTTP` reads it (`Values` / `Get` of the four canonical names) -/
def hdrsOfMap (H : MD) : Hdrs :=
  { connection := GB.C07.MD.lookup H kConnection
    upgrade := GB.C07.MD.lookup H kUpgrade
    protocol := GB.C07.MD.lookup H kProtocol
    contentType := GB.C07.MD.lookup H kContentType }

/-- MODEL: the server layer, then the bridge; `none` = 400 Bad Request before any handler runs -/
def dispatchRaw (hs : Bytes) : Option Bridge := (GB.C07.serverHeader hs).map (fun H => dispatch (hdrsOfMap H))

/-- the values of the header lines whose name canonicalises to `K`, in wire order -/
def wireLinesOf (K : Bytes) (ps : List (Bytes × Bytes)) : List Bytes :=
  ps.filterMap (fun p => if GB.C07.canonKey p.1 == K then some p.2 else none)

/-- the list elements of header `K`: every such line comma-split, every element OWS-trimmed, in wire order -/
def wireElems (K : Bytes) (ps : List (Bytes × Bytes)) : List Bytes :=
  (wireLinesOf K ps).flatMap (fun v => (splitComma v).map trimOWS)

def wireHasToken (K : Bytes) (ps : List (Bytes × Bytes)) (t : Bytes) : Bool :=
  (wireElems K ps).any (fun e => equalFold e t)

/-- SPEC on the `(name as written, value)` lines of the header block -/
def wireDispatch (ps : List (Bytes × Bytes)) : Bridge :=
  if wireHasToken kConnection ps tokUpgrade && wireHasToken kUpgrade ps tokWebsocket then
    if wireHasToken kProtocol ps tokGrpcWS then .grpcws else .ws
  else if isGRPCWebContentType (first (wireLinesOf kContentType ps)) then .grpcweb
  else .http

/-- SPEC on the raw bytes: the lines the server layer accepts, judged by `wireDispatch` -/
def dispatchWire (hs : Bytes) : Option Bridge := (GB.C07.serverPairs hs).map wireDispatch

end GB.C19
