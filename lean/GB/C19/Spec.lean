import GB.C19.Model
/-
  C19 — specification (declarative, no algorithm).

  RFC 7230 §7 list fields (`Connection`, `Upgrade`, `Sec-WebSocket-Protocol`): a header line IS a
  comma-separated list `e₁,e₂,…,eₙ` (n ≥ 1, no comma inside an element); an element names token `t`
  when it is `t` surrounded by optional whitespace (SP / HTAB), compared ASCII case-insensitively;
  a header has the token when some line of it has such an element.

  Media type: the `Content-Type` value (as delivered by net/http: no leading whitespace) begins,
  ASCII case-insensitively, with `application/grpc-web` — whatever follows (`+proto`, `+json`,
  `; charset=…`, nothing) is the "any suffix or parameters" of the property text.
-/
namespace GB.C19
open GB

/-- `e₁,e₂,…,eₙ` -/
def joinComma : List Bytes → Bytes
  | [] => []
  | [e] => e
  | e :: e' :: es => e ++ 44 :: joinComma (e' :: es)

/-- the element is `t` up to surrounding optional whitespace and ASCII case -/
def NamesToken (e t : Bytes) : Prop :=
  ∃ l tok r, e = l ++ tok ++ r ∧ (∀ c ∈ l, isOWS c = true) ∧ (∀ c ∈ r, isOWS c = true) ∧ equalFold tok t = true

/-- the header (all its lines) contains token `t` -/
def HasToken (lines : List Bytes) (t : Bytes) : Prop :=
  ∃ line ∈ lines, ∃ es : List Bytes, es ≠ [] ∧ (∀ e ∈ es, (44 : UInt8) ∉ e) ∧ line = joinComma es ∧ ∃ e ∈ es, NamesToken e t

/-- two bytes are equal up to ASCII case: identical, or one is `A–Z` and the other the same letter in `a–z` -/
def AsciiCaseEq (c k : UInt8) : Prop :=
  c = k ∨ (65 ≤ c.toNat ∧ c.toNat ≤ 90 ∧ k.toNat = c.toNat + 32) ∨ (65 ≤ k.toNat ∧ k.toNat ≤ 90 ∧ c.toNat = k.toNat + 32)

/-- byte strings equal up to ASCII case, byte for byte -/
def AsciiCaseEqs : Bytes → Bytes → Prop
  | [], [] => True
  | c :: cs, k :: ks => AsciiCaseEq c k ∧ AsciiCaseEqs cs ks
  | _, _ => False

/-- the two UTF-8 sequences Unicode simple case folding maps onto ASCII letters — U+017F (ſ) ↦ `s`,
    U+212A (K) ↦ `k` — replaced by those letters: the part of `strings.EqualFold` that differs from
    `ascii.EqualFold` on otherwise-ASCII input (used only to state what the seeded variant C19-m7 accepts) -/
def foldLookalikes : Bytes → Bytes
  | 0xc5 :: 0xbf :: rest => 115 :: foldLookalikes rest
  | 0xe2 :: 0x84 :: 0xaa :: rest => 107 :: foldLookalikes rest
  | c :: rest => c :: foldLookalikes rest
  | [] => []

def equalFoldUnicode (s t : Bytes) : Bool := equalFold (foldLookalikes s) (foldLookalikes t)

/-- the value begins with `p`, ASCII case-insensitively -/
def BeginsWithFold (v p : Bytes) : Prop := ∃ a rest, v = a ++ rest ∧ equalFold a p = true

def IsUpgrade (h : Hdrs) : Prop := HasToken h.connection tokUpgrade ∧ HasToken h.upgrade tokWebsocket

/-- what becomes metadata under key `k'`: the printable values of the valid `param[k]` entries
    with `lower k = k'`, in query order -/
def collect (param k' : Bytes) (q : Values) : List Bytes :=
  q.flatMap (fun e =>
    if isMetaKey param e.1 && isValidMetadataKey (mdKeyOf param e.1) && lower (mdKeyOf param e.1) == k'
    then e.2.filter isValidMetadataValue else [])

end GB.C19
