import GB.Base.Bytes
/-
  C20 — byte constants and the character-class tests of both path-template parsers
  (internal/httprule/parse.go, internal/httprule/gwbased/parse.go), modelled at byte level.

  Both Go checkers iterate over runes (`for _, r := range t`) while the model iterates over bytes.
  This is exact: every accepted rune is ASCII, and a byte ≥ 0x80 decodes (alone or with its
  continuation bytes) to a rune ≥ U+0080 or to U+FFFD, which every branch rejects, in every state.
-/
namespace GB.C20
open GB

abbrev Tok := Bytes

def cSlash : UInt8 := 47    -- '/'
def cLBrace : UInt8 := 123  -- '{'
def cRBrace : UInt8 := 125  -- '}'
def cDot : UInt8 := 46      -- '.'
def cEq : UInt8 := 61       -- '='
def cColon : UInt8 := 58    -- ':'
def cStar : UInt8 := 42     -- '*'
def cPct : UInt8 := 37      -- '%'
def cUnder : UInt8 := 95    -- '_'

/-- the in-band end-of-input token of both parsers: the Go constant `eof = "\u0000"` -/
def eofTok : Tok := [0]

def isUpper (c : UInt8) : Bool := 65 ≤ c && c ≤ 90
def isLower (c : UInt8) : Bool := 97 ≤ c && c ≤ 122
def isAlpha (c : UInt8) : Bool := isUpper c || isLower c
def isDigit (c : UInt8) : Bool := 48 ≤ c && c ≤ 57
def isHexDigit (c : UInt8) : Bool := isDigit c || (65 ≤ c && c ≤ 70) || (97 ≤ c && c ≤ 102)

/-- `- . _ ~` (unreserved), `! $ & ' ( ) * + , ; =` (sub-delims), `: @` — the `switch` rows of
    `expectPChars` / `consumePchar` (tied to the sources by the regenerated facts). -/
def pcharPunct : Bytes := [45, 46, 95, 126, 33, 36, 38, 39, 40, 41, 42, 43, 44, 59, 61, 58, 64]

/-- a pchar that is a single byte (everything but a percent-escape) -/
def isPcharByte (c : UInt8) : Bool := isAlpha c || isDigit c || pcharPunct.contains c

/-- first byte of an identifier -/
def isIdentStart (c : UInt8) : Bool := isAlpha c || c == cUnder
def isIdentByte (c : UInt8) : Bool := isAlpha c || isDigit c || c == cUnder

/-- `strings.Index(t, ":")` as a split: `(t[:idx], t[idx+1:])`, `none` when idx = -1. -/
def splitFirst (c : UInt8) : Bytes → Option (Bytes × Bytes)
  | [] => none
  | x :: r =>
    if x == c then some ([], r)
    else match splitFirst c r with
      | some (a, b) => some (x :: a, b)
      | none => none

/-- `strings.LastIndex(t, ":")` as a split: `(t[:idx], t[idx+1:])`, `none` when idx = -1. -/
def splitLast (c : UInt8) : Bytes → Option (Bytes × Bytes)
  | [] => none
  | x :: r =>
    match splitLast c r with
    | some (a, b) => some (x :: a, b)
    | none => if x == c then some ([], r) else none

/-- join with a one-byte separator (`strings.Join`) -/
def joinWith (sep : UInt8) : List Bytes → Bytes
  | [] => []
  | [x] => x
  | x :: y :: r => x ++ sep :: joinWith sep (y :: r)

/-- split on a separator byte: always at least one piece -/
def splitOnByte (sep : UInt8) : Bytes → List Bytes
  | [] => [[]]
  | c :: r =>
    if c == sep then [] :: splitOnByte sep r
    else match splitOnByte sep r with
      | [] => [[c]]
      | x :: xs => (c :: x) :: xs

end GB.C20
