import GB.C20.Proofs
/- C20 — the token list of a printed template: abstract syntax → tokens, tokenizer on printed templates. -/
namespace GB.C20
open GB

set_option linter.unusedSimpArgs false
set_option linter.unusedVariables false

/-- `x₁ sep x₂ sep … xₙ` as a token list -/
def inter (sep : Tok) : List Tok → List Tok
  | [] => []
  | [x] => [x]
  | x :: y :: r => x :: sep :: inter sep (y :: r)

theorem inter_cons (sep : Tok) (x : Tok) (xs : List Tok) :
    inter sep (x :: xs) = x :: xs.flatMap (fun y => [sep, y]) := by
  induction xs generalizing x with
  | nil => simp [inter]
  | cons y ys ih => simp [inter, ih y]

theorem inter_length (sep : Tok) (x : Tok) (xs : List Tok) :
    (inter sep (x :: xs)).length = 2 * xs.length + 1 := by
  induction xs generalizing x with
  | nil => simp [inter]
  | cons y ys ih => simp [inter, ih y]; omega

theorem joinWith_cons (sep : UInt8) (x : Bytes) (xs : List Bytes) :
    joinWith sep (x :: xs) = x ++ xs.flatMap (fun y => sep :: y) := by
  induction xs generalizing x with
  | nil => simp [joinWith]
  | cons y ys ih => simp [joinWith, ih y]

def ISeg.emb : ISeg → PSeg
  | .wild => .wild
  | .deep => .deep
  | .lit l => .lit l

def Seg.emb : Seg → PSeg
  | .wild => .wild
  | .deep => .deep
  | .lit l => .lit l
  | .var p none => .var p [.wild]
  | .var p (some is) => .var p (is.map ISeg.emb)

/-- tokens of one top-level segment -/
def Seg.toks : Seg → List Tok
  | .wild => [[cStar]]
  | .deep => [[cStar, cStar]]
  | .lit l => [l]
  | .var p none => [cLBrace] :: inter [cDot] p ++ [[cRBrace]]
  | .var p (some is) => [cLBrace] :: inter [cDot] p ++ [cEq] :: inter [cSlash] (is.map ISeg.render) ++ [[cRBrace]]

/-- tokens of `s₁/s₂/…/sₙ` -/
def segsToks : List Seg → List Tok
  | [] => []
  | s :: r => s.toks ++ r.flatMap (fun t => [cSlash] :: t.toks)

/-! ### what well-formedness gives about bytes -/

theorem literal_facts {l : Bytes} (h : literalB l = true) :
    l ≠ [] ∧ pcharsB l = true ∧ l ≠ [cStar] ∧ l ≠ [cStar, cStar] := by
  simp [literalB] at h
  exact ⟨h.1.1.1, h.1.1.2, h.1.2, h.2⟩

theorem not_special_seg (c : UInt8) (h : isSpecial c = false) : isDelim .seg c = false := by
  simp [isSpecial] at h
  simp [isDelim, h.1.1.1, h.1.1.2]

theorem not_special_nest (c : UInt8) (h : isSpecial c = false) : isDelim .nest c = false := by
  simp [isSpecial] at h
  simp [isDelim, h.1.1.1, h.1.2]

theorem not_fldspecial_fld (c : UInt8) (h : isFldSpecial c = false) : isDelim .fld c = false := by
  simp [isFldSpecial] at h
  simp [isDelim, h.1.1.1.1.1, h.1.1.1.1.2, h.1.1.1.2]

theorem pchars_nodelim_seg {l : Bytes} (h : pcharsB l = true) : l.all (fun c => !isDelim .seg c) = true := by
  have := pchars_no_special l h
  simp only [List.all_eq_true, Bool.not_eq_true'] at this ⊢
  intro c hc
  exact not_special_seg c (this c hc)

theorem pchars_nodelim_nest {l : Bytes} (h : pcharsB l = true) : l.all (fun c => !isDelim .nest c) = true := by
  have := pchars_no_special l h
  simp only [List.all_eq_true, Bool.not_eq_true'] at this ⊢
  intro c hc
  exact not_special_nest c (this c hc)

theorem ident_nodelim_fld {l : Bytes} (h : identB l = true) : l.all (fun c => !isDelim .fld c) = true := by
  have := ident_no_special l h
  simp only [List.all_eq_true, Bool.not_eq_true'] at this ⊢
  intro c hc
  exact not_fldspecial_fld c (this c hc)

theorem iseg_render_facts {i : ISeg} (h : i.wfB = true) :
    i.render ≠ [] ∧ pcharsB i.render = true := by
  cases i with
  | wild => exact ⟨by simp [ISeg.render], by decide⟩
  | deep => exact ⟨by simp [ISeg.render], by decide⟩
  | lit l =>
    have := literal_facts (by simpa [ISeg.wfB] using h)
    exact ⟨this.1, this.2.1⟩

/-! ### tokenizer on separated texts -/

/-- `x₁ sep x₂ … xₙ d more` in a state where `sep` and `d` are delimiters, `sep` keeps the state, and
    the `xᵢ` are non-empty texts without delimiters -/
theorem tokCore_joined (st : TSt) (sep d : UInt8) (hsep : isDelim st sep = true) (hst : nextSt st sep = st)
    (hd : isDelim st d = true) :
    ∀ (xs : List Bytes) (x : Bytes) (more : Bytes),
      (∀ y ∈ x :: xs, y ≠ [] ∧ y.all (fun c => !isDelim st c) = true) →
      tokCore st [] (joinWith sep (x :: xs) ++ d :: more) =
        inter [sep] (x :: xs) ++ [d] :: tokCore (nextSt st d) [] more := by
  intro xs
  induction xs with
  | nil =>
    intro x more h
    have hx := h x (by simp)
    simp only [joinWith, inter]
    rw [tokCore_text st x [] _ hx.2]
    simp only [List.nil_append]
    rw [tokCore_delim st x d more hd, flush_ne x hx.1]
    try simp
  | cons y ys ih =>
    intro x more h
    have hx := h x (by simp)
    simp only [joinWith, inter]
    rw [List.append_assoc, tokCore_text st x [] _ hx.2]
    simp only [List.nil_append, List.cons_append]
    rw [tokCore_delim st x sep _ hsep, flush_ne x hx.1, hst]
    rw [ih y more (by intro z hz; exact h z (by simp [List.mem_cons] at hz ⊢; right; exact hz))]
    simp

/-- tokenizer on one printed top-level segment that is a variable -/
theorem tokCore_var (p : List Bytes) (inner : Option (List ISeg)) (more : Bytes)
    (hp : p ≠ [] ∧ p.all identB = true)
    (hi : ∀ is, inner = some is → is ≠ [] ∧ is.all ISeg.wfB = true) :
    tokCore .seg [] ((Seg.var p inner).render ++ more) = (Seg.var p inner).toks ++ tokCore .seg [] more := by
  obtain ⟨p1, ps, rfl⟩ : ∃ p1 ps, p = p1 :: ps := by
    cases p with
    | nil => exact absurd rfl hp.1
    | cons a b => exact ⟨a, b, rfl⟩
  have hids : ∀ y ∈ p1 :: ps, y ≠ [] ∧ y.all (fun c => !isDelim .fld c) = true := by
    intro y hy
    have := List.all_eq_true.mp hp.2 y hy
    exact ⟨ident_ne_nil y this, ident_nodelim_fld this⟩
  cases inner with
  | none =>
    simp only [Seg.render, Seg.toks, List.cons_append, List.append_assoc]
    rw [tokCore_delim .seg [] cLBrace _ (by decide), flush_nil]
    simp only [List.nil_append, List.singleton_append]
    have : nextSt .seg cLBrace = .fld := by decide
    rw [this]
    rw [tokCore_joined .fld cDot cRBrace (by decide) (by decide) (by decide) ps p1 more hids]
    have : nextSt .fld cRBrace = .seg := by decide
    rw [this]
    try simp
  | some is =>
    obtain ⟨hne, hwf⟩ := hi is rfl
    obtain ⟨i1, is', rfl⟩ : ∃ i1 is', is = i1 :: is' := by
      cases is with
      | nil => exact absurd rfl hne
      | cons a b => exact ⟨a, b, rfl⟩
    have hins : ∀ y ∈ (i1 :: is').map ISeg.render, y ≠ [] ∧ y.all (fun c => !isDelim .nest c) = true := by
      intro y hy
      obtain ⟨i, hi1, rfl⟩ := List.mem_map.mp hy
      have := iseg_render_facts (List.all_eq_true.mp hwf i hi1)
      exact ⟨this.1, pchars_nodelim_nest this.2⟩
    simp only [Seg.render, Seg.toks, List.cons_append, List.append_assoc]
    rw [tokCore_delim .seg [] cLBrace _ (by decide), flush_nil]
    simp only [List.nil_append, List.singleton_append]
    have : nextSt .seg cLBrace = .fld := by decide
    rw [this]
    rw [tokCore_joined .fld cDot cEq (by decide) (by decide) (by decide) ps p1 _ hids]
    have : nextSt .fld cEq = .nest := by decide
    rw [this]
    simp only [List.map_cons] at hins ⊢
    rw [tokCore_joined .nest cSlash cRBrace (by decide) (by decide) (by decide) _ _ more hins]
    have : nextSt .nest cRBrace = .seg := by decide
    rw [this]
    try simp

/-- the printed form of a top-level segment that is not a variable: one text token -/
def Seg.text : Seg → Option Bytes
  | .wild => some [cStar]
  | .deep => some [cStar, cStar]
  | .lit l => some l
  | .var _ _ => none

theorem seg_text_facts {s : Seg} {x : Bytes} (hw : s.wfB r = true) (h : s.text = some x) :
    s.render = x ∧ s.toks = [x] ∧ x ≠ [] ∧ pcharsB x = true := by
  cases s with
  | wild => simp [Seg.text] at h; subst h; exact ⟨rfl, rfl, by simp, by decide⟩
  | deep => simp [Seg.text] at h; subst h; exact ⟨rfl, rfl, by simp, by decide⟩
  | lit l =>
    simp [Seg.text] at h; subst h
    have := literal_facts (by simpa [Seg.wfB] using hw)
    exact ⟨rfl, rfl, this.1, this.2.1⟩
  | var _ _ => simp [Seg.text] at h

theorem seg_var_facts {p : List Bytes} {inner : Option (List ISeg)} {r : Bool}
    (hw : (Seg.var p inner).wfB r = true) :
    (p ≠ [] ∧ p.all identB = true) ∧ (∀ is, inner = some is → is ≠ [] ∧ is.all ISeg.wfB = true) := by
  simp only [Seg.wfB, Bool.and_eq_true, Bool.not_eq_true', List.isEmpty_eq_false_iff] at hw
  refine ⟨⟨hw.1.1, hw.1.2⟩, ?_⟩
  intro is his
  subst his
  have := hw.2
  simp only [innerWfB, Bool.and_eq_true, Bool.not_eq_true', List.isEmpty_eq_false_iff] at this
  exact ⟨this.1.1, this.1.2⟩

/-- tokenizer on `/s₁/s₂…/sₙ` appended to the accumulated text of the state `seg` being empty -/
theorem tokCore_more (r : Bool) : ∀ (segs : List Seg) (tail : Bytes),
    segs.all (Seg.wfB r) = true →
    tokCore .seg [] (segs.flatMap (fun s => cSlash :: s.render) ++ tail) =
      (match segs.getLast? with
       | none => tokCore .seg [] tail
       | some s =>
         match s.text with
         | some x => (segs.dropLast).flatMap (fun t => [cSlash] :: t.toks) ++ [cSlash] :: tokCore .seg x tail
         | none => segs.flatMap (fun t => [cSlash] :: t.toks) ++ tokCore .seg [] tail) := by
  intro segs
  induction segs with
  | nil => intro tail _; simp
  | cons s segs ih =>
    intro tail hw
    simp only [List.all_cons, Bool.and_eq_true] at hw
    simp only [List.flatMap_cons, List.cons_append, List.append_assoc]
    rw [tokCore_delim .seg [] cSlash _ (by decide), flush_nil]
    have : nextSt .seg cSlash = .seg := by decide
    rw [this]
    simp only [List.nil_append, List.singleton_append]
    cases hs : s.text with
    | some x =>
      obtain ⟨h1, h2, h3, h4⟩ := seg_text_facts hw.1 hs
      rw [h1, tokCore_text .seg x [] _ (pchars_nodelim_seg h4)]
      simp only [List.nil_append]
      cases segs with
      | nil => simp [hs]
      | cons t ts =>
        -- next byte is '/': flush x
        simp only [List.flatMap_cons, List.cons_append]
        rw [tokCore_delim .seg x cSlash _ (by decide), flush_ne x h3, this]
        have ih' := ih tail hw.2
        simp only [List.flatMap_cons, List.cons_append, List.append_assoc] at ih'
        rw [tokCore_delim .seg [] cSlash _ (by decide), flush_nil, this] at ih'
        simp only [List.nil_append, List.singleton_append] at ih'
        simp only [List.singleton_append, List.cons.injEq, true_and] at ih' ⊢
        rw [List.getLast?_cons_cons]
        have hd : (s :: t :: ts).dropLast = s :: (t :: ts).dropLast := by simp [List.dropLast]
        rw [hd]
        cases hl : (t :: ts).getLast? with
        | none => simp at hl
        | some l =>
          rw [hl] at ih'
          simp only at ih' ⊢
          cases hlt : l.text with
          | some y =>
            rw [hlt] at ih'
            simp only at ih' ⊢
            simp only [List.flatMap_cons, h2, List.singleton_append, List.cons_append, List.nil_append, List.cons.injEq, true_and]
            simpa [List.append_assoc] using ih'
          | none =>
            rw [hlt] at ih'
            simp only at ih' ⊢
            simp only [List.flatMap_cons, h2, List.singleton_append, List.cons_append, List.nil_append, List.cons.injEq, true_and]
            simpa [List.append_assoc] using ih'
    | none =>
      cases s with
      | var p inner =>
        obtain ⟨hp, hi⟩ := seg_var_facts hw.1
        rw [tokCore_var p inner _ hp hi]
        have ih' := ih tail hw.2
        rw [ih']
        cases segs with
        | nil => simp [hs]
        | cons t ts =>
          rw [List.getLast?_cons_cons]
          have hd : (Seg.var p inner :: t :: ts).dropLast = Seg.var p inner :: (t :: ts).dropLast := by simp [List.dropLast]
          rw [hd]
          cases hl : (t :: ts).getLast? with
          | none => simp at hl
          | some l =>
            simp only
            cases hlt : l.text with
            | some y => simp
            | none => simp
      | wild => simp [Seg.text] at hs
      | deep => simp [Seg.text] at hs
      | lit l => simp [Seg.text] at hs

end GB.C20
