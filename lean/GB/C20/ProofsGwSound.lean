import GB.C20.ProofsStSoundMain
/- C20 — gwbased parser (exact "/" matching): what a successful parse tells, under the synchronisation invariant. -/
namespace GB.C20
open GB

set_option linter.unusedSimpArgs false
set_option linter.unusedVariables false

theorem gwVariable_reject_of (f : Nat) (t : Tok) (rest : List Tok) (r : PSeg × List Tok)
    (h : gwVariable true f (t :: rest) = .ok r)
    (hno : t = [cLBrace] → ∃ u rest', rest = u :: rest' ∧ u ≠ [] ∧ identB u = false) : False := by
  cases f with
  | zero => simp [gwVariable] at h
  | succ f =>
    simp only [gwVariable, gwAcc_lbrace] at h
    by_cases ht : t = [cLBrace]
    · obtain ⟨u, rest', hr, hu, hi⟩ := hno ht
      subst hr
      simp only [ht, if_true, tryP_ok, gwFieldPath, gwAcc_ident, hi, Bool.false_eq_true, if_false, tryP_reject] at h
      simp at h
    · simp [ht] at h

/-! ### inside a variable pattern (state `nest`) -/

theorem gwSegment_nest (f : Nat) (ts : List Tok) (s : PSeg) (rest : List Tok)
    (hv : ValidE .nest ts) (h : gwSegment true f ts = .ok (s, rest)) :
    ∃ i : ISeg, s = i.emb ∧ i.wfB = true ∧ ts = i.render :: rest ∧ Bdry .nest rest := by
  cases f with
  | zero => simp [gwSegment] at h
  | succ f =>
    rcases validE_cases hv with hts | ⟨d, r, hts, hd, hvr⟩ | ⟨t, rest0, hts, ht, hb⟩
    · subst hts
      obtain ⟨e1, e2, e3, e4, _⟩ := eof_facts
      simp only [gwSegment, gwAcc_star, e1, if_false, tryP_reject, gwAcc_dstar, e2, gwAcc_literal, e3,
        Bool.false_eq_true] at h
      exact (gwVariable_reject_of f _ _ _ h (fun he => absurd he e4)).elim
    · subst hts
      have hd' : d = cSlash ∨ d = cLBrace ∨ d = cRBrace := by
        rcases delim_nest hd with h | h
        · exact .inl h
        · exact .inr (.inr h)
      obtain ⟨e1, e2, e3, _, _⟩ := special_tok_facts d hd'
      simp only [gwSegment, gwAcc_star, e1, if_false, tryP_reject, gwAcc_dstar, e2, gwAcc_literal, e3,
        Bool.false_eq_true] at h
      refine (gwVariable_reject_of f _ _ _ h ?_).elim
      intro he
      simp at he
      rcases delim_nest hd with h' | h' <;> rw [h'] at he <;> exact absurd he (by decide)
    · subst hts
      simp only [gwSegment, gwAcc_star, gwAcc_dstar, gwAcc_literal] at h
      by_cases h1 : t = [cStar]
      · simp only [h1, if_true, tryP_ok, Except.ok.injEq, Prod.mk.injEq] at h
        exact ⟨.wild, h.1.symm, rfl, by rw [h1, ← h.2]; rfl, by rw [← h.2]; exact hb⟩
      · simp only [h1, if_false, tryP_reject] at h
        by_cases h2 : t = [cStar, cStar]
        · simp only [h2, if_true, tryP_ok, Except.ok.injEq, Prod.mk.injEq] at h
          exact ⟨.deep, h.1.symm, rfl, by rw [h2, ← h.2]; rfl, by rw [← h.2]; exact hb⟩
        · simp only [h2, if_false, tryP_reject] at h
          by_cases h3 : pcharsB t = true
          · simp only [h3, if_true, tryP_ok, Except.ok.injEq, Prod.mk.injEq] at h
            refine ⟨.lit t, h.1.symm, ?_, by rw [← h.2]; rfl, by rw [← h.2]; exact hb⟩
            have hne : t.isEmpty = false := by
              cases t with
              | nil => exact absurd rfl (isText_ne_nil ht)
              | cons _ _ => rfl
            simp [ISeg.wfB, literalB, hne, h3, h1, h2]
          · simp only [h3, Bool.false_eq_true, if_false, tryP_reject] at h
            exact (gwVariable_reject_of f _ _ _ h (fun _ => bdry_head_not_ident hb)).elim

theorem gwSegLoop_nest : ∀ (f : Nat) (acc : List PSeg) (ts : List Tok) (segs : List PSeg) (rest : List Tok),
    Bdry .nest ts → gwSegLoop true f acc ts = .ok (segs, rest) →
    ∃ is : List ISeg, segs = acc ++ is.map ISeg.emb ∧ is.all ISeg.wfB = true ∧
      ts = is.flatMap (fun i => [[cSlash], i.render]) ++ rest ∧ Bdry .nest rest := by
  intro f
  induction f with
  | zero => intro acc ts segs rest _ h; simp [gwSegLoop] at h
  | succ f ih =>
    intro acc ts segs rest hb h
    simp only [gwSegLoop] at h
    rcases hb with hb | ⟨d, r, hb, hd, hvr⟩
    · subst hb
      simp only [gwAcc_slash, eof_facts.2.2.2.2.2.2.1, if_false, tryP_reject, Except.ok.injEq, Prod.mk.injEq] at h
      exact ⟨[], by simp [h.1], by simp, by simp [h.2], by rw [← h.2]; exact .inl rfl⟩
    · subst hb
      simp only [gwAcc_slash] at h
      by_cases hds : ([d] : Tok) = [cSlash]
      · have hd' : d = cSlash := by simpa using hds
        subst hd'
        simp only [if_true, tryP_ok] at h
        have hn : nextSt .nest cSlash = .nest := by decide
        rw [hn] at hvr
        cases hs : gwSegment true f r with
        | error e => cases e <;> simp [hs, tryP] at h
        | ok pr =>
          obtain ⟨s, ts'⟩ := pr
          simp only [hs, tryP_ok] at h
          obtain ⟨i, i1, i2, i3, i4⟩ := gwSegment_nest f r s ts' hvr hs
          obtain ⟨is, j1, j2, j3, j4⟩ := ih (acc ++ [s]) ts' segs rest i4 h
          refine ⟨i :: is, by rw [j1, i1]; simp, by simp [i2, j2], ?_, j4⟩
          rw [i3, j3]; simp
      · simp only [hds, if_false, tryP_reject, Except.ok.injEq, Prod.mk.injEq] at h
        exact ⟨[], by simp [h.1], by simp, by simp [h.2], by rw [← h.2]; exact .inr ⟨d, r, rfl, hd, hvr⟩⟩

theorem gwSegments_nest (f : Nat) (ts : List Tok) (segs : List PSeg) (rest : List Tok)
    (hv : ValidE .nest ts) (h : gwSegments true f ts = .ok (segs, rest)) :
    ∃ is : List ISeg, is ≠ [] ∧ segs = is.map ISeg.emb ∧ is.all ISeg.wfB = true ∧
      ts = inter [cSlash] (is.map ISeg.render) ++ rest ∧ Bdry .nest rest := by
  cases f with
  | zero => simp [gwSegments] at h
  | succ f =>
    simp only [gwSegments] at h
    cases hs : gwSegment true f ts with
    | error e => cases e <;> simp [hs, tryP] at h
    | ok pr =>
      obtain ⟨s, ts'⟩ := pr
      simp only [hs, tryP_ok] at h
      obtain ⟨i, i1, i2, i3, i4⟩ := gwSegment_nest f ts s ts' hv hs
      obtain ⟨is, j1, j2, j3, j4⟩ := gwSegLoop_nest f [s] ts' segs rest i4 h
      refine ⟨i :: is, by simp, by rw [j1, i1]; simp, by simp [i2, j2], ?_, j4⟩
      rw [i3, j3]; simp [inter_cons, List.flatMap_map]

/-! ### field path (state `fld`) -/

theorem gwFieldLoop_fld : ∀ (n : Nat) (ts : List Tok), ts.length ≤ n → ∀ (comps : List Bytes) (r : List Bytes) (rest : List Tok),
    Bdry .fld ts → gwFieldLoop true comps ts = .ok (r, rest) →
    ∃ ps : List Bytes, r = comps ++ ps ∧ ps.all identB = true ∧
      ts = ps.flatMap (fun y => [[cDot], y]) ++ rest ∧ Bdry .fld rest ∧ (∀ r', rest ≠ [cDot] :: r') := by
  intro n
  induction n with
  | zero =>
    intro ts hl comps r rest hb h
    have : ts = [] := by cases ts with
      | nil => rfl
      | cons _ _ => simp at hl
    subst this
    simp [gwFieldLoop] at h
  | succ n ih =>
    intro ts hl comps r rest hb h
    rcases hb with hb | ⟨d, r0, hb, hd, hvr⟩
    · subst hb
      unfold gwFieldLoop at h
      simp only [gwAcc_dot, eof_facts.2.2.2.2.2.2.2.1, if_false, Except.ok.injEq, Prod.mk.injEq] at h
      refine ⟨[], by simp [h.1], by simp, by simp [h.2], by rw [← h.2]; exact .inl rfl, ?_⟩
      intro r' he; rw [← h.2] at he; simp at he; exact eof_facts.2.2.2.2.2.2.2.1 he.1
    · subst hb
      unfold gwFieldLoop at h
      simp only [gwAcc_dot] at h
      by_cases hdd : ([d] : Tok) = [cDot]
      · have hd' : d = cDot := by simpa using hdd
        subst hd'
        simp only [if_true] at h
        have hn : nextSt .fld cDot = .fld := by decide
        rw [hn] at hvr
        rcases validE_cases hvr with hts | ⟨d2, r2, hts, hd2, _⟩ | ⟨t, rest0, hts, ht, hb0⟩
        · subst hts
          have : gwExpectIdent eofTok = false := by decide
          simp [this] at h
        · subst hts
          have : gwExpectIdent [d2] = false := by
            rw [gwExpectIdent_eq]; exact (delim_not_ident .fld d2 hd2).1
          simp [this] at h
        · subst hts
          simp only at h
          by_cases hi : gwExpectIdent t = true
          · simp only [hi, if_true] at h
            obtain ⟨ps, h1, h2, h3, h4, h5⟩ := ih rest0 (by simp at hl; omega) (comps ++ [t]) r rest hb0 h
            refine ⟨t :: ps, by rw [h1]; simp, ?_, by rw [h3]; simp, h4, h5⟩
            simp only [List.all_cons, Bool.and_eq_true]
            exact ⟨by rw [← gwExpectIdent_eq]; exact hi, h2⟩
          · simp [hi] at h
      · simp only [hdd, if_false, Except.ok.injEq, Prod.mk.injEq] at h
        refine ⟨[], by simp [h.1], by simp, by simp [h.2], by rw [← h.2]; exact .inr ⟨d, r0, rfl, hd, hvr⟩, ?_⟩
        intro r' he; rw [← h.2] at he; simp at he; exact hdd (by simp [he.1])

theorem gwFieldPath_fld (ts : List Tok) (path : List Bytes) (rest : List Tok)
    (hv : ValidE .fld ts) (h : gwFieldPath true ts = .ok (path, rest)) :
    path ≠ [] ∧ path.all identB = true ∧ ts = inter [cDot] path ++ rest ∧ Bdry .fld rest ∧ (∀ r', rest ≠ [cDot] :: r') := by
  unfold gwFieldPath at h
  rcases validE_cases hv with hts | ⟨d, r, hts, hd, _⟩ | ⟨t, rest0, hts, ht, hb⟩
  · subst hts
    simp [gwAcc_ident, eof_facts.2.2.2.2.1] at h
  · subst hts
    obtain ⟨h1, _, h3⟩ := delim_not_ident .fld d hd
    simp [gwAcc_ident, h1] at h
  · subst hts
    simp only [gwAcc_ident] at h
    by_cases hi : identB t = true
    · simp only [hi, if_true, tryP_ok] at h
      obtain ⟨ps, h1, h2, h3, h4, h5⟩ := gwFieldLoop_fld rest0.length rest0 (Nat.le_refl _) [t] path rest hb h
      refine ⟨by rw [h1]; simp, ?_, ?_, h4, h5⟩
      · rw [h1]; simp only [List.singleton_append, List.all_cons, Bool.and_eq_true]; exact ⟨hi, h2⟩
      · rw [h1, h3]; simp [inter_cons]
    · simp [hi] at h

/-! ### one variable, one segment, the segment list at top level (state `seg`) -/

theorem gwVariable_seg (f : Nat) (ts : List Tok) (s : PSeg) (rest : List Tok)
    (hv : ValidE .seg ts) (h : gwVariable true f ts = .ok (s, rest)) :
    ∃ (p : List Bytes) (inner : Option (List ISeg)), s = (Seg.var p inner).emb ∧ (Seg.var p inner).wfB true = true ∧
      ts = (Seg.var p inner).toks ++ rest ∧ ValidE .seg rest := by
  cases f with
  | zero => simp [gwVariable] at h
  | succ f =>
    rcases validE_cases hv with hts | ⟨d, r, hts, hd, hvr⟩ | ⟨t, rest0, hts, ht, hb⟩
    · subst hts
      simp [gwVariable, gwAcc_lbrace, eof_facts.2.2.2.1] at h
    · subst hts
      simp only [gwVariable, gwAcc_lbrace] at h
      by_cases hdl : ([d] : Tok) = [cLBrace]
      · have hd' : d = cLBrace := by simpa using hdl
        subst hd'
        simp only [if_true, tryP_ok] at h
        have hn : nextSt .seg cLBrace = .fld := by decide
        rw [hn] at hvr
        cases hfp : gwFieldPath true r with
        | error e => cases e <;> simp [hfp, tryP] at h
        | ok pr =>
          obtain ⟨path, ts1⟩ := pr
          simp only [hfp, tryP_ok] at h
          obtain ⟨hp1, hp2, hp3, hp4, hp5⟩ := gwFieldPath_fld r path ts1 hvr hfp
          have hpne : path.isEmpty = false := by
            cases path with
            | nil => exact absurd rfl hp1
            | cons _ _ => rfl
          rcases hp4 with hb1 | ⟨d1, r1, hb1, hd1, hvr1⟩
          · subst hb1
            simp [gwAcc_eq, eof_facts.2.2.2.2.2.2.2.2.1, gwAcc_rbrace, eof_facts.2.2.2.2.2.2.2.2.2] at h
          · subst hb1
            simp only [gwAcc_eq] at h
            by_cases hde : ([d1] : Tok) = [cEq]
            · have hd1' : d1 = cEq := by simpa using hde
              subst hd1'
              simp only [if_true, tryP_ok] at h
              have hn2 : nextSt .fld cEq = .nest := by decide
              rw [hn2] at hvr1
              cases hss : gwSegments true f r1 with
              | error e => cases e <;> simp [hss, tryP] at h
              | ok pr2 =>
                obtain ⟨segs, ts2⟩ := pr2
                simp only [hss, tryP_ok] at h
                obtain ⟨is, i1, i2, i3, i6, i7⟩ := gwSegments_nest f r1 segs ts2 hvr1 hss
                rcases i7 with hb2 | ⟨d2, r2, hb2, hd2, hvr2⟩
                · subst hb2
                  simp [gwAcc_rbrace, eof_facts.2.2.2.2.2.2.2.2.2] at h
                · subst hb2
                  simp only [gwAcc_rbrace] at h
                  by_cases hdr : ([d2] : Tok) = [cRBrace]
                  · have hd2' : d2 = cRBrace := by simpa using hdr
                    subst hd2'
                    simp only [if_true, tryP_ok, Except.ok.injEq, Prod.mk.injEq] at h
                    have hn3 : nextSt .nest cRBrace = .seg := by decide
                    rw [hn3] at hvr2
                    have hine : is.isEmpty = false := by
                      cases is with
                      | nil => exact absurd rfl i1
                      | cons _ _ => rfl
                    refine ⟨path, some is, ?_, ?_, ?_, by rw [← h.2]; exact hvr2⟩
                    · rw [← h.1, i2]; simp [Seg.emb]
                    · simp [Seg.wfB, innerWfB, hpne, hp2, hine, i3]
                    · rw [hp3, i6, ← h.2]; simp [Seg.toks]
                  · simp [hdr] at h
            · simp only [hde, if_false, tryP_reject, gwAcc_rbrace] at h
              by_cases hdr : ([d1] : Tok) = [cRBrace]
              · have hd1' : d1 = cRBrace := by simpa using hdr
                subst hd1'
                simp only [if_true, tryP_ok, Except.ok.injEq, Prod.mk.injEq] at h
                have hn3 : nextSt .fld cRBrace = .seg := by decide
                rw [hn3] at hvr1
                refine ⟨path, none, ?_, ?_, ?_, by rw [← h.2]; exact hvr1⟩
                · rw [← h.1]; simp [Seg.emb]
                · simp [Seg.wfB, hpne, hp2]
                · rw [hp3, ← h.2]; simp [Seg.toks]
              · simp [hdr] at h
      · simp [hdl] at h
    · subst hts
      have : t ≠ [cLBrace] := isText_ne_delim ht cLBrace (by decide)
      simp [gwVariable, gwAcc_lbrace, this] at h

theorem gwSegment_top (f : Nat) (ts : List Tok) (s : PSeg) (rest : List Tok)
    (hv : ValidE .seg ts) (h : gwSegment true f ts = .ok (s, rest)) :
    ∃ sg : Seg, s = sg.emb ∧ sg.wfB true = true ∧ ts = sg.toks ++ rest ∧ ValidE .seg rest := by
  cases f with
  | zero => simp [gwSegment] at h
  | succ f =>
    have hvar : ∀ r, gwVariable true f ts = .ok r → r = (s, rest) →
        ∃ sg : Seg, s = sg.emb ∧ sg.wfB true = true ∧ ts = sg.toks ++ rest ∧ ValidE .seg rest := by
      intro r hr he
      subst he
      obtain ⟨p, inner, h1, h2, h4, h5⟩ := gwVariable_seg f ts s rest hv hr
      exact ⟨.var p inner, h1, h2, h4, h5⟩
    rcases validE_cases hv with hts | ⟨d, r, hts, hd, hvr⟩ | ⟨t, rest0, hts, ht, hb⟩
    · subst hts
      obtain ⟨e1, e2, e3, e4, _⟩ := eof_facts
      simp only [gwSegment, gwAcc_star, e1, if_false, tryP_reject, gwAcc_dstar, e2, gwAcc_literal, e3,
        Bool.false_eq_true] at h
      exact hvar _ h rfl
    · subst hts
      have hd' : d = cSlash ∨ d = cLBrace ∨ d = cRBrace := by
        rcases delim_seg hd with h | h
        · exact .inl h
        · exact .inr (.inl h)
      obtain ⟨e1, e2, e3, _, _⟩ := special_tok_facts d hd'
      simp only [gwSegment, gwAcc_star, e1, if_false, tryP_reject, gwAcc_dstar, e2, gwAcc_literal, e3,
        Bool.false_eq_true] at h
      exact hvar _ h rfl
    · subst hts
      simp only [gwSegment, gwAcc_star, gwAcc_dstar, gwAcc_literal] at h
      by_cases h1 : t = [cStar]
      · simp only [h1, if_true, tryP_ok, Except.ok.injEq, Prod.mk.injEq] at h
        exact ⟨.wild, h.1.symm, rfl, by rw [h1, ← h.2]; rfl, by rw [← h.2]; exact hb.valid⟩
      · simp only [h1, if_false, tryP_reject] at h
        by_cases h2 : t = [cStar, cStar]
        · simp only [h2, if_true, tryP_ok, Except.ok.injEq, Prod.mk.injEq] at h
          exact ⟨.deep, h.1.symm, rfl, by rw [h2, ← h.2]; rfl, by rw [← h.2]; exact hb.valid⟩
        · simp only [h2, if_false, tryP_reject] at h
          by_cases h3 : pcharsB t = true
          · simp only [h3, if_true, tryP_ok, Except.ok.injEq, Prod.mk.injEq] at h
            have hne : t.isEmpty = false := by
              cases t with
              | nil => exact absurd rfl (isText_ne_nil ht)
              | cons _ _ => rfl
            exact ⟨.lit t, h.1.symm, by simp [Seg.wfB, literalB, hne, h3, h1, h2], by rw [← h.2]; rfl,
              by rw [← h.2]; exact hb.valid⟩
          · simp only [h3, Bool.false_eq_true, if_false, tryP_reject] at h
            exact hvar _ h rfl

theorem gwSegLoop_top_sound : ∀ (f : Nat) (acc : List PSeg) (ts : List Tok) (segs : List PSeg) (rest : List Tok),
    ValidE .seg ts → gwSegLoop true f acc ts = .ok (segs, rest) →
    ∃ sgs : List Seg, segs = acc ++ sgs.map Seg.emb ∧ sgs.all (Seg.wfB true) = true ∧
      ts = sgs.flatMap (fun s => [cSlash] :: s.toks) ++ rest ∧ ValidE .seg rest := by
  intro f
  induction f with
  | zero => intro acc ts segs rest _ h; simp [gwSegLoop] at h
  | succ f ih =>
    intro acc ts segs rest hv h
    simp only [gwSegLoop] at h
    have stop : segs = acc → rest = ts →
        ∃ sgs : List Seg, segs = acc ++ sgs.map Seg.emb ∧ sgs.all (Seg.wfB true) = true ∧
          ts = sgs.flatMap (fun s => [cSlash] :: s.toks) ++ rest ∧ ValidE .seg rest := by
      intro e1 e2
      exact ⟨[], by simp [e1], by simp, by simp [e2], by rw [e2]; exact hv⟩
    rcases validE_cases hv with hts | ⟨d, r, hts, hd, hvr⟩ | ⟨t, rest0, hts, ht, hb⟩
    · subst hts
      simp only [gwAcc_slash, eof_facts.2.2.2.2.2.2.1, if_false, tryP_reject, Except.ok.injEq, Prod.mk.injEq] at h
      exact stop h.1.symm h.2.symm
    · subst hts
      simp only [gwAcc_slash] at h
      by_cases hds : ([d] : Tok) = [cSlash]
      · have hd' : d = cSlash := by simpa using hds
        subst hd'
        simp only [if_true, tryP_ok] at h
        have hn : nextSt .seg cSlash = .seg := by decide
        rw [hn] at hvr
        cases hs : gwSegment true f r with
        | error e => cases e <;> simp [hs, tryP] at h
        | ok pr =>
          obtain ⟨s, ts'⟩ := pr
          simp only [hs, tryP_ok] at h
          obtain ⟨sg, g1, g2, g4, g5⟩ := gwSegment_top f r s ts' hvr hs
          obtain ⟨sgs, j1, j2, j3, j4⟩ := ih (acc ++ [s]) ts' segs rest g5 h
          refine ⟨sg :: sgs, by rw [j1, g1]; simp, by simp [g2, j2], ?_, j4⟩
          rw [g4, j3]; simp
      · simp only [hds, if_false, tryP_reject, Except.ok.injEq, Prod.mk.injEq] at h
        exact stop h.1.symm h.2.symm
    · subst hts
      have : t ≠ [cSlash] := isText_ne_delim ht cSlash (by decide)
      simp only [gwAcc_slash, this, if_false, tryP_reject, Except.ok.injEq, Prod.mk.injEq] at h
      exact stop h.1.symm h.2.symm

theorem gwSegments_top_sound (f : Nat) (ts : List Tok) (segs : List PSeg) (rest : List Tok)
    (hv : ValidE .seg ts) (h : gwSegments true f ts = .ok (segs, rest)) :
    ∃ sgs : List Seg, sgs ≠ [] ∧ segs = sgs.map Seg.emb ∧ sgs.all (Seg.wfB true) = true ∧
      ts = segsToks sgs ++ rest ∧ ValidE .seg rest := by
  cases f with
  | zero => simp [gwSegments] at h
  | succ f =>
    simp only [gwSegments] at h
    cases hs : gwSegment true f ts with
    | error e => cases e <;> simp [hs, tryP] at h
    | ok pr =>
      obtain ⟨s, ts'⟩ := pr
      simp only [hs, tryP_ok] at h
      obtain ⟨sg, g1, g2, g4, g5⟩ := gwSegment_top f ts s ts' hv hs
      obtain ⟨sgs, j1, j2, j3, j4⟩ := gwSegLoop_top_sound f [s] ts' segs rest g5 h
      refine ⟨sg :: sgs, by simp, by rw [j1, g1]; simp, by simp [g2, j2], ?_, j4⟩
      rw [g4, j3]; simp [segsToks]

end GB.C20
