import GB.C20.ProofsTok
/- C20 — gwbased parser: completeness on the token lists of well-formed templates. -/
namespace GB.C20
open GB

set_option linter.unusedSimpArgs false
set_option linter.unusedVariables false

@[simp] theorem tryP_ok {α β : Type} (a : α) (ts : List Tok) (f : α → List Tok → PR β) (g : Unit → PR β) :
    tryP (.ok (a, ts)) f g = f a ts := rfl
@[simp] theorem tryP_reject {α β : Type} (f : α → List Tok → PR β) (g : Unit → PR β) :
    tryP (.error .reject) f g = g () := rfl

/-! ### `accept` on a known head token -/

theorem gwAcc_star (t : Tok) (r : List Tok) :
    gwAccept true .star (t :: r) = if t = [cStar] then .ok (t, r) else .error .reject := by
  by_cases h : t = [cStar] <;> simp [gwAccept, Term.punct, h]
theorem gwAcc_dstar (t : Tok) (r : List Tok) :
    gwAccept true .dstar (t :: r) = if t = [cStar, cStar] then .ok (t, r) else .error .reject := by
  by_cases h : t = [cStar, cStar] <;> simp [gwAccept, Term.punct, h]
theorem gwAcc_slash (t : Tok) (r : List Tok) :
    gwAccept true .slash (t :: r) = if t = [cSlash] then .ok (t, r) else .error .reject := by
  by_cases h : t = [cSlash] <;> simp [gwAccept, Term.punct, h]
theorem gwAcc_dot (t : Tok) (r : List Tok) :
    gwAccept true .dot (t :: r) = if t = [cDot] then .ok (t, r) else .error .reject := by
  by_cases h : t = [cDot] <;> simp [gwAccept, Term.punct, h]
theorem gwAcc_eq (t : Tok) (r : List Tok) :
    gwAccept true .eq (t :: r) = if t = [cEq] then .ok (t, r) else .error .reject := by
  by_cases h : t = [cEq] <;> simp [gwAccept, Term.punct, h]
theorem gwAcc_lbrace (t : Tok) (r : List Tok) :
    gwAccept true .lbrace (t :: r) = if t = [cLBrace] then .ok (t, r) else .error .reject := by
  by_cases h : t = [cLBrace] <;> simp [gwAccept, Term.punct, h]
theorem gwAcc_rbrace (t : Tok) (r : List Tok) :
    gwAccept true .rbrace (t :: r) = if t = [cRBrace] then .ok (t, r) else .error .reject := by
  by_cases h : t = [cRBrace] <;> simp [gwAccept, Term.punct, h]
theorem gwAcc_literal (t : Tok) (r : List Tok) :
    gwAccept true .literal (t :: r) = if pcharsB t = true then .ok (t, r) else .error .reject := by
  simp [gwAccept, gwExpectPChars_eq]
theorem gwAcc_ident (t : Tok) (r : List Tok) :
    gwAccept true .ident (t :: r) = if identB t = true then .ok (t, r) else .error .reject := by
  simp [gwAccept, gwExpectIdent_eq]
theorem gwAcc_eof (t : Tok) (r : List Tok) :
    gwAccept true .eof (t :: r) = if t = eofTok then .ok (t, r) else .error .reject := by
  by_cases h : t = eofTok <;> simp [gwAccept, h]

/-! ### field path -/

theorem gwFieldLoop_complete : ∀ (ps comps : List Bytes) (t : Tok) (rest : List Tok),
    ps.all identB = true → t ≠ [cDot] →
    gwFieldLoop true comps (ps.flatMap (fun y => [[cDot], y]) ++ t :: rest) = .ok (comps ++ ps, t :: rest) := by
  intro ps
  induction ps with
  | nil =>
    intro comps t rest _ ht
    unfold gwFieldLoop
    simp [gwAcc_dot, ht]
  | cons p ps ih =>
    intro comps t rest h ht
    simp only [List.all_cons, Bool.and_eq_true] at h
    simp only [List.flatMap_cons, List.cons_append, List.nil_append]
    unfold gwFieldLoop
    simp only [gwAcc_dot, if_true, gwExpectIdent_eq, h.1]
    rw [ih (comps ++ [p]) t rest h.2 ht]
    simp

theorem gwFieldPath_complete (p : Bytes) (ps : List Bytes) (t : Tok) (rest : List Tok)
    (h : (p :: ps).all identB = true) (ht : t ≠ [cDot]) :
    gwFieldPath true (inter [cDot] (p :: ps) ++ t :: rest) = .ok (p :: ps, t :: rest) := by
  simp only [List.all_cons, Bool.and_eq_true] at h
  rw [inter_cons]
  simp only [gwFieldPath, List.cons_append, gwAcc_ident, h.1, if_true, tryP_ok]
  rw [gwFieldLoop_complete ps [p] t rest h.2 ht]
  simp

/-! ### segments inside a variable -/

theorem gwSegment_iseg (i : ISeg) (h : i.wfB = true) (f0 : Nat) (hf0 : 1 ≤ f0) (rest : List Tok) :
    gwSegment true f0 (i.render :: rest) = .ok (i.emb, rest) := by
  obtain ⟨f, rfl⟩ : ∃ f, f0 = f + 1 := ⟨f0 - 1, by omega⟩
  cases i with
  | wild => simp [gwSegment, ISeg.render, ISeg.emb, gwAcc_star]
  | deep =>
    have : ([cStar, cStar] : Tok) ≠ [cStar] := by decide
    simp [gwSegment, ISeg.render, ISeg.emb, gwAcc_star, gwAcc_dstar, this]
  | lit l =>
    obtain ⟨h1, h2, h3, h4⟩ := literal_facts (by simpa [ISeg.wfB] using h)
    simp [gwSegment, ISeg.render, ISeg.emb, gwAcc_star, gwAcc_dstar, gwAcc_literal, h2, h3, h4]

theorem gwSegLoop_inner : ∀ (is : List ISeg) (acc : List PSeg) (f : Nat) (t : Tok) (rest : List Tok),
    is.all ISeg.wfB = true → t ≠ [cSlash] → is.length + 1 ≤ f →
    gwSegLoop true f acc (is.flatMap (fun i => [[cSlash], i.render]) ++ t :: rest) =
      .ok (acc ++ is.map ISeg.emb, t :: rest) := by
  intro is
  induction is with
  | nil =>
    intro acc f t rest _ ht hf
    obtain ⟨f', rfl⟩ : ∃ f', f = f' + 1 := ⟨f - 1, by omega⟩
    simp [gwSegLoop, gwAcc_slash, ht]
  | cons i is ih =>
    intro acc f t rest h ht hf
    simp only [List.all_cons, Bool.and_eq_true] at h
    obtain ⟨f', rfl⟩ : ∃ f', f = f' + 1 := ⟨f - 1, by simp at hf; omega⟩
    simp only [List.flatMap_cons, List.cons_append, List.nil_append, gwSegLoop, gwAcc_slash, if_true, tryP_ok]
    rw [gwSegment_iseg i h.1 f' (by simp at hf; omega)]
    simp only [tryP_ok]
    rw [ih (acc ++ [i.emb]) f' t rest h.2 ht (by simp at hf; omega)]
    simp

theorem gwSegments_inner (i : ISeg) (is : List ISeg) (f : Nat) (t : Tok) (rest : List Tok)
    (h : (i :: is).all ISeg.wfB = true) (ht : t ≠ [cSlash]) (hf : is.length + 3 ≤ f) :
    gwSegments true f (inter [cSlash] ((i :: is).map ISeg.render) ++ t :: rest) =
      .ok ((i :: is).map ISeg.emb, t :: rest) := by
  simp only [List.all_cons, Bool.and_eq_true] at h
  obtain ⟨f', rfl⟩ : ∃ f', f = f' + 1 := ⟨f - 1, by omega⟩
  simp only [List.map_cons, inter_cons, List.cons_append, gwSegments]
  rw [gwSegment_iseg i h.1 f' (by omega)]
  simp only [tryP_ok, List.flatMap_map]
  rw [gwSegLoop_inner is [i.emb] f' t rest h.2 ht (by omega)]
  simp

/-! ### one top-level segment -/

theorem gwSegment_seg (r : Bool) (s : Seg) (h : s.wfB r = true) (f : Nat) (rest : List Tok)
    (hf : s.toks.length + 2 ≤ f) :
    gwSegment true f (s.toks ++ rest) = .ok (s.emb, rest) := by
  obtain ⟨f', rfl⟩ : ∃ f', f = f' + 1 := ⟨f - 1, by omega⟩
  cases s with
  | wild => simp [gwSegment, Seg.toks, Seg.emb, gwAcc_star]
  | deep =>
    have : ([cStar, cStar] : Tok) ≠ [cStar] := by decide
    simp [gwSegment, Seg.toks, Seg.emb, gwAcc_star, gwAcc_dstar, this]
  | lit l =>
    obtain ⟨h1, h2, h3, h4⟩ := literal_facts (by simpa [Seg.wfB] using h)
    simp [gwSegment, Seg.toks, Seg.emb, gwAcc_star, gwAcc_dstar, gwAcc_literal, h2, h3, h4]
  | var p inner =>
    obtain ⟨⟨hp1, hp2⟩, hi⟩ := seg_var_facts h
    obtain ⟨p1, ps, rfl⟩ : ∃ p1 ps, p = p1 :: ps := by
      cases p with
      | nil => exact absurd rfl hp1
      | cons a b => exact ⟨a, b, rfl⟩
    have hb1 : ([cLBrace] : Tok) ≠ [cStar] := by decide
    have hb2 : ([cLBrace] : Tok) ≠ [cStar, cStar] := by decide
    have hb3 : pcharsB [cLBrace] = false := by decide
    have hr1 : ([cRBrace] : Tok) ≠ [cDot] := by decide
    have hr2 : ([cRBrace] : Tok) ≠ [cEq] := by decide
    have hr3 : ([cRBrace] : Tok) ≠ [cSlash] := by decide
    have he1 : ([cEq] : Tok) ≠ [cDot] := by decide
    obtain ⟨f'', rfl⟩ : ∃ f'', f' = f'' + 1 := ⟨f' - 1, by simp [Seg.toks] at hf; omega⟩
    cases inner with
    | none =>
      simp only [Seg.toks, List.cons_append, List.append_assoc, gwSegment, gwAcc_star, hb1, if_false, tryP_reject,
        gwAcc_dstar, hb2, gwAcc_literal, hb3, Bool.false_eq_true, gwVariable, gwAcc_lbrace, if_true, tryP_ok, List.nil_append]
      rw [gwFieldPath_complete p1 ps [cRBrace] rest hp2 hr1]
      simp [gwAcc_eq, hr2, gwAcc_rbrace, Seg.emb]
    | some is =>
      obtain ⟨hne, hwf⟩ := hi is rfl
      obtain ⟨i1, is', rfl⟩ : ∃ i1 is', is = i1 :: is' := by
        cases is with
        | nil => exact absurd rfl hne
        | cons a b => exact ⟨a, b, rfl⟩
      simp only [Seg.toks, List.cons_append, List.append_assoc, gwSegment, gwAcc_star, hb1, if_false, tryP_reject,
        gwAcc_dstar, hb2, gwAcc_literal, hb3, Bool.false_eq_true, gwVariable, gwAcc_lbrace, if_true, tryP_ok, List.nil_append]
      rw [gwFieldPath_complete p1 ps [cEq] _ hp2 he1]
      simp only [tryP_ok, gwAcc_eq, if_true]
      have hlen : is'.length + 3 ≤ f'' := by
        simp [Seg.toks, inter_length] at hf
        omega
      have := gwSegments_inner i1 is' f'' [cRBrace] rest hwf hr3 hlen
      rw [this]
      simp [gwAcc_rbrace, Seg.emb]

/-! ### the top-level segment list -/

theorem gwSegLoop_top (r : Bool) : ∀ (segs : List Seg) (acc : List PSeg) (f : Nat) (t : Tok) (rest : List Tok),
    segs.all (Seg.wfB r) = true → t ≠ [cSlash] →
    (segs.flatMap (fun s => [cSlash] :: s.toks)).length + 3 ≤ f →
    gwSegLoop true f acc (segs.flatMap (fun s => [cSlash] :: s.toks) ++ t :: rest) =
      .ok (acc ++ segs.map Seg.emb, t :: rest) := by
  intro segs
  induction segs with
  | nil =>
    intro acc f t rest _ ht hf
    obtain ⟨f', rfl⟩ : ∃ f', f = f' + 1 := ⟨f - 1, by omega⟩
    simp [gwSegLoop, gwAcc_slash, ht]
  | cons s segs ih =>
    intro acc f t rest h ht hf
    simp only [List.all_cons, Bool.and_eq_true] at h
    obtain ⟨f', rfl⟩ : ∃ f', f = f' + 1 := ⟨f - 1, by omega⟩
    simp only [List.flatMap_cons, List.cons_append, List.append_assoc, gwSegLoop, gwAcc_slash, if_true, tryP_ok]
    simp only [List.flatMap_cons, List.length_append, List.length_cons] at hf
    rw [gwSegment_seg r s h.1 f' _ (by omega)]
    simp only [tryP_ok]
    rw [ih (acc ++ [s.emb]) f' t rest h.2 ht (by omega)]
    simp

theorem gwSegments_top (r : Bool) (s : Seg) (segs : List Seg) (f : Nat) (t : Tok) (rest : List Tok)
    (h : (s :: segs).all (Seg.wfB r) = true) (ht : t ≠ [cSlash])
    (hf : (segsToks (s :: segs)).length + 4 ≤ f) :
    gwSegments true f (segsToks (s :: segs) ++ t :: rest) = .ok ((s :: segs).map Seg.emb, t :: rest) := by
  simp only [List.all_cons, Bool.and_eq_true] at h
  obtain ⟨f', rfl⟩ : ∃ f', f = f' + 1 := ⟨f - 1, by omega⟩
  simp only [segsToks, List.length_append] at hf
  simp only [segsToks, List.append_assoc, gwSegments]
  rw [gwSegment_seg r s h.1 f' _ (by omega)]
  simp only [tryP_ok]
  rw [gwSegLoop_top r segs [s.emb] f' t rest h.2 ht (by omega)]
  simp

end GB.C20
